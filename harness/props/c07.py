"""C07 — score-ranked distance suppression keeps a separated, dominating set (DESIGN.md section 4, C07).

Two entry points of cryoCAT are checked against one Lean model of the greedy rule:
  * Motl.clean_by_distance            (cryocat/cryomotl.py, geom.point_pairwise_dist)
  * tmana.scores_extract_particles    (cryocat/tmana.py, ioutils.rot_angles_load)
All numbers travel as integers: every value lies on a dyadic grid and is sent multiplied by the grid's power of two
(positions, radius, scores and group values by 2**10; map scores / angles by the scale stored in the case), so the
numpy float computation is exact and equals the model's integer computation.

Kinds of findings: `spec` only when a clause of the statement fails on the REAL output as decided by a Lean verified checker
(checkClean / checkCleanLe / checkPeaks) or by a direct evaluation that uses neither the implementation's own sub-results nor
the model (returned row is not an input row, numeric field returned as text, caller-owned input modified, None although voxels
exceed the threshold, exception raised inside cryocat on an input of the quantifier).  Every comparison with the model is `corr`.
"""
import os, io, ast, copy, math, hashlib, tempfile, contextlib, traceback
import numpy as np
import core

PROP = "C07"
COUNT = {"quick": 240, "thorough": 4400, "search": 1500}
PARALLEL = True
S = 1024  # grid 2**-10 for particle lists
COLS = ["score", "geom1", "geom2", "subtomo_id", "tomo_id", "object_id", "subtomo_mean", "x", "y", "z",
        "shift_x", "shift_y", "shift_z", "geom3", "geom4", "geom5", "phi", "psi", "theta", "class"]
CI = {c: i for i, c in enumerate(COLS)}
FEATURES = ["tomo_id", "object_id", "class", "subtomo_mean", "geom1", "geom2", "geom3", "geom4", "geom5"]
RULE = ("85% particle lists: 1..400 particles (quick mostly <= 80) on the 2^-10 grid laid out as clusters / chains with spacing just "
        "above and below d / uniform boxes / exact duplicates / copies of one arrangement in several groups, positions split at random "
        "into x + shift_x, 1..4 groups under one of 9 grouping fields (other id fields filled with unrelated values); group values small "
        "(0, -1, 1.5, 1..100), LARGE AND ADJACENT (base 1e5..1e9 + 0,1,2,3: 25%) or adjacent grid values 2^-10 apart (8%); DataFrame index "
        "default / duplicate labels (concat of two lists) / permuted / sparse / all equal; scores distinct, tied (15%) or correlated with "
        "position, either score direction, d in (0.25, 24]; exact distance ties inside a group are excluded (d is nudged) except in a 3% "
        "stream that plants a pair at distance exactly d (outside the quantifier: reported only when BOTH readings `<` and `<=` reject). "
        "30% of the calls omit every keyword whose value is the documented default (keep_greater=True, metric_id='score', "
        "angles_order='zxz', angles_numbering=0). 15% of the cases make 1-2 further calls in the same process on the SAME caller-owned "
        "DataFrame / ndarrays / CSV path (columns overwritten in place, file rewritten between the calls); every call is judged alike and "
        "the caller-owned inputs are compared before/after each call. "
        "15% score maps: boxes up to 16^3 quick / 40^3 thorough incl. flat and non-cubic ones, plus DENSE large maps (35..40 per side, 85-98% "
        "of the voxels above the threshold, i.e. > 2^15 candidates, diameter 1.5..3: 2 per quick run, ~0.5% thorough), plateau-free scores "
        "(blob field * N + permutation), threshold between two scores or exactly equal to a voxel's score or above the maximum, "
        "diameter 0.5..6.5 in quarter steps (integer diameters give exact distance ties, which the closed ball decides), angle list "
        "1..40 rows as ndarray or CSV file, numbering 0/1, order zxz/zzx, 3% angle-map entries beyond the END of the list (entries BELOW "
        "the numbering point to no list row and are outside the quantifier: never generated; the model rejects them). "
        "non-trivial: list with >= 3 particles of which >= 1 is removed and >= 1 kept / map with >= 2 voxels above threshold of which "
        ">= 1 is suppressed; distinct = distinct case content")
ASSUMPTIONS = [
    "numpy float64 arithmetic on the dyadic grids used is exact, so `norm(diff) < d` decides like `dist^2 < d^2` for d > 0 (sqrt is correctly rounded and monotone; squares differ by >= 2^-20)",
    "scipy.spatial.KDTree.query_ball_point(c, r) = brute-force closed ball dist <= r on integer coordinates (probed each run)",
    "np.argsort / sorted order candidates by score; how equal scores are ordered is irrelevant to the theorems (any non-increasing order) and cases with tied scores are judged by the verified checker only",
    "pandas: boolean-mask selection keeps row order, concat keeps order, read_csv(header=None) parses repr(float) exactly",
    "sklearn DBSCAN(min_samples=1) labels every point (no peak is dropped when cluster_size is None)",
    "angle-map entries below `angles_numbering` (e.g. 0 with numbering 1) point to no row of the angle list and are OUTSIDE the quantifier (decision of the integrator, audit C07-1): numpy wraps such an index to the end of the list, the model answers badAngle (theorem peakOf_below_numbering); such maps are never generated and no finding is raised for them",
    "a list holding two particles of one group at distance exactly d is outside the quantifier: it is reported only when the verified checker rejects the result under both readings (`dist < d` and `dist <= d` count as close)",
    "group independence is judged by the verified checker applied to each group's sub-list (theorem spec_iff_groups: the clauses decompose over the groups), not by re-running the implementation per group",
]
TRUSTED = ["harness scaling of dyadic values to integers (props/c07.py), comparison of squared distances instead of distances (d > 0)",
           "the direct evaluations of props/c07.py judge(): row identity by subtomo_id + bit comparison, dtype kinds, before/after comparison of caller-owned inputs"]

# ------------------------------------------------------------------ translator
CMP = {"Lt": "lt", "LtE": "le", "Gt": "gt", "GtE": "ge"}


def _cmp(node):
    return CMP.get(type(node.ops[0]).__name__, "other")


class _View:
    """Rename-insensitive view of one function.  `text(node)` is the source text of an expression in which every
    local name is replaced by what it is bound to (single binding: its defining expression; several bindings:
    ALT(def1, def2, ..) in source order; loop variable: EACH(iterable); tuple target k: value[k]; a name met while it is
    being expanded: REC, or the bare parameter when it is a parameter that is re-assigned).  Parameters, attributes,
    globals and keyword names stay as they are (they are the function's interface).  Two functions that differ only in the
    names of local variables give the same texts; a changed operator, constant, column, keyword or order of operations
    gives a different one.  `dump()` is the whole body, statement kinds + expressions, with locals numbered in order of
    first binding (v0, v1, ..) - any added, removed or altered statement changes it."""

    def __init__(self, fn):
        self.fn = fn
        a = fn.args
        self.params = [x.arg for x in a.posonlyargs + a.args + a.kwonlyargs] + ([a.vararg.arg] if a.vararg else []) + ([a.kwarg.arg] if a.kwarg else [])
        self.binds = {}
        self.order = []
        for node in self._walk_in_order(fn):
            if isinstance(node, ast.Assign):
                for t in node.targets:
                    self._bind(t, node.value)
            elif isinstance(node, ast.AnnAssign) and node.value is not None:
                self._bind(node.target, node.value)
            elif isinstance(node, ast.AugAssign):
                self._bind(node.target, ast.BinOp(left=ast.Name(id="REC", ctx=ast.Load()), op=node.op, right=node.value))
            elif isinstance(node, (ast.For, ast.comprehension)):
                self._bind(node.target, ast.Call(func=ast.Name(id="EACH", ctx=ast.Load()), args=[node.iter], keywords=[]))
            elif isinstance(node, ast.With):
                for it in node.items:
                    if it.optional_vars is not None:
                        self._bind(it.optional_vars, it.context_expr)
            elif isinstance(node, ast.NamedExpr):
                self._bind(node.target, node.value)
        self._memo = {}
        self._texts = {}

    @staticmethod
    def _walk_in_order(fn):
        out = []

        def rec(n):
            out.append(n)
            for c in ast.iter_child_nodes(n):
                rec(c)
        for st in fn.body:
            rec(st)
        return out

    def _bind(self, target, value):
        if isinstance(target, ast.Name):
            if target.id not in self.binds:
                self.binds[target.id] = []
                self.order.append(target.id)
            self.binds[target.id].append(value)
        elif isinstance(target, (ast.Tuple, ast.List)):
            for i, el in enumerate(target.elts):
                self._bind(el, ast.Subscript(value=value, slice=ast.Constant(value=i), ctx=ast.Load()))
        elif isinstance(target, ast.Starred):
            self._bind(target.value, value)

    # ---- expansion (expanded sub-trees are shared, never mutated; memo per (name, names being expanded))
    def _expand_name(self, name, busy):
        if name not in self.binds:
            return ast.Name(id=name, ctx=ast.Load())
        if name in busy:
            return ast.Name(id=name if name in self.params else "REC", ctx=ast.Load())
        key = (name, busy)
        if key in self._memo:
            return self._memo[key]
        busy2 = busy | {name}
        uniq, seen = [], set()
        for v in self.binds[name]:
            d = self._expand(v, busy2)
            t = ast.unparse(d)
            if t not in seen:
                seen.add(t)
                uniq.append(d)
        res = uniq[0] if len(uniq) == 1 else ast.Call(func=ast.Name(id="ALT", ctx=ast.Load()), args=uniq, keywords=[])
        self._memo[key] = res
        return res

    def _expand(self, node, busy=frozenset()):
        view = self

        class T(ast.NodeTransformer):
            def __init__(self):
                self.lam = {}

            def visit_Lambda(self, n):
                names = [x.arg for x in n.args.args]
                old = dict(self.lam)
                for i, nm in enumerate(names):
                    self.lam[nm] = f"_a{i}"
                body = self.visit(n.body)
                self.lam = old
                return ast.Call(func=ast.Name(id="LAMBDA", ctx=ast.Load()), args=[ast.Constant(value=len(names)), body], keywords=[])

            def visit_Name(self, n):
                if n.id in self.lam:
                    return ast.Name(id=self.lam[n.id], ctx=ast.Load())
                if isinstance(n.ctx, ast.Load):
                    return view._expand_name(n.id, busy)
                return n
        return T().visit(copy.deepcopy(node))

    def text(self, node):
        k = id(node)
        if k not in self._texts:
            self._texts[k] = (node, ast.unparse(self._expand(node)).replace(" ", "").replace("\n", ""))
        return self._texts[k][1]

    def name_text(self, name):
        return ast.unparse(self._expand_name(name, frozenset())).replace(" ", "").replace("\n", "")

    # ---- whole-body dump
    def dump(self):
        ren = {nm: f"v{i}" for i, nm in enumerate(self.order) if nm not in self.params}

        class R(ast.NodeTransformer):
            def __init__(self):
                self.lam = {}

            def visit_Lambda(self, n):
                old = dict(self.lam)
                for i, x in enumerate(n.args.args):
                    self.lam[x.arg] = f"_a{i}"
                    x.arg = f"_a{i}"
                n.body = self.visit(n.body)
                self.lam = old
                return n

            def visit_Name(self, n):
                if n.id in self.lam:
                    n.id = self.lam[n.id]
                elif n.id in ren:
                    n.id = ren[n.id]
                return n
        lines = []

        def expr(e):
            return ast.unparse(e).replace(" ", "").replace("\n", "")

        def rec(stmts, depth):
            for st in stmts:
                if isinstance(st, ast.Expr) and isinstance(st.value, ast.Constant) and isinstance(st.value.value, str):
                    continue  # docstring / string statement
                head = type(st).__name__
                pad = "." * depth
                if isinstance(st, (ast.If, ast.While)):
                    lines.append(f"{pad}{head} {expr(st.test)}")
                    rec(st.body, depth + 1)
                    if st.orelse:
                        lines.append(f"{pad}Else")
                        rec(st.orelse, depth + 1)
                elif isinstance(st, ast.For):
                    lines.append(f"{pad}For {expr(st.target)} in {expr(st.iter)}")
                    rec(st.body, depth + 1)
                    if st.orelse:
                        lines.append(f"{pad}Else")
                        rec(st.orelse, depth + 1)
                elif isinstance(st, ast.With):
                    lines.append(f"{pad}With " + ",".join(expr(i.context_expr) + ("as" + expr(i.optional_vars) if i.optional_vars is not None else "") for i in st.items))
                    rec(st.body, depth + 1)
                elif isinstance(st, ast.Try):
                    lines.append(f"{pad}Try")
                    rec(st.body, depth + 1)
                    for h in st.handlers:
                        lines.append(f"{pad}Except {expr(h.type) if h.type is not None else ''}")
                        rec(h.body, depth + 1)
                    if st.orelse:
                        lines.append(f"{pad}Else")
                        rec(st.orelse, depth + 1)
                    if st.finalbody:
                        lines.append(f"{pad}Finally")
                        rec(st.finalbody, depth + 1)
                elif isinstance(st, (ast.FunctionDef, ast.ClassDef)):
                    lines.append(f"{pad}{head} {st.name}")
                    rec(st.body, depth + 1)
                else:
                    lines.append(f"{pad}{head} {expr(st)}")
        body = [R().visit(copy.deepcopy(st)) for st in self.fn.body]
        sig = ast.unparse(self.fn.args).replace(" ", "")
        lines.append(f"Def ({sig})")
        rec(body, 1)
        return lines


def _digest(lines):
    return hashlib.sha256("\n".join(lines).encode()).hexdigest()[:16]


def _defaults(fn):
    """documented signature: list of (parameter, default literal as source text) for parameters that have a default"""
    a = fn.args
    pos = a.posonlyargs + a.args
    out = []
    for p, dflt in zip(pos[len(pos) - len(a.defaults):], a.defaults):
        out.append((p.arg, ast.unparse(dflt).replace('"', "'")))
    for p, dflt in zip(a.kwonlyargs, a.kw_defaults):
        if dflt is not None:
            out.append((p.arg, ast.unparse(dflt).replace('"', "'")))
    return out


# documented values (what the statement and the docstrings say); used as fall-back when an anchor is missing so that a missing
# anchor never changes the behaviour of the model silently (the obligation `anchors_ok` is broken in that case anyway)
DOC = dict(dist_cmp="lt", thr="gt", scmp="le", sort=[True, False], srt=True, coords=[["x", "y", "z"], ["shift_x", "shift_y", "shift_z"]],
           ppos=[("x", 0, 1), ("y", 1, 1), ("z", 2, 1)], aidx=[[0, 1, 2], True], acols=[("phi", 0), ("theta", 1), ("psi", 2)],
           perm=[0, 2, 1], filen=[["phi", "psi", "theta"], ["phi", "theta", "psi"], ["phi", "theta", "psi"]], ball="particle_diameter",
           clean_defaults=[("metric_id", "'score'"), ("keep_greater", "True"), ("dist_mask", "None")],
           subset_defaults=[("feature_id", "'tomo_id'"), ("return_df", "False"), ("reset_index", "True")],
           peak_defaults=[("object_id", "None"), ("scores_threshold", "None"), ("sigma_threshold", "None"), ("cluster_size", "None"),
                          ("n_particles", "None"), ("output_path", "None"), ("output_type", "'emmotl'"), ("angles_order", "'zxz'"),
                          ("symmetry", "'c1'"), ("angles_numbering", "0"), ("tomo_mask", "None")],
           load_defaults=[("angles_order", "'zxz'")])


def translate(src):
    M, G, T, I = "cryocat/cryomotl.py", "cryocat/geom.py", "cryocat/tmana.py", "cryocat/ioutils.py"
    n = core.norm_expr
    Missing = core.AnchorMissing
    views = {}

    def view(rel, qual):
        if (rel, qual) not in views:
            views[(rel, qual)] = _View(src.find(rel, qual))
        return views[(rel, qual)]

    def first(V, pred, what):
        for x in ast.walk(V.fn):
            if pred(x):
                return x
        raise Missing(what)

    def is_false(node):
        return isinstance(node, ast.Constant) and node.value is False

    # ---- Motl.clean_by_distance -------------------------------------------------------------------------------------
    SUB = "self.get_motl_subset(EACH(np.unique(self.get_feature(feature_id))),feature_id=feature_id,reset_index=True)"
    POS = SUB + ".get_coordinates()"
    SCORES = SUB + ".df[metric_id].values"
    ORDER = f"ALT(np.argsort({SCORES})[::-1],np.argsort({SCORES}))"
    J = f"EACH({ORDER})"
    DIST = f"geom.point_pairwise_dist({POS}[{J},:],{POS})"
    KEEP = f"np.ones(({SUB}.df.shape[0],),dtype=bool)"

    def CV():
        return view(M, "Motl.clean_by_distance")

    def dist_compare():
        V = CV()
        return first(V, lambda x: isinstance(x, ast.Compare) and len(x.ops) == 1 and V.text(x.comparators[0]) == "distance_in_voxels"
                     and V.text(x.left).startswith("geom.point_pairwise_dist("), "clean_by_distance: `<pairwise distance> <op> <distance_in_voxels>`")

    def a_dist_cmp():
        return _cmp(dist_compare())

    def a_self():
        V = CV()
        c = V.text(dist_compare())
        for x in ast.walk(V.fn):
            if isinstance(x, ast.Assign) and len(x.targets) == 1 and isinstance(x.targets[0], ast.Subscript) and is_false(x.value):
                t = x.targets[0]
                if V.text(t.slice) == J and c in V.text(t.value):
                    return True
        return False

    def a_sort():
        V = CV()
        iff = first(V, lambda x: isinstance(x, ast.If) and V.text(x.test) == "keep_greater", "clean_by_distance: `if keep_greater:`")

        def direction(body):
            for st in body:
                if isinstance(st, ast.Assign) and len(st.targets) == 1 and isinstance(st.targets[0], ast.Name) and V.name_text(st.targets[0].id) == ORDER:
                    v = V.text(st.value)
                    if v == f"np.argsort({SCORES})[::-1]":
                        return True
                    if v == f"np.argsort({SCORES})":
                        return False
                    raise Missing(f"clean_by_distance: processing order = {v[:120]}")
            raise Missing("clean_by_distance: assignment of the processing order inside `if keep_greater`")
        return [direction(iff.body), direction(iff.orelse)]

    def a_groups():
        V = CV()
        txt = V.text(dist_compare().left)
        loop = [x for x in ast.walk(V.fn) if isinstance(x, ast.For) and V.text(x.iter) == "np.unique(self.get_feature(feature_id))"]
        return bool(loop) and SUB in txt

    def a_pos():
        V = CV()
        return V.text(dist_compare().left) == DIST

    def a_keep():
        """the keep mask: starts all-True, `if keep[j]` guards the step, `keep[close] = False` removes, `iloc[keep]` selects, result stored"""
        V = CV()
        c = V.text(dist_compare())
        guard = any(isinstance(x, ast.If) and V.text(x.test) == f"{KEEP}[{J}]" for x in ast.walk(V.fn))
        removal = any(isinstance(x, ast.Assign) and len(x.targets) == 1 and isinstance(x.targets[0], ast.Subscript) and is_false(x.value)
                      and V.text(x.targets[0].value) == KEEP and c in V.text(x.targets[0].slice) for x in ast.walk(V.fn))
        sel = [x for x in ast.walk(V.fn) if isinstance(x, ast.Call) and n(x.func) == "pd.concat" and f"{SUB}.df.iloc[{KEEP},:]" in V.text(x)
               and {k.arg: n(k.value) for k in x.keywords}.get("ignore_index") == "True"]
        stored = [x for x in ast.walk(V.fn) if isinstance(x, ast.Assign) and n(x.targets[0]) == "self.df" and "pd.concat(" in V.text(x.value)]
        if not (guard and removal and sel and stored):
            raise Missing(f"clean_by_distance: keep mask (guard={guard}, removal={removal}, iloc-selection={bool(sel)}, self.df stored={bool(stored)})")
        return True

    def a_coords():
        V = view(M, "Motl.get_coordinates")
        iff = first(V, lambda x: isinstance(x, ast.If) and n(x.test) == "tomo_numberisNone", "get_coordinates: `if tomo_number is None`")
        st = iff.body[0]
        if not (isinstance(st, ast.Assign) and isinstance(st.value, ast.BinOp) and isinstance(st.value.op, ast.Add)):
            raise Missing("get_coordinates: coord = a + b")
        ret = [x for x in ast.walk(V.fn) if isinstance(x, ast.Return)]
        if not ret or not isinstance(ret[-1].value, ast.Name) or ret[-1].value.id != n(st.targets[0]):
            raise Missing("get_coordinates: the sum is what is returned")
        lists = []
        for side in (st.value.left, st.value.right):
            lit = [x for x in ast.walk(side) if isinstance(x, ast.List)]
            if not lit or not n(side).startswith("self.df.loc[:,") or not n(side).endswith(".values"):
                raise Missing("get_coordinates: self.df.loc[:, [...]].values")
            lists.append(ast.literal_eval(lit[0]))
        return lists

    def a_norm():
        V = view(G, "point_pairwise_dist")
        p = V.params
        calls = [x for x in ast.walk(V.fn) if isinstance(x, ast.Call) and n(x.func) == "np.linalg.norm"]
        if len(calls) != 1 or len(p) != 2:
            raise Missing("point_pairwise_dist: one np.linalg.norm call over two parameters")
        c = calls[0]
        kw = {k.arg: n(k.value) for k in c.keywords}
        ok = (len(c.args) == 1 and isinstance(c.args[0], ast.BinOp) and isinstance(c.args[0].op, ast.Sub) and n(c.args[0].left) == p[0]
              and n(c.args[0].right) == p[1] and kw == {"axis": "1"})
        return ok

    # ---- tmana.scores_extract_particles -----------------------------------------------------------------------------
    def EV():
        return view(T, "scores_extract_particles")

    def sorted_call():
        V = EV()
        return first(V, lambda x: isinstance(x, ast.Call) and n(x.func) == "sorted" and any(k.arg == "key" for k in x.keywords),
                     "scores_extract_particles: sorted(<candidates>, key=..., reverse=...)")

    def b_thr():
        V = EV()
        c = first(V, lambda x: isinstance(x, ast.Call) and n(x.func) == "np.where" and x.args and isinstance(x.args[0], ast.Compare)
                  and len(x.args[0].ops) == 1 and "cryomap.read(scores_map)" in V.text(x.args[0].left)
                  and V.text(x.args[0].comparators[0]).startswith("ALT(scores_threshold,"),
                  "scores_extract_particles: np.where(<scores map> <op> <threshold>)")
        return _cmp(c.args[0])

    def b_ball():
        V = EV()
        c = first(V, lambda x: isinstance(x, ast.Call) and isinstance(x.func, ast.Attribute) and x.func.attr == "query_ball_point",
                  "scores_extract_particles: query_ball_point")
        S_ = V.text(sorted_call())
        if not V.text(c.func.value).startswith("KDTree([") or len(c.args) != 2 or c.keywords or V.text(c.args[0]) != f"EACH({S_})[0]":
            raise Missing("scores_extract_particles: KDTree([...]).query_ball_point(<candidate position>, r)")
        return V.text(c.args[1])

    def b_score_cmp():
        V = EV()
        S_ = V.text(sorted_call())
        c = first(V, lambda x: isinstance(x, ast.Compare) and len(x.ops) == 1 and V.text(x.comparators[0]) == f"EACH({S_})[1]"
                  and isinstance(x.left, ast.Subscript) and isinstance(x.ops[0], (ast.Lt, ast.LtE, ast.Gt, ast.GtE)),
                  "scores_extract_particles: <score of a ball member> <op> <score of the processed candidate>")
        return _cmp(c)

    def b_sorted():
        V = EV()
        c = sorted_call()
        kw = {k.arg: V.text(k.value) for k in c.keywords}
        if kw.get("key") != "LAMBDA(1,_a0[1])":
            raise Missing("scores_extract_particles: sorted key is the score (second tuple member)")
        return kw.get("reverse", "False") == "True"

    def fill_dict():
        V = EV()
        c = first(V, lambda x: isinstance(x, ast.Call) and isinstance(x.func, ast.Attribute) and x.func.attr == "fill" and x.args
                  and isinstance(x.args[0], ast.Dict) and V.text(x.func.value) == "cryomotl.Motl()", "scores_extract_particles: Motl().fill({...})")
        return {ast.literal_eval(k): v for k, v in zip(c.args[0].keys, c.args[0].values)}

    def col_of(node, what):
        """`R[:, k]` -> (name of R, k)"""
        if not (isinstance(node, ast.Subscript) and isinstance(node.value, ast.Name) and isinstance(node.slice, ast.Tuple) and len(node.slice.elts) == 2
                and n(node.slice.elts[0]) == ":" and isinstance(node.slice.elts[1], ast.Constant) and isinstance(node.slice.elts[1].value, int)):
            raise Missing(f"{what}: not of the form R[:, k]: {n(node)[:60]}")
        return node.value.id, node.slice.elts[1].value

    def b_pos():
        d = fill_dict()
        out, rv = [], set()
        for name in ("x", "y", "z"):
            v = d.get(name)
            if v is None:
                raise Missing(f"motl.fill: key {name}")
            off = 0
            if isinstance(v, ast.BinOp) and isinstance(v.op, (ast.Add, ast.Sub)) and isinstance(v.right, ast.Constant) and isinstance(v.right.value, int):
                off = v.right.value if isinstance(v.op, ast.Add) else -v.right.value
                v = v.left
            r, k = col_of(v, f"motl.fill: {name}")
            rv.add(r)
            if off < 0:
                raise Missing(f"motl.fill: {name} offset {off}")
            out.append((name, k, off))
        if len(rv) != 1:
            raise Missing("motl.fill: x, y, z come from different arrays")
        return out

    def angidx_node():
        V = EV()
        return first(V, lambda x: isinstance(x, ast.BinOp) and V.text(x.right) == "angles_numbering" and isinstance(x.left, ast.Call)
                     and isinstance(x.left.func, ast.Attribute) and x.left.func.attr == "astype", "scores_extract_particles: <angle map entries>.astype(int) <op> angles_numbering")

    def b_angidx():
        V = EV()
        v = angidx_node()
        call = v.left
        if n(call.args[0] if call.args else ast.Constant(value=None)) != "int" or not isinstance(call.func.value, ast.Subscript):
            raise Missing("scores_extract_particles: astype(int)")
        sub = call.func.value
        if V.text(sub.value) != "cryomap.read(angles_map)" or not isinstance(sub.slice, ast.Tuple):
            raise Missing("scores_extract_particles: angles_map[R[:,0], R[:,1], R[:,2]]")
        cols, rv = [], set()
        for e in sub.slice.elts:
            r, k = col_of(e, "scores_extract_particles: angle-map index")
            rv.add(r)
            cols.append(k)
        d = fill_dict()
        xv = d["x"].left if isinstance(d.get("x"), ast.BinOp) else d.get("x")
        if len(rv) != 1 or col_of(xv, "motl.fill: x")[0] not in rv:
            raise Missing("scores_extract_particles: the angle map is not indexed with the peak positions that are filled in")
        return [cols, isinstance(v.op, ast.Sub)]

    def b_angcols():
        V = EV()
        d = fill_dict()
        idx_txt = V.text(angidx_node())
        out = []
        for name in ("phi", "theta", "psi"):
            v = d.get(name)
            if not isinstance(v, ast.Name) or v.id not in V.binds:
                raise Missing(f"motl.fill: {name} is not a local array")
            b0 = V.binds[v.id][0]
            if not (isinstance(b0, ast.Subscript) and isinstance(b0.slice, ast.Tuple) and len(b0.slice.elts) == 2 and isinstance(b0.slice.elts[1], ast.Constant)
                    and V.text(b0.value) == "ioutils.rot_angles_load(angles_list,angles_order=angles_order)" and V.text(b0.slice.elts[0]) == idx_txt):
                raise Missing(f"scores_extract_particles: {name} = <loaded list>[<angle index>, k]")
            out.append((name, int(b0.slice.elts[1].value)))
        return out

    def b_direct():
        V = EV()
        d = fill_dict()
        if not all(k in d for k in ("phi", "theta", "psi", "score", "x", "y", "z")):
            return False
        sc = d["score"]
        # the score column is the second member of the kept (position, score) pairs; the positions are the first member
        return (isinstance(sc, ast.Name) and any("zip(*" in V.text(b) and V.text(b).endswith("[1]") for b in V.binds.get(sc.id, []))
                and any(isinstance(x, ast.Call) and isinstance(x.func, ast.Attribute) and x.func.attr == "append" and x.args
                        and isinstance(x.args[0], ast.Tuple) and [V.text(e) for e in x.args[0].elts] == [f"EACH({V.text(sorted_call())})[0]", f"EACH({V.text(sorted_call())})[1]"]
                        for x in ast.walk(V.fn)))

    # ---- ioutils.rot_angles_load ------------------------------------------------------------------------------------
    def LV():
        return view(I, "rot_angles_load")

    def branch(test_txt):
        V = LV()
        return first(V, lambda x: isinstance(x, ast.If) and n(x.test) == test_txt, f"rot_angles_load: `if {test_txt}`")

    ZZX = ("angles_order=='zzx'", 'angles_order=="zzx"')

    def c_perm():
        br = branch("isinstance(input_angles,np.ndarray)")
        cp = [st for st in br.body if isinstance(st, ast.Assign) and isinstance(st.targets[0], ast.Name) and n(st.value) in ("input_angles.copy()", "input_angles")]
        if not cp:
            raise Missing("rot_angles_load: <angles> = input_angles.copy()")
        var = cp[0].targets[0].id
        zz = [x for st in br.body for x in ast.walk(st) if isinstance(x, ast.If) and n(x.test) in ZZX]
        if not zz:
            return [0, 1, 2]  # the array branch does not reorder: this IS what the source does
        a = [st for st in zz[0].body if isinstance(st, ast.Assign) and n(st.targets[0]) == var]
        if not a or not n(a[0].value).startswith(var + "[:,[") or zz[0].orelse:
            raise Missing("rot_angles_load: <angles> = <angles>[:, [..]]")
        perm = ast.literal_eval(n(a[0].value)[len(var + "[:,"):-1])
        if not (isinstance(perm, list) and all(isinstance(k, int) and k >= 0 for k in perm)):
            raise Missing("rot_angles_load: permutation literal")
        return perm

    def c_file():
        br = branch("isinstance(input_angles,str)")
        rd = [st for st in br.body if isinstance(st, ast.Assign) and isinstance(st.targets[0], ast.Name) and n(st.value).startswith("pd.read_csv(input_angles,")]
        if not rd or {k.arg: n(k.value) for k in rd[0].value.keywords} != {"header": "None"}:
            raise Missing("rot_angles_load: <angles> = pd.read_csv(input_angles, header=None)")
        var = rd[0].targets[0].id
        zz = [x for st in br.body for x in ast.walk(st) if isinstance(x, ast.If) and n(x.test) in ZZX]
        if not zz:
            raise Missing("rot_angles_load: file branch zzx")

        def names(body):
            a = [st for st in body if isinstance(st, ast.Assign) and n(st.targets[0]) == var + ".columns"]
            if not a:
                raise Missing("rot_angles_load: <angles>.columns = [...]")
            return ast.literal_eval(a[0].value)
        sel = [st for st in br.body if isinstance(st, ast.Assign) and n(st.targets[0]) == var and n(st.value).startswith(var + ".loc[:,[")]
        if not sel or not n(sel[0].value).endswith("].to_numpy()"):
            raise Missing("rot_angles_load: <angles>.loc[:, [...]].to_numpy()")
        return [names(zz[0].body), names(zz[0].orelse), ast.literal_eval(n(sel[0].value)[len(var + ".loc[:,"):-len(".to_numpy()") - 1])]

    # ---- signatures and whole bodies --------------------------------------------------------------------------------
    BODIES = [("cleanByDistance", M, "Motl.clean_by_distance"), ("getMotlSubset", M, "Motl.get_motl_subset"), ("getCoordinates", M, "Motl.get_coordinates"),
              ("pointPairwiseDist", G, "point_pairwise_dist"), ("scoresExtractParticles", T, "scores_extract_particles"), ("rotAnglesLoad", I, "rot_angles_load")]

    dist_cmp = src.anchor("clean_by_distance:dist<d_cut", a_dist_cmp)
    self_ex = src.anchor("clean_by_distance:d_cut_idx[j]=False", a_self)
    sort = src.anchor("clean_by_distance:argsort-directions", a_sort)
    groups = src.anchor("clean_by_distance:group-loop-by-feature_id", a_groups)
    pos = src.anchor("clean_by_distance:pos-of-group/point_pairwise_dist", a_pos)
    keep = src.anchor("clean_by_distance:keep-mask-guard/removal/iloc-selection", a_keep)
    coords = src.anchor("get_coordinates:xyz+shifts", a_coords)
    norm = src.anchor("point_pairwise_dist:euclidean-norm", a_norm)
    thr = src.anchor("scores_extract_particles:scores_map>threshold", b_thr)
    ball = src.anchor("scores_extract_particles:query_ball_point-radius", b_ball)
    scmp = src.anchor("scores_extract_particles:<=score", b_score_cmp)
    srt = src.anchor("scores_extract_particles:sorted-reverse", b_sorted)
    ppos = src.anchor("scores_extract_particles:fill-xyz+1", b_pos)
    aidx = src.anchor("scores_extract_particles:ang_idx", b_angidx)
    acols = src.anchor("scores_extract_particles:phi-theta-psi-columns", b_angcols)
    direct = src.anchor("scores_extract_particles:fill-direct", b_direct)
    perm = src.anchor("rot_angles_load:array-zzx-permutation", c_perm)
    filen = src.anchor("rot_angles_load:file-zzx-column-names", c_file)
    d_clean = src.anchor("signature:clean_by_distance-defaults", lambda: [list(t) for t in _defaults(src.find(M, "Motl.clean_by_distance"))])
    d_subset = src.anchor("signature:get_motl_subset-defaults", lambda: [list(t) for t in _defaults(src.find(M, "Motl.get_motl_subset"))])
    d_peaks = src.anchor("signature:scores_extract_particles-defaults", lambda: [list(t) for t in _defaults(src.find(T, "scores_extract_particles"))])
    d_load = src.anchor("signature:rot_angles_load-defaults", lambda: [list(t) for t in _defaults(src.find(I, "rot_angles_load"))])
    dumps = {}
    for lean_name, rel, qual in BODIES:
        dumps[lean_name] = src.anchor(f"body:{qual}", lambda rel=rel, qual=qual: view(rel, qual).dump())

    def b(v):
        return "true" if v else "false"

    def cmp(v, doc):
        return "." + (v or doc)

    def dflt(v, doc):
        return "[" + ", ".join(f"({core.lean_str(a)}, {core.lean_str(c)})" for a, c in (v if v is not None else doc)) + "]"

    # a missing anchor falls back to the DOCUMENTED value (the model keeps its documented behaviour; `anchorsOk` is false)
    sort = sort or DOC["sort"]
    coords = coords or DOC["coords"]
    ppos = ppos or DOC["ppos"]
    aidx = aidx or DOC["aidx"]
    acols = acols or DOC["acols"]
    perm = perm if perm is not None else DOC["perm"]
    filen = filen or DOC["filen"]
    srt = DOC["srt"] if srt is None else srt
    nat_list = lambda xs: "[" + ", ".join(str(int(x)) for x in xs) + "]"
    body_defs, body_comments = [], []
    for lean_name, rel, qual in BODIES:
        lines = dumps[lean_name]
        body_defs.append(f"def {lean_name}Body : String × Nat := ({core.lean_str(_digest(lines) if lines else '?')}, {len(lines) if lines else 0})")
        body_comments.append(f"/- {rel}:{qual}, locals numbered in order of first binding\n" + "\n".join(l.replace("-/", "- /").replace("/-", "/ -") for l in (lines or ["<missing>"])) + "\n-/")
    return f"""-- GENERATED by harness/props/c07.py from {M}, {G}, {T}, {I}; do not edit
namespace CryoCat.Gen.C07
inductive Cmp | lt | le | gt | ge | other
deriving DecidableEq, Repr
def anchorsOk : Bool := {b(src.ok)}
-- Motl.clean_by_distance
def cleanDistCmp : Cmp := {cmp(dist_cmp, DOC["dist_cmp"])}
def cleanSelfExcluded : Bool := {b(True if self_ex is None else self_ex)}
def cleanSortDescGreater : Bool := {b(sort[0])}
def cleanSortDescLower : Bool := {b(sort[1])}
def cleanGroupsByFeature : Bool := {b(True if groups is None else groups)}
def cleanPosFromGroup : Bool := {b(True if pos is None else pos)}
def cleanKeepMask : Bool := {b(True if keep is None else keep)}
def coordColumns : List String := {core.lean_str_list(coords[0])}
def shiftColumns : List String := {core.lean_str_list(coords[1])}
def distIsEuclidNorm : Bool := {b(True if norm is None else norm)}
-- tmana.scores_extract_particles
def peakThrCmp : Cmp := {cmp(thr, DOC["thr"])}
def peakBallRadius : String := {core.lean_str(ball or DOC["ball"])}
def peakScoreCmp : Cmp := {cmp(scmp, DOC["scmp"])}
def peakSortDesc : Bool := {b(srt)}
def peakPosFill : List (String × Nat × Nat) := [{", ".join(f"({core.lean_str(a)}, {c}, {o})" for a, c, o in ppos)}]
def peakAngIdxCols : List Nat := {nat_list(aidx[0])}
def peakAngIdxSubtractsNumbering : Bool := {b(aidx[1])}
def peakAngleCols : List (String × Nat) := [{", ".join(f"({core.lean_str(a)}, {c})" for a, c in acols)}]
def peakFillDirect : Bool := {b(True if direct is None else direct)}
-- ioutils.rot_angles_load
def zzxArrayPerm : List Nat := {nat_list(perm)}
def zzxFileNames : List String := {core.lean_str_list(filen[0])}
def zxzFileNames : List String := {core.lean_str_list(filen[1])}
def fileSelect : List String := {core.lean_str_list(filen[2])}
-- signature defaults (parameter, default literal)
def cleanDefaults : List (String × String) := {dflt(d_clean, DOC["clean_defaults"])}
def subsetDefaults : List (String × String) := {dflt(d_subset, DOC["subset_defaults"])}
def peakDefaults : List (String × String) := {dflt(d_peaks, DOC["peak_defaults"])}
def loadDefaults : List (String × String) := {dflt(d_load, DOC["load_defaults"])}
-- whole bodies: (sha-256 prefix of the normalised dump below, number of dump lines)
{chr(10).join(body_defs)}
end CryoCat.Gen.C07
{chr(10).join(body_comments)}
"""


# ------------------------------------------------------------------ generators: particle lists
def _grid(rng, lo, hi):
    """random grid value (integer numerator at scale S) in [lo, hi] (given in voxels)"""
    return rng.randint(int(lo * S), int(hi * S))


def _layout(rng, n, d):
    """n positions (numerators) and a label"""
    kind = rng.choice(["cluster", "cluster", "chain", "chain", "uniform", "dup", "mixed"])
    pts = []
    if kind == "cluster":
        k = max(1, n // rng.randint(2, 8))
        centres = [[_grid(rng, 0, 300) for _ in range(3)] for _ in range(k)]
        spread = max(1, int(d * rng.choice([0.4, 0.8, 1.2, 2.0])))
        for i in range(n):
            c = rng.choice(centres)
            pts.append([c[a] + rng.randint(-spread, spread) for a in range(3)])
    elif kind == "chain":
        # points along a line, spacing just above / below d (margin >= 2^-8 = 4 grid units)
        axis = rng.choice([(1, 0, 0), (0, 1, 0), (0, 0, 1)])
        p = [_grid(rng, 0, 100) for _ in range(3)]
        for i in range(n):
            pts.append(list(p))
            step = d + rng.choice([-1, 1, 1]) * rng.choice([4, 5, 8, 16, max(4, d // 7)])
            step = max(1, step)
            if rng.random() < 0.1:
                step = d * 3
            p = [p[a] + axis[a] * step + (rng.randint(-2, 2) if rng.random() < 0.3 and not axis[a] else 0) for a in range(3)]
        if rng.random() < 0.5:
            rng.shuffle(pts)
    elif kind == "uniform":
        side = max(2.0, (n ** (1 / 3)) * (d / S) * rng.choice([0.5, 0.8, 1.2]))
        pts = [[_grid(rng, 0, side) for _ in range(3)] for _ in range(n)]
    elif kind == "dup":
        base = [[_grid(rng, 0, 40) for _ in range(3)] for _ in range(max(1, n // 3))]
        pts = [list(rng.choice(base)) for _ in range(n)]
    else:
        side = max(2.0, (n ** (1 / 3)) * (d / S))
        pts = [[_grid(rng, 0, side) for _ in range(3)] for _ in range(n)]
        for i in range(0, n - 1, 3):  # pairs at d +- margin
            off = d + rng.choice([-4, 4, -16, 16])
            pts[i + 1] = [pts[i][0] + off, pts[i][1], pts[i][2]]
    return pts[:n], kind


def _has_tie(pos, grp, d):
    """exact distance tie inside a group?"""
    p = np.array(pos, dtype=np.int64)
    g = np.array(grp)
    d2 = int(d) * int(d)
    for v in set(grp):
        q = p[g == v]
        if len(q) < 2:
            continue
        diff = q[:, None, :] - q[None, :, :]
        dd = (diff * diff).sum(axis=2)
        if np.any(dd == d2):
            return True
    return False


def _positions(rows):
    return [[r[CI[c]] + r[CI[sc]] for c, sc in (("x", "shift_x"), ("y", "shift_y"), ("z", "shift_z"))] for r in rows]


def _rows_tie(rows, feature, d):
    fi = CI[feature]
    return _has_tie(_positions(rows), [r[fi] for r in rows], d)


def _group_values(rng, ngroups):
    """group ids (numerators at scale S) and the label of the stream they come from"""
    r = rng.random()
    if ngroups > 1 and r < 0.25:
        # LARGE ADJACENT ids (date-style tomogram numbers, object ids in the 1e5..1e9 range): equal under any relative tolerance
        base = rng.choice([10 ** 5, 230415, 10 ** 6 - 1, 10 ** 7 + 13, 123456789, 10 ** 9 - 3]) + rng.randint(0, 50)
        vals = [(base + j) * S for j in range(ngroups)]
        rng.shuffle(vals)
        return vals, "large-adjacent"
    if ngroups > 1 and r < 0.33:
        # adjacent values of the 2^-10 grid at magnitude 300..5000 (fractional feature values, e.g. geom fields)
        base = rng.randint(300, 5000) * S + rng.randint(0, S - 1)
        vals = [base + j for j in range(ngroups)]
        rng.shuffle(vals)
        return vals, "grid-adjacent"
    gvals = rng.sample([1, 2, 3, 4, 5, 7, 10, 11, 100, 0, -1] + ([S // 2 * 3] if rng.random() < 0.2 else []), ngroups)
    return [g * S if abs(g) < 200 else g for g in gvals], "small"


def _index(rng, n):
    """row labels of the caller's DataFrame"""
    r = rng.random()
    if r < 0.6 or n < 2:
        return None, "range"
    if r < 0.78:  # two lists put together with pd.concat (no ignore_index): every label twice
        half = max(1, (n + 1) // 2)
        return [i % half for i in range(n)], "dup-concat"
    if r < 0.88:
        p = list(range(n))
        rng.shuffle(p)
        return p, "permuted"
    if r < 0.95:
        return sorted(rng.sample(range(0, 5 * n + 5), n)), "sparse"
    return [7] * n, "all-equal"


def _distinct_scores(rng, n):
    return [s * 16 for s in rng.sample(range(-n * 8, n * 8 + 8), n)]


def gen_clean(rng, tier):
    big = {"quick": 0.04, "thorough": 0.25, "search": 0.0}[tier]
    r = rng.random()
    if tier == "search":
        n = rng.randint(1, 14)
    elif r < big:
        n = rng.randint(81, 400)
    elif r < big + 0.08:
        n = rng.randint(1, 2)
    else:
        n = rng.randint(3, 80)
    d = rng.choice([S, S + S // 2, 2 * S, 3 * S + S // 4, 10 * S, rng.randint(S // 4 + 1, 24 * S)])
    ngroups = rng.choice([1, 2, 2, 3, 4])
    feature = rng.choice(FEATURES)
    gvals, gkind = _group_values(rng, ngroups)
    copies = ngroups > 1 and rng.random() < 0.3
    if copies:  # the same arrangement in every group (different scores): adversarial for cross-group leakage
        m = max(1, n // ngroups)
        base, layout = _layout(rng, m, d)
        pos, grp = [], []
        for g in gvals:
            pos += [list(p) for p in base]
            grp += [g] * len(base)
        layout = "copies-" + layout
        order = list(range(len(pos)))
        rng.shuffle(order)
        pos = [pos[i] for i in order]
        grp = [grp[i] for i in order]
    else:
        pos, layout = _layout(rng, n, d)
        if rng.random() < 0.5:
            grp = [rng.choice(gvals) for _ in pos]
        else:
            grp = [gvals[i % ngroups] for i in range(len(pos))]
    n = len(pos)
    planted = n >= 2 and rng.random() < 0.03
    if planted:  # a pair of one group at distance exactly d (outside the quantifier; judged under both readings)
        i, j = rng.sample(range(n), 2)
        pos[j] = [pos[i][0], pos[i][1] + d, pos[i][2]]
        grp[j] = grp[i]
    else:
        for _ in range(50):
            if not _has_tie(pos, grp, d):
                break
            d += 1
    sk = rng.random()
    if sk < 0.15:
        scores = [rng.randint(0, max(1, n // 3)) * 64 for _ in range(n)]
        skind = "tied"
    elif sk < 0.35:
        scores = [p[0] + p[1] * 3 - p[2] for p in pos]  # correlated with position
        skind = "position"
        if len(set(scores)) < n:
            skind = "position-tied"
    else:
        scores = _distinct_scores(rng, n)
        skind = "distinct"
    rows = []
    shifted = rng.random() < 0.5
    for i in range(n):
        row = [0] * 20
        for c in ("geom1", "geom2", "geom3", "geom4", "geom5", "subtomo_mean", "tomo_id", "object_id", "class"):
            row[CI[c]] = rng.randint(1, 3) * S
        for c in ("phi", "psi", "theta"):
            row[CI[c]] = rng.randint(-180 * 4, 180 * 4) * (S // 4)
        row[CI["subtomo_id"]] = (i + 1) * S
        row[CI["score"]] = scores[i]
        row[CI[feature]] = grp[i]
        for a, (c, sc) in enumerate((("x", "shift_x"), ("y", "shift_y"), ("z", "shift_z"))):
            sh = rng.randint(-3 * S, 3 * S) if shifted and rng.random() < 0.7 else 0
            row[CI[c]] = pos[i][a] - sh
            row[CI[sc]] = sh
        rows.append(row)
    index, ikind = _index(rng, n)
    case = dict(kind="clean", d=d, keep_greater=rng.random() < 0.6, feature=feature, rows=rows, layout=layout, scores=skind,
                groups=gkind, index=index, index_kind=ikind, omit=rng.random() < 0.3, planted_tie=planted, then=[])
    if tier != "search" and rng.random() < 0.15:  # further calls on the same caller-owned DataFrame
        cur = [list(r) for r in rows]
        for _ in range(rng.choice([1, 1, 2])):
            f2 = rng.choice(FEATURES) if rng.random() < 0.5 else feature
            st = {}
            if rng.random() < 0.7:
                st["score"] = _distinct_scores(rng, n)
            if f2 != feature or rng.random() < 0.4:
                g2, _ = _group_values(rng, rng.choice([1, 2, 3]))
                st[f2] = [rng.choice(g2) for _ in range(n)]
            for col, vals in st.items():
                for r_, v in zip(cur, vals):
                    r_[CI[col]] = v
            d2 = rng.choice([d, 2 * d, max(S // 4 + 1, d // 2), rng.randint(S // 4 + 1, 24 * S)])
            for _k in range(50):
                if not _rows_tie(cur, f2, d2):
                    break
                d2 += 1
            case["then"].append(dict(d=d2, keep_greater=rng.random() < 0.5, feature=f2, set=st, omit=rng.random() < 0.3))
    return case


# ------------------------------------------------------------------ generators: score maps
def gen_peaks(rng, tier, dense=False):
    lim = {"quick": 16, "thorough": 40, "search": 6}[tier]
    r = rng.random()
    if dense:
        dims = [rng.randint(35, 40) for _ in range(3)]
    elif tier == "thorough" and r < 0.06:
        dims = [rng.randint(30, 40) for _ in range(3)]
    elif r < 0.25:
        dims = [rng.randint(1, min(lim, 12)) for _ in range(3)]
        dims[rng.randrange(3)] = rng.choice([1, 2])
    else:
        top = min(lim, 16) if r < 0.9 else lim
        dims = [rng.randint(2, top) for _ in range(3)]
    nx, ny, nz = dims
    N = nx * ny * nz
    rs = np.random.RandomState(rng.randrange(2 ** 31))
    perm = rs.permutation(N)
    if rng.random() < 0.6 and N > 8:
        gx, gy, gz = np.meshgrid(np.arange(nx), np.arange(ny), np.arange(nz), indexing="ij")
        field = np.zeros(dims)
        for _ in range(rng.randint(1, 6)):
            c = [rng.uniform(0, nx), rng.uniform(0, ny), rng.uniform(0, nz)]
            w = rng.uniform(0.8, 3.0)
            field += rng.uniform(0.3, 1.0) * np.exp(-((gx - c[0]) ** 2 + (gy - c[1]) ** 2 + (gz - c[2]) ** 2) / (2 * w * w))
        base = np.floor(field * 200).astype(np.int64).ravel()
        kind = "blobs"
    else:
        base = np.zeros(N, dtype=np.int64)
        kind = "noise"
    vals = (base * N + perm) * 2  # distinct even integers; odd thresholds fall strictly between two scores
    sscale = rng.choice([1, 16, 1024])
    sorted_vals = np.sort(vals)[::-1]
    # threshold: keep between 1 and ~1500 voxels above it (dense maps: 85..98 % of a large map, i.e. more than 2^15 candidates)
    kmax = min(N, {"quick": 500, "thorough": 1500, "search": 40}[tier])
    k = rng.randint(1, max(1, kmax if rng.random() < 0.3 else min(kmax, max(2, N // rng.randint(2, 30)))))
    if dense:
        k = int(N * rng.uniform(0.85, 0.98))
    tr = rng.random()
    if tr < 0.04 and not dense:
        thr = int(sorted_vals[0]) + rng.choice([0, 1, 7])  # nothing above: returns None
        tkind = "above-max"
    elif tr < 0.35 and k < N:
        thr = int(sorted_vals[k])  # exactly a voxel's score: that voxel is NOT above
        tkind = "equal-to-a-score"
    else:
        thr = int(sorted_vals[k - 1]) - 1
        tkind = "between"
    dd = rng.choice([1, 1, 2, 4])
    dr = rng.random()
    if dense:
        dd = 4
        dn = rng.choice([6, 8, 9, 10, 12])  # 1.5 .. 3 voxels: peaks exist deep in the low-score tail
    elif dr < 0.4:
        dn = rng.choice([1, 2, 2, 3, 5]) * dd  # integer diameters: exact ties with integer voxel distances
    elif dr < 0.8:
        dn = rng.randint(max(1, dd // 2), 3 * dd)
    else:
        dn = rng.randint(3 * dd, int(6.5 * dd))
    numbering = rng.choice([0, 1])
    L = rng.randint(1, 40)
    ascale = 4

    def angle_list():
        out = []
        for i in range(L):
            a = rng.randint(-720, 719)
            b = rng.randint(0, 720)
            c = rng.randint(-720, 719)
            while c == b:
                c = rng.randint(-720, 719)
            out.append([a, b, c])
        return out
    anglist = angle_list()
    # entries in [numbering, numbering + L): an entry BELOW the numbering points to no list row (outside the quantifier)
    angles = rs.randint(numbering, numbering + L, size=N).tolist()
    bad = rng.random() < 0.03 and not dense
    if bad:
        for _ in range(rng.randint(1, 3)):
            angles[int(np.argmax(vals)) if rng.random() < 0.5 else rng.randrange(N)] = numbering + L + rng.randint(0, 2)
    case = dict(kind="peaks", dims=dims, scores=[int(v) for v in vals], sscale=sscale, thr=thr, dn=dn, dd=dd, angles=angles,
                anglist=anglist, ascale=ascale, numbering=numbering, order=rng.choice(["zxz", "zzx"]),
                list_as=rng.choice(["array", "array", "csv"]), field=kind, thr_kind=tkind, bad_angle=bad, dense=dense,
                omit=rng.random() < 0.3, then=[])
    if tier != "search" and not dense and not bad and rng.random() < 0.15:
        # further calls with the SAME map / angle-map / list objects (or the same CSV path, rewritten in between)
        for _ in range(rng.choice([1, 1, 2])):
            k2 = rng.randint(1, max(1, min(N, kmax)))
            thr2 = int(sorted_vals[k2 - 1]) - 1 if rng.random() < 0.8 else int(sorted_vals[min(N - 1, k2)])
            case["then"].append(dict(thr=thr2, dn=rng.randint(max(1, dd // 2), int(6.5 * dd)), dd=dd, order=rng.choice(["zxz", "zzx"]),
                                     anglist=angle_list() if rng.random() < 0.6 else None, omit=rng.random() < 0.3))
    return case


def generate(rng, tier, n):
    dense_at = set()
    if tier == "quick":
        dense_at = {3, n // 2}
    elif tier == "thorough":
        dense_at = set(range(7, n, max(1, n // 22)))
    for i in range(n):
        if i in dense_at:
            yield gen_peaks(rng, tier, dense=True)
        elif rng.random() < 0.15:
            yield gen_peaks(rng, tier)
        else:
            yield gen_clean(rng, tier)


def _subcases(case):
    """the calls a case makes, each as a flat case of its own (follow-up calls see the caller's in-place edits accumulated)"""
    first = {k: v for k, v in case.items() if k != "then"}
    subs = [first]
    if case["kind"] == "clean":
        cur = [list(r) for r in case["rows"]]
        for t in case.get("then") or []:
            for col, vals in (t.get("set") or {}).items():
                for r_, v in zip(cur, vals):
                    r_[CI[col]] = v
            subs.append(dict(first, d=t["d"], keep_greater=t["keep_greater"], feature=t["feature"], omit=t.get("omit", False),
                             rows=[list(r) for r in cur], set=t.get("set") or {}))
    else:
        cur = case["anglist"]
        for t in case.get("then") or []:
            if t.get("anglist") is not None:
                cur = t["anglist"]
            subs.append(dict(first, thr=t["thr"], dn=t["dn"], dd=t["dd"], order=t["order"], anglist=cur, omit=t.get("omit", False),
                             rewrite=t.get("anglist") is not None))
    return subs


# ------------------------------------------------------------------ implementation adapters
def _quiet():
    return contextlib.redirect_stdout(io.StringIO())


def _attr(e):
    """an exception as an observation; `where` is empty when no frame of the traceback lies inside cryocat (harness / third party)"""
    where = ""
    for fr in reversed(traceback.extract_tb(e.__traceback__)):
        if "/cryocat/" in fr.filename.replace("\\", "/"):
            where = f"{os.path.basename(fr.filename)}:{fr.lineno}"
            break
    return {"error": f"{type(e).__name__}: {str(e)[:300]}", "where": where, "etype": type(e).__name__}


def _df_state(df):
    return (df.to_numpy(copy=True), list(df.index), [str(c) for c in df.columns], [str(t) for t in df.dtypes])


def _df_changed(df, state):
    vals, index, cols, dts = state
    if [str(c) for c in df.columns] != cols:
        return "columns"
    if list(df.index) != index:
        return "index"
    if [str(t) for t in df.dtypes] != dts:
        return "dtypes"
    now = df.to_numpy()
    if now.shape != vals.shape or not np.array_equal(now, vals):
        return "values"
    return ""


def _clean_call(df, sub, cryomotl):
    """one real clean_by_distance on the caller-owned DataFrame `df`; keywords equal to the documented defaults are omitted when asked"""
    rows = sub["rows"]
    state = _df_state(df)
    kw = {}
    if not (sub.get("omit") and sub["keep_greater"] is True):
        kw["keep_greater"] = sub["keep_greater"]
    if not sub.get("omit"):
        kw["metric_id"] = "score"
    try:
        m = cryomotl.Motl(df)
        with _quiet():
            m.clean_by_distance(sub["d"] / S, sub["feature"], **kw)
        out = m.df
    except Exception as e:
        o = _attr(e)
        o["input_modified"] = _df_changed(df, state)
        return o
    o = dict(input_modified=_df_changed(df, state), kept=None, unchanged=True, note="", dtypes={}, textual=[], n_out=int(len(out)))
    cols = [str(c) for c in out.columns]
    if cols != COLS:
        o["note"] = "columns " + ",".join(cols)[:200]
        o["unchanged"] = False
        return o
    # dtypes as returned (never coerced): a numeric field that comes back as text / object cannot be a particle field
    o["dtypes"] = {c: str(out[c].dtype) for c in COLS if str(out[c].dtype) != "float64"}
    o["textual"] = [c for c in COLS if out[c].dtype.kind not in "fiu"]
    if o["textual"]:
        return o
    vals = np.column_stack([out[c].to_numpy() for c in COLS]) if len(out) else np.zeros((0, 20))
    by_id = {r[CI["subtomo_id"]]: r for r in rows}
    index_of = {r[CI["subtomo_id"]]: i for i, r in enumerate(rows)}
    ids, same = [], True
    for r in vals:
        sid = float(r[CI["subtomo_id"]]) * S
        if sid != sid or sid != int(sid) or int(sid) not in by_id:
            same = False
            ids.append(-1)
            continue
        ids.append(index_of[int(sid)])
        if [float(v) * S for v in r] != [float(v) for v in by_id[int(sid)]]:
            same = False
    o["kept"] = ids
    o["unchanged"] = same
    return o


def _run_clean(case):
    import pandas as pd
    from cryocat import cryomotl
    subs = _subcases(case)
    arr = np.array(subs[0]["rows"], dtype=np.float64) / S
    df = pd.DataFrame(arr, columns=COLS, index=case.get("index"))  # the caller-owned object, shared by every call of the case
    calls = []
    for k, sub in enumerate(subs):
        if k > 0:
            for col, vals in sub["set"].items():  # a legitimate in-place edit by the caller between two calls
                df[col] = np.array(vals, dtype=np.float64) / S
        calls.append(_clean_call(df, sub, cryomotl))
    return dict(calls=calls)


def _write_csv(path, L):
    with open(path, "w") as f:
        for row in L:
            f.write(",".join(repr(float(v)) for v in row) + "\n")


def _peaks_call(Sm, Am, lst, L, sub, tmana):
    before = (Sm.copy(), Am.copy(), L.copy())
    kw = dict(scores_threshold=sub["thr"] / sub["sscale"])
    if not (sub.get("omit") and sub["order"] == "zxz"):
        kw["angles_order"] = sub["order"]
    if not (sub.get("omit") and sub["numbering"] == 0):
        kw["angles_numbering"] = sub["numbering"]

    def changed():
        bad = [nm for nm, a, b in (("scores_map", Sm, before[0]), ("angles_map", Am, before[1]), ("angles_list", L, before[2]))
               if a.shape != b.shape or a.dtype != b.dtype or not np.array_equal(a, b)]
        if isinstance(lst, str):
            try:
                txt = open(lst).read()
            except OSError:
                txt = None
            want = io.StringIO()
            for row in L:
                want.write(",".join(repr(float(v)) for v in row) + "\n")
            if txt != want.getvalue():
                bad.append("angles_list file")
        return ",".join(bad)
    try:
        with _quiet():
            m = tmana.scores_extract_particles(Sm, Am, lst, 7, sub["dn"] / sub["dd"], **kw)
    except Exception as e:
        o = _attr(e)
        o["input_modified"] = changed()
        if o["etype"] == "IndexError" and o["where"].startswith("tmana.py"):
            return dict(result="bad-angle", detail=o["error"][:100], input_modified=o["input_modified"])
        return o
    o = dict(input_modified=changed())
    if m is None:
        o["result"] = "empty"
        return o
    df = m.df
    want = ["x", "y", "z", "score", "phi", "theta", "psi"]
    missing = [c for c in want if c not in df.columns]
    if missing:
        return dict(o, result="peaks", rows=[], exact=False, textual=[], dtypes={}, note="missing columns " + ",".join(missing))
    o["dtypes"] = {c: str(df[c].dtype) for c in want}
    o["textual"] = [c for c in want if df[c].dtype.kind not in "fiu"]
    o["result"] = "peaks"
    if o["textual"]:
        return dict(o, rows=[], exact=False)
    rows, exact = [], True
    for x, y, z, s, phi, the, psi in zip(*[df[c].tolist() for c in want]):  # native python numbers of the returned dtype
        vals = [x, y, z, s * sub["sscale"], phi * sub["ascale"], the * sub["ascale"], psi * sub["ascale"]]
        if any(v != v or v in (float("inf"), float("-inf")) or v != int(v) for v in vals):
            exact = False
            rows.append([0 if (v != v or abs(v) == float("inf")) else int(round(v)) for v in vals])
        else:
            rows.append([int(v) for v in vals])
    return dict(o, rows=rows, exact=exact)


def _run_peaks(case):
    from cryocat import tmana
    subs = _subcases(case)
    nx, ny, nz = case["dims"]
    Sm = np.array(case["scores"], dtype=np.float64).reshape(nx, ny, nz) / case["sscale"]  # caller-owned, shared by every call
    Am = np.array(case["angles"], dtype=np.float64).reshape(nx, ny, nz)
    L = np.array(case["anglist"], dtype=np.float64) / case["ascale"]
    calls = []
    with tempfile.TemporaryDirectory(prefix="c07_") as td:
        path = os.path.join(td, "angles.csv")
        for k, sub in enumerate(subs):
            if k > 0 and sub.get("rewrite"):
                L[...] = np.array(sub["anglist"], dtype=np.float64) / case["ascale"]  # the caller rewrites the same array / the same file
            if case.get("list_as") == "csv":
                if k == 0 or sub.get("rewrite"):
                    _write_csv(path, L)
                lst = path
            else:
                lst = L
            calls.append(_peaks_call(Sm, Am, lst, L, sub, tmana))
    return dict(calls=calls)


def run_impl(case):
    return _run_clean(case) if case["kind"] == "clean" else _run_peaks(case)


# ------------------------------------------------------------------ model requests and judgement
def _clean_req(sub):
    return dict(d=sub["d"], keep_greater=1 if sub["keep_greater"] else 0, feature=sub["feature"], rows=sub["rows"])


def _peaks_req(sub):
    return dict(thr=sub["thr"], dn=sub["dn"], dd=sub["dd"], dims=sub["dims"], scores=sub["scores"], angles=sub["angles"],
                anglist=sub["anglist"], numbering=sub["numbering"], order=sub["order"])


def _reqs(sub, o):
    if sub["kind"] == "clean":
        reqs = [dict(op="clean", **_clean_req(sub))]
        if "error" not in o and o.get("kept") is not None and all(0 <= i < len(sub["rows"]) for i in o["kept"]):
            reqs.append(dict(op="check_clean", out=o["kept"], **_clean_req(sub)))
        return reqs
    reqs = [dict(op="peaks", **_peaks_req(sub))]
    if o.get("result") == "peaks" and not o.get("textual") and not o.get("note") and all(min(r[:3]) >= 0 for r in o["rows"]):
        reqs.append(dict(op="check_peaks", out=o["rows"], **_peaks_req(sub)))
    return reqs


def requests(case, obs):
    if "calls" not in obs:
        return []
    out = []
    for sub, o in zip(_subcases(case), obs["calls"]):
        out += _reqs(sub, o)
    return out


def _score_ties(sub):
    fi = CI[sub["feature"]]
    seen = set()
    for r in sub["rows"]:
        k = (r[fi], r[CI["score"]])
        if k in seen:
            return True
        seen.add(k)
    return False


def _raised(o):
    """an exception is a finding of the property only when cryocat itself raised it"""
    if not o.get("where"):
        return dict(kind="corr", clause="harness-or-library-raised", detail="no frame of the traceback lies inside cryocat: " + o["error"])
    return dict(kind="spec", clause="raises", detail=o["error"] + " @" + o["where"])


def _judge_clean(sub, o, rs):
    out = []
    if "error" in o:
        out.append(_raised(o))
        if o.get("input_modified"):
            out.append(dict(kind="spec", clause="caller-owned-input-modified", detail=f"the DataFrame passed to Motl(...) differs after the call: {o['input_modified']}"))
        return out
    model = rs[0]
    if "error" in model:
        return [dict(kind="corr", clause="model-rejects-input", detail=str(model))]
    n = len(sub["rows"])
    if o.get("input_modified"):
        out.append(dict(kind="spec", clause="caller-owned-input-modified", detail=f"the DataFrame passed to Motl(...) differs after clean_by_distance: {o['input_modified']}"))
    if o.get("textual"):
        out.append(dict(kind="spec", clause="numeric-field-returned-as-text", detail=f"columns {o['textual']} of the cleaned list are not numeric: { {c: o['dtypes'].get(c) for c in o['textual']} }"))
        return out
    kept = o["kept"]
    if kept is None or not o["unchanged"] or any(i < 0 for i in kept):
        out.append(dict(kind="spec", clause="remaining-not-an-input-particle", detail=f"a remaining row is not bit-identical to the input row with its subtomo_id {o.get('note','')}"))
    chk = rs[1] if len(rs) > 1 else None
    tie = _rows_tie(sub["rows"], sub["feature"], sub["d"])  # a pair at distance exactly d: reported only when both readings reject
    if chk is not None and "error" in chk:
        out.append(dict(kind="corr", clause="checker-rejects-encoding", detail=str(chk)))
    elif chk is not None:
        rejected = (not chk["ok"]) and (not tie or not chk["ok_le"])
        indep = chk["independent"] or (tie and chk["independent_le"])
        what = f"survivors {kept[:30]} of {n} particles (d={sub['d']/S}, keep_greater={sub['keep_greater']}, group field {sub['feature']}, keywords omitted={bool(sub.get('omit'))})"
        if rejected:
            badg = [f"{g['group']/S}:{g['clause']}" for g in chk["groups"] if not g["ok"]][:4]
            out.append(dict(kind="spec", clause=chk["clause"], detail=f"verified checker checkClean rejects the {what}" + (f"; the result is rejected under `dist <= d` as well ({chk['clause_le']})" if tie else "")
                            + (f"; groups failing on their own sub-list: {badg}" if badg else "")))
        elif not indep:
            badg = [f"{g['group']/S}:{g['clause']}" for g in chk["groups"] if not g["ok"]][:4]
            out.append(dict(kind="spec", clause="groups-affect-each-other", detail=f"verified checker, applied to each group's sub-list, rejects {badg}: {what}"))
    if o.get("dtypes") and not out:
        out.append(dict(kind="corr", clause="dtype-differs-from-input", detail=f"float64 columns came back as {o['dtypes']}"))
    if not out and kept != model["kept"]:
        if _score_ties(sub) and sorted(kept) != sorted(model["kept"]) and chk is not None and chk.get("ok"):
            pass  # equal scores processed in another order: a different, valid result (accepted by the verified checker)
        else:
            out.append(dict(kind="corr", clause="survivors-differ-from-model", detail=f"impl {kept[:30]} model {model['kept'][:30]}"))
    return out


def _judge_peaks(sub, o, rs):
    out = []
    if "error" in o:
        out.append(_raised(o))
        if o.get("input_modified"):
            out.append(dict(kind="spec", clause="caller-owned-input-modified", detail=f"changed by the call: {o['input_modified']}"))
        return out
    model = rs[0]
    if "error" in model:
        return [dict(kind="corr", clause="model-rejects-input", detail=str(model))]
    if o.get("input_modified"):
        out.append(dict(kind="spec", clause="caller-owned-input-modified", detail=f"changed by scores_extract_particles: {o['input_modified']}"))
    nb, L = sub["numbering"], len(sub["anglist"])
    sup = [(s, a) for s, a in zip(sub["scores"], sub["angles"]) if s > sub["thr"]]
    res = o["result"]
    if res == "empty":
        if sup:
            out.append(dict(kind="spec", clause="no-peaks-although-voxels-exceed-threshold", detail=f"{len(sup)} voxels above the threshold, None returned"))
    elif res == "bad-angle":
        if all(nb <= a < nb + L for _, a in sup):  # every entry a peak could read points to a list row: the call must not raise
            out.append(dict(kind="spec", clause="raises", detail="IndexError from the angle list although every supra-threshold voxel's angle-map entry points to a row of the list: " + o.get("detail", "")))
        elif model["result"] != "bad-angle":
            out.append(dict(kind="corr", clause="result-kind-differs-from-model", detail="IndexError from the angle list: " + o.get("detail", "")))
        return out
    else:
        if o.get("textual"):
            out.append(dict(kind="spec", clause="numeric-field-returned-as-text", detail=f"columns {o['textual']} of the extracted list are not numeric: {o['dtypes']}"))
            return out
        if o.get("note") or not o["exact"]:
            out.append(dict(kind="spec", clause="peak-does-not-carry-voxel-score-position-angles-or-is-below-threshold", detail="a peak value is not on the input grid " + o.get("note", "")))
        chk = rs[1] if len(rs) > 1 else None
        if chk is None:
            if not out:
                out.append(dict(kind="spec", clause="peak-does-not-carry-voxel-score-position-angles-or-is-below-threshold", detail="a peak position is below 1 (no voxel has it as 1-based position)"))
        elif "error" in chk:
            out.append(dict(kind="corr", clause="checker-rejects-encoding", detail=str(chk)))
        elif not chk["ok"]:
            out.append(dict(kind="spec", clause=chk["clause"],
                            detail=f"verified checker checkPeaks rejects the peak table (first rows {o['rows'][:4]}; {len(o['rows'])} peaks for {len(sup)} voxels above the threshold; D={sub['dn']}/{sub['dd']}, thr={sub['thr']}, order={sub['order']}, numbering={sub['numbering']}, list as {sub.get('list_as')}, keywords omitted={bool(sub.get('omit'))})"))
    if not out:
        if model["result"] != res:
            out.append(dict(kind="corr", clause="result-kind-differs-from-model", detail=f"impl {res} model {model['result']}"))
        elif res == "peaks" and model["rows"] != o["rows"]:
            out.append(dict(kind="corr", clause="peak-table-differs-from-model", detail=f"impl {o['rows'][:5]} model {model['rows'][:5]}"))
    return out


def judge(case, obs, resps):
    if "calls" not in obs:  # raised outside the guarded library calls
        return [_raised(obs) if "error" in obs else dict(kind="corr", clause="harness-or-library-raised", detail=str(obs)[:300])]
    out, at = [], 0
    for k, (sub, o) in enumerate(zip(_subcases(case), obs["calls"])):
        nreq = len(_reqs(sub, o))
        rs = resps[at:at + nreq]
        at += nreq
        fs = _judge_clean(sub, o, rs) if case["kind"] == "clean" else _judge_peaks(sub, o, rs)
        for f in fs:
            if k > 0:
                f["detail"] = f"[call {k + 1} of the case, same caller-owned inputs as the calls before] " + f["detail"]
        out += fs
    return out


def classify(case, obs, finding):
    return None  # no open known finding belongs to C07


def nontrivial(case, obs):
    if "calls" not in obs or not obs["calls"] or "error" in obs["calls"][0]:
        return False
    o = obs["calls"][0]
    if case["kind"] == "clean":
        n = len(case["rows"])
        return n >= 3 and o.get("kept") is not None and 1 <= len(o["kept"]) < n
    if o.get("result") != "peaks":
        return False
    nsup = sum(1 for s in case["scores"] if s > case["thr"])
    return nsup >= 2 and len(o["rows"]) < nsup


def _bucket(n, edges):
    for e in edges:
        if n <= e:
            return f"<={e}"
    return f">{edges[-1]}"


def stats(case, obs, resps):
    calls = obs.get("calls") or [{}]
    o = calls[0]
    if case["kind"] == "clean":
        n = len(case["rows"])
        fi = CI[case["feature"]]
        st = {"kind": "clean", "clean.n": _bucket(n, [2, 10, 40, 80, 200, 400]), "clean.groups": len(set(r[fi] for r in case["rows"])),
              "clean.feature": case["feature"], "clean.keep_greater": case["keep_greater"], "clean.layout": case.get("layout", "corpus"),
              "clean.scores": case.get("scores", "corpus"), "clean.d": _bucket(case["d"] / S, [1, 2, 5, 10, 24]),
              "clean.shifted": any(r[CI["shift_x"]] or r[CI["shift_y"]] or r[CI["shift_z"]] for r in case["rows"]),
              "clean.group_values": case.get("groups", "corpus"), "clean.index": case.get("index_kind", "range"),
              "clean.keywords_omitted": bool(case.get("omit")), "clean.calls_on_same_input": 1 + len(case.get("then") or []),
              "clean.exact_distance_tie": _rows_tie(case["rows"], case["feature"], case["d"])}
        if "error" not in o and o.get("kept") is not None:
            st["clean.removed_fraction"] = _bucket(100 * (n - len(o["kept"])) // max(1, n), [0, 25, 50, 75, 99])
            st["clean.returned_dtypes"] = "float64" if not o.get("dtypes") else str(sorted(set(o["dtypes"].values())))
            if resps and "kept" in resps[0] and resps[0]["kept"] != o["kept"]:
                st["clean.tie_divergence"] = True
        return st
    nsup = sum(1 for s in case["scores"] if s > case["thr"])
    st = {"kind": "peaks", "peaks.voxels": _bucket(case["dims"][0] * case["dims"][1] * case["dims"][2], [64, 512, 4096, 27000, 64000]),
          "peaks.above_threshold": _bucket(nsup, [0, 1, 10, 100, 500, 1500, 32768]), "peaks.diameter": _bucket(case["dn"] / case["dd"], [0.99, 1, 2, 3, 5, 7]),
          "peaks.order": case["order"], "peaks.numbering": case["numbering"], "peaks.list_as": case.get("list_as"),
          "peaks.threshold": case.get("thr_kind", "corpus"), "peaks.result": o.get("result", "error"), "peaks.field": case.get("field", "corpus"),
          "peaks.flat_box": min(case["dims"]) <= 2, "peaks.keywords_omitted": bool(case.get("omit")),
          "peaks.calls_on_same_input": 1 + len(case.get("then") or [])}
    if o.get("result") == "peaks":
        st["peaks.extracted"] = _bucket(len(o["rows"]), [1, 5, 20, 100, 500])
        st["peaks.suppressed"] = _bucket(nsup - len(o["rows"]), [0, 5, 50, 500])
        st["peaks.returned_dtypes"] = str(sorted(set((o.get("dtypes") or {}).values())))
    return st


def sample_view(case):
    if case["kind"] == "clean":
        return dict(kind="clean", n=len(case["rows"]), d=case["d"] / S, feature=case["feature"], keep_greater=case["keep_greater"], layout=case.get("layout"),
                    group_values=case.get("groups"), index=case.get("index_kind"), keywords_omitted=case.get("omit"), further_calls=len(case.get("then") or []),
                    first_rows=[{c: r[CI[c]] / S for c in ("score", case["feature"], "x", "y", "z", "shift_x")} for r in case["rows"][:3]])
    return dict(kind="peaks", dims=case["dims"], thr=case["thr"] / case["sscale"], diameter=case["dn"] / case["dd"], order=case["order"],
                numbering=case["numbering"], list_rows=len(case["anglist"]), list_as=case.get("list_as"), keywords_omitted=case.get("omit"),
                further_calls=len(case.get("then") or []), above_threshold=sum(1 for s in case["scores"] if s > case["thr"]))


# ------------------------------------------------------------------ shrinking
def _cut(case, keep):
    """the clean case restricted to the rows `keep` (positions), follow-up edits and index labels cut alike"""
    c = dict(case, rows=[case["rows"][i] for i in keep])
    if case.get("index") is not None:
        c["index"] = [case["index"][i] for i in keep]
    c["then"] = [dict(t, set={col: [v[i] for i in keep] for col, v in (t.get("set") or {}).items()}) for t in case.get("then") or []]
    return c


def shrink(case):
    subs = _subcases(case)
    if len(subs) > 1:
        yield dict(case, then=[])
        for sub in subs[1:]:  # a follow-up call as a case of its own
            alone = {k: v for k, v in sub.items() if k not in ("set", "rewrite")}
            alone["then"] = []
            yield alone
        if len(case["then"]) > 1:
            yield dict(case, then=case["then"][:1])
    if case["kind"] == "clean":
        rows = case["rows"]
        n = len(rows)
        if n > 1:
            yield _cut(case, list(range(n // 2)))
            yield _cut(case, list(range(n // 2, n)))
            if n <= 24:
                for i in range(n):
                    yield _cut(case, [j for j in range(n) if j != i])
            else:
                w = max(1, n // 8)
                for k in range(0, n, w):
                    yield _cut(case, [j for j in range(n) if not (k <= j < k + w)])
        if case.get("index") is not None:
            yield dict(case, index=None)
        if case.get("omit"):
            yield dict(case, omit=False)
        # fold the shifts into the coordinates
        simple = []
        for r in rows:
            q = list(r)
            for c, sc in (("x", "shift_x"), ("y", "shift_y"), ("z", "shift_z")):
                q[CI[c]] = r[CI[c]] + r[CI[sc]]
                q[CI[sc]] = 0
            simple.append(q)
        if simple != rows:
            yield dict(case, rows=simple)
        return
    nx, ny, nz = case["dims"]
    big = nx * ny * nz > 20000  # one evaluation costs seconds: halvings only
    sc = np.array(case["scores"], dtype=object).reshape(nx, ny, nz)
    an = np.array(case["angles"], dtype=object).reshape(nx, ny, nz)
    for ax in range(3):
        m = case["dims"][ax]
        if m > 1:
            for sl in ((slice(0, m // 2), slice(m // 2, m)) if big else (slice(0, m // 2), slice(m // 2, m), slice(0, m - 1), slice(1, m))):
                idx = [slice(None)] * 3
                idx[ax] = sl
                s2, a2 = sc[tuple(idx)], an[tuple(idx)]
                yield dict(case, dims=list(s2.shape), scores=[int(v) for v in s2.ravel()], angles=[int(v) for v in a2.ravel()])
    above = sorted(s for s in case["scores"] if s > case["thr"])
    if len(above) > 2:
        yield dict(case, thr=above[len(above) // 2] - 1)
        if not big:
            yield dict(case, thr=above[-3] + 1)
    if case.get("list_as") == "csv":
        yield dict(case, list_as="array")
    if case.get("omit"):
        yield dict(case, omit=False)


def corpus():
    """stored cases; cases written before the hardening pass lack the newer fields"""
    import glob, json
    out = []
    for p in sorted(glob.glob(os.path.join(core.VERIF, "corpus", PROP, "*.json"))):
        d = json.load(open(p))
        out.extend(d if isinstance(d, list) else [d])
    for c in out:
        c.setdefault("then", [])
        c.setdefault("omit", False)
        if c["kind"] == "clean":
            c.setdefault("index", None)
    return out


# ------------------------------------------------------------------ probes of recorded assumptions
def probes(rng):
    from scipy.spatial import KDTree
    out = []
    pts = np.array([[rng.randint(0, 8) for _ in range(3)] for _ in range(300)])
    tree = KDTree(pts)
    ok = True
    detail = ""
    for r in (1.0, 2.0, 3.0, 5.0, 1.5, 2.25):
        for i in range(0, 300, 17):
            got = sorted(tree.query_ball_point(pts[i], r))
            diff = pts - pts[i]
            want = sorted(np.nonzero((diff * diff).sum(axis=1) <= r * r)[0].tolist())
            if got != want:
                ok = False
                detail = f"r={r} point {pts[i].tolist()}"
    out.append(dict(name="KDTree.query_ball_point = closed brute-force ball (exact ties at integer radii included)", ok=ok, detail=detail))
    a = np.array([[3.0, 4.0, 0.0], [0.0, 0.0, 0.0], [1.0, 2.0, 2.0]])
    nrm = np.linalg.norm(a - np.zeros((3, 3)), axis=1)
    out.append(dict(name="np.linalg.norm exact on perfect squares of the grid", ok=bool(nrm[0] == 5.0 and nrm[1] == 0.0 and nrm[2] == 3.0), detail=str(nrm)))
    big = np.array([(10 ** 9 + 47) * S, (10 ** 9 + 48) * S], dtype=np.float64) / S
    out.append(dict(name="group ids up to 1e9+50 on the 2^-10 grid are exact float64 values (adjacent ids stay different)", ok=bool(big[0] == 10 ** 9 + 47 and big[1] - big[0] == 1.0), detail=str(big)))
    return out


LEVEL_TEXT = ("Lean 4 theorems about an executable model of the greedy suppression shared by Motl.clean_by_distance and tmana.scores_extract_particles: "
              "for every candidate list, every suppression relation and every processing order non-increasing in score (greedy_sublist/_separated/_dominated); "
              "for every particle list, grouping field, radius and score direction (cleanByDistance_spec = separated + dominated + remaining + groups independent, "
              "clean_single_group); the clauses decompose over the groups for ANY claimed result (spec_iff_groups); for score/angle maps of any size given as flat "
              "arrays (peaks_above_threshold, peaks_carry, extractPeaks_reads_maps, peaks_separated, peaks_far, peaks_cover, extractPeaks_covers_map, peaks_none_iff, "
              "peakOf_below_numbering); soundness of the checkers run on the implementation's outputs (checkClean_sound incl. Remaining and no-duplicate, "
              "checkCleanLe_sound for lists with an exact-distance tie, checkIndependent_sound for the per-group verdicts, checkPeaks_sound). The model is tied to the "
              "source by regenerated operators / directions / offsets / column permutations / signature defaults / normalised whole-body digests of the six functions "
              "(28 anchors, rename-insensitive; 9 translator theorems) and by an exact differential run of the real functions against the model on generated lists and maps")
LEVEL_NOTE = ("trusted: Lean kernel; translator anchors; integer scaling of dyadic inputs; squared-distance form of the comparisons (d > 0); "
              "KD-tree ball query = brute force (probed); numpy exact on the grid. Not modelled: dist_mask, cluster_size, n_particles, sigma/triangle thresholds, "
              "symmetry randomisation, tomo_mask, file output")
TECHNIQUE = "Lean 4 proof (fold invariants of a greedy rule, list/permutation lemmas, index arithmetic) + regenerated operators, defaults and body digests + verified checkers on the implementation's output + exact differential correspondence"
DESIGN_REF = "DESIGN.md section 4, C07; Appendix A.1"
