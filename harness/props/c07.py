"""C07 — score-ranked distance suppression keeps a separated, dominating set (DESIGN.md section 4, C07).

Two entry points of cryoCAT are checked against one Lean model of the greedy rule:
  * Motl.clean_by_distance            (cryocat/cryomotl.py, geom.point_pairwise_dist)
  * tmana.scores_extract_particles    (cryocat/tmana.py, ioutils.rot_angles_load)
All numbers travel as integers: every value lies on a dyadic grid and is sent multiplied by the grid's power of two
(positions, radius, scores and group values by 2**10; map scores / angles by the scale stored in the case), so the
numpy float computation is exact and equals the model's integer computation.
"""
import os, io, ast, math, tempfile, contextlib
import numpy as np
import core

PROP = "C07"
COUNT = {"quick": 240, "thorough": 4400, "search": 1500}
PARALLEL = True
S = 1024  # grid 2**-10 for particle lists
COLS = ["score", "geom1", "geom2", "subtomo_id", "tomo_id", "object_id", "subtomo_mean", "x", "y", "z",
        "shift_x", "shift_y", "shift_z", "geom3", "geom4", "geom5", "phi", "psi", "theta", "class"]
CI = {c: i for i, c in enumerate(COLS)}
FEATURES = ["tomo_id", "object_id", "class", "subtomo_mean", "geom1", "geom2", "geom3", "geom4", "geom5"]
RULE = ("85% particle lists: 1..400 particles (quick mostly <= 80) on the 2^-10 grid laid out as clusters / chains with spacing just "
        "above and below d / uniform boxes / exact duplicates / copies of one arrangement in several groups, positions split at random "
        "into x + shift_x, 1..4 groups under one of 9 grouping fields (other id fields filled with unrelated values), scores distinct, "
        "tied (15%) or correlated with position, either score direction, d in (0.25, 24]; exact distance ties inside a group are excluded "
        "(d is nudged). 15% score maps: boxes up to 16^3 quick / 40^3 thorough incl. flat and non-cubic ones, plateau-free scores "
        "(blob field * N + permutation), threshold between two scores or exactly equal to a voxel's score or above the maximum, "
        "diameter 0.5..6.5 in quarter steps (integer diameters give exact distance ties, which the closed ball decides), angle list "
        "1..40 rows as ndarray or CSV file, numbering 0/1, order zxz/zzx, 3% angle-map entries beyond the list. "
        "non-trivial: list with >= 3 particles of which >= 1 is removed and >= 1 kept / map with >= 2 voxels above threshold of which "
        ">= 1 is suppressed; distinct = distinct case content")
ASSUMPTIONS = [
    "numpy float64 arithmetic on the dyadic grids used is exact, so `norm(diff) < d` decides like `dist^2 < d^2` for d > 0 (sqrt is correctly rounded and monotone; squares differ by >= 2^-20)",
    "scipy.spatial.KDTree.query_ball_point(c, r) = brute-force closed ball dist <= r on integer coordinates (probed each run)",
    "np.argsort / sorted order candidates by score; how equal scores are ordered is irrelevant to the theorems (any non-increasing order) and cases with tied scores are judged by the verified checker only",
    "pandas: boolean-mask selection keeps row order, concat keeps order, read_csv(header=None) parses repr(float) exactly",
    "sklearn DBSCAN(min_samples=1) labels every point (no peak is dropped when cluster_size is None)",
]
TRUSTED = ["harness scaling of dyadic values to integers (props/c07.py), comparison of squared distances instead of distances (d > 0)"]


# ------------------------------------------------------------------ translator
CMP = {"Lt": "lt", "LtE": "le", "Gt": "gt", "GtE": "ge"}


def _cmp(node):
    return CMP.get(type(node.ops[0]).__name__, "other")


def translate(src):
    M, G, T, I = "cryocat/cryomotl.py", "cryocat/geom.py", "cryocat/tmana.py", "cryocat/ioutils.py"
    n = core.norm_expr
    Missing = core.AnchorMissing

    def first(fn, pred, what):
        for x in ast.walk(fn):
            if pred(x):
                return x
        raise Missing(what)

    def assign_to(fn, name, what=None):
        return [x for x in ast.walk(fn) if isinstance(x, ast.Assign) and len(x.targets) == 1 and n(x.targets[0]) == name]

    # ---- Motl.clean_by_distance
    def clean_fn():
        return src.find(M, "Motl.clean_by_distance")

    def a_dist_cmp():
        c = first(clean_fn(), lambda x: isinstance(x, ast.Compare) and n(x.left) == "dist" and len(x.ops) == 1 and n(x.comparators[0]) == "d_cut",
                  "clean_by_distance: `dist <op> d_cut`")
        return _cmp(c)

    def a_self():
        a = assign_to(clean_fn(), "d_cut_idx[j]")
        if not a:
            return False
        return n(a[0].value) == "False"

    def a_sort():
        iff = first(clean_fn(), lambda x: isinstance(x, ast.If) and n(x.test) == "keep_greater", "clean_by_distance: `if keep_greater:`")

        def direction(body):
            for st in body:
                if isinstance(st, ast.Assign) and n(st.targets[0]) == "sort_idx":
                    v = n(st.value)
                    if v == "np.argsort(temp_scores)[::-1]":
                        return True
                    if v == "np.argsort(temp_scores)":
                        return False
                    raise Missing(f"clean_by_distance: sort_idx = {v}")
            raise Missing("clean_by_distance: sort_idx assignment")
        return [direction(iff.body), direction(iff.orelse)]

    def a_groups():
        fn = clean_fn()
        feats = assign_to(fn, "features")
        sub = assign_to(fn, "feature_m")
        loop = [x for x in ast.walk(fn) if isinstance(x, ast.For) and n(x.target) == "f"]
        if not (feats and sub and loop):
            raise Missing("clean_by_distance: features / feature_m / for f")
        call = sub[0].value
        kw = {k.arg: n(k.value) for k in call.keywords} if isinstance(call, ast.Call) else {}
        return (n(feats[0].value) == "np.unique(self.get_feature(feature_id))" and n(loop[0].iter) == "features"
                and isinstance(call, ast.Call) and n(call.func) == "self.get_motl_subset" and n(call.args[0]) == "f"
                and kw.get("feature_id") == "feature_id"
                and "feature_m.df.iloc[temp_keep,:]" in n(fn) and "feature_m.df[metric_id].values" in n(fn))

    def a_pos():
        fn = clean_fn()
        p = assign_to(fn, "pos")
        d = assign_to(fn, "dist")
        if not (p and d):
            raise Missing("clean_by_distance: pos / dist")
        return n(p[0].value) == "feature_m.get_coordinates()" and n(d[0].value) == "geom.point_pairwise_dist(pos[j,:],pos)"

    def a_coords():
        fn = src.find(M, "Motl.get_coordinates")
        iff = first(fn, lambda x: isinstance(x, ast.If) and n(x.test) == "tomo_numberisNone", "get_coordinates: `if tomo_number is None`")
        st = iff.body[0]
        if not (isinstance(st, ast.Assign) and isinstance(st.value, ast.BinOp) and isinstance(st.value.op, ast.Add)):
            raise Missing("get_coordinates: coord = a + b")
        lists = []
        for side in (st.value.left, st.value.right):
            lit = [x for x in ast.walk(side) if isinstance(x, ast.List)]
            if not lit or not n(side).startswith("self.df.loc[:,") or not n(side).endswith(".values"):
                raise Missing("get_coordinates: self.df.loc[:, [...]].values")
            lists.append(ast.literal_eval(lit[0]))
        return lists

    def a_norm():
        fn = src.find(G, "point_pairwise_dist")
        a = [x for x in assign_to(fn, "pairwise_dist") if "norm" in n(x.value)]
        if not a:
            raise Missing("point_pairwise_dist: norm")
        return n(a[0].value) == "np.linalg.norm(coord_1-coord_2,axis=1)"

    # ---- tmana.scores_extract_particles
    def ext_fn():
        return src.find(T, "scores_extract_particles")

    def b_thr():
        c = first(ext_fn(), lambda x: isinstance(x, ast.Call) and n(x.func) == "np.where" and x.args and isinstance(x.args[0], ast.Compare)
                  and n(x.args[0].left) == "scores_map" and n(x.args[0].comparators[0]) == "threshold", "scores_extract_particles: np.where(scores_map <op> threshold)")
        return _cmp(c.args[0])

    def b_ball():
        c = first(ext_fn(), lambda x: isinstance(x, ast.Call) and isinstance(x.func, ast.Attribute) and x.func.attr == "query_ball_point",
                  "scores_extract_particles: query_ball_point")
        if n(c.func.value) != "tree" or n(c.args[0]) != "coord" or "KDTree([coordforcoord,scoreinscored_coords])" not in n(ext_fn()):
            raise Missing("scores_extract_particles: tree.query_ball_point(coord, r)")
        return n(c.args[1])

    def b_score_cmp():
        c = first(ext_fn(), lambda x: isinstance(x, ast.Compare) and n(x.left) == "coord_to_score[nearby_coord_tuple]" and n(x.comparators[0]) == "score",
                  "scores_extract_particles: coord_to_score[...] <op> score")
        return _cmp(c)

    def b_sorted():
        a = assign_to(ext_fn(), "scored_coords")
        if not a or not isinstance(a[0].value, ast.Call) or n(a[0].value.func) != "sorted":
            raise Missing("scores_extract_particles: scored_coords = sorted(...)")
        kw = {k.arg: n(k.value) for k in a[0].value.keywords}
        if kw.get("key") != "lambdax:x[1]":
            raise Missing("scores_extract_particles: sorted key")
        return kw.get("reverse", "False") == "True"

    def fill_dict():
        c = first(ext_fn(), lambda x: isinstance(x, ast.Call) and n(x.func) == "motl.fill" and x.args and isinstance(x.args[0], ast.Dict),
                  "scores_extract_particles: motl.fill({...})")
        return {ast.literal_eval(k): v for k, v in zip(c.args[0].keys, c.args[0].values)}

    def b_pos():
        d = fill_dict()
        out = []
        for name in ("x", "y", "z"):
            v = d.get(name)
            if v is None:
                raise Missing(f"motl.fill: key {name}")
            off = 0
            if isinstance(v, ast.BinOp) and isinstance(v.op, (ast.Add, ast.Sub)) and isinstance(v.right, ast.Constant) and isinstance(v.right.value, int):
                off = v.right.value if isinstance(v.op, ast.Add) else -v.right.value
                v = v.left
            txt = n(v)
            if not (txt.startswith("rpos[:,") and txt.endswith("]") and txt[7:-1].isdigit()) or off < 0:
                raise Missing(f"motl.fill: {name} = {txt}")
            out.append((name, int(txt[7:-1]), off))
        return out

    def b_angidx():
        a = assign_to(ext_fn(), "ang_idx")
        if not a:
            raise Missing("scores_extract_particles: ang_idx")
        v = a[0].value
        if not (isinstance(v, ast.BinOp) and n(v.right) == "angles_numbering"):
            raise Missing("scores_extract_particles: ang_idx = ... angles_numbering")
        left = n(v.left)
        pre, post = "angles_map[", "].astype(int)"
        if not (left.startswith(pre) and left.endswith(post)):
            raise Missing("scores_extract_particles: angles_map[...].astype(int)")
        parts = left[len(pre):-len(post)].split("],")
        cols = []
        for p in parts:
            p = p if p.endswith("]") else p + "]"
            if not (p.startswith("rpos[:,") and p[7:-1].isdigit()):
                raise Missing("scores_extract_particles: angles_map index " + p)
            cols.append(int(p[7:-1]))
        return [cols, isinstance(v.op, ast.Sub)]

    def b_angcols():
        out = []
        for name in ("phi", "theta", "psi"):
            a = [x for x in assign_to(ext_fn(), name) if n(x.value).startswith("anglist[ang_idx,")]
            if not a:
                raise Missing(f"scores_extract_particles: {name} = anglist[ang_idx, k]")
            k = n(a[0].value)[len("anglist[ang_idx,"):-1]
            if not k.isdigit():
                raise Missing(f"scores_extract_particles: {name} column {k}")
            out.append((name, int(k)))
        return out

    def b_direct():
        d = fill_dict()
        fn = n(ext_fn())
        return (all(n(d[k]) == k for k in ("phi", "theta", "psi") if k in d) and all(k in d for k in ("phi", "theta", "psi", "score"))
                and n(d["score"]) == "filtered_scores"
                and "anglist=ioutils.rot_angles_load(angles_list,angles_order=angles_order)" in fn
                and "rpos=filtered_coords[filtered_hit_idx]" in fn
                and "filtered_coords.append((coord,score))" in fn)

    # ---- ioutils.rot_angles_load
    def load_fn():
        return src.find(I, "rot_angles_load")

    def branch(test_txt):
        return first(load_fn(), lambda x: isinstance(x, ast.If) and n(x.test) == test_txt, f"rot_angles_load: `if {test_txt}`")

    def c_perm():
        br = branch("isinstance(input_angles,np.ndarray)")
        if not any(isinstance(st, ast.Assign) and n(st.targets[0]) == "angles" and n(st.value) in ("input_angles.copy()", "input_angles") for st in br.body):
            raise Missing("rot_angles_load: angles = input_angles.copy()")
        zz = [x for st in br.body for x in ast.walk(st) if isinstance(x, ast.If) and n(x.test) in ("angles_order=='zzx'", 'angles_order=="zzx"')]
        if not zz:
            return [0, 1, 2]  # the array branch does not reorder: this IS what the source does
        a = [st for st in zz[0].body if isinstance(st, ast.Assign) and n(st.targets[0]) == "angles"]
        if not a or not n(a[0].value).startswith("angles[:,[") or zz[0].orelse:
            raise Missing("rot_angles_load: angles = angles[:, [..]]")
        perm = ast.literal_eval(n(a[0].value)[len("angles[:,"):-1])
        if not (isinstance(perm, list) and all(isinstance(k, int) and k >= 0 for k in perm)):
            raise Missing("rot_angles_load: permutation literal")
        return perm

    def c_file():
        br = branch("isinstance(input_angles,str)")
        zz = [x for st in br.body for x in ast.walk(st) if isinstance(x, ast.If) and n(x.test) in ("angles_order=='zzx'", 'angles_order=="zzx"')]
        if not zz:
            raise Missing("rot_angles_load: file branch zzx")

        def names(body):
            a = [st for st in body if isinstance(st, ast.Assign) and n(st.targets[0]) == "angles.columns"]
            if not a:
                raise Missing("rot_angles_load: angles.columns = [...]")
            return ast.literal_eval(a[0].value)
        sel = [st for st in br.body if isinstance(st, ast.Assign) and n(st.targets[0]) == "angles" and n(st.value).startswith("angles.loc[:,[")]
        if not sel or not n(sel[0].value).endswith("].to_numpy()"):
            raise Missing("rot_angles_load: angles.loc[:, [...]].to_numpy()")
        return [names(zz[0].body), names(zz[0].orelse), ast.literal_eval(n(sel[0].value)[len("angles.loc[:,"):-len(".to_numpy()") - 1])]

    dist_cmp = src.anchor("clean_by_distance:dist<d_cut", a_dist_cmp)
    self_ex = src.anchor("clean_by_distance:d_cut_idx[j]=False", a_self)
    sort = src.anchor("clean_by_distance:argsort-directions", a_sort)
    groups = src.anchor("clean_by_distance:group-loop-by-feature_id", a_groups)
    pos = src.anchor("clean_by_distance:pos-of-group/point_pairwise_dist", a_pos)
    coords = src.anchor("get_coordinates:xyz+shifts", a_coords)
    norm = src.anchor("point_pairwise_dist:euclidean-norm", a_norm)
    thr = src.anchor("scores_extract_particles:scores_map>threshold", b_thr)
    ball = src.anchor("scores_extract_particles:query_ball_point-radius", b_ball)
    scmp = src.anchor("scores_extract_particles:<=score", b_score_cmp)
    srt = src.anchor("scores_extract_particles:sorted-reverse", b_sorted)
    ppos = src.anchor("scores_extract_particles:fill-xyz+1", b_pos)
    aidx = src.anchor("scores_extract_particles:ang_idx", b_angidx)
    acols = src.anchor("scores_extract_particles:phi-theta-psi-columns", b_angcols)
    direct = src.anchor("scores_extract_particles:fill-direct", b_direct)
    perm = src.anchor("rot_angles_load:array-zzx-permutation", c_perm)
    filen = src.anchor("rot_angles_load:file-zzx-column-names", c_file)

    def b(v):
        return "true" if v else "false"

    def cmp(v):
        return "." + (v or "other")

    sort = sort or [True, False]
    coords = coords or [["x", "y", "z"], ["shift_x", "shift_y", "shift_z"]]
    ppos = ppos or [("x", 0, 1), ("y", 1, 1), ("z", 2, 1)]
    aidx = aidx or [[0, 1, 2], True]
    acols = acols or [("phi", 0), ("theta", 1), ("psi", 2)]
    perm = perm if perm is not None else [0, 2, 1]
    filen = filen or [["phi", "psi", "theta"], ["phi", "theta", "psi"], ["phi", "theta", "psi"]]
    nat_list = lambda xs: "[" + ", ".join(str(int(x)) for x in xs) + "]"
    return f"""-- GENERATED by harness/props/c07.py from {M}, {G}, {T}, {I}; do not edit
namespace CryoCat.Gen.C07
inductive Cmp | lt | le | gt | ge | other
deriving DecidableEq, Repr
def anchorsOk : Bool := {b(src.ok)}
-- Motl.clean_by_distance
def cleanDistCmp : Cmp := {cmp(dist_cmp)}
def cleanSelfExcluded : Bool := {b(self_ex)}
def cleanSortDescGreater : Bool := {b(sort[0])}
def cleanSortDescLower : Bool := {b(sort[1])}
def cleanGroupsByFeature : Bool := {b(groups)}
def cleanPosFromGroup : Bool := {b(pos)}
def coordColumns : List String := {core.lean_str_list(coords[0])}
def shiftColumns : List String := {core.lean_str_list(coords[1])}
def distIsEuclidNorm : Bool := {b(norm)}
-- tmana.scores_extract_particles
def peakThrCmp : Cmp := {cmp(thr)}
def peakBallRadius : String := {core.lean_str(ball or "?")}
def peakScoreCmp : Cmp := {cmp(scmp)}
def peakSortDesc : Bool := {b(srt)}
def peakPosFill : List (String × Nat × Nat) := [{", ".join(f"({core.lean_str(a)}, {c}, {o})" for a, c, o in ppos)}]
def peakAngIdxCols : List Nat := {nat_list(aidx[0])}
def peakAngIdxSubtractsNumbering : Bool := {b(aidx[1])}
def peakAngleCols : List (String × Nat) := [{", ".join(f"({core.lean_str(a)}, {c})" for a, c in acols)}]
def peakFillDirect : Bool := {b(direct)}
-- ioutils.rot_angles_load
def zzxArrayPerm : List Nat := {nat_list(perm)}
def zzxFileNames : List String := {core.lean_str_list(filen[0])}
def zxzFileNames : List String := {core.lean_str_list(filen[1])}
def fileSelect : List String := {core.lean_str_list(filen[2])}
end CryoCat.Gen.C07
"""


# ------------------------------------------------------------------ generators: particle lists
def _grid(rng, lo, hi):
    """random grid value (integer numerator at scale S) in [lo, hi] (given in voxels)"""
    return rng.randint(int(lo * S), int(hi * S))


def _layout(rng, n, d):
    """n positions (numerators) and a label"""
    kind = rng.choice(["cluster", "cluster", "chain", "chain", "uniform", "dup", "mixed"])
    pts = []
    if kind == "cluster":
        k = max(1, n // rng.randint(2, 8))
        centres = [[_grid(rng, 0, 300) for _ in range(3)] for _ in range(k)]
        spread = max(1, int(d * rng.choice([0.4, 0.8, 1.2, 2.0])))
        for i in range(n):
            c = rng.choice(centres)
            pts.append([c[a] + rng.randint(-spread, spread) for a in range(3)])
    elif kind == "chain":
        # points along a line, spacing just above / below d (margin >= 2^-8 = 4 grid units)
        axis = rng.choice([(1, 0, 0), (0, 1, 0), (0, 0, 1)])
        p = [_grid(rng, 0, 100) for _ in range(3)]
        for i in range(n):
            pts.append(list(p))
            step = d + rng.choice([-1, 1, 1]) * rng.choice([4, 5, 8, 16, max(4, d // 7)])
            step = max(1, step)
            if rng.random() < 0.1:
                step = d * 3
            p = [p[a] + axis[a] * step + (rng.randint(-2, 2) if rng.random() < 0.3 and not axis[a] else 0) for a in range(3)]
        if rng.random() < 0.5:
            rng.shuffle(pts)
    elif kind == "uniform":
        side = max(2.0, (n ** (1 / 3)) * (d / S) * rng.choice([0.5, 0.8, 1.2]))
        pts = [[_grid(rng, 0, side) for _ in range(3)] for _ in range(n)]
    elif kind == "dup":
        base = [[_grid(rng, 0, 40) for _ in range(3)] for _ in range(max(1, n // 3))]
        pts = [list(rng.choice(base)) for _ in range(n)]
    else:
        side = max(2.0, (n ** (1 / 3)) * (d / S))
        pts = [[_grid(rng, 0, side) for _ in range(3)] for _ in range(n)]
        for i in range(0, n - 1, 3):  # pairs at d +- margin
            off = d + rng.choice([-4, 4, -16, 16])
            pts[i + 1] = [pts[i][0] + off, pts[i][1], pts[i][2]]
    return pts[:n], kind


def _has_tie(pos, grp, d):
    """exact distance tie inside a group?"""
    p = np.array(pos, dtype=np.int64)
    g = np.array(grp)
    d2 = int(d) * int(d)
    for v in set(grp):
        q = p[g == v]
        if len(q) < 2:
            continue
        diff = q[:, None, :] - q[None, :, :]
        dd = (diff * diff).sum(axis=2)
        if np.any(dd == d2):
            return True
    return False


def gen_clean(rng, tier):
    big = {"quick": 0.04, "thorough": 0.25, "search": 0.0}[tier]
    r = rng.random()
    if tier == "search":
        n = rng.randint(1, 14)
    elif r < big:
        n = rng.randint(81, 400)
    elif r < big + 0.08:
        n = rng.randint(1, 2)
    else:
        n = rng.randint(3, 80)
    d = rng.choice([S, S + S // 2, 2 * S, 3 * S + S // 4, 10 * S, rng.randint(S // 4 + 1, 24 * S)])
    ngroups = rng.choice([1, 2, 2, 3, 4])
    feature = rng.choice(FEATURES)
    gvals = rng.sample([1, 2, 3, 4, 5, 7, 10, 11, 100, 0, -1] + ([S // 2 * 3] if rng.random() < 0.2 else []), ngroups)
    gvals = [g * S if abs(g) < 200 else g for g in gvals]
    copies = ngroups > 1 and rng.random() < 0.3
    if copies:  # the same arrangement in every group (different scores): adversarial for cross-group leakage
        m = max(1, n // ngroups)
        base, layout = _layout(rng, m, d)
        pos, grp = [], []
        for g in gvals:
            pos += [list(p) for p in base]
            grp += [g] * len(base)
        layout = "copies-" + layout
        order = list(range(len(pos)))
        rng.shuffle(order)
        pos = [pos[i] for i in order]
        grp = [grp[i] for i in order]
    else:
        pos, layout = _layout(rng, n, d)
        if rng.random() < 0.5:
            grp = [rng.choice(gvals) for _ in pos]
        else:
            grp = [gvals[i % ngroups] for i in range(len(pos))]
    n = len(pos)
    for _ in range(50):
        if not _has_tie(pos, grp, d):
            break
        d += 1
    sk = rng.random()
    if sk < 0.15:
        scores = [rng.randint(0, max(1, n // 3)) * 64 for _ in range(n)]
        skind = "tied"
    elif sk < 0.35:
        scores = [p[0] + p[1] * 3 - p[2] for p in pos]  # correlated with position
        skind = "position"
        if len(set(scores)) < n:
            skind = "position-tied"
    else:
        scores = rng.sample(range(-n * 8, n * 8 + 8), n)
        scores = [s * rng.choice([1, 1, 16]) if False else s * 16 for s in scores]
        skind = "distinct"
    rows = []
    shifted = rng.random() < 0.5
    for i in range(n):
        row = [0] * 20
        for c in ("geom1", "geom2", "geom3", "geom4", "geom5", "subtomo_mean", "tomo_id", "object_id", "class"):
            row[CI[c]] = rng.randint(1, 3) * S
        for c in ("phi", "psi", "theta"):
            row[CI[c]] = rng.randint(-180 * 4, 180 * 4) * (S // 4)
        row[CI["subtomo_id"]] = (i + 1) * S
        row[CI["score"]] = scores[i]
        row[CI[feature]] = grp[i]
        for a, (c, sc) in enumerate((("x", "shift_x"), ("y", "shift_y"), ("z", "shift_z"))):
            sh = rng.randint(-3 * S, 3 * S) if shifted and rng.random() < 0.7 else 0
            row[CI[c]] = pos[i][a] - sh
            row[CI[sc]] = sh
        rows.append(row)
    return dict(kind="clean", d=d, keep_greater=rng.random() < 0.6, feature=feature, rows=rows, layout=layout, scores=skind)


# ------------------------------------------------------------------ generators: score maps
def gen_peaks(rng, tier):
    lim = {"quick": 16, "thorough": 40, "search": 6}[tier]
    r = rng.random()
    if tier == "thorough" and r < 0.06:
        dims = [rng.randint(30, 40) for _ in range(3)]
    elif r < 0.25:
        dims = [rng.randint(1, min(lim, 12)) for _ in range(3)]
        dims[rng.randrange(3)] = rng.choice([1, 2])
    else:
        top = min(lim, 16) if r < 0.9 else lim
        dims = [rng.randint(2, top) for _ in range(3)]
    nx, ny, nz = dims
    N = nx * ny * nz
    rs = np.random.RandomState(rng.randrange(2 ** 31))
    perm = rs.permutation(N)
    if rng.random() < 0.6 and N > 8:
        gx, gy, gz = np.meshgrid(np.arange(nx), np.arange(ny), np.arange(nz), indexing="ij")
        field = np.zeros(dims)
        for _ in range(rng.randint(1, 6)):
            c = [rng.uniform(0, nx), rng.uniform(0, ny), rng.uniform(0, nz)]
            w = rng.uniform(0.8, 3.0)
            field += rng.uniform(0.3, 1.0) * np.exp(-((gx - c[0]) ** 2 + (gy - c[1]) ** 2 + (gz - c[2]) ** 2) / (2 * w * w))
        base = np.floor(field * 200).astype(np.int64).ravel()
        kind = "blobs"
    else:
        base = np.zeros(N, dtype=np.int64)
        kind = "noise"
    vals = (base * N + perm) * 2  # distinct even integers; odd thresholds fall strictly between two scores
    sscale = rng.choice([1, 16, 1024])
    sorted_vals = np.sort(vals)[::-1]
    # threshold: keep between 1 and ~1500 voxels above it
    kmax = min(N, {"quick": 500, "thorough": 1500, "search": 40}[tier])
    k = rng.randint(1, max(1, kmax if rng.random() < 0.3 else min(kmax, max(2, N // rng.randint(2, 30)))))
    tr = rng.random()
    if tr < 0.04:
        thr = int(sorted_vals[0]) + rng.choice([0, 1, 7])  # nothing above: returns None
        tkind = "above-max"
    elif tr < 0.35 and k < N:
        thr = int(sorted_vals[k])  # exactly a voxel's score: that voxel is NOT above
        tkind = "equal-to-a-score"
    else:
        thr = int(sorted_vals[k - 1]) - 1
        tkind = "between"
    dd = rng.choice([1, 1, 2, 4])
    dr = rng.random()
    if dr < 0.4:
        dn = rng.choice([1, 2, 2, 3, 5]) * dd  # integer diameters: exact ties with integer voxel distances
    elif dr < 0.8:
        dn = rng.randint(max(1, dd // 2), 3 * dd)
    else:
        dn = rng.randint(3 * dd, int(6.5 * dd))
    numbering = rng.choice([0, 1])
    L = rng.randint(1, 40)
    ascale = 4
    anglist = []
    for i in range(L):
        a = rng.randint(-720, 719)
        b = rng.randint(0, 720)
        c = rng.randint(-720, 719)
        while c == b:
            c = rng.randint(-720, 719)
        anglist.append([a, b, c])
    angles = rs.randint(numbering, numbering + L, size=N).tolist()
    bad = rng.random() < 0.03
    if bad:
        for _ in range(rng.randint(1, 3)):
            angles[int(np.argmax(vals)) if rng.random() < 0.5 else rng.randrange(N)] = numbering + L + rng.randint(0, 2)
    return dict(kind="peaks", dims=dims, scores=[int(v) for v in vals], sscale=sscale, thr=thr, dn=dn, dd=dd, angles=angles,
                anglist=anglist, ascale=ascale, numbering=numbering, order=rng.choice(["zxz", "zzx"]),
                list_as=rng.choice(["array", "array", "csv"]), field=kind, thr_kind=tkind, bad_angle=bad)


def generate(rng, tier, n):
    for i in range(n):
        if rng.random() < 0.15:
            yield gen_peaks(rng, tier)
        else:
            yield gen_clean(rng, tier)


# ------------------------------------------------------------------ implementation adapters
def _quiet():
    return contextlib.redirect_stdout(io.StringIO())


def _clean_ids(df_rows, d, feature, keep_greater):
    """run the real clean_by_distance on rows (list of 20 ints at scale S); return (ids, unchanged?)"""
    import pandas as pd
    from cryocat import cryomotl
    arr = np.array(df_rows, dtype=np.float64) / S
    df = pd.DataFrame(arr, columns=COLS)
    m = cryomotl.Motl(df)
    with _quiet():
        m.clean_by_distance(d / S, feature, metric_id="score", keep_greater=keep_greater)
    out = m.df
    by_id = {r[CI["subtomo_id"]]: r for r in df_rows}
    index_of = {r[CI["subtomo_id"]]: i for i, r in enumerate(df_rows)}
    ids, same = [], True
    cols_ok = list(out.columns) == COLS if len(out.columns) else False
    if not cols_ok and len(out) > 0:
        return [], False, "columns"
    vals = out[COLS].to_numpy(dtype=np.float64) if len(out) else np.zeros((0, 20))
    for r in vals:
        sid = r[CI["subtomo_id"]] * S
        if sid != int(sid) or int(sid) not in by_id:
            same = False
            ids.append(-1)
            continue
        ids.append(index_of[int(sid)])
        if [float(v) for v in (r * S)] != [float(v) for v in by_id[int(sid)]]:
            same = False
    return ids, same, ""


def run_impl(case):
    if case["kind"] == "clean":
        rows = case["rows"]
        ids, same, note = _clean_ids(rows, case["d"], case["feature"], case["keep_greater"])
        obs = dict(kept=ids, unchanged=same, note=note)
        fi = CI[case["feature"]]
        alone = {}
        for g in sorted(set(r[fi] for r in rows)):
            sub = [r for r in rows if r[fi] == g]
            a_ids, a_same, _ = _clean_ids(sub, case["d"], case["feature"], case["keep_greater"])
            alone[str(g)] = a_ids
        obs["alone"] = alone
        return obs
    # ---- peaks
    from cryocat import tmana
    nx, ny, nz = case["dims"]
    Sm = np.array(case["scores"], dtype=np.float64).reshape(nx, ny, nz) / case["sscale"]
    Am = np.array(case["angles"], dtype=np.float64).reshape(nx, ny, nz)
    L = np.array(case["anglist"], dtype=np.float64) / case["ascale"]
    with tempfile.TemporaryDirectory(prefix="c07_") as td:
        if case.get("list_as") == "csv":
            path = os.path.join(td, "angles.csv")
            with open(path, "w") as f:
                for row in L:
                    f.write(",".join(repr(float(v)) for v in row) + "\n")
            lst = path
        else:
            lst = L
        try:
            with _quiet():
                m = tmana.scores_extract_particles(Sm, Am, lst, 7, case["dn"] / case["dd"], scores_threshold=case["thr"] / case["sscale"],
                                                   angles_order=case["order"], angles_numbering=case["numbering"])
        except IndexError as e:
            return dict(result="bad-angle", detail=str(e)[:100])
    if m is None:
        return dict(result="empty")
    df = m.df
    rows = []
    exact = True
    for x, y, z, s, phi, the, psi in df[["x", "y", "z", "score", "phi", "theta", "psi"]].to_numpy(dtype=np.float64):
        vals = [x, y, z, s * case["sscale"], phi * case["ascale"], the * case["ascale"], psi * case["ascale"]]
        if any(v != int(v) for v in vals):
            exact = False
        rows.append([int(round(v)) for v in vals])
    return dict(result="peaks", rows=rows, exact=exact, subtomo=[int(v) for v in df["subtomo_id"].tolist()])


# ------------------------------------------------------------------ model requests and judgement
def _clean_req(case):
    return dict(d=case["d"], keep_greater=1 if case["keep_greater"] else 0, feature=case["feature"], rows=case["rows"])


def _peaks_req(case):
    return dict(thr=case["thr"], dn=case["dn"], dd=case["dd"], dims=case["dims"], scores=case["scores"], angles=case["angles"],
                anglist=case["anglist"], numbering=case["numbering"], order=case["order"])


def requests(case, obs):
    if case["kind"] == "clean":
        reqs = [dict(op="clean", **_clean_req(case))]
        if "error" not in obs and all(0 <= i < len(case["rows"]) for i in obs["kept"]):
            reqs.append(dict(op="check_clean", out=obs["kept"], **_clean_req(case)))
        return reqs
    reqs = [dict(op="peaks", **_peaks_req(case))]
    if obs.get("result") == "peaks" and all(min(r[:3]) >= 0 for r in obs["rows"]):
        reqs.append(dict(op="check_peaks", out=obs["rows"], **_peaks_req(case)))
    return reqs


def _score_ties(case):
    fi = CI[case["feature"]]
    seen = set()
    for r in case["rows"]:
        k = (r[fi], r[CI["score"]])
        if k in seen:
            return True
        seen.add(k)
    return False


def judge(case, obs, resps):
    out = []
    if "error" in obs:
        return [dict(kind="spec", clause="raises", detail=obs["error"] + " @" + obs.get("where", ""))]
    model = resps[0]
    if "error" in model:
        return [dict(kind="corr", clause="model-rejects-input", detail=str(model))]
    if case["kind"] == "clean":
        n = len(case["rows"])
        kept = obs["kept"]
        if not obs["unchanged"] or any(i < 0 for i in kept):
            out.append(dict(kind="spec", clause="remaining-not-an-input-particle", detail=f"a remaining row is not bit-identical to the input row with its subtomo_id {obs.get('note','')}"))
        if len(set(kept)) != len(kept):
            out.append(dict(kind="spec", clause="remaining-not-an-input-particle", detail="a particle remains twice"))
        chk = resps[1] if len(resps) > 1 else None
        fi = CI[case["feature"]]
        pos = [[r[CI[c]] + r[CI[sc]] for c, sc in (("x", "shift_x"), ("y", "shift_y"), ("z", "shift_z"))] for r in case["rows"]]
        tie = _has_tie(pos, [r[fi] for r in case["rows"]], case["d"])  # outside the quantifier: only impl vs model is compared
        if chk is not None and "error" not in chk and not chk["ok"] and not tie:
            out.append(dict(kind="spec", clause=chk["clause"], detail=f"verified checker checkClean rejects the survivors {kept[:30]} of {n} particles (d={case['d']/S}, keep_greater={case['keep_greater']}, group field {case['feature']})"))
        # groups never affect each other: survivors of group g == survivors when group g is cleaned alone
        for g, alone in obs["alone"].items():
            members = [i for i, r in enumerate(case["rows"]) if r[fi] == int(g)]
            restricted = [members.index(i) for i in kept if i in members]
            if restricted != alone:
                out.append(dict(kind="spec", clause="groups-affect-each-other",
                                detail=f"group {int(g)/S}: survivors inside the full list {restricted[:20]} != survivors when cleaned alone {alone[:20]} (positions within the group)"))
                break
        if not out and kept != model["kept"]:
            if _score_ties(case) and sorted(kept) != sorted(model["kept"]) and chk is not None and chk.get("ok"):
                pass  # equal scores processed in another order: a different, valid result (accepted by the verified checker)
            else:
                out.append(dict(kind="corr", clause="survivors-differ-from-model", detail=f"impl {kept[:30]} model {model['kept'][:30]}"))
        return out
    # ---- peaks
    sup = [s for s in case["scores"] if s > case["thr"]]
    res = obs["result"]
    if res == "empty":
        if sup:
            out.append(dict(kind="spec", clause="no-peaks-although-voxels-exceed-threshold", detail=f"{len(sup)} voxels above the threshold, None returned"))
    elif res == "bad-angle":
        if model["result"] != "bad-angle":
            out.append(dict(kind="spec" if not case.get("bad_angle") else "corr", clause="raises", detail="IndexError from the angle list: " + obs.get("detail", "")))
        return out
    else:
        if not obs["exact"]:
            out.append(dict(kind="spec", clause="peak-does-not-carry-voxel-score-position-angles-or-is-below-threshold", detail="a peak value is not on the input grid"))
        chk = resps[1] if len(resps) > 1 else None
        if chk is None or "error" in chk:
            out.append(dict(kind="spec", clause="peak-does-not-carry-voxel-score-position-angles-or-is-below-threshold", detail=f"peak table not checkable: {chk}"))
        elif not chk["ok"]:
            out.append(dict(kind="spec", clause=chk["clause"],
                            detail=f"verified checker checkPeaks rejects the peak table (first rows {obs['rows'][:4]}; D={case['dn']}/{case['dd']}, thr={case['thr']}, order={case['order']}, numbering={case['numbering']}, list as {case.get('list_as')})"))
    if not out:
        if model["result"] != res:
            out.append(dict(kind="corr", clause="result-kind-differs-from-model", detail=f"impl {res} model {model['result']}"))
        elif res == "peaks" and model["rows"] != obs["rows"]:
            out.append(dict(kind="corr", clause="peak-table-differs-from-model", detail=f"impl {obs['rows'][:5]} model {model['rows'][:5]}"))
    return out


def nontrivial(case, obs):
    if "error" in obs:
        return False
    if case["kind"] == "clean":
        n = len(case["rows"])
        return n >= 3 and 1 <= len(obs["kept"]) < n
    if obs.get("result") != "peaks":
        return False
    nsup = sum(1 for s in case["scores"] if s > case["thr"])
    return nsup >= 2 and len(obs["rows"]) < nsup


def _bucket(n, edges):
    for e in edges:
        if n <= e:
            return f"<={e}"
    return f">{edges[-1]}"


def stats(case, obs, resps):
    if case["kind"] == "clean":
        n = len(case["rows"])
        fi = CI[case["feature"]]
        st = {"kind": "clean", "clean.n": _bucket(n, [2, 10, 40, 80, 200, 400]), "clean.groups": len(set(r[fi] for r in case["rows"])),
              "clean.feature": case["feature"], "clean.keep_greater": case["keep_greater"], "clean.layout": case.get("layout", "corpus"),
              "clean.scores": case.get("scores", "corpus"), "clean.d": _bucket(case["d"] / S, [1, 2, 5, 10, 24]),
              "clean.shifted": any(r[CI["shift_x"]] or r[CI["shift_y"]] or r[CI["shift_z"]] for r in case["rows"])}
        if "error" not in obs:
            st["clean.removed_fraction"] = _bucket(100 * (n - len(obs["kept"])) // max(1, n), [0, 25, 50, 75, 99])
            if resps and "kept" in resps[0] and resps[0]["kept"] != obs["kept"]:
                st["clean.tie_divergence"] = True
        return st
    nsup = sum(1 for s in case["scores"] if s > case["thr"])
    st = {"kind": "peaks", "peaks.voxels": _bucket(case["dims"][0] * case["dims"][1] * case["dims"][2], [64, 512, 4096, 27000, 64000]),
          "peaks.above_threshold": _bucket(nsup, [0, 1, 10, 100, 500, 1500]), "peaks.diameter": _bucket(case["dn"] / case["dd"], [0.99, 1, 2, 3, 5, 7]),
          "peaks.order": case["order"], "peaks.numbering": case["numbering"], "peaks.list_as": case.get("list_as"),
          "peaks.threshold": case.get("thr_kind", "corpus"), "peaks.result": obs.get("result", "error"), "peaks.field": case.get("field", "corpus"),
          "peaks.flat_box": min(case["dims"]) <= 2}
    if obs.get("result") == "peaks":
        st["peaks.extracted"] = _bucket(len(obs["rows"]), [1, 5, 20, 100, 500])
        st["peaks.suppressed"] = _bucket(nsup - len(obs["rows"]), [0, 5, 50, 500])
    return st


def sample_view(case):
    if case["kind"] == "clean":
        return dict(kind="clean", n=len(case["rows"]), d=case["d"] / S, feature=case["feature"], keep_greater=case["keep_greater"], layout=case.get("layout"),
                    first_rows=[{c: r[CI[c]] / S for c in ("score", case["feature"], "x", "y", "z", "shift_x")} for r in case["rows"][:3]])
    return dict(kind="peaks", dims=case["dims"], thr=case["thr"] / case["sscale"], diameter=case["dn"] / case["dd"], order=case["order"],
                numbering=case["numbering"], list_rows=len(case["anglist"]), list_as=case.get("list_as"), above_threshold=sum(1 for s in case["scores"] if s > case["thr"]))


# ------------------------------------------------------------------ shrinking
def shrink(case):
    if case["kind"] == "clean":
        rows = case["rows"]
        n = len(rows)
        if n > 1:
            yield dict(case, rows=rows[: n // 2])
            yield dict(case, rows=rows[n // 2:])
            if n <= 24:
                for i in range(n):
                    yield dict(case, rows=rows[:i] + rows[i + 1:])
            else:
                for k in range(0, n, max(1, n // 8)):
                    yield dict(case, rows=rows[:k] + rows[k + max(1, n // 8):])
        # fold the shifts into the coordinates, zero unrelated fields
        simple = []
        for r in rows:
            q = list(r)
            for c, sc in (("x", "shift_x"), ("y", "shift_y"), ("z", "shift_z")):
                q[CI[c]] = r[CI[c]] + r[CI[sc]]
                q[CI[sc]] = 0
            simple.append(q)
        if simple != rows:
            yield dict(case, rows=simple)
        return
    nx, ny, nz = case["dims"]
    sc = np.array(case["scores"], dtype=object).reshape(nx, ny, nz)
    an = np.array(case["angles"], dtype=object).reshape(nx, ny, nz)
    for ax in range(3):
        m = case["dims"][ax]
        if m > 1:
            for sl in (slice(0, m // 2), slice(m // 2, m), slice(0, m - 1), slice(1, m)):
                idx = [slice(None)] * 3
                idx[ax] = sl
                s2, a2 = sc[tuple(idx)], an[tuple(idx)]
                yield dict(case, dims=list(s2.shape), scores=[int(v) for v in s2.ravel()], angles=[int(v) for v in a2.ravel()])
    above = sorted(s for s in case["scores"] if s > case["thr"])
    if len(above) > 2:
        yield dict(case, thr=above[len(above) // 2] - 1)
        yield dict(case, thr=above[1] - 1 if False else above[-3] + 1)
    if case.get("list_as") == "csv":
        yield dict(case, list_as="array")


# ------------------------------------------------------------------ probes of recorded assumptions
def probes(rng):
    from scipy.spatial import KDTree
    out = []
    pts = np.array([[rng.randint(0, 8) for _ in range(3)] for _ in range(300)])
    tree = KDTree(pts)
    ok = True
    detail = ""
    for r in (1.0, 2.0, 3.0, 5.0, 1.5, 2.25):
        for i in range(0, 300, 17):
            got = sorted(tree.query_ball_point(pts[i], r))
            diff = pts - pts[i]
            want = sorted(np.nonzero((diff * diff).sum(axis=1) <= r * r)[0].tolist())
            if got != want:
                ok = False
                detail = f"r={r} point {pts[i].tolist()}"
    out.append(dict(name="KDTree.query_ball_point = closed brute-force ball (exact ties at integer radii included)", ok=ok, detail=detail))
    a = np.array([[3.0, 4.0, 0.0], [0.0, 0.0, 0.0], [1.0, 2.0, 2.0]])
    nrm = np.linalg.norm(a - np.zeros((3, 3)), axis=1)
    out.append(dict(name="np.linalg.norm exact on perfect squares of the grid", ok=bool(nrm[0] == 5.0 and nrm[1] == 0.0 and nrm[2] == 3.0), detail=str(nrm)))
    return out


LEVEL_TEXT = ("Lean 4 theorems about an executable model of the greedy suppression shared by Motl.clean_by_distance and tmana.scores_extract_particles: "
              "for every candidate list, every suppression relation and every processing order non-increasing in score (greedy_sublist/_separated/_dominated); "
              "for every particle list, grouping field, radius and score direction (cleanByDistance_spec = separated + dominated + remaining + groups independent, "
              "clean_single_group); for score/angle maps of any size given as flat arrays (peaks_above_threshold, peaks_carry, extractPeaks_reads_maps, peaks_separated, "
              "peaks_far, peaks_cover, extractPeaks_covers_map, peaks_none_iff); soundness of the two checkers run on the implementation's outputs "
              "(checkClean_sound, checkPeaks_sound). The model is tied to the source by regenerated operators / directions / offsets / column permutations "
              "(17 anchors, 6 translator theorems) and by an exact differential run of the real functions against the model on generated lists and maps")
LEVEL_NOTE = ("trusted: Lean kernel; translator anchors; integer scaling of dyadic inputs; squared-distance form of the comparisons (d > 0); "
              "KD-tree ball query = brute force (probed); numpy exact on the grid. Not modelled: dist_mask, cluster_size, n_particles, sigma/triangle thresholds, "
              "symmetry randomisation, tomo_mask, file output")
TECHNIQUE = "Lean 4 proof (fold invariants of a greedy rule, list/permutation lemmas, index arithmetic) + regenerated operators + verified checkers on the implementation's output + exact differential correspondence"
DESIGN_REF = "DESIGN.md section 4, C07; Appendix A.1"
