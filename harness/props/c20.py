"""C20 — membrane thickness pairs: one-to-one, forward, within range and cone (DESIGN.md section 4, C20)."""
import os, ast, math, json, logging
import numpy as np
import core
from core import f2b, b2f

PROP = "C20"
REL = "cryocat/memthick.py"


# ================================================================================ translator (T)
# Everything below works on a CANONICAL copy of each function: parameters are renamed a0, a1, ... by position, local
# variables v0, v1, ... in the order of their first binding, docstrings / logging statements are removed. Anchors therefore do
# not depend on how locals (or parameters) are called; the public parameter names and defaults are anchored separately
# (signature anchors). Every anchored item is DATA (statement lists, expression trees, operators) — the expected literal is
# written in Props/C20.lean and compared by the Lean kernel, not by a predicate of this file.
import copy

_FUNCS = dict(cuda="find_all_possible_matches_kernel", gpu2cpu="process_matches_gpu2cpu", gpu="measure_thickness_gpu",
              numba="find_matches_parallel", cpu="measure_thickness_cpu", cpu2cpu="process_matches_cpu2cpu",
              top="measure_membrane_thickness")
# parameter positions (pinned by the signature theorems) of the quantities the anchors talk about
_ROLES = dict(
    cuda=dict(P=0, N=1, M1=2, M2=3, MD=4, MI=5, MC=6, R=7, M=8, CAP=9),
    numba=dict(P=0, N=1, M1=2, M2=3, TI=4, R=5, M=6, MD=7, MI=8, MC=9),
    cpu=dict(P=0, N=1, S1=2, S2=3, VOXEL=4, MAXNM=5, DEG=6, DIR=7, CAP=10),
    gpu=dict(P=0, N=1, S1=2, S2=3, VOXEL=4, MAXNM=5, DEG=6, DIR=7),
)


def _param_names(fn):
    a = fn.args
    names = [x.arg for x in a.posonlyargs + a.args]
    if a.vararg:
        names.append(a.vararg.arg)
    names += [x.arg for x in a.kwonlyargs]
    if a.kwarg:
        names.append(a.kwarg.arg)
    return names


def _signature(fn):
    """['points', ..., 'max_thickness_nm=8.0', ...] — the public names and defaults, in order"""
    a = fn.args
    pos = a.posonlyargs + a.args
    nd = len(pos) - len(a.defaults)
    out = [x.arg + ("=" + ast.unparse(a.defaults[k - nd]) if k >= nd else "") for k, x in enumerate(pos)]
    if a.vararg:
        out.append("*" + a.vararg.arg)
    for x, d in zip(a.kwonlyargs, a.kw_defaults):
        out.append(x.arg + ("=" + ast.unparse(d) if d is not None else "") + " (kw-only)")
    if a.kwarg:
        out.append("**" + a.kwarg.arg)
    return out


_LOG_METHODS = ("debug", "info", "warning", "warn", "error", "critical", "exception", "log")
_MUTATORS = ("pop", "append", "sort", "clear", "remove", "extend", "insert", "add", "discard", "update", "setdefault", "popitem", "fill", "resize",
             "put", "reverse", "itemset", "setflags", "partition", "sort_values", "drop", "rename")


def _pure(node):
    """a logging argument that cannot change what the function computes: no walrus, no call of a mutating method"""
    for n in ast.walk(node):
        if isinstance(n, (ast.NamedExpr, ast.Await, ast.Yield, ast.YieldFrom)):
            return False
        if isinstance(n, ast.Call) and isinstance(n.func, ast.Attribute) and (n.func.attr in _MUTATORS or n.func.attr.startswith("__")):
            return False
        if isinstance(n, ast.Call) and isinstance(n.func, ast.Name) and n.func.id in ("setattr", "delattr", "exec", "eval", "next"):
            return False
    return True


def _log_call(v, helpers):
    """`log_msg(...)` (a helper lambda of the function), `print(...)`, `logger.<level>(...)`, `traceback.print_exc()`"""
    if not isinstance(v, ast.Call):
        return False
    f = v.func
    hit = False
    if isinstance(f, ast.Name) and (f.id in helpers or f.id == "print"):
        hit = True
    elif isinstance(f, ast.Attribute) and isinstance(f.value, ast.Name) and f.value.id == "logger" and f.attr in _LOG_METHODS:
        hit = True
    elif ast.unparse(f) in ("traceback.print_exc", "traceback.print_stack"):
        hit = True
    return hit and all(_pure(a) for a in v.args) and all(_pure(k.value) for k in v.keywords)


def _log_expr(v, helpers):
    """a logging call, or the library's own idiom `<logging call> if <test> else <logging call | None>` written as a statement"""
    if _log_call(v, helpers):
        return True
    if isinstance(v, ast.IfExp) and not any(isinstance(n, ast.Call) for n in ast.walk(v.test)) and _pure(v.test):
        none = lambda x: isinstance(x, ast.Constant) and x.value is None
        arms = [v.body, v.orelse]
        return all(none(x) or _log_expr(x, helpers) for x in arms) and not all(none(x) for x in arms)
    return False


def _is_logging(st, helpers):
    if isinstance(st, ast.Expr) and isinstance(st.value, ast.Constant) and isinstance(st.value.value, str):
        return True  # docstring / bare string
    if isinstance(st, ast.Assign) and len(st.targets) == 1 and isinstance(st.targets[0], ast.Name) and st.targets[0].id in helpers \
            and isinstance(st.value, ast.Lambda):
        return True  # the helper's definition is anchored on its own (helpers:<function>), see _helpers()
    if isinstance(st, ast.Expr) and _log_expr(st.value, helpers):
        return True
    return False


def _prune(block, helpers):
    out = []
    for st in block:
        if _is_logging(st, helpers):
            continue
        for fld in ("body", "orelse", "finalbody"):
            if isinstance(getattr(st, fld, None), list):
                setattr(st, fld, _prune(getattr(st, fld), helpers))
        for h in getattr(st, "handlers", None) or []:
            h.body = _prune(h.body, helpers) or [ast.Pass()]
        if isinstance(st, ast.If) and not st.body and not st.orelse and _pure(st.test) and not any(isinstance(n, ast.Call) and isinstance(n.func, ast.Attribute)
                                                                                                       and n.func.attr not in ("sum", "any", "all", "get", "isEnabledFor") for n in ast.walk(st.test)):
            continue  # an `if` that only logged
        if isinstance(st, (ast.If, ast.For, ast.While, ast.With, ast.Try)) and not st.body:
            st.body = [ast.Pass()]
        out.append(st)
    return out


def _helper_names(fn):
    """locals bound to a lambda that only forwards its argument to the logger / print (`log_msg = lambda msg: ...`)"""
    helpers = set()
    for n in ast.walk(fn):
        if isinstance(n, ast.Assign) and len(n.targets) == 1 and isinstance(n.targets[0], ast.Name) and isinstance(n.value, ast.Lambda) \
                and any(isinstance(x, ast.Name) and x.id in ("logger", "print") for x in ast.walk(n.value)):
            helpers.add(n.targets[0].id)
    return helpers


_MIRROR = {ast.Lt: ast.Gt, ast.Gt: ast.Lt, ast.LtE: ast.GtE, ast.GtE: ast.LtE, ast.Eq: ast.Eq, ast.NotEq: ast.NotEq}


class _Normalise(ast.NodeTransformer):
    """harmless spelling differences: type annotations (H1) and the direction of a comparison with a constant (`0 < x` = `x > 0`)"""

    def visit_AnnAssign(self, n):
        self.generic_visit(n)
        if n.value is None:
            return None  # a bare declaration `x: T`
        return ast.copy_location(ast.Assign(targets=[n.target], value=n.value), n)

    def visit_arg(self, n):
        n.annotation = None
        return n

    def visit_FunctionDef(self, n):
        self.generic_visit(n)
        n.returns = None
        return n

    def visit_Compare(self, n):
        self.generic_visit(n)
        if len(n.ops) == 1 and type(n.ops[0]) in _MIRROR and isinstance(n.left, ast.Constant) and not isinstance(n.comparators[0], ast.Constant):
            return ast.copy_location(ast.Compare(left=n.comparators[0], ops=[_MIRROR[type(n.ops[0])]()], comparators=[n.left]), n)
        return n


def _canon(fn):
    """canonical copy of a function (see the comment at the top of this section); `._orig` maps canonical names back to the
    identifiers of the source (for messages), `._helpers` holds the logging-helper lambdas that were taken out of the body"""
    fn = copy.deepcopy(fn)
    fn = _Normalise().visit(fn)
    ast.fix_missing_locations(fn)
    helpers = _helper_names(fn)
    helper_defs = [n for n in ast.walk(fn) if isinstance(n, ast.Assign) and len(n.targets) == 1 and isinstance(n.targets[0], ast.Name)
                   and n.targets[0].id in helpers]
    fn.body = _prune(fn.body, helpers)
    mapping = {p: f"a{k}" for k, p in enumerate(_param_names(fn))}
    binders = []
    for st in fn.body:
        for n in ast.walk(st):
            if isinstance(n, ast.Name) and isinstance(n.ctx, ast.Store):
                binders.append((n.lineno, n.col_offset, n.id, n))
            elif isinstance(n, ast.arg):
                binders.append((n.lineno, n.col_offset, n.arg, n))
            elif isinstance(n, ast.ExceptHandler) and n.name:
                binders.append((n.lineno, n.col_offset, n.name, n))
    k = 0
    discard = {}  # every binding occurrence of `_` is a variable of its own (H2)
    for _l, _c, name, node in sorted(binders, key=lambda b: b[:3]):
        if name == "_":
            discard[id(node)] = f"v{k}"
            k += 1
        elif name not in mapping:
            mapping[name] = f"v{k}"
            k += 1
    last_discard = None
    for n in sorted((x for x in ast.walk(fn) if isinstance(x, (ast.Name, ast.arg, ast.ExceptHandler))), key=lambda x: (getattr(x, "lineno", 0), getattr(x, "col_offset", 0))):
        if isinstance(n, ast.Name):
            if n.id == "_":
                if id(n) in discard:
                    last_discard = discard[id(n)]
                n.id = discard.get(id(n)) or last_discard or "_"
            elif n.id in mapping:
                n.id = mapping[n.id]
        elif isinstance(n, ast.arg):
            n.arg = discard.get(id(n)) or mapping.get(n.arg, n.arg)
        elif n.name:
            n.name = discard.get(id(n)) or mapping.get(n.name, n.name)
    fn._orig = {v: k for k, v in mapping.items()}
    fn._helpers = []
    for h in helper_defs:  # `lambda x0: <logger param>.info(x0) if <logger param> else print(x0)`, parameters by position
        lam = copy.deepcopy(h.value)
        inner = {a.arg: f"x{j}" for j, a in enumerate(lam.args.posonlyargs + lam.args.args + lam.args.kwonlyargs)}
        for n in ast.walk(lam):
            if isinstance(n, ast.Name):
                n.id = inner.get(n.id) or mapping.get(n.id, n.id)
            elif isinstance(n, ast.arg):
                n.arg = inner.get(n.arg, n.arg)
                n.annotation = None
        fn._helpers.append(" ".join(ast.unparse(lam).split()))
    return fn


def _back(fn, text):
    """canonical names a<i> / v<j> in a message -> `name` of the source"""
    import re as _re
    return _re.sub(r"\b([av]\d+)\b", lambda m: fn._orig.get(m.group(1), m.group(1)), text)


def _dump2(block, depth=0, out=None):
    """ordered statement list of a block: ('depth|text', source line); compound statements contribute their header line"""
    out = [] if out is None else out
    one = lambda x: " ".join(ast.unparse(x).split())
    for st in block:
        ln = getattr(st, "lineno", 0)
        if isinstance(st, ast.If):
            out.append((f"{depth}|if {one(st.test)}:", ln))
            _dump2(st.body, depth + 1, out)
            if st.orelse:
                out.append((f"{depth}|else:", ln))
                _dump2(st.orelse, depth + 1, out)
        elif isinstance(st, (ast.For, ast.While)):
            out.append((f"{depth}|for {one(st.target)} in {one(st.iter)}:" if isinstance(st, ast.For) else f"{depth}|while {one(st.test)}:", ln))
            _dump2(st.body, depth + 1, out)
            if st.orelse:
                out.append((f"{depth}|else:", ln))
                _dump2(st.orelse, depth + 1, out)
        elif isinstance(st, ast.With):
            out.append((f"{depth}|with " + ", ".join(one(i) for i in st.items) + ":", ln))
            _dump2(st.body, depth + 1, out)
        elif isinstance(st, ast.Try):
            out.append((f"{depth}|try:", ln))
            _dump2(st.body, depth + 1, out)
            for h in st.handlers:
                out.append((f"{depth}|except" + (" " + one(h.type) if h.type is not None else "") + (f" as {h.name}" if h.name else "") + ":", getattr(h, "lineno", ln)))
                _dump2(h.body, depth + 1, out)
            if st.orelse:
                out.append((f"{depth}|else:", ln))
                _dump2(st.orelse, depth + 1, out)
            if st.finalbody:
                out.append((f"{depth}|finally:", ln))
                _dump2(st.finalbody, depth + 1, out)
        elif isinstance(st, (ast.FunctionDef, ast.ClassDef, ast.AsyncFunctionDef, ast.Match)):
            out.append((f"{depth}|{type(st).__name__} " + one(st), ln))
        else:
            out.append((f"{depth}|" + one(st), ln))
    return out


def _dump(block):
    return [t for t, _ in _dump2(block)]


class _Flow:
    """where every statement sits (block, position, parent) and which names are bound exactly once by a plain assignment"""

    def __init__(self, fn):
        self.where, self.binds, self.other = {}, {}, set()
        self._index(fn.body, None)

    def _index(self, block, parent):
        for k, st in enumerate(block):
            self.where[id(st)] = (id(block), k, parent)
            plain = isinstance(st, ast.Assign) and len(st.targets) == 1 and isinstance(st.targets[0], ast.Name)
            if plain:
                self.binds.setdefault(st.targets[0].id, []).append(st)
            heads = [st] if not isinstance(st, (ast.If, ast.For, ast.While, ast.With, ast.Try)) else \
                [x for x in (getattr(st, "target", None), getattr(st, "test", None), getattr(st, "iter", None)) if x is not None]
            for h in heads:
                for n in ast.walk(h):
                    if isinstance(n, ast.Name) and isinstance(n.ctx, ast.Store) and not (plain and n is st.targets[0]):
                        self.other.add(n.id)
            for fld in ("body", "orelse", "finalbody"):
                sub = getattr(st, fld, None)
                if isinstance(sub, list):
                    self._index(sub, st)

    def path(self, st):
        """[(block, position)] of st and of every enclosing statement"""
        out = []
        while st is not None:
            b, k, parent = self.where[id(st)]
            out.append((b, k))
            st = parent
        return out

    def lookup(self, name, use):
        """THE assignment `name = value` that reaches statement `use`: the name is bound exactly once in the function, by a plain
        assignment that stands earlier in the same block as `use` or in a block enclosing it (so it is executed before every use)"""
        bs = self.binds.get(name, [])
        if name in self.other or len(bs) != 1:
            raise core.AnchorMissing(f"{name} is not bound by exactly one plain assignment")
        b, k, _ = self.where[id(bs[0])]
        if not any(bb == b and k < kk for bb, kk in self.path(use)):
            raise core.AnchorMissing(f"the assignment to {name} does not precede its use on every path")
        return bs[0]


class _Sym:
    """symbolic inliner over a canonical function: local names -> expressions over points / normals / the two scalars"""

    def __init__(self, flow, pname, nname, scalar):
        self.flow, self.pname, self.nname, self.scalar = flow, pname, nname, scalar
        self.leaves = []

    def leaf(self, node, st):
        if not isinstance(node, ast.Subscript):
            return None
        base, idx = node.value, node.slice
        arrs = {self.pname: "points", self.nname: "normals"}
        if isinstance(base, ast.Name) and base.id in arrs:
            if isinstance(idx, ast.Tuple) and len(idx.elts) == 2 and isinstance(idx.elts[1], ast.Constant):
                return (arrs[base.id], ast.unparse(idx.elts[0]), int(idx.elts[1].value))
            return None
        if isinstance(idx, ast.Constant) and isinstance(idx.value, int):
            inner = base
            if isinstance(inner, ast.Name):
                inner = self.flow.lookup(inner.id, st).value
            if isinstance(inner, ast.Subscript) and isinstance(inner.value, ast.Name) and inner.value.id in arrs and not isinstance(inner.slice, ast.Tuple):
                return (arrs[inner.value.id], ast.unparse(inner.slice), int(idx.value))
        return None

    def expr(self, node, st, depth=0):
        if depth > 60:
            raise core.AnchorMissing("expression too deep")
        if isinstance(node, ast.BinOp):
            if isinstance(node.op, ast.Pow):
                if isinstance(node.right, ast.Constant) and node.right.value == 2:
                    return ("sq", self.expr(node.left, st, depth + 1))
                raise core.AnchorMissing("power other than 2: " + ast.unparse(node))
            op = {ast.Add: "add", ast.Sub: "sub", ast.Mult: "mul"}.get(type(node.op))
            if op is None:
                raise core.AnchorMissing("operator " + ast.unparse(node))
            return (op, self.expr(node.left, st, depth + 1), self.expr(node.right, st, depth + 1))
        if isinstance(node, ast.Subscript):
            lf = self.leaf(node, st)
            if lf is None:
                raise core.AnchorMissing("unrecognised subscript " + ast.unparse(node))
            self.leaves.append(lf)
            return ("leaf",) + lf
        if isinstance(node, ast.Name):
            v = self.scalar(node.id, st)
            if v is not None:
                return ("var", v)
            a = self.flow.lookup(node.id, st)
            return self.expr(a.value, a, depth + 1)
        raise core.AnchorMissing("unsupported expression " + ast.unparse(node)[:60])

    def sqrt_arg(self, node, st):
        """node is `sqrt(x)` or a name assigned `sqrt(x)`: the expression x"""
        if isinstance(node, ast.Name):
            a = self.flow.lookup(node.id, st)
            node, st = a.value, a
        if isinstance(node, ast.Call) and ast.unparse(node.func) in ("np.sqrt", "math.sqrt") and len(node.args) == 1 and not node.keywords:
            return self.expr(node.args[0], st)
        raise core.AnchorMissing("not a square root: " + ast.unparse(node)[:60])


_CMP = {ast.Lt: "lt", ast.LtE: "le", ast.Gt: "gt", ast.GtE: "ge", ast.Eq: "eq", ast.NotEq: "ne"}


def _rename(e, src_idx, tgt_idx):
    if e[0] == "leaf":
        _, arr, idx, k = e
        if arr == "normals":
            if idx != src_idx:
                raise core.AnchorMissing(f"normal of a point other than the source: normals[{idx}]")
            return ("var", f"n{k}")
        if idx == src_idx:
            return ("var", f"ps{k}")
        if idx == tgt_idx:
            return ("var", f"pt{k}")
        raise core.AnchorMissing(f"third point index {idx}")
    if e[0] == "var":
        return e
    return (e[0],) + tuple(_rename(x, src_idx, tgt_idx) for x in e[1:])


def _lean_expr(e):
    if e[0] == "var":
        return f"(.var .{e[1]})"
    if e[0] == "sq":
        return f"(.sq {_lean_expr(e[1])})"
    return f"(.{e[0]} {_lean_expr(e[1])} {_lean_expr(e[2])})"


def _aexpr(node, deg):
    if isinstance(node, ast.Name) and node.id == deg:
        return ".deg"
    if isinstance(node, ast.BinOp) and isinstance(node.op, ast.Pow) and isinstance(node.right, ast.Constant) and node.right.value == 2:
        return f"(.sq {_aexpr(node.left, deg)})"
    if isinstance(node, ast.Call) and len(node.args) == 1 and not node.keywords:
        f = ast.unparse(node.func)
        if f in ("np.radians", "math.radians", "np.deg2rad"):
            return f"(.radians {_aexpr(node.args[0], deg)})"
        for nm in ("tan", "cos", "sin"):
            if f in (f"np.{nm}", f"math.{nm}"):
                return f"(.{nm} {_aexpr(node.args[0], deg)})"
    return f"(.other {core.lean_str(ast.unparse(node)[:80])})"


def _guard_chain(flow, store):
    """[(kind, node)] from the function body down to `store`: enclosing `for`, enclosing `if` (kind 'if' when the store is in the
    body, 'else' when in the orelse) and, in every block on the way, earlier `if t: continue/return/break` statements ('unless')"""
    chain = []
    st = store
    blocks = {}
    while st is not None:
        b, k, parent = flow.where[id(st)]
        if parent is None:
            blk = flow.root
        elif any(x is st for x in parent.body):
            blk = parent.body
        else:
            blk = parent.orelse
        here = []
        for prev in blk[:k]:
            if isinstance(prev, ast.If) and not prev.orelse and isinstance(prev.body[-1], (ast.Continue, ast.Return, ast.Break)):
                here.append(("unless", prev.test))
        if parent is not None:
            if isinstance(parent, ast.If):
                head = ("if" if blk is parent.body else "else", parent.test)
            elif isinstance(parent, ast.For):
                head = ("for", parent)
            else:
                head = ("block", parent)
            chain = [head] + here + chain
        else:
            chain = here + chain
        st = parent
    return chain


class _RoleNames(ast.NodeTransformer):
    def __init__(self, m):
        self.m = m

    def visit_Name(self, n):
        return ast.copy_location(ast.Name(id=self.m.get(n.id, n.id), ctx=n.ctx), n)


def _site(src, key):
    """_site_raw with the canonical names of a failure message translated back to the identifiers of the source (H2)"""
    fn = _canon(src.find(REL, _FUNCS[key]))
    try:
        return _site_raw(src, key, fn)
    except core.AnchorMissing as e:
        raise core.AnchorMissing(_back(fn, str(e)))


def _site_raw(src, key, fn):
    """admissibility site of one candidate kernel -> dict(dist2, proj, projCmp, lat2, coneCmp, coneRhs, stored, ball, mult, radius, chain, store)"""
    fname = _FUNCS[key]
    R = {k: f"a{v}" for k, v in _ROLES[key].items()}
    flow = _Flow(fn)
    flow.root = fn.body
    found = {}

    def scalar(name, st):
        if key != "cpu":
            return {"R": "r", "M": "m"}.get(next((k for k in ("R", "M") if R[k] == name), None))
        if name in flow.binds and name not in flow.other and len(flow.binds[name]) == 1:
            v = flow.binds[name][0].value
            if ast.unparse(v) == f"{R['MAXNM']} / {R['VOXEL']}":
                flow.lookup(name, st)
                found["R"] = name
                return "r"
            ae = _aexpr(v, R["DEG"])
            if ".other" not in ae:
                flow.lookup(name, st)
                found["M"], found["mult"] = name, ae
                return "m"
        return None
    sym = _Sym(flow, R["P"], R["N"], scalar)
    # ---- the statement that records a match
    if key == "cpu":
        stores = [n for n in ast.walk(fn) if isinstance(n, ast.Expr) and isinstance(n.value, ast.Call) and isinstance(n.value.func, ast.Attribute)
                  and n.value.func.attr == "append" and len(n.value.args) == 1 and isinstance(n.value.args[0], ast.Tuple) and len(n.value.args[0].elts) == 3]
        if len(stores) != 1:
            raise core.AnchorMissing(f"{fname}: exactly one `<list>.append((dist, source, target))` expected, found {len(stores)}")
        store = stores[0]
        dnode, snode, tnode = store.value.args[0].elts
    else:
        def sub_store(arr):
            ss = [n for n in ast.walk(fn) if isinstance(n, ast.Assign) and len(n.targets) == 1 and isinstance(n.targets[0], ast.Subscript)
                  and isinstance(n.targets[0].value, ast.Name) and n.targets[0].value.id == arr]
            if len(ss) != 1:
                raise core.AnchorMissing(f"{fname}: exactly one store into parameter {arr} expected, found {len(ss)}")
            return ss[0]
        store, istore = sub_store(R["MD"]), sub_store(R["MI"])
        if flow.where[id(store)][0] != flow.where[id(istore)][0]:
            raise core.AnchorMissing(f"{fname}: distance and index are stored in different blocks")
        dnode, tnode, snode = store.value, istore.value, None
    chain = _guard_chain(flow, store)
    tests = [(k, n) for k, n in chain if k in ("if", "else", "unless")]
    plain = [n for k, n in tests if k == "if" and isinstance(n, ast.Compare) and len(n.ops) == 1]
    fwd = [n for n in plain if isinstance(n.left, ast.Name) and isinstance(n.comparators[0], ast.Constant) and n.comparators[0].value == 0
           and type(n.comparators[0].value) in (int, float)]
    cone = [n for n in plain if isinstance(n.comparators[0], ast.BinOp)]
    if len(fwd) != 1:
        raise core.AnchorMissing(f"{fname}: the store is guarded by {len(fwd)} bare tests `<proj> <op> 0` (exactly one expected)")
    if len(cone) != 1:
        raise core.AnchorMissing(f"{fname}: the store is guarded by {len(cone)} bare tests `<lateral> <op> <product>` (exactly one expected)")
    fwd, cone = fwd[0], cone[0]
    ball_t = []
    for n in plain:
        if n is not fwd and n is not cone and isinstance(n.left, ast.Name) and isinstance(n.comparators[0], ast.Name) and scalar(n.comparators[0].id, store) == "r":
            ball_t.append(n)
    proj = sym.expr(fwd.left, store)
    lat2 = sym.expr(cone.left, store)
    rhs = sym.expr(cone.comparators[0], store)
    stored = sym.sqrt_arg(dnode, store)
    roles = {fwd.left.id: "PROJ"}
    if isinstance(cone.left, ast.Name):
        roles[cone.left.id] = "LAT2"
    if isinstance(dnode, ast.Name):
        roles[dnode.id] = "DIST"
    if key == "cpu":
        if ball_t:
            raise core.AnchorMissing(f"{fname}: unexpected explicit distance test")
        calls = [n for n in ast.walk(fn) if isinstance(n, ast.Call) and isinstance(n.func, ast.Attribute) and n.func.attr == "query_ball_point"]
        ball = ".missing"
        if len(calls) == 1 and len(calls[0].args) == 2 and not calls[0].keywords and isinstance(calls[0].args[1], ast.Name) \
                and scalar(calls[0].args[1].id, store) == "r":
            ball = ".kdtreeClosedBall"
        dist2 = stored
    else:
        if len(ball_t) != 1:
            raise core.AnchorMissing(f"{fname}: the store is guarded by {len(ball_t)} bare tests `<dist> <op> max_thickness_voxels` (exactly one expected)")
        ball = f"(.cmp .{_CMP[type(ball_t[0].ops[0])]})"
        dist2 = sym.sqrt_arg(ball_t[0].left, store)
        roles[ball_t[0].left.id] = "DIST"
    nidx = {l[1] for l in sym.leaves if l[0] == "normals"}
    pidx = {l[1] for l in sym.leaves if l[0] == "points"}
    if len(nidx) != 1 or len(pidx) != 2 or not nidx <= pidx:
        raise core.AnchorMissing(f"{fname}: point/normal indices {sorted(pidx)}/{sorted(nidx)}")
    s_idx = next(iter(nidx))
    t_idx = next(iter(pidx - nidx))
    roles[s_idx], roles[t_idx] = "SRC", "TGT"
    for k, v in R.items():
        roles[v] = k
    for k in ("R", "M"):
        if k in found:
            roles[found[k]] = k
    rn = _RoleNames(roles)

    def show(node):
        return " ".join(ast.unparse(rn.visit(copy.deepcopy(node))).split())
    chain_txt = []
    for k, n in chain:
        if k == "for":
            chain_txt.append(f"for {show(n.target)} in {show(n.iter)}")
        elif k == "block":
            chain_txt.append(type(n).__name__)
        else:
            chain_txt.append(f"{k} {show(n)}")
    b, k, parent = flow.where[id(store)]
    blk = fn.body if parent is None else (parent.body if any(x is store for x in parent.body) else parent.orelse)
    store_txt = [" ".join(x.split()) for x in _dump([rn.visit(copy.deepcopy(x)) for x in blk])]
    out = dict(dist2=_rename(dist2, s_idx, t_idx), proj=_rename(proj, s_idx, t_idx), projCmp=_CMP[type(fwd.ops[0])],
               lat2=_rename(lat2, s_idx, t_idx), coneCmp=_CMP[type(cone.ops[0])], coneRhs=_rename(rhs, s_idx, t_idx),
               stored=_rename(stored, s_idx, t_idx), ball=ball, chain=chain_txt, store=store_txt)
    if key == "cpu":
        out["mult"] = found.get("mult")
        out["radius"] = "max_thickness_nm/voxel_size" if "R" in found else None
    return out


def _gpu_scalars(src):
    """measure_thickness_gpu: how the radius and the multiplier handed to the kernel (by position) are computed"""
    fn = _canon(src.find(REL, _FUNCS["gpu"]))
    R = {k: f"a{v}" for k, v in _ROLES["gpu"].items()}
    flow = _Flow(fn)
    flow.root = fn.body
    calls = [(st, n) for st in ast.walk(fn) if isinstance(st, ast.Expr) for n in [st.value] if isinstance(n, ast.Call) and isinstance(n.func, ast.Subscript)
             and ast.unparse(n.func.value) == _FUNCS["cuda"]]
    if len(calls) != 1:
        raise core.AnchorMissing("measure_thickness_gpu: exactly one kernel launch statement expected")
    st, call = calls[0]
    if call.keywords or len(call.args) != 10:
        raise core.AnchorMissing("measure_thickness_gpu: the kernel launch does not pass 10 positional arguments")
    out = {}
    for role, pos in (("R", _ROLES["cuda"]["R"]), ("M", _ROLES["cuda"]["M"])):
        a = call.args[pos]
        if not isinstance(a, ast.Name):
            raise core.AnchorMissing(f"launch argument {pos} is not a name")
        out[role] = flow.lookup(a.id, st).value
    radius = ast.unparse(out["R"])
    radius = "max_thickness_nm/voxel_size" if radius == f"{R['MAXNM']} / {R['VOXEL']}" else radius.replace(" ", "")
    return dict(mult=_aexpr(out["M"], R["DEG"]), radius=radius)


def _body(src, key):
    return _dump(_canon(src.find(REL, _FUNCS[key])).body)


def _sig(src, key):
    """decorators and parameters; the public functions keep their parameter names (keywords are API), the internal kernels /
    assignment loops are called positionally: their parameters are shown by position only"""
    fn = src.find(REL, _FUNCS[key])
    deco = [ast.unparse(d) for d in fn.decorator_list]
    if key not in ("cpu", "gpu", "top"):
        fn = copy.deepcopy(fn)
        for k, a in enumerate(fn.args.posonlyargs + fn.args.args):
            a.arg = f"a{k}"
    sig = _signature(fn)
    return deco, sig


class _Resolver:
    """measure_membrane_thickness: every local name -> the expression over the function's PARAMETERS that defines it (a local must be
    bound exactly once, by a plain or tuple assignment; `(call)[k]` for the k-th name of a tuple target)"""

    def __init__(self, fn):
        self.fn, self.params = fn, set(_param_names(fn))
        self.binds, self.other = {}, set()
        for st in ast.walk(fn):
            if isinstance(st, ast.Assign):
                for t in st.targets:
                    self._target(t, st.value, None)
            elif isinstance(st, (ast.AugAssign, ast.AnnAssign)):
                if isinstance(st, ast.AnnAssign) and st.value is not None and isinstance(st.target, ast.Name):
                    self.binds.setdefault(st.target.id, []).append((st.value, None))
                else:
                    self.other.update(n.id for n in ast.walk(st.target) if isinstance(n, ast.Name))
            elif isinstance(st, (ast.For, ast.comprehension)):
                self.other.update(n.id for n in ast.walk(st.target) if isinstance(n, ast.Name))
            elif isinstance(st, ast.NamedExpr):
                self.other.add(st.target.id)
            elif isinstance(st, (ast.With, ast.AsyncWith)):
                for i in st.items:
                    if i.optional_vars is not None:
                        self.other.update(n.id for n in ast.walk(i.optional_vars) if isinstance(n, ast.Name))
            elif isinstance(st, ast.Call):  # in-place edits of a local: `np.multiply(x, k, out=x)`, `x.sort()` ...
                for k in st.keywords:
                    if k.arg == "out":
                        self.other.update(n.id for n in ast.walk(k.value) if isinstance(n, ast.Name))
                if isinstance(st.func, ast.Attribute) and st.func.attr in _MUTATORS and isinstance(st.func.value, ast.Name):
                    self.other.add(st.func.value.id)
            elif isinstance(st, ast.Subscript) and isinstance(st.ctx, ast.Store) and isinstance(st.value, ast.Name):
                self.binds.setdefault("[]" + st.value.id, []).append((st, None))

    def _target(self, t, value, pos):
        if isinstance(t, ast.Name):
            self.binds.setdefault(t.id, []).append((value, pos))
        elif isinstance(t, (ast.Tuple, ast.List)) and pos is None:
            for k, e in enumerate(t.elts):
                self._target(e, value, k)
        else:
            self.other.update(n.id for n in ast.walk(t) if isinstance(n, ast.Name) and isinstance(n.ctx, ast.Store))

    def resolve(self, node, depth=0):
        if depth > 12:
            raise core.AnchorMissing("definition chain too deep")
        this = self

        class Sub(ast.NodeTransformer):
            def visit_Name(self, n):
                if not isinstance(n.ctx, ast.Load) or n.id not in this.binds:
                    return n
                if n.id in this.params:
                    return n  # a parameter with a defaulting re-binding (`if logger is None: logger = ...`): shown as the parameter
                bs = this.binds[n.id]
                if n.id in this.other or len(bs) != 1:
                    raise core.AnchorMissing(f"`{n.id}` is not bound by exactly one assignment ({len(bs)} assignments" + (", also modified in place" if n.id in this.other else "") + ")")
                value, pos = bs[0]
                v = this.resolve(copy.deepcopy(value), depth + 1)
                return v if pos is None else ast.Subscript(value=v, slice=ast.Constant(pos), ctx=ast.Load())
        return Sub().visit(node)

    def text(self, node):
        return " ".join(ast.unparse(ast.fix_missing_locations(self.resolve(copy.deepcopy(node)))).split())


def _dispatch(src):
    """measure_membrane_thickness: the two implementation calls with every argument written over the function's own parameters
    (locals replaced by their definitions: which CSV columns are the points / normals / masks, where the voxel size comes from)"""
    fn = copy.deepcopy(src.find(REL, _FUNCS["top"]))
    fn = _Normalise().visit(fn)
    rs = _Resolver(fn)
    out = []
    for name in (_FUNCS["gpu"], _FUNCS["cpu"]):
        calls = [n for n in ast.walk(fn) if isinstance(n, ast.Call) and isinstance(n.func, ast.Name) and n.func.id == name]
        if len(calls) != 1:
            raise core.AnchorMissing(f"measure_membrane_thickness: exactly one call of {name} expected, found {len(calls)}")
        c = calls[0]
        if any(isinstance(a, ast.Starred) for a in c.args) or any(k.arg is None for k in c.keywords):
            raise core.AnchorMissing(f"measure_membrane_thickness: the call of {name} uses * / ** arguments")
        out.append(f"{name}(" + ", ".join([rs.text(a) for a in c.args] + [f"{k.arg}={rs.text(k.value)}" for k in c.keywords]) + ")")
    return out


def _columns(src):
    """measure_membrane_thickness: what is written into the result columns — `df['thickness'] = <k-th result of the implementation call>`"""
    fn = copy.deepcopy(src.find(REL, _FUNCS["top"]))
    fn = _Normalise().visit(fn)
    rs = _Resolver(fn)
    impl = (_FUNCS["gpu"], _FUNCS["cpu"])
    out = []
    for st in ast.walk(fn):
        if isinstance(st, ast.Assign) and len(st.targets) == 1 and isinstance(st.targets[0], ast.Subscript) and isinstance(st.targets[0].slice, ast.Constant) \
                and isinstance(st.targets[0].slice.value, str) and isinstance(st.targets[0].value, ast.Name):
            col, v = st.targets[0].slice.value, st.value
            if not isinstance(v, ast.Name):
                out.append(f"{col} = {' '.join(ast.unparse(v).split())}")
                continue
            bs = rs.binds.get(v.id, [])
            srcs = sorted({(val.func.id if isinstance(val, ast.Call) and isinstance(val.func, ast.Name) else "?", pos) for val, pos in bs}, key=str)
            if v.id in rs.other or v.id in rs.params or not bs or any(f not in impl for f, _ in srcs) or len({pos for _, pos in srcs}) != 1 or len(bs) != 2:
                raise core.AnchorMissing(f"measure_membrane_thickness: column {col!r} is assigned `{v.id}`, which is not simply the k-th result of the two implementation calls")
            out.append(f"{col} = result[{srcs[0][1]}] of " + " / ".join(f for f, _ in srcs))
    if not out:
        raise core.AnchorMissing("measure_membrane_thickness: no result column is assigned")
    return sorted(out)


_VIEWISH = ("view", "reshape", "ravel", "squeeze", "swapaxes", "transpose", "T", "flat", "real", "imag", "values", "to_numpy", "__array__", "diagonal")
_NP_ALIAS = ("asarray", "asanyarray", "ascontiguousarray", "ravel", "reshape", "squeeze", "atleast_1d", "atleast_2d", "transpose", "broadcast_to")
_NP_INPLACE = ("put", "place", "copyto", "putmask", "fill_diagonal", "put_along_axis", "shuffle")
_BUILTIN_PURE = ("len", "zip", "range", "enumerate", "sum", "min", "max", "sorted", "list", "tuple", "int", "float", "str", "bool", "abs", "print", "isinstance",
                 "any", "all", "round", "repr", "type", "iter", "map", "filter", "reversed", "set", "dict", "open")
PURE_HELPERS = ("generate_matching_statistics", "save_matching_statistics", "generate_thickness_volume", "save_thickness_volume")


def _root(e):
    """the name an expression is (possibly) a view of: x, x[...], x.attr, x.view()/reshape()/..., np.asarray(x) ..."""
    while True:
        if isinstance(e, ast.Name):
            return e.id
        if isinstance(e, (ast.Attribute, ast.Subscript, ast.Starred)):
            e = e.value
        elif isinstance(e, ast.Call) and isinstance(e.func, ast.Attribute) and e.func.attr in _VIEWISH:
            e = e.func.value
        elif isinstance(e, ast.Call) and isinstance(e.func, ast.Attribute) and isinstance(e.func.value, ast.Name) and e.func.value.id in ("np", "numpy") \
                and e.func.attr in _NP_ALIAS and e.args:
            e = e.args[0]
        else:
            return None


def _writes(src, fname):
    """purity obligation of a helper that receives the caller's arrays (the result arrays of the measurement before they are written to the
    CSV): every statement that may modify a PARAMETER (or a local that may be a view of one) in place — subscript / attribute store,
    augmented assignment, `del`, `out=`, a mutating method, an in-place numpy routine, or handing it on to another non-builtin function"""
    fn = src.find(REL, fname)
    tracked = set(_param_names(fn))
    nodes = [n for st in fn.body for n in ast.walk(st)]
    changed = True
    while changed:  # locals that may alias a tracked name
        changed = False
        for n in nodes:
            if isinstance(n, (ast.Assign, ast.AnnAssign)) and getattr(n, "value", None) is not None:
                for t in (n.targets if isinstance(n, ast.Assign) else [n.target]):
                    pairs = list(zip(t.elts, n.value.elts)) if isinstance(t, (ast.Tuple, ast.List)) and isinstance(n.value, (ast.Tuple, ast.List)) and len(t.elts) == len(n.value.elts) else [(t, n.value)]
                    for tt, vv in pairs:
                        if isinstance(tt, ast.Name) and tt.id not in tracked and _root(vv) in tracked:
                            tracked.add(tt.id); changed = True
            elif isinstance(n, ast.NamedExpr) and n.target.id not in tracked and _root(n.value) in tracked:
                tracked.add(n.target.id); changed = True
    one = lambda x: " ".join(ast.unparse(x).split())[:90]
    out = []
    for n in nodes:
        ln = getattr(n, "lineno", 0)
        if isinstance(n, (ast.Assign, ast.AnnAssign, ast.Delete)):
            for t in (n.targets if isinstance(n, (ast.Assign, ast.Delete)) else [n.target]):
                for tt in (t.elts if isinstance(t, (ast.Tuple, ast.List)) else [t]):
                    if isinstance(tt, (ast.Subscript, ast.Attribute)) and _root(tt) in tracked:
                        out.append(f"{fname}: `{one(n)}` stores into `{_root(tt)}` (line {ln})")
        elif isinstance(n, ast.AugAssign) and _root(n.target) in tracked:
            out.append(f"{fname}: `{one(n)}` modifies `{_root(n.target)}` in place (line {ln})")
        elif isinstance(n, ast.Call):
            f = n.func
            for k in n.keywords:
                if k.arg == "out" and any(_root(x) in tracked for x in ([k.value] if not isinstance(k.value, (ast.Tuple, ast.List)) else k.value.elts)):
                    out.append(f"{fname}: `{one(n)}` writes through out= (line {ln})")
            if isinstance(f, ast.Attribute) and (f.attr in _MUTATORS or f.attr.startswith("__i") or f.attr in ("__setitem__", "__delitem__")) and _root(f.value) in tracked:
                out.append(f"{fname}: `{one(n)}` calls a mutating method of `{_root(f.value)}` (line {ln})")
            if isinstance(f, ast.Attribute) and f.attr in _NP_INPLACE and n.args and _root(n.args[0]) in tracked:
                out.append(f"{fname}: `{one(n)}` is an in-place routine on `{_root(n.args[0])}` (line {ln})")
            if isinstance(f, ast.Attribute) and isinstance(f.value, ast.Name) and f.value.id in ("np", "numpy") and len(n.args) >= 3 and _root(n.args[-1]) in tracked \
                    and f.attr not in ("where", "clip", "linspace", "arange", "interp", "percentile", "histogram", "full", "isclose", "allclose", "column_stack"):
                out.append(f"{fname}: `{one(n)}` may use `{_root(n.args[-1])}` as a positional out argument (line {ln})")
            if isinstance(f, ast.Name) and f.id not in _BUILTIN_PURE and f.id not in _helper_names(fn):
                for x in list(n.args) + [k.value for k in n.keywords]:
                    if _root(x) in tracked:
                        out.append(f"{fname}: hands `{_root(x)}` on to {f.id}(...) (line {ln})")
    return sorted(set(out))


def _arg_anchor(rs, call, keep):
    if any(isinstance(a, ast.Starred) for a in call.args) or any(k.arg is None for k in call.keywords):
        raise core.AnchorMissing("a call site uses * / ** arguments")
    pos = [rs.text(a) for a in call.args]
    return ", ".join([f"<positional {j}>={t}" for j, t in enumerate(pos)] + [f"{k.arg}={rs.text(k.value)}" for k in call.keywords if k.arg in keep])


def _callers(src):
    """the other two ways into the measurement: run_full_pipeline and the command line (main / parse_arguments) — which of their own
    parameters / options reach max_thickness, max_angle, direction, use_gpu, num_cpu_threads of measure_membrane_thickness, with which defaults"""
    keep = ("max_thickness", "max_angle", "direction", "use_gpu", "num_cpu_threads")
    out = []
    pipe = copy.deepcopy(src.find(REL, "run_full_pipeline"))
    out.append("run_full_pipeline(" + ", ".join(x for x in _signature(_Normalise().visit(copy.deepcopy(pipe))) if x.split("=")[0] in keep) + ")")
    rs = _Resolver(pipe)
    calls = [n for n in ast.walk(pipe) if isinstance(n, ast.Call) and isinstance(n.func, ast.Name) and n.func.id == _FUNCS["top"]]
    if len(calls) != 1:
        raise core.AnchorMissing(f"run_full_pipeline: exactly one call of measure_membrane_thickness expected, found {len(calls)}")
    out.append("run_full_pipeline -> measure_membrane_thickness: " + _arg_anchor(rs, calls[0], keep))
    main = copy.deepcopy(src.find(REL, "main"))
    rs = _Resolver(main)
    for callee in ("run_full_pipeline", _FUNCS["top"]):
        calls = [n for n in ast.walk(main) if isinstance(n, ast.Call) and isinstance(n.func, ast.Name) and n.func.id == callee]
        if len(calls) != 1:
            raise core.AnchorMissing(f"main: exactly one call of {callee} expected, found {len(calls)}")
        out.append(f"main -> {callee}: " + _arg_anchor(rs, calls[0], keep))
    pa = src.find(REL, "parse_arguments")
    opts = {}
    for n in ast.walk(pa):
        if isinstance(n, ast.Call) and isinstance(n.func, ast.Attribute) and n.func.attr == "add_argument" and n.args and isinstance(n.args[0], ast.Constant):
            opts.setdefault(n.args[0].value, []).append(n)
    for flag in ("--max_thickness", "--max_angle", "--direction", "--use_cpu", "--cpu_threads"):
        if len(opts.get(flag, [])) != 1:
            raise core.AnchorMissing(f"parse_arguments: exactly one add_argument({flag!r}) expected")
        n = opts[flag][0]
        out.append(f"option {flag}: " + ", ".join(f"{k.arg}={' '.join(ast.unparse(k.value).split())}" for k in n.keywords if k.arg != "help"))
    return out


def _helpers(src, fname):
    return _canon(src.find(REL, fname))._helpers


def _body_of(src, fname):
    return _dump(_canon(src.find(REL, fname)).body)


def _caps(src):
    """max_matches_per_point: default of measure_thickness_cpu, constant handed to the kernel (10th launch argument) in measure_thickness_gpu"""
    fn = src.find(REL, _FUNCS["cpu"])
    a = fn.args
    names = [x.arg for x in a.args]
    dfl = dict(zip(names[len(names) - len(a.defaults):], a.defaults))
    pos = _ROLES["cpu"]["CAP"]
    if pos >= len(names) or names[pos] not in dfl or not isinstance(dfl[names[pos]], ast.Constant) or type(dfl[names[pos]].value) is not int:
        raise core.AnchorMissing("measure_thickness_cpu: integer default of the 11th parameter (max_matches_per_point)")
    cpu = dfl[names[pos]].value
    g = _canon(src.find(REL, _FUNCS["gpu"]))
    flow = _Flow(g)
    flow.root = g.body
    calls = [(st, st.value) for st in ast.walk(g) if isinstance(st, ast.Expr) and isinstance(st.value, ast.Call) and isinstance(st.value.func, ast.Subscript)
             and ast.unparse(st.value.func.value) == _FUNCS["cuda"]]
    if len(calls) != 1 or len(calls[0][1].args) != 10:
        raise core.AnchorMissing("measure_thickness_gpu: kernel launch")
    st, call = calls[0]
    v = call.args[_ROLES["cuda"]["CAP"]]
    if isinstance(v, ast.Name):
        v = flow.lookup(v.id, st).value
    if not isinstance(v, ast.Constant) or type(v.value) is not int:
        raise core.AnchorMissing("measure_thickness_gpu: the 10th launch argument is not an integer constant")
    return [cpu, v.value]


def _lean_site(name, s):
    if s is None:  # anchor missing: a site that satisfies none of the theorems
        z = "(.var .r)"
        return (f"def {name} : Site := ⟨{z}, {z}, .ne, {z}, .ne, {z}⟩\ndef {name}Stored : Expr := {z}\ndef {name}Ball : Ball := .missing\n"
                f"def {name}Chain : List String := []\ndef {name}Store : List String := []\n")
    return (f"def {name} : Site :=\n  {{ dist2 := {_lean_expr(s['dist2'])}\n    proj := {_lean_expr(s['proj'])}\n    projCmp := .{s['projCmp']}\n"
            f"    lat2 := {_lean_expr(s['lat2'])}\n    coneCmp := .{s['coneCmp']}\n    coneRhs := {_lean_expr(s['coneRhs'])} }}\n"
            f"/-- argument of the square root whose value is recorded as the distance of the match -/\n"
            f"def {name}Stored : Expr := {_lean_expr(s['stored'])}\n"
            f"def {name}Ball : Ball := {s['ball']}\n"
            f"/-- guards of the statement that records a match, from the function body down (roles substituted for names) -/\n"
            f"def {name}Chain : List String := {_lean_list(s['chain'])}\n"
            f"/-- the block that records a match -/\n"
            f"def {name}Store : List String := {_lean_list(s['store'])}\n")


def _lean_list(xs, indent="  "):
    if not xs:
        return "[]"
    return "[\n" + ",\n".join(indent + core.lean_str(x) for x in xs) + "]"


_NM = dict(cuda="CudaKernel", gpu2cpu="Gpu2Cpu", gpu="MeasureGpu", numba="NumbaKernel", cpu="MeasureCpu", cpu2cpu="Cpu2Cpu", top="Top", readseg="ReadSeg")
_FUNCS_ALL = dict(_FUNCS, readseg="read_segmentation")


def _documented():
    """the literals of Props/C20.lean, for console diagnostics ONLY (the Lean kernel decides; this names the function and the source line)"""
    import re as _re
    try:
        txt = open(os.path.join(core.LEAN, "CryoCat", "Props", "C20.lean")).read()
    except Exception:
        return {}
    out = {}
    for m in _re.finditer(r"Gen\.C20\.(\w+)\s*=\s*\[", txt):
        k, items = m.end(), []
        while True:
            mm = _re.compile(r'\s*"((?:[^"\\]|\\.)*)"\s*(,|\])').match(txt, k)
            if not mm:
                break
            items.append(mm.group(1).replace('\\"', '"').replace("\\\\", "\\"))
            k = mm.end()
            if mm.group(2) == "]":
                out[m.group(1)] = items
                break
    return out


def _diagnose(src, bodies):
    """first-hand console message for a changed canonical body: which function, which statement, which source line"""
    import sys
    doc = _documented()
    for k, dumped in bodies.items():
        want = doc.get("body" + _NM[k])
        got = [t for t, _ in dumped]
        if want is None or want == got or not got:
            continue
        j = next((i for i, (x, y) in enumerate(zip(want, got)) if x != y), min(len(want), len(got)))
        try:
            fn = _canon(src.find(REL, _FUNCS_ALL[k]))
        except Exception:
            fn = None
        here = _back(fn, got[j]) if (fn is not None and j < len(got)) else "<end of function>"
        line = dumped[j][1] if j < len(got) else "?"
        print(f"[c20] translator: the body of {_FUNCS_ALL[k]} is not the documented one (theorem about Gen.C20.body{_NM[k]}): statement {j} is "
              f"`{here.split('|', 1)[-1]}` ({REL}:{line}), documented `{want[j] if j < len(want) else '<end of function>'}` (canonical names)", file=sys.stderr, flush=True)


def translate(src):
    sites = {k: src.anchor(f"site:{_FUNCS[k]}", lambda k=k: _site(src, k)) for k in ("cpu", "numba", "cuda")}
    sites = {k: (v if isinstance(v, dict) else None) for k, v in sites.items()}
    gsc = src.anchor("scalars:measure_thickness_gpu", lambda: _gpu_scalars(src))
    gsc = gsc if isinstance(gsc, dict) else {}
    keys = ("cuda", "gpu2cpu", "gpu", "numba", "cpu", "cpu2cpu", "top", "readseg")
    dumps = {}
    for k in keys:
        d = src.anchor(f"body:{_FUNCS_ALL[k]}", lambda k=k: _dump2(_canon(src.find(REL, _FUNCS_ALL[k])).body))
        dumps[k] = d if isinstance(d, list) else []
        src.anchors[-1]["value"] = [t for t, _ in dumps[k]] if src.anchors[-1]["ok"] else None
    bodies = {k: [t for t, _ in v] for k, v in dumps.items()}
    try:
        _diagnose(src, dumps)
    except Exception:
        pass
    helpers = {k: src.anchor(f"helpers:{_FUNCS_ALL[k]}", lambda k=k: _helpers(src, _FUNCS_ALL[k])) or [] for k in ("cpu", "gpu", "readseg")}
    sigs = {k: src.anchor(f"signature:{_FUNCS[k]}", lambda k=k: _sig(src, k)) or ([], []) for k in ("cuda", "gpu2cpu", "gpu", "numba", "cpu", "cpu2cpu", "top")}
    disp = src.anchor("dispatch:measure_membrane_thickness", lambda: _dispatch(src)) or []
    cols = src.anchor("columns:measure_membrane_thickness", lambda: _columns(src)) or []
    writes = []
    for h in PURE_HELPERS:  # a missing anchor counts as a write (the theorem expects the empty list)
        w = src.anchor(f"purity:{h}", lambda h=h: _writes(src, h))
        writes += w if isinstance(w, list) else [f"{h}: not analysed"]
    callers = src.anchor("callers:measure_membrane_thickness", lambda: _callers(src)) or []
    caps = src.anchor("max_matches_per_point", lambda: _caps(src)) or [CAP, CAP]  # missing -> the documented value (anchorsOk is false then)
    if sites["cpu"] is not None and (sites["cpu"].get("mult") is None or sites["cpu"].get("radius") is None):
        src.anchors.append(dict(name="scalars:measure_thickness_cpu", ok=False, value=None, detail="radius / multiplier not used by the admissibility test"))
    for a in src.anchors:  # anchors store str(dict); keep the evidence small
        if isinstance(a.get("value"), str) and len(a["value"]) > 400:
            a["value"] = a["value"][:400] + "..."
        if isinstance(a.get("value"), list) and len(str(a["value"])) > 1500:
            a["value"] = str(a["value"])[:1500] + "..."
    b = lambda v: "true" if v else "false"
    cpu = sites["cpu"] or {}
    L = [f"-- GENERATED by harness/props/c20.py from {REL}; do not edit", "import CryoCat.Model.C20_Expr", "namespace CryoCat.Gen.C20",
         "open CryoCat.C20", f"def anchorsOk : Bool := {b(src.ok)}",
         _lean_site("siteCpu", sites["cpu"]) + _lean_site("siteNumba", sites["numba"]) + _lean_site("siteCuda", sites["cuda"]) +
         "/-- the cone multiplier: in measure_thickness_cpu the scalar of the cone test, in measure_thickness_gpu the 9th launch argument -/",
         f"def multCpu : AExpr := {cpu.get('mult') or '(.other \"missing\")'}",
         f"def multGpu : AExpr := {gsc.get('mult') or '(.other \"missing\")'}",
         "/-- the search radius: 2nd argument of query_ball_point / 8th launch argument -/",
         f"def radiusCpu : String := {core.lean_str(cpu.get('radius') or 'missing')}",
         f"def radiusGpu : String := {core.lean_str(gsc.get('radius') or 'missing')}"]
    L += ["/-- max_matches_per_point: default of measure_thickness_cpu / constant of measure_thickness_gpu -/",
          f"def capDefault : Nat := {caps[0]}", f"def capGpu : Nat := {caps[1]}"]
    for k in ("cuda", "gpu2cpu", "gpu", "numba", "cpu", "cpu2cpu", "top"):
        L.append(f"/-- {_FUNCS[k]}: decorators, parameters with defaults (annotations ignored) -/")
        L.append(f"def deco{_NM[k]} : List String := {_lean_list(sigs[k][0])}")
        L.append(f"def sig{_NM[k]} : List String := {_lean_list(sigs[k][1])}")
    for k in keys:
        L.append(f"/-- {_FUNCS_ALL[k]}: canonical body (parameters a<i> by position, locals v<j> by first binding, annotations / docstrings / logging removed) -/")
        L.append(f"def body{_NM[k]} : List String := {_lean_list(bodies[k])}")
    for k in ("cpu", "gpu", "readseg"):
        L.append(f"/-- {_FUNCS_ALL[k]}: the logging helper(s) every pruned `log_msg(...)` statement calls (argument x0, parameters a<i>) -/")
        L.append(f"def helpers{_NM[k]} : List String := {_lean_list(helpers[k])}")
    L.append("/-- measure_membrane_thickness: the two implementation calls, arguments written over the function's own parameters -/")
    L.append(f"def dispatch : List String := {_lean_list(disp)}")
    L.append("/-- measure_membrane_thickness: the result columns -/")
    L.append(f"def columns : List String := {_lean_list(cols)}")
    L.append("/-- the helpers that receive the caller's arrays (results of the measurement) before / around the CSV stores -/")
    L.append(f"def pureHelpers : List String := {_lean_list(list(PURE_HELPERS))}")
    L.append("/-- every statement of those helpers that may modify a parameter (or a view of one) in place -/")
    L.append(f"def helperWrites : List String := {_lean_list(writes)}")
    L.append("/-- run_full_pipeline and the command line: what reaches measure_membrane_thickness -/")
    L.append(f"def callers : List String := {_lean_list(callers)}")
    L.append("end CryoCat.Gen.C20")
    return "\n".join(L) + "\n"


# ================================================================================ constants
COUNT = {"quick": 200, "thorough": 2000, "search": 150}  # search cases are small (6..40 points); 150 keep an anchor-break run inside the quick budget
PARALLEL = False  # numba's thread pool does not survive vcheck's fork pool: forked workers deadlock once the parent has run a prange kernel
os.environ.setdefault("NUMBA_NUM_THREADS", "2")  # 16 forked workers x prange threads
CAP = 25
REL_MARGIN = 1e-6      # distance of every decision from the ball / cone boundary (relative). Worst legitimate rounding: the inputs are exact
#                        floats, so dx = pt - ps has ONE rounding (1.1e-16 relative, no cancellation error); d^2 and d: <= 5 roundings (6e-16);
#                        the lateral offset dx - proj*n cancels down to >= d*tan(1 degree) = 0.017 d at the cone boundary with an absolute error
#                        <= 4e-16 d, i.e. <= 2.4e-14 relative, lat2 <= 5e-14, m*proj^2 <= 1e-15 -> every quantity AT a boundary is accurate to
#                        <= 1e-13, seven orders below the margin (a projection that rounds across 0 is rejected on both sides: proj <= 0 or
#                        lat2 ~ d^2 > m*proj^2). The entry point's float32 voxel size / radius moves the ball boundary by <= 1.8e-7: inside too.
TIE_MARGIN = 1e-9      # relative gap between candidate distances (float families): sqrt of a 3-term sum, error <= 3 ulp = 3.3e-16
TH_TOL = 1e-6          # thickness is float32(dist) * float32(voxel): three float32 roundings of 2^-24 = 6e-8 each -> <= 1.8e-7 relative
GPU_TH_TOL = 3e-6      # the GPU path computes the distance itself in float32 from float32 coordinates: 3 subtractions, 3 squares, 2 additions,
#                        1 sqrt, the store and the product with the voxel size -> <= 11 * 6e-8 = 6.6e-7 relative on the float32-rounded input
ANGLE_EPS = 1e-4       # degrees, for the independent evaluation of the cone clause: an accepted pair is >= 1e-6 (relative, in tan^2) inside the cone,
#                        i.e. >= 0.5e-6 * tan(t)/(1+tan(t)^2) rad >= 5e-7 degrees inside at t = 1 degree; atan2 of float64 cross/dot products of
#                        unit-length normals (|n| = 1 +- 2e-16) is accurate to ~1e-13 degrees. ANGLE_EPS only has to exceed that error: it loosens
#                        the independent check (a pair up to 1e-4 degrees outside would pass it) and cannot raise a false alarm; the exact cone
#                        decision is the verified checker's (Lean, same Float expressions as the code).

RULE = ("point sets of 20..600 points (search tier: 6..40): family 'sheets' = two sheets (flat, tilted or curved; separation h, "
        "jitter), unit normals with angular noise and ~5% flipped, targets aimed at sources at off-axis angles spread around "
        "max_angle (inside, just outside, up to 44 degrees), competing sources aimed at the same target, ~5% arbitrary relabelling "
        "(none/1/2/both), shuffled order, random rigid placement; family 'grid' = integer lattices scaled by 2^-k with axis normals "
        "(exact float arithmetic: exact distance ties decided by index order, targets exactly on the search radius); voxel size "
        "0.3..3, max_thickness 0.75..1.8 x separation, max_angle 1..30 degrees, both directions; every decision kept a relative "
        "margin 1e-6 away from the ball/cone boundary and (float families) candidate distances 1e-9 apart; < 25 candidates per "
        "source (corpus: exactly 24, exactly 25, 40 = outside the quantifier, judged per pair only, and an end-to-end case of 30 pairs with one pair just below the maximum thickness). Call options: in ~35% of the cases the geometry is built so that max_thickness_nm / "
        "max_angle_degrees / direction ARE the documented defaults (8.0, 5.0 CPU / 3.0 GPU and entry point, '1to2') and the keyword is left out; "
        "max_matches_per_point passed in half of the cases; logger left out (library prints, stdout captured) in ~12%, num_threads=1|2 passed in ~8% (never more than numba's pool size in this environment); "
        "lattice points with integral coordinates handed over as an int64 array in ~30% of the grid cases; the voxel size as python int / numpy float32 "
        "where that is the same number. Each case: measure_thickness_cpu; numba find_matches_parallel + "
        "process_matches_gpu2cpu; re-runs on a rigidly moved copy, a voxel-rescaled copy (maximum scaled along) and the surface-swapped "
        "copy; 30%: the same data at another voxel size with the SAME max_thickness_nm (judged as an input of its own); 30%: cross-call "
        "stream - the same candidate list object (the numba kernel's candidates as (dist, source, target) tuples) handed to process_matches_cpu2cpu twice, second call at another voxel size, each call judged like a first call on the candidates given (35%); the same caller-owned arrays, some labels cleared IN PLACE, go into a second and a third call (judged like the "
        "first; all caller-owned arrays compared before/after every call); ~22%: END TO END through the entry point measure_membrane_thickness "
        "on a synthetic segmentation MRC (voxel size in the header) + vertex CSV (x/y/z_voxel, x/y/z_physical, normal_*, surface1/2 as "
        "True/False or 1/0, integral columns written as integers in half of them), use_gpu=False or left at its default True (no CUDA device: CPU "
        "branch), output CSV read back and judged by the verified checker at the voxel size read from the header; 45% of the cases whose decisions "
        "have float32 margins: the whole GPU path (measure_thickness_gpu + CUDA kernel + process_matches_gpu2cpu, and for half of the end-to-end cases "
        "the entry point with use_gpu=True) executed by numba's CUDA simulator in worker processes, including one lattice case of 300..600 points per "
        "quick run (every 100th case in thorough) so that a launch of 2-3 blocks of 256 threads is executed. non-trivial = at least 2 admissible pairs, at "
        "least one admissible pair refused because its source or target was taken, and at least one in-range forward target "
        "between the cone and 45 degrees; distinct = distinct case content")
ASSUMPTIONS = [
    "numpy float64 arithmetic = Lean Float (IEEE binary64) on the model's expressions; decisions are kept 1e-6 (relative) away from ties so "
    "rounding cannot flip them; family 'grid' is exact",
    "scipy.spatial.KDTree.query_ball_point(x, r) returns exactly the points with distance <= r (probed each run against brute force)",
    "libm tan of Lean's Float.tan and numpy's np.tan agree to a few ulp (probed each run)",
    "thickness_results is float32: float32(dist) * float32(voxel) is compared with dist*voxel at relative tolerance 1e-6 (three float32 roundings "
    "of 2^-24 = 6e-8 each: the distance, the voxel size, the product; 1.8e-7 < 1e-6)",
    "numba prange scheduling does not influence per-source candidate lists (each source writes its own row)",
    "the CUDA kernel and measure_thickness_gpu are executed by numba's CUDA SIMULATOR (NUMBA_ENABLE_CUDASIM=1: the kernel body runs as Python, one "
    "thread per grid index), never on a GPU: thread scheduling, device memory and the device compiler's float32/float64 promotion are not "
    "observed. The GPU path rounds points and normals to float32; it is judged on the float32-rounded input (model at Float on the rounded "
    "coordinates), only for cases whose decisions are 1e-4 (relative) away from every boundary and whose candidate distances are equal or "
    "1e-5 apart, thickness tolerance 3e-6 (distance computed in float32: ~5 roundings of 6e-8). The quantifier names the CPU implementation and the "
    "numba kernel, so every disagreement of the GPU path is reported as correspondence (corr), never as a violated clause",
    "the entry point reads the voxel size from the MRC header (float32 Angstrom / 10, kept in float32): it is judged at that voxel size (relative "
    "distance < 1.2e-7 from the case's, decisions of that variant are kept 1e-6 away from every boundary as well); pandas' CSV float parser may be 1 ulp "
    "off for long decimals (inside the 1e-6 margins; lattice coordinates are short dyadic decimals and parse exactly)",
    "find_matches_parallel (the numba candidate kernel the quantifier names) is DEAD CODE in /repo today: nothing in cryocat calls it (measure_thickness_cpu uses the "
    "KD-tree loop, measure_thickness_gpu the CUDA kernel). It is checked as the statement asks - called directly with the documented arguments, followed by "
    "process_matches_gpu2cpu - but no user-facing path reaches it",
    "run_full_pipeline and the command line (main / parse_arguments) are ANCHORED ONLY (Props/C20.callers_documented: defaults and which of their parameters reach "
    "max_thickness / max_angle / direction / use_gpu / num_cpu_threads of measure_membrane_thickness); they are never executed here (they need a full segmentation and "
    "run marching cubes + normal refinement first). The helpers that see the result arrays around the CSV stores are held to a SYNTACTIC purity obligation "
    "(Props/C20.helpers_pure) and observed end to end only through the entry point's CPU branch (and its GPU branch under the simulator)",
    "num_threads / num_cpu_threads are passed as min(generated value, numba.config.NUMBA_NUM_THREADS): numba refuses more threads than its pool (NUMBA_NUM_THREADS or "
    "the number of cores) with a ValueError, which is numba's documented precondition, not a clause of the statement",
    "the 25-candidate cap: the kernels keep the first 25 admissible targets in scan order (modelled: candsCapped; capped = uncapped is proved for <= 25 "
    "per source), the CPU path the first 25 in KD-tree order (not modelled). With more than 25 admissible targets for a source the input is outside the "
    "quantifier: per-pair clauses and the kernels' buffers are still judged, the greedy clause, the invariances and the CPU-vs-model comparison are not "
    "(Props/C20.cap_counterexample shows the greedy clause fails above the cap)",
]
TRUSTED = ["harness geometry used only to *generate* margins (props/c20.py _analyse) and for the independent angle/thickness evaluation in judge()",
           "numba's CUDA simulator as the execution vehicle of the GPU path"]


# ================================================================================ geometry helpers (generator side only)
def _unit(v):
    v = np.asarray(v, dtype=float)
    return v / np.linalg.norm(v)


def _rot(rotvec):
    """Rodrigues formula (no scipy)"""
    rv = np.asarray(rotvec, dtype=float)
    a = np.linalg.norm(rv)
    if a == 0:
        return np.eye(3)
    k = rv / a
    K = np.array([[0, -k[2], k[1]], [k[2], 0, -k[0]], [-k[1], k[0], 0]])
    return np.eye(3) + math.sin(a) * K + (1 - math.cos(a)) * (K @ K)


def _perp(n, rng):
    """random unit vector orthogonal to n"""
    while True:
        v = np.array([rng.gauss(0, 1) for _ in range(3)])
        v = v - np.dot(v, n) * n
        l = np.linalg.norm(v)
        if l > 1e-3:
            return v / l


def _tilt(n, ang_deg, rng):
    """unit vector at angle ang_deg from n in a random azimuth"""
    e = _perp(n, rng)
    a = math.radians(ang_deg)
    return _unit(math.cos(a) * n + math.sin(a) * e)


def _masks(case):
    lab = np.asarray(case["lab"], dtype=int)
    return (lab & 1).astype(bool), (lab & 2).astype(bool)


def _src_tgt(case):
    m1, m2 = _masks(case)
    return (m2, m1) if case["dir"] == "2to1" else (m1, m2)


def _analyse(case):
    """all source x target quantities by the *statement* (tan^2 cone), float64; generator/judge side"""
    P = np.asarray(case["pts"], dtype=float).reshape(-1, 3)
    N = np.asarray(case["nrm"], dtype=float).reshape(-1, 3)
    sm, tm = _src_tgt(case)
    si, ti = np.where(sm)[0], np.where(tm)[0]
    if len(si) == 0 or len(ti) == 0:
        z = np.zeros((len(si), len(ti)))
        return dict(si=si, ti=ti, d=z, proj=z, lat2=z, rhs=z, adm=z.astype(bool), r=case["maxnm"] / case["voxel"], m=0.0)
    V = P[ti][None, :, :] - P[si][:, None, :]
    d = np.sqrt((V * V).sum(-1))
    proj = (V * N[si][:, None, :]).sum(-1)
    L = V - proj[:, :, None] * N[si][:, None, :]
    lat2 = (L * L).sum(-1)
    m = math.tan(math.radians(case["deg"])) ** 2
    r = case["maxnm"] / case["voxel"]
    rhs = m * proj * proj
    adm = (d <= r) & (proj > 0) & (lat2 < rhs)
    return dict(si=si, ti=ti, d=d, proj=proj, lat2=lat2, rhs=rhs, adm=adm, r=r, m=m)


def _meta(case):
    A = _analyse(case)
    adm, d, proj, lat2, r = A["adm"], A["d"], A["proj"], A["lat2"], A["r"]
    between = int(((d <= r) & (proj > 0) & ~adm & (lat2 < proj * proj)).sum()) if d.size else 0
    return dict(n_adm=int(adm.sum()), max_per_source=int(adm.sum(1).max()) if adm.size else 0,
                src_with_choice=int((adm.sum(1) >= 2).sum()) if adm.size else 0,
                tgt_contested=int((adm.sum(0) >= 2).sum()) if adm.size else 0,
                between_cone_and_45=between,
                beyond_radius_in_cone=int(((d > r) & (proj > 0) & (lat2 < A["rhs"])).sum()) if d.size else 0,
                behind=int(((d <= r) & (proj <= 0)).sum()) if d.size else 0,
                on_radius=int((d == r).sum()) if d.size else 0)


def corpus():
    """hand-written adversarial cases and minimised past failures (corpus/C20/*.json); meta is recomputed"""
    import glob
    out = []
    for p in sorted(glob.glob(os.path.join(core.VERIF, "corpus", PROP, "*.json"))):
        d = json.load(open(p))
        for c in (d if isinstance(d, list) else [d]):
            c = dict(c)
            c.setdefault("family", "corpus"); c.setdefault("shape", os.path.basename(p)[:-5])
            c.setdefault("motion", None); c.setdefault("k", None)
            c.setdefault("gpu", len(c["lab"]) <= GPU_MAX_POINTS)
            c.setdefault("reuse", 2.0)  # every hand-written case: its candidate list goes through process_matches_cpu2cpu twice
            # every hand-written case also goes END TO END through the entry point (CPU branch here, GPU branch under the simulator) where the
            # voxel size survives the MRC header (float32) unchanged, so that its boundary constructions stay what they are
            if "top" not in c and _veff(c["voxel"]) == c["voxel"]:
                c["top"] = dict(use_gpu=False, ints=True, flags="01", nolog=False, threads=None, gpu=True, origin=[0.0, 0.0, 0.0])
            c["meta"] = _meta(c)
            out.append(c)
    return out


def _veff(voxel):
    """the voxel size measure_membrane_thickness works with: the MRC header stores float32 Angstrom, read_segmentation divides by 10"""
    return float(np.float32(np.float32(voxel * 10.0) / np.float32(10.0)))


def _variants(case):
    """the inputs derived from a case that are judged against the model: the case itself, the same data at another voxel size with
    the SAME physical maximum thickness (`kv`), and the same data at the voxel size the top-level entry point reads back from the
    MRC header (float32)"""
    out = [case]
    if case.get("kv"):
        out.append(dict(case, voxel=case["voxel"] * case["kv"]))
    if case.get("top") and _veff(case["voxel"]) != case["voxel"]:
        out.append(dict(case, voxel=_veff(case["voxel"])))
    return out


def _clean(case, rng, exact=False):
    """unlabel targets until every decision (of the case and of its variants) is a margin away from a boundary, candidate
    distances are apart (float families) and every source has < CAP candidates; then fix the cross-call edit and record the meta counts.
    Always terminates with a clean case: if 16 rounds do not converge the variants are given up, and as a last resort every target
    label is removed (no candidates at all: trivially clean)."""
    lab = case["lab"]
    tbit = 1 if case["dir"] == "2to1" else 2

    def round_():
        drop = set()
        for var in _variants(case):
            A = _analyse(var)
            si, ti, d, proj, lat2, rhs, adm, r = (A[k] for k in ("si", "ti", "d", "proj", "lat2", "rhs", "adm", "r"))
            if not d.size:
                continue
            near = (d <= r * (1 + 10 * REL_MARGIN)) & (proj > 0)
            cone_close = near & (np.abs(lat2 - rhs) <= REL_MARGIN * (lat2 + rhs))
            ball_close = np.abs(d - r) <= REL_MARGIN * r
            if exact:  # exact families may sit exactly on the radius, but not a rounding error away from it
                ball_close = ball_close & (d != r)
            for a, b in zip(*np.where(cone_close | ball_close)):
                drop.add(int(ti[b]))
            if not exact and not drop:
                ia, ib = np.where(adm)
                dd = d[ia, ib]
                o = np.argsort(dd)
                for k in range(len(o) - 1):
                    if dd[o[k + 1]] - dd[o[k]] <= TIE_MARGIN * dd[o[k + 1]]:
                        drop.add(int(ti[ib[o[k + 1]]]))
            if not drop:
                cnt = adm.sum(1)
                for a in np.where(cnt >= CAP - 1)[0]:
                    bs = list(np.where(adm[a])[0])
                    rng.shuffle(bs)
                    for b in bs[: int(cnt[a]) - (CAP - 6)]:
                        drop.add(int(ti[b]))
        return drop

    def converge():
        for _ in range(16):
            drop = round_()
            if not drop:
                return True
            for t in drop:
                lab[t] &= ~tbit
        return False

    if not converge():
        case["kv"] = None
        case["top"] = None
        if not converge():
            for t in range(len(lab)):
                lab[t] &= ~tbit
            case["unclean_fallback"] = True
    # cross-call edit: some labelled points lose their label in place before the second call (a subset of the pairs: still clean)
    if case.get("edit") is not None:
        cand = [i for i, l in enumerate(lab) if l]
        kk = min(len(cand), rng.choice([1, 2, 3, max(1, len(cand) // 5)]))
        case["edit"] = dict(unlabel=sorted(rng.sample(cand, kk))) if cand else None
    case["meta"] = _meta(case)
    return case


# ================================================================================ generators
def _surface(kind, L, kappa):
    """(u,v) -> point, unit normal"""
    if kind == "curved":
        def f(u, v):
            x, y = u - L / 2, v - L / 2
            p = np.array([x, y, 0.5 * kappa * (x * x + y * y)])
            n = _unit([-kappa * x, -kappa * y, 1.0])
            return p, n
    else:
        def f(u, v):
            return np.array([u - L / 2, v - L / 2, 0.0]), np.array([0.0, 0.0, 1.0])
    return f


def _pre_options(rng, exact):
    """call options chosen before the geometry: which arguments are left to the library's defaults (G1: the case is built so that the
    value IS the documented default), whether the cap is passed, the GPU run, the second voxel size and the cross-call edit (G2)"""
    o = dict(omit=[], deg=None, maxnm8=False)
    if rng.random() < 0.35:
        if not exact and rng.random() < 0.7:
            o["maxnm8"] = True
            o["omit"].append("maxnm")
        if rng.random() < 0.7:  # max_angle_degrees: 5.0 is the CPU default, 3.0 the GPU default
            o["deg"] = 5.0 if (exact or rng.random() < 0.6) else 3.0
            o["omit"].append("deg")
        if rng.random() < 0.7:
            o["omit"].append("dir")  # left out only where the case's direction is '1to2' (the default)
    o["pass_cap"] = rng.random() < 0.5
    o["gpu"] = rng.random() < 0.45
    o["kv"] = (rng.choice([2.0, 0.5]) if exact else rng.choice([1.25, 1.5, 0.8])) if rng.random() < 0.3 else None
    o["edit"] = {} if rng.random() < 0.3 else None
    # logger / num_threads: documented defaults None (logger omitted = the library prints; stdout is captured), num_threads=1 or 2 given
    o["nolog"] = rng.random() < 0.12
    o["threads"] = rng.choice([1, 1, 2]) if rng.random() < 0.08 else None
    # H3: what a caller naturally hands over — integer voxel coordinates as an int64 array, the voxel size as int / numpy float32
    o["intpts"] = exact and rng.random() < 0.3
    o["voxel_type"] = rng.choice(["float", "float", "float", "int", "float32"])
    # the top-level entry point measure_membrane_thickness on a synthetic MRC + CSV (end to end)
    # the SAME candidate list object handed to process_matches_cpu2cpu twice (second call at another voxel size: other output unit)
    o["reuse"] = rng.choice([2.0, 0.5, 1.25]) if rng.random() < 0.35 else None
    o["top"] = None
    if rng.random() < 0.22:
        o["top"] = dict(use_gpu=rng.choice(["omit", False, False]), ints=rng.random() < 0.5, flags=rng.choice(["bool", "01"]),
                        nolog=rng.random() < 0.1, threads=rng.choice([None, None, 1]), gpu=rng.random() < 0.5,
                        origin=rng.choice([[0.0, 0.0, 0.0], [12.5, -3.0, 40.0]]))
    return o


def _options(case, o):
    if o["maxnm8"]:  # max_thickness_nm = 8.0: the voxel size that makes it so (same radius in voxels)
        r = case["maxnm"] / case["voxel"]
        case["voxel"], case["maxnm"] = 8.0 / r, 8.0
    case.update(omit=o["omit"], pass_cap=o["pass_cap"], gpu=o["gpu"] and len(case["lab"]) <= GPU_MAX_POINTS, kv=o["kv"], edit=o["edit"],
                nolog=o["nolog"], threads=o["threads"], intpts=o["intpts"], voxel_type=o["voxel_type"], top=o["top"], reuse=o.get("reuse"))


def _gen_sheets(rng, nmin, nmax):
    pre = _pre_options(rng, exact=False)
    n = rng.randint(nmin, nmax)
    deg = pre["deg"] or (float(rng.randint(1, 30)) if rng.random() < 0.4 else rng.uniform(1.0, 30.0))
    th = deg
    h = rng.uniform(3.0, 12.0)
    voxel = rng.choice([0.5, 1.0, 2.0, 0.78, 1.37]) if rng.random() < 0.4 else rng.uniform(0.3, 3.0)
    r = h * rng.uniform(0.75, 1.8)
    kind = rng.choice(["flat", "tilted", "curved"])
    n_src0 = max(2, int(n * rng.uniform(0.25, 0.5)))
    lam45 = math.exp(rng.uniform(math.log(0.5), math.log(8.0)))
    n_bg = max(1, int((n - n_src0) * rng.uniform(0.2, 0.6)))
    L = h * math.sqrt(math.pi * max(n_bg, 1) / lam45)
    kappa = rng.uniform(0.2, 1.0) / max(L, h) if kind == "curved" else 0.0
    f = _surface(kind, L, kappa)
    noise = rng.choice([0.0, 1.0, 3.0, 8.0, 20.0])
    jit = rng.choice([0.0, 0.02, 0.1]) * h
    pts, nrm, role = [], [], []  # role: 'S' source sheet, 'T' target sheet

    def add(p, nn, ro):
        pts.append(p); nrm.append(nn); role.append(ro)

    src = []
    for _ in range(n_src0):
        p, N = f(rng.uniform(0, L), rng.uniform(0, L))
        p = p + rng.uniform(-jit, jit) * N
        nn = _tilt(N, abs(rng.gauss(0, noise)), rng) if noise else N
        if rng.random() < 0.05:
            nn = -nn
        add(p, nn, "S"); src.append(len(pts) - 1)
    # background targets on the offset sheet
    for _ in range(n_bg):
        p, N = f(rng.uniform(0, L), rng.uniform(0, L))
        q = p + (h + rng.uniform(-jit, jit)) * N
        nn = _tilt(-N, abs(rng.gauss(0, noise)), rng) if noise else -N
        add(q, nn, "T")
    # aimed targets and competing sources until the budget is used
    budget = n - len(pts)
    guard = 0
    while budget > 0 and guard < 10 * n:
        guard += 1
        k = rng.random()
        if k < 0.7:
            a = rng.choice(src)
            u = rng.random()
            rho = rng.uniform(0, 0.95) if u < 0.5 else (rng.uniform(1.05, 2.5) if u < 0.8 else rng.uniform(1.0, 44.0 / th))
            phi = min(th * rho, 60.0)
            dirv = _tilt(nrm[a], phi, rng)
            dist = h * rng.uniform(0.8, 1.25) if rng.random() < 0.8 else r * rng.uniform(0.9, 1.15)
            q = pts[a] + dist * dirv
            add(q, _tilt(-nrm[a], abs(rng.gauss(0, noise)), rng) if noise else -nrm[a], "T")
            budget -= 1
        else:
            tg = [i for i, ro in enumerate(role) if ro == "T"]
            b = rng.choice(tg)
            base = -nrm[b] if rng.random() < 0.7 else _unit(pts[b] - pts[rng.choice(src)] + 1e-9)
            nd = _tilt(base, rng.uniform(0, 25.0), rng)
            dist = h * rng.uniform(0.6, 1.4)
            a_p = pts[b] - dist * nd
            a_n = _tilt(nd, th * (rng.uniform(0, 0.9) if rng.random() < 0.75 else rng.uniform(1.1, 3.0)), rng)
            add(a_p, a_n, "S"); src.append(len(pts) - 1)
            budget -= 1
    direction = rng.choice(["1to2", "2to1"])
    sl, tl = (1, 2) if direction == "1to2" else (2, 1)
    lab = [sl if ro == "S" else tl for ro in role]
    for i in range(len(lab)):
        if rng.random() < 0.05:
            lab[i] = rng.choice([0, 1, 2, 3])
    order = list(range(len(pts)))
    rng.shuffle(order)
    R = _rot([rng.gauss(0, 1.5) for _ in range(3)]) if kind != "flat" else np.eye(3)
    shift = np.array([rng.uniform(0, 200) for _ in range(3)])
    P = np.array([R @ pts[i] + shift for i in order])
    Nn = np.array([_unit(R @ nrm[i]) for i in order])
    case = dict(family="sheets", shape=kind, pts=P.tolist(), nrm=Nn.tolist(), lab=[lab[i] for i in order],
                voxel=float(voxel), maxnm=float(r * voxel), deg=float(deg), dir=direction,
                motion=dict(rotvec=[rng.gauss(0, 1.2) for _ in range(3)], shift=[rng.uniform(-50, 50) for _ in range(3)]),
                k=rng.choice([0.5, 2.0, 4.0]))
    _options(case, pre)
    return _clean(case, rng)


_SIGNED_PERMS = None


def _signed_perms():
    """the 24 rotations of the cube as integer matrices"""
    global _SIGNED_PERMS
    if _SIGNED_PERMS is None:
        import itertools
        out = []
        for perm in itertools.permutations(range(3)):
            for sg in itertools.product([1, -1], repeat=3):
                M = np.zeros((3, 3))
                for i in range(3):
                    M[i, perm[i]] = sg[i]
                if round(np.linalg.det(M)) == 1:
                    out.append(M)
        _SIGNED_PERMS = out
    return _SIGNED_PERMS


def _gen_grid(rng, nmin, nmax, big=False):
    pre = _pre_options(rng, exact=True)
    if big:  # the multi-block case: more points than one 256-thread block, always through the CUDA simulator
        pre["gpu"] = True
    n = rng.randint(nmin, nmax if big else min(nmax, 300))
    hz = rng.choice([2, 3, 4, 5, 6])
    side = max(3, int(math.sqrt(n)) + rng.randint(0, 3))
    cells = [(i, j) for i in range(side) for j in range(side)]
    na = max(2, n // 2)
    A = rng.sample(cells, min(na, len(cells)))
    B = rng.sample(cells, min(n - len(A), len(cells)))
    scale = rng.choice([1.0, 0.5, 0.25, 2.0])
    pts = [[i * scale, j * scale, 0.0] for i, j in A] + [[i * scale, j * scale, hz * scale] for i, j in B]
    if rng.random() < 0.3:  # a second target layer: distance ties between layers
        C = rng.sample(cells, min(len(B) // 2 + 1, len(cells)))
        pts += [[i * scale, j * scale, (hz + 1) * scale] for i, j in C]
        nB = len(B) + len(C)
    else:
        nB = len(B)
    nrm = [[0.0, 0.0, 1.0]] * len(A) + [[0.0, 0.0, -1.0]] * nB
    role = ["S"] * len(A) + ["T"] * nB
    M = rng.choice(_signed_perms())
    shift = np.array([rng.randint(-8, 8) * scale for _ in range(3)])
    P = (np.array(pts) @ M.T) + shift
    Nn = np.array(nrm) @ M.T
    direction = rng.choice(["1to2", "2to1"])
    sl, tl = (1, 2) if direction == "1to2" else (2, 1)
    lab = [sl if ro == "S" else tl for ro in role]
    for i in range(len(lab)):
        if rng.random() < 0.04:
            lab[i] = rng.choice([0, 3])
    order = list(range(len(pts)))
    rng.shuffle(order)
    voxel = rng.choice([0.5, 1.0, 2.0, 0.25])
    # radius in lattice units: on a lattice distance (3-4-5), between, or generous
    rl = rng.choice([hz, hz + 0.5, 5.0 if hz in (3, 4) else hz + 1, math.sqrt(hz * hz + 1) + 0.25, hz + 2])
    r = float(np.float64(rl)) * scale
    r = round(r * 1024) / 1024  # dyadic
    deg = pre["deg"] or float(rng.choice([5, 10, 15, 20, 25, 30, 12.5, 28]))
    M2 = rng.choice(_signed_perms())
    case = dict(family="grid", shape="lattice", pts=(P[order] + 0.0).tolist(), nrm=(Nn[order] + 0.0).tolist(), lab=[lab[i] for i in order],
                voxel=float(voxel), maxnm=float(r * voxel), deg=deg, dir=direction,
                motion=dict(matrix=M2.tolist(), shift=[float(rng.randint(-16, 16)) * scale for _ in range(3)]),
                k=rng.choice([0.5, 2.0, 4.0]))
    _options(case, pre)
    return _clean(case, rng, exact=True)


def _gen_multiblock(rng):
    """one lattice case of 300..600 points (exact in float32, so always eligible for the GPU path unless a lattice distance falls
    within 1e-4 of the radius): the kernel launch needs two or three 256-thread blocks"""
    c = None
    for _ in range(6):
        c = _gen_grid(rng, 300, 600, big=True)
        if _gpu_eligible(c):
            break
    c["shape"] = "lattice-multiblock"
    return c


def generate(rng, tier, n):
    for t in range(n):
        if (tier == "quick" and t == 3) or (tier == "thorough" and t % 100 == 3):
            yield _gen_multiblock(rng)
            continue
        if tier == "search":
            lo, hi = 6, 40
        elif tier == "quick":
            lo, hi = (20, 600) if t % 10 == 0 else (20, 160)
        else:
            lo, hi = 20, 600
        if rng.random() < 0.25:
            yield _gen_grid(rng, lo, hi)
        else:
            yield _gen_sheets(rng, lo, hi)


SHRINK_BUDGET_S = 25.0  # wall-clock budget of the whole shrinking phase of one run (the framework's budget counts evaluations, and one
_SHRINK_T0 = [None]     # evaluation of a 500-point case with its GPU-simulator job costs ~1 s): keeps an exit-1 run inside the quick budget


def shrink(case):
    import time
    if _SHRINK_T0[0] is None:
        _SHRINK_T0[0] = time.time()
    if time.time() - _SHRINK_T0[0] > SHRINK_BUDGET_S:
        return
    n = len(case["lab"])
    # first the call options: every one dropped makes the later evaluations cheaper
    for fld, simple in (("top", None), ("edit", None), ("kv", None), ("motion", None), ("k", None), ("gpu", False), ("omit", []), ("pass_cap", False),
                        ("nolog", False), ("threads", None), ("intpts", False), ("voxel_type", "float"), ("reuse", None)):
        if case.get(fld) and case.get(fld) != simple:
            c = dict(case); c[fld] = simple
            yield c

    def keep(idx):
        c = dict(case)
        c["pts"] = [case["pts"][i] for i in idx]
        c["nrm"] = [case["nrm"][i] for i in idx]
        c["lab"] = [case["lab"][i] for i in idx]
        c.pop("meta", None)
        if case.get("edit"):
            pos = {old: new for new, old in enumerate(idx)}
            c["edit"] = dict(unlabel=[pos[i] for i in case["edit"]["unlabel"] if i in pos])
        try:
            c["meta"] = _meta(c)
        except Exception:
            pass
        return c
    if n > 2:
        for parts in ((2, 4) if n > 64 else (2, 4, 8)):
            size = max(1, n // parts)
            for s in range(0, n, size):
                idx = [i for i in range(n) if not (s <= i < s + size)]
                if 1 <= len(idx) < n:
                    yield keep(idx)
        if n <= 24:
            for i in range(n):
                yield keep([j for j in range(n) if j != i])


def sample_view(case):
    return dict(family=case["family"], shape=case.get("shape"), n_points=len(case["lab"]), labels={str(k): case["lab"].count(k) for k in (0, 1, 2, 3)},
                voxel=case["voxel"], maxnm=case["maxnm"], deg=case["deg"], dir=case["dir"], meta=case.get("meta"),
                options=dict(omit=case.get("omit"), pass_cap=case.get("pass_cap"), gpu=case.get("gpu"), kv=case.get("kv"), k=case.get("k"), edit=case.get("edit"),
                             nolog=case.get("nolog"), threads=case.get("threads"), intpts=case.get("intpts"), voxel_type=case.get("voxel_type"), top=case.get("top")),
                first_points=[dict(p=case["pts"][i], n=case["nrm"][i], lab=case["lab"][i]) for i in range(min(3, len(case["lab"])))])


# ================================================================================ implementation adapter
_LOG = logging.getLogger("c20.null")
_LOG.addHandler(logging.NullHandler())
_LOG.propagate = False
_LOG.setLevel(logging.CRITICAL)

# documented signature defaults (Props/C20.defaults_documented); a case may leave an argument out only where its value IS the default
DOC_DEFAULTS = {"cpu": dict(maxnm=8.0, deg=5.0, dir="1to2", cap=25), "gpu": dict(maxnm=8.0, deg=3.0, dir="1to2"),
                "top": dict(maxnm=8.0, deg=3.0, dir="1to2")}
_KW = dict(maxnm="max_thickness_nm", deg="max_angle_degrees", dir="direction", cap="max_matches_per_point")
_KW_TOP = dict(maxnm="max_thickness", deg="max_angle", dir="direction")


def _kwargs(path, vals, omit):
    """keyword arguments of one call: an argument named in `omit` is left out when its value equals the documented default"""
    kw, left_out = {}, []
    for k, v in vals.items():
        if k in omit and DOC_DEFAULTS[path].get(k) == v:
            left_out.append(k)
        else:
            kw[(_KW_TOP if path == "top" else _KW)[k]] = v
    return kw, left_out


def _typed(a):
    """values of a returned array WITHOUT numeric coercion: python scalars for numeric / bool dtypes, repr text otherwise"""
    a = np.asarray(a)
    if a.dtype.kind in "fiub":
        return a.tolist()
    return [repr(x) for x in a.tolist()]


def _pairs(ret):
    """canonical observation of a returned (thickness_results, valid_mask, point_pairs) triple; records what came back (G3)"""
    if not (isinstance(ret, tuple) and len(ret) == 3):
        return dict(shape_error=f"returned {type(ret).__name__}" + (f" of length {len(ret)}" if hasattr(ret, "__len__") else ""))
    th, valid, pp = ret
    types = [type(x).__name__ for x in ret]
    if not all(isinstance(x, np.ndarray) for x in ret):
        return dict(shape_error=f"returned types {types}")
    o = dict(types=types, dtype=str(th.dtype), valid_dtype=str(valid.dtype), pp_dtype=str(pp.dtype), n=int(len(th)), shapes=[list(x.shape) for x in ret])
    if valid.dtype.kind != "b" or th.dtype.kind not in "fiu" or pp.dtype.kind not in "iu" or not (th.shape == valid.shape == pp.shape) or th.ndim != 1:
        o["untyped"] = dict(th=_typed(th)[:50], valid=_typed(valid)[:50], pp=_typed(pp)[:50])
        return o
    idx = np.where(valid)[0]
    o.update(pairs=[[int(s), int(pp[s])] for s in idx], th=[th[s].item() for s in idx],
             clean=bool(np.all(th[~valid] == 0) and np.all(pp[~valid] == 0)))
    return o


def _snap(*arrs):
    return [a.copy() for a in arrs]


def _same(snap, *arrs):
    return all(a.dtype == b.dtype and a.shape == b.shape and np.array_equal(a, b) for a, b in zip(snap, arrs))


def _quiet_call(f, nolog, *a, **kw):
    """call f; with `nolog` the `logger` keyword is left out (documented default None: the library prints) and stdout is captured"""
    if not nolog:
        return f(*a, logger=_LOG, **kw), None
    import io, contextlib
    buf = io.StringIO()
    with contextlib.redirect_stdout(buf):
        ret = f(*a, **kw)
    return ret, len(buf.getvalue())


def _voxel_arg(voxel, how):
    """the voxel size as a caller may hold it: python float, python int (integral sizes), numpy float32 (what an MRC header gives)"""
    if how == "int" and float(voxel).is_integer():
        return int(voxel)
    if how == "float32" and float(np.float32(voxel)) == voxel:
        return np.float32(voxel)
    return voxel


def _threads(t):
    """a thread count THIS environment admits: numba.set_num_threads refuses more than its pool size (NUMBA_NUM_THREADS, by default the
    number of cores) with a ValueError — a documented precondition of numba, not of the statement: with NUMBA_NUM_THREADS=1 or on a
    1-core machine the generated `threads=2` is passed as 1"""
    if t is None:
        return None
    import numba
    return max(1, min(int(t), int(numba.config.NUMBA_NUM_THREADS)))


def _restore_threads():
    import numba
    numba.set_num_threads(int(numba.config.NUMBA_NUM_THREADS))


def _cpu(memthick, P, N, m1, m2, voxel, vals, omit=(), nolog=False, threads=None):
    """one call of measure_thickness_cpu on caller-owned arrays; the arrays are compared before / after (G2)"""
    kw, left = _kwargs("cpu", vals, omit)
    threads = _threads(threads)
    if threads is not None:
        kw["num_threads"] = threads
    before = _snap(P, N, m1, m2)
    try:
        ret, printed = _quiet_call(memthick.measure_thickness_cpu, nolog, P, N, m1, m2, voxel, **kw)
    finally:
        if threads is not None:
            _restore_threads()
    o = _pairs(ret)
    o["inputs_unchanged"] = _same(before, P, N, m1, m2)
    o["omitted"] = left + (["logger"] if nolog else []) + ([] if threads is not None else ["num_threads"])
    if printed is not None:
        o["printed_chars"] = printed
    return o


# ---- the top-level entry point measure_membrane_thickness, end to end on a synthetic segmentation MRC + vertex CSV
def _num(x, as_int):
    return str(int(x)) if as_int else repr(float(x))


def _top(memthick, case, pts, nrm, use_gpu):
    """write <tmp>/seg.mrc (voxel size in the header, Angstrom) and <tmp>/verts.csv (the columns process_membrane_segmentation writes:
    x/y/z_voxel, x/y/z_physical = voxel * size + origin, normal_x/y/z, surface1, surface2), call measure_membrane_thickness, read the
    output CSV back. `pts`/`nrm`: the coordinates to write (the float32-rounded ones for the GPU run)."""
    import tempfile, shutil, csv, mrcfile, io, contextlib
    T = case["top"]
    tmp = tempfile.mkdtemp(prefix="c20top_")
    try:
        seg, inp = os.path.join(tmp, "seg.mrc"), os.path.join(tmp, "verts.csv")
        with mrcfile.new(seg, overwrite=True) as m:
            m.set_data(np.zeros((2, 3, 4), dtype=np.int8))
            m.voxel_size = case["voxel"] * 10.0
            m.header.origin.x, m.header.origin.y, m.header.origin.z = [10.0 * x for x in T["origin"]]
        with mrcfile.open(seg, permissive=True) as m:
            vx = m.voxel_size.x
        veff = float(np.float32(np.float32(vx) / np.float32(10.0)))
        P = np.asarray(pts, dtype=np.float64).reshape(-1, 3)
        N = np.asarray(nrm, dtype=np.float64).reshape(-1, 3)
        m1, m2 = _masks(case)
        phys = P * veff + np.asarray(T["origin"], dtype=float)
        cols = [P[:, 0], P[:, 1], P[:, 2], phys[:, 0], phys[:, 1], phys[:, 2], N[:, 0], N[:, 1], N[:, 2]]
        as_int = [bool(T["ints"]) and bool(np.all(c == np.round(c))) and k not in (3, 4, 5) for k, c in enumerate(cols)]
        flag = (lambda b: "True" if b else "False") if T["flags"] == "bool" else (lambda b: "1" if b else "0")
        with open(inp, "w") as f:
            f.write("x_voxel,y_voxel,z_voxel,x_physical,y_physical,z_physical,normal_x,normal_y,normal_z,surface1,surface2\n")
            for i in range(len(P)):
                f.write(",".join([_num(c[i], as_int[k]) for k, c in enumerate(cols)] + [flag(m1[i]), flag(m2[i])]) + "\n")
        kw, left = _kwargs("top", dict(maxnm=case["maxnm"], deg=case["deg"], dir=case["dir"]), case.get("omit") or ())
        if use_gpu != "omit":
            kw["use_gpu"] = use_gpu
        else:
            left.append("use_gpu")
        if T.get("threads") is not None:
            kw["num_cpu_threads"] = _threads(T["threads"])
        out_dir = os.path.join(tmp, "out")
        err = io.StringIO()
        try:
            if T.get("nolog"):  # logger omitted: setup_logger(output_dir) writes a log file and to stderr
                with contextlib.redirect_stderr(err), contextlib.redirect_stdout(err):
                    ret = memthick.measure_membrane_thickness(seg, inp, output_dir=out_dir, **kw)
                left.append("logger")
            else:
                ret = memthick.measure_membrane_thickness(seg, inp, output_dir=out_dir, logger=_LOG, **kw)
        finally:
            lg = logging.getLogger("MembraneThickness")
            for h in list(lg.handlers):
                try:
                    h.close()
                except Exception:
                    pass
            lg.handlers = []
            if T.get("threads") is not None:
                _restore_threads()
        o = dict(veff=veff, omitted=left, int_columns=int(sum(as_int)), n_in=len(P))
        if not (isinstance(ret, tuple) and len(ret) == 2 and all(isinstance(x, str) for x in ret)):
            o["shape_error"] = f"returned {ret!r:.200}"
            return o
        o["returned"] = [os.path.relpath(x, tmp) for x in ret]
        if not os.path.exists(ret[0]):
            o["shape_error"] = f"the returned output CSV {o['returned'][0]} does not exist"
            return o
        with open(ret[0], newline="") as f:
            rows = list(csv.DictReader(f))
        need = ("thickness", "valid_measurement", "paired_point_idx")
        o["n"] = len(rows)
        if rows and any(k not in rows[0] for k in need):
            o["shape_error"] = f"output CSV lacks one of the columns {need}: {sorted(rows[0])}"
            return o
        pairs, th, bad, clean = [], [], [], True
        for i, r in enumerate(rows):
            v = r["valid_measurement"].strip()
            if v not in ("True", "False", "1", "0"):
                bad.append((i, "valid_measurement", v))
                continue
            try:
                t, x = int(r["paired_point_idx"]), float(r["thickness"])
            except ValueError:
                bad.append((i, "paired_point_idx/thickness", r["paired_point_idx"], r["thickness"]))
                continue
            if v in ("True", "1"):
                pairs.append([i, t]); th.append(x)
            elif t != 0 or x != 0:
                clean = False
        if bad:
            o["untyped"] = bad[:10]
            return o
        o.update(pairs=pairs, th=th, clean=clean)
        return o
    finally:
        shutil.rmtree(tmp, ignore_errors=True)


# ---- the GPU path, executed under numba's CUDA simulator in worker processes (NUMBA_ENABLE_CUDASIM=1 must be set before numba is imported)
GPU_MAX_POINTS = 600  # two or three 256-thread blocks: the launch configuration is executed, not only anchored
GPU_WORKERS = 4
GPU_TIMEOUT_S = 600  # a hung worker must not hang the check: infrastructure failure (exit 2), never a finding


def _gpu_worker():
    """worker loop: one JSON request per line -> one JSON observation per line"""
    import sys, traceback
    core.use_repo()
    from cryocat import memthick
    from numba import cuda
    out = sys.stdout
    sys.stdout = sys.stderr  # anything the library prints must not corrupt the protocol
    out.write(json.dumps(dict(ready=True, simulator=bool(getattr(cuda, "simulator", None) is not None or os.environ.get("NUMBA_ENABLE_CUDASIM") == "1"))) + "\n")
    out.flush()
    for line in sys.stdin:
        q = json.loads(line)
        try:
            P = np.ascontiguousarray(np.asarray(q["pts"], dtype=np.float64).reshape(-1, 3))
            N = np.ascontiguousarray(np.asarray(q["nrm"], dtype=np.float64).reshape(-1, 3))
            m1, m2 = np.asarray(q["m1"], dtype=bool), np.asarray(q["m2"], dtype=bool)
            spy = {}
            real = memthick.process_matches_gpu2cpu

            def spying(md, mi, mc, n_points, cap, voxel_size, *a, **k):
                spy.update(md=np.array(md), mi=np.array(mi), mc=np.array(mc), cap=int(cap), n=int(n_points))
                return real(md, mi, mc, n_points, cap, voxel_size, *a, **k)
            memthick.process_matches_gpu2cpu = spying
            try:
                kw, left = _kwargs("gpu", q["vals"], q.get("omit", ()))
                before = _snap(P, N, m1, m2)
                ret, printed = _quiet_call(memthick.measure_thickness_gpu, bool(q.get("nolog")), P, N, m1, m2, _voxel_arg(q["voxel"], q.get("voxel_type")), **kw)
                o = _pairs(ret)
                o["inputs_unchanged"] = _same(before, P, N, m1, m2)
                o["omitted"] = left + (["logger"] if q.get("nolog") else [])
            finally:
                memthick.process_matches_gpu2cpu = real
            if spy and spy["md"].dtype.kind == "f" and spy["mi"].dtype.kind in "iu" and spy["mc"].dtype.kind in "iu":
                n, cap = spy["n"], spy["cap"]
                cnt = [int(c) for c in spy["mc"][:n]]
                o["cands"] = [[s, int(spy["mi"][s * cap + j]), float(spy["md"][s * cap + j])] for s in range(min(n, len(cnt))) for j in range(max(0, min(cnt[s], cap)))]
                o["cap"] = cap
                o["counts_over_cap"] = int(sum(1 for c in cnt if c > cap or c < 0))
                o["md_dtype"] = str(spy["md"].dtype)
            if q.get("top"):  # the top-level entry point with use_gpu=True: under the simulator CUDA "is available", the GPU branch runs
                try:
                    o["top"] = _top(memthick, q["top"], q["pts"], q["nrm"], True)
                except Exception as e:
                    where = ""
                    for fr in reversed(traceback.extract_tb(e.__traceback__)):
                        if "/cryocat/" in fr.filename:
                            where = f"{os.path.basename(fr.filename)}:{fr.lineno}"
                            break
                    o["top"] = {"error": f"{type(e).__name__}: {str(e)[:300]}", "where": where}
        except Exception as e:
            where = ""
            for fr in reversed(traceback.extract_tb(e.__traceback__)):
                if "/cryocat/" in fr.filename:
                    where = f"{os.path.basename(fr.filename)}:{fr.lineno}"
                    break
            o = {"error": f"{type(e).__name__}: {str(e)[:300]}", "where": where}
        out.write(json.dumps(o) + "\n")
        out.flush()


class _GpuSim:
    """pool of simulator workers; submit() returns at once, collect() waits for that job"""

    def __init__(self):
        self.idle, self.procs, self.jobs, self.pool, self.seq, self.started = None, [], {}, None, 0, 0

    def _start(self):
        import subprocess, sys
        env = dict(os.environ, NUMBA_ENABLE_CUDASIM="1", NUMBA_NUM_THREADS="1", CRYOCAT_REPO=core.REPO)
        code = f"import sys; sys.path.insert(0, {os.path.dirname(os.path.dirname(os.path.abspath(__file__)))!r}); from props import c20; c20._gpu_worker()"
        p = subprocess.Popen([sys.executable, "-W", "ignore", "-c", code], stdin=subprocess.PIPE, stdout=subprocess.PIPE, stderr=subprocess.DEVNULL, text=True, env=env)
        self.procs.append(p)
        import select
        if not select.select([p.stdout], [], [], GPU_TIMEOUT_S)[0]:
            p.kill()
            raise RuntimeError("CUDA simulator worker did not start in time")
        hello = p.stdout.readline()
        if not hello or not json.loads(hello).get("ready"):
            raise RuntimeError("CUDA simulator worker did not start")
        return p

    def _roundtrip(self, payload):
        import queue
        try:
            try:
                p = self.idle.get_nowait()
            except queue.Empty:
                p = self._start()
        except Exception as e:
            return {"error": f"simulator worker unavailable: {type(e).__name__}: {e}", "where": ""}
        try:
            p.stdin.write(payload + "\n")
            p.stdin.flush()
            import select
            # one request -> exactly one line: nothing is buffered on our side when we start waiting, so select() on the pipe is sound
            ready, _, _ = select.select([p.stdout], [], [], GPU_TIMEOUT_S)
            if not ready:
                try:
                    p.kill()
                except Exception:
                    pass
                return {"infrastructure": f"CUDA simulator worker gave no answer within {GPU_TIMEOUT_S} s (killed)"}
            line = p.stdout.readline()
            if not line:
                raise RuntimeError("worker died")
            res = json.loads(line)
        except Exception as e:
            try:
                p.kill()
            except Exception:
                pass
            return {"error": f"simulator worker failed: {type(e).__name__}: {e}", "where": ""}
        self.idle.put(p)
        return res

    def submit(self, payload):
        import queue, atexit
        from concurrent.futures import ThreadPoolExecutor
        if self.pool is None:
            self.idle = queue.Queue()
            self.pool = ThreadPoolExecutor(GPU_WORKERS)
            atexit.register(self.close)
        self.seq += 1
        self.jobs[self.seq] = self.pool.submit(self._roundtrip, json.dumps(payload))
        return self.seq

    def collect(self, token):
        f = self.jobs.pop(token, None)
        res = None if f is None else f.result()
        if isinstance(res, dict) and "infrastructure" in res:
            import sys
            print(f"[c20] infrastructure failure: {res['infrastructure']}", file=sys.stderr, flush=True)
            self.close()
            raise SystemExit(2)  # not an Exception: vcheck neither turns it into a finding nor into a VIOLATION line
        return res

    def close(self):
        for p in self.procs:
            try:
                p.stdin.close()
                p.kill()
            except Exception:
                pass
        self.procs = []


_GPUSIM = _GpuSim()


def _case32(case):
    """the input as the GPU path sees it: coordinates and normals rounded to float32"""
    c = dict(case)
    c["pts"] = np.asarray(case["pts"], dtype=np.float64).astype(np.float32).astype(np.float64).tolist()
    c["nrm"] = np.asarray(case["nrm"], dtype=np.float64).astype(np.float32).astype(np.float64).tolist()
    return c


def _gpu_eligible(case):
    """float32 arithmetic of the kernel cannot flip a decision: every decision of the float32-rounded input is 1e-4 (relative) away
    from its boundary and candidate distances are equal or 1e-5 apart"""
    if len(case["lab"]) > GPU_MAX_POINTS:
        return False
    A = _analyse(_case32(case))
    d, proj, lat2, rhs, adm, r = (A[k] for k in ("d", "proj", "lat2", "rhs", "adm", "r"))
    if not d.size:
        return True
    m = 1e-4
    near = (d <= r * (1 + m)) & (d > 0)
    if np.any((np.abs(d - r) <= m * r) & (d != r)):
        return False
    # lattice data (coordinates exact in float32, axis normals): a projection that is exactly 0 is exactly 0 in float32 as well
    lattice = bool(np.all(np.asarray(case["pts"], dtype=np.float64) * 1024 % 1 == 0) and np.all(np.isin(np.asarray(case["nrm"], dtype=np.float64), (0.0, 1.0, -1.0))))
    if np.any(near & (np.abs(proj) <= 1e-5 * d) & ~((proj == 0) & lattice)):
        return False
    if np.any(near & (proj > 0) & (np.abs(lat2 - rhs) <= m * (lat2 + rhs))):
        return False
    dd = np.sort(d[adm])
    gaps = np.diff(dd)
    if np.any((gaps > 0) & (gaps <= 1e-5 * dd[1:])):
        return False
    if adm.size and int(adm.sum(1).max()) > CAP:
        return False
    return True


def _resolve_gpu(obs):
    g = obs.get("gpu")
    if isinstance(g, dict) and "pending" in g:
        res = _GPUSIM.collect(g["pending"])
        obs["gpu"] = res if res is not None else {"error": "simulator job lost (observation resolved in another process)", "where": ""}


def _apply_edit(case, lab):
    """labels after the in-place edit of a cross-call case"""
    lab = list(lab)
    for i in case["edit"]["unlabel"]:
        lab[i] = 0
    return lab


def run_impl(case):
    from cryocat import memthick
    P = np.ascontiguousarray(np.asarray(case["pts"], dtype=np.float64).reshape(-1, 3))
    N = np.ascontiguousarray(np.asarray(case["nrm"], dtype=np.float64).reshape(-1, 3))
    if case.get("intpts") and P.size and np.all(P == np.round(P)):  # integer voxel coordinates handed over as an int64 array (H3)
        P = np.ascontiguousarray(P.astype(np.int64))
    m1, m2 = _masks(case)
    maxnm, deg, direction = case["maxnm"], case["deg"], case["dir"]
    voxel = _voxel_arg(case["voxel"], case.get("voxel_type"))
    omit = case.get("omit") or ()
    nolog, threads = bool(case.get("nolog")), case.get("threads")
    vals = dict(maxnm=maxnm, deg=deg, dir=direction)
    if case.get("pass_cap"):
        vals["cap"] = CAP
    obs = {"arg_types": f"points {P.dtype}, voxel {type(voxel).__name__}"}
    T = case.get("top")
    # the GPU path under the CUDA simulator runs in a worker process while this process does the rest
    if case.get("gpu") and _gpu_eligible(case) and (not T or _gpu_eligible(dict(case, voxel=_veff(case["voxel"])))):
        top_q = dict(lab=case["lab"], voxel=case["voxel"], maxnm=maxnm, deg=deg, dir=direction, omit=list(omit), top=T) if (T and T.get("gpu")) else None
        obs["gpu"] = {"pending": _GPUSIM.submit(dict(pts=case["pts"], nrm=case["nrm"], m1=m1.tolist(), m2=m2.tolist(), voxel=case["voxel"], voxel_type=case.get("voxel_type"),
                                                      vals=dict(maxnm=maxnm, deg=deg, dir=direction), omit=list(omit), nolog=nolog, top=top_q))}
    obs["cpu"] = _cpu(memthick, P, N, m1, m2, voxel, vals, omit, nolog, threads)
    # numba candidate kernel with the documented multiplier, then the GPU-path assignment loop
    sm, tm = (m2, m1) if direction == "2to1" else (m1, m2)
    n = len(P)
    md = np.zeros((n, CAP), dtype=np.float64)
    mi = np.zeros((n, CAP), dtype=np.int64)
    mc = np.zeros(n, dtype=np.int64)
    ti = np.where(tm)[0].astype(np.int64)
    before = _snap(P, N, sm, tm, ti)
    memthick.find_matches_parallel(P, N, sm, tm, ti, maxnm / case["voxel"], math.tan(math.radians(deg)) ** 2, md, mi, mc)
    kernel_inputs_unchanged = _same(before, P, N, sm, tm, ti)
    cands = [[int(s), int(mi[s, j]), float(md[s, j])] for s in range(n) for j in range(max(0, min(int(mc[s]), CAP)))]
    mdf, mif = md.ravel(), mi.ravel()
    before = _snap(mdf, mif, mc)
    ret = memthick.process_matches_gpu2cpu(mdf, mif, mc, n, CAP, case["voxel"])
    obs["kernel"] = dict(cands=cands, counts_on_non_sources=int(mc[~sm].sum()), counts_over_cap=int(((mc > CAP) | (mc < 0)).sum()), **_pairs(ret))
    obs["kernel"]["inputs_unchanged"] = bool(kernel_inputs_unchanged and _same(before, mdf, mif, mc))
    # multi-step history on the assignment loop: the kernel's candidates as the (dist, source, target) tuples measure_thickness_cpu builds, the
    # SAME list object handed to process_matches_cpu2cpu twice (the list is in voxel units; the second call asks for another output unit).
    # The library may reorder the caller's list (it sorts it in place) but each call must pair the candidates it was GIVEN
    if case.get("reuse"):
        flat = [(float(d), int(s_), int(t_)) for s_, t_, d in cands]
        given = sorted(flat)
        first = _pairs(memthick.process_matches_cpu2cpu(flat, n, case["voxel"]))
        left = len(flat)
        second = _pairs(memthick.process_matches_cpu2cpu(flat, n, case["voxel"] * case["reuse"]))
        obs["reuse"] = dict(first=first, second=second, n_given=len(given), n_left_after_first=left, same_multiset_after=bool(sorted(flat) == given))
    # the statement's invariances, observed on the real code
    mo = case.get("motion")
    if mo:
        R = np.asarray(mo["matrix"], dtype=float) if "matrix" in mo else _rot(mo["rotvec"])
        b = np.asarray(mo["shift"], dtype=float)
        obs["moved"] = _cpu(memthick, np.ascontiguousarray(P @ R.T + b), np.ascontiguousarray(N @ R.T), m1, m2, voxel, vals, omit)
    if case.get("k"):
        k = case["k"]
        obs["rescaled"] = _cpu(memthick, P, N, m1, m2, case["voxel"] * k, dict(vals, maxnm=maxnm * k), omit)
        # same physical maximum, other voxel size: another input of the quantifier (judged against the model and the checker)
    if case.get("kv"):
        obs["revoxel"] = _cpu(memthick, P, N, m1, m2, case["voxel"] * case["kv"], vals, omit)
    other = "1to2" if direction == "2to1" else "2to1"
    obs["swapped"] = _cpu(memthick, P, N, m2, m1, voxel, dict(vals, dir=other), omit)
    # the top-level entry point, end to end (CPU branch: use_gpu=False, or use_gpu left at its default True with no CUDA device)
    if T:
        try:
            obs["top"] = _top(memthick, case, case["pts"], case["nrm"], T["use_gpu"])
        except Exception as e:
            import traceback
            where = ""
            for fr in reversed(traceback.extract_tb(e.__traceback__)):
                if "/cryocat/" in fr.filename:
                    where = f"{os.path.basename(fr.filename)}:{fr.lineno}"
                    break
            obs["top"] = {"error": f"{type(e).__name__}: {str(e)[:300]}", "where": where}
    # cross-call state (G2): the SAME caller-owned arrays, legitimately edited in place, go into a second call
    if case.get("edit"):
        for i in case["edit"]["unlabel"]:
            m1[i] = False
            m2[i] = False
        obs["second"] = _cpu(memthick, P, N, m1, m2, voxel, vals, omit)
        obs["third"] = _cpu(memthick, P, N, m1, m2, voxel, vals, omit)  # and once more, unchanged: a call must not depend on the call before
    return obs


def _flat(case):
    P = np.asarray(case["pts"], dtype=float).reshape(-1, 3)
    N = np.asarray(case["nrm"], dtype=float).reshape(-1, 3)
    return [f2b(x) for row in np.hstack([P, N]).tolist() for x in row]


def _plan(case, obs):
    """which driver requests belong to this case, in order"""
    plan = ["main"]
    if "error" in obs:
        return plan
    if case.get("kv") and "revoxel" in obs:
        plan.append("revoxel")
    if case.get("edit") and "second" in obs:
        plan.append("second")
    g = obs.get("gpu")
    if isinstance(g, dict) and "error" not in g and "pairs" in g:
        plan.append("gpu")
    t = obs.get("top")
    if isinstance(t, dict) and "pairs" in t:
        plan.append("top")
    gt = g.get("top") if isinstance(g, dict) else None
    if isinstance(gt, dict) and "pairs" in gt:
        plan.append("gputop")
    ru = obs.get("reuse")
    if isinstance(ru, dict):
        for k in ("first", "second"):
            if "pairs" in ru[k]:
                plan.append("reuse-" + k)
    return plan


def _in_range(pairs, n):
    """pairs the driver can take (natural numbers); anything else is reported by _direct as not source-to-target"""
    return [[s, t] for s, t in pairs if isinstance(s, int) and isinstance(t, int) and 0 <= s < 10 ** 9 and 0 <= t < 10 ** 9]


def requests(case, obs):
    _resolve_gpu(obs)
    m1, m2 = _masks(case)
    base = dict(op="all", pts=_flat(case), m1=[int(x) for x in m1], m2=[int(x) for x in m2], voxel=f2b(case["voxel"]), maxnm=f2b(case["maxnm"]),
                deg=f2b(case["deg"]), rev=1 if case["dir"] == "2to1" else 0, cap=CAP)
    n = len(case["lab"])
    out = []
    for tag in _plan(case, obs):
        q = dict(base)
        if tag == "main":
            if "error" not in obs:
                if "pairs" in obs["cpu"]:
                    q["out"] = _in_range(obs["cpu"]["pairs"], n)
                if "pairs" in obs["kernel"]:
                    q["out_kernel"] = _in_range(obs["kernel"]["pairs"], n)
        elif tag == "revoxel":
            q["voxel"] = f2b(case["voxel"] * case["kv"])
            if "pairs" in obs["revoxel"]:
                q["out"] = _in_range(obs["revoxel"]["pairs"], n)
        elif tag == "second":
            lab = _apply_edit(case, case["lab"])
            q["m1"] = [int(l & 1 != 0) for l in lab]
            q["m2"] = [int(l & 2 != 0) for l in lab]
            if "pairs" in obs["second"]:
                q["out"] = _in_range(obs["second"]["pairs"], n)
        elif tag == "gpu":
            q["pts"] = _flat(_case32(case))
            q["out_kernel"] = _in_range(obs["gpu"]["pairs"], n)
        elif tag == "top":  # the entry point's CPU branch at the voxel size it read from the MRC header
            q["voxel"] = f2b(obs["top"]["veff"])
            q["out"] = _in_range(obs["top"]["pairs"], n)
        elif tag == "gputop":
            q["pts"] = _flat(_case32(case))
            q["voxel"] = f2b(obs["gpu"]["top"]["veff"])
            q["out_kernel"] = _in_range(obs["gpu"]["top"]["pairs"], n)
        elif tag.startswith("reuse-"):  # both calls are judged on the ORIGINAL candidates (same points, same radius in voxels, strict ball of the kernel)
            q["out_kernel"] = _in_range(obs["reuse"][tag[6:]]["pairs"], n)
        out.append(q)
    return out


# ================================================================================ judge
def _angle_deg(v, n):
    c = np.cross(v, n)
    return math.degrees(math.atan2(float(np.linalg.norm(c)), float(np.dot(v, n))))


def _direct(case, o, who, th_tol=TH_TOL, kind="spec"):
    """independent evaluation of the per-pair clauses of the statement on an implementation output (`kind`: "spec" for the paths the
    quantifier names — CPU implementation, numba kernel, the entry point's CPU branch; "corr" for the GPU path under the simulator)"""
    out = []
    P = np.asarray(case["pts"], dtype=float).reshape(-1, 3)
    N = np.asarray(case["nrm"], dtype=float).reshape(-1, 3)
    sm, tm = _src_tgt(case)
    seen_s, seen_t = set(), set()
    for (s, t), th in zip(o["pairs"], o["th"]):
        if not (0 <= s < len(P) and 0 <= t < len(P)) or not sm[s] or not tm[t]:
            out.append(dict(kind=kind, clause=f"{who}pair-not-source-to-target", detail=f"pair ({s},{t}) labels {case['lab'][s] if s < len(P) else '?'}/{case['lab'][t] if 0 <= t < len(P) else '?'} direction {case['dir']}"))
            continue
        if s in seen_s or t in seen_t:
            out.append(dict(kind=kind, clause=f"{who}not-one-to-one", detail=f"pair ({s},{t}) reuses a point"))
        seen_s.add(s); seen_t.add(t)
        v = P[t] - P[s]
        d = float(np.linalg.norm(v))
        nn = N[s] / np.linalg.norm(N[s])
        ang = _angle_deg(v, nn)
        if float(np.dot(v, nn)) <= 0:
            out.append(dict(kind=kind, clause=f"{who}pair-not-forward", detail=f"pair ({s},{t}): target lies {ang:.3f} degrees off the source normal (behind the source)"))
        elif ang > case["deg"] + ANGLE_EPS:
            out.append(dict(kind=kind, clause=f"{who}pair-outside-cone", detail=f"pair ({s},{t}): {ang:.4f} degrees off the normal, max_angle {case['deg']}"))
        if d * case["voxel"] > case["maxnm"] * (1 + 1e-9):
            out.append(dict(kind=kind, clause=f"{who}pair-beyond-max-thickness", detail=f"pair ({s},{t}): {d * case['voxel']:.6g} > {case['maxnm']:.6g}"))
        if not isinstance(th, (int, float)) or isinstance(th, bool) or not (abs(th - d * case["voxel"]) <= th_tol * max(1.0, abs(d * case["voxel"]))):
            out.append(dict(kind=kind, clause=f"{who}thickness-is-not-distance-times-voxel", detail=f"pair ({s},{t}): reported {th!r}, distance*voxel {d * case['voxel']!r}"))
    return out


def _same_pairs(a, b):
    return sorted(map(tuple, a["pairs"])) == sorted(map(tuple, b["pairs"]))


def _usable(who, o, n, out, kind="spec"):
    """G3: what came back must be three equally long 1-d arrays: numeric thickness, boolean mask, integer partner index"""
    if "shape_error" in o:
        out.append(dict(kind=kind, clause=f"{who}output-is-not-a-triple-of-arrays", detail=o["shape_error"]))
        return False
    if "untyped" in o:
        out.append(dict(kind=kind, clause=f"{who}output-not-numeric", detail=f"thickness dtype {o['dtype']}, mask dtype {o['valid_dtype']}, partner dtype {o['pp_dtype']}, "
                        f"shapes {o['shapes']}: {str(o['untyped'])[:300]}"))
        return False
    if not o.get("inputs_unchanged", True):  # the statement is silent about the caller's arrays: a disagreement with the model (pure function), never spec
        out.append(dict(kind="corr", clause=f"{who}modifies-caller-input", detail="points / normals / masks (or the candidate buffers) differ after the call"))
    if o["dtype"] != "float32" or o["pp_dtype"] != "int32" or o["n"] != n or not o["clean"]:
        out.append(dict(kind="corr", clause=f"{who}output-shape", detail=f"clean={o['clean']} dtype={o['dtype']} partner dtype={o['pp_dtype']} n={o['n']} (documented: float32 / int32 / one row per point, zero where not valid)"))
    return True


def _checker(who, c, alt, out, kind="spec", capped=False):
    """findings of the Lean verified checker (Props/C20.check_sound / check_complete) on a real output.
    A target exactly on the search radius may be kept (closed KD-tree ball) or dropped (`dist < r` in the kernels): the statement
    ("does not exceed") does not decide it, so a clause counts as violated only if the output fails under both readings.
    `capped`: some source has more than 25 admissible targets — outside the quantifier ("fewer than 25 candidates per source"); the
    25-slot buffers then drop candidates by scan / tree order and the greedy clause is not claimed (the per-pair clauses still are)."""
    if c is None or alt is None:
        out.append(dict(kind="corr", clause=who + "checker-did-not-run", detail=""))
        return
    if c["ok"]:
        return
    if alt["ok"]:
        out.append(dict(kind="corr", clause=who + "radius-boundary-convention-differs-from-model",
                        detail=f"output satisfies the statement only with the other reading of a target exactly on the radius: {c}"))
        return
    if not c["admissible"]:
        dg = c.get("diag") or {}
        if dg.get("not_source_or_not_target"):
            cl = "pair-not-source-to-target"
        elif dg.get("in_ball") is False:
            cl = "pair-beyond-max-thickness"
        elif dg.get("forward") is False:
            cl = "pair-not-forward"
        else:
            cl = "pair-outside-cone"
        detail = {k: (b2f(v) if k in ("dist", "proj", "lat2", "rhs") else v) for k, v in dg.items()}
        out.append(dict(kind=kind, clause=who + cl, detail=f"verified checker: reported pair is not admissible: {detail}"))
    if not c["one_to_one"]:
        out.append(dict(kind=kind, clause=who + "not-one-to-one", detail="verified checker: a source or a target occurs in two pairs"))
    if not c["greedy"] and not capped:
        out.append(dict(kind=kind, clause=who + "not-greedy-by-distance", detail="verified checker: an admissible pair shares neither point with a reported pair that is not farther "
                        "(an admissible pair of unmatched points is left over, or a matched source/target had a closer admissible partner)"))


def _vs_model(who, o, mpairs, out, tol=TH_TOL):
    mp = sorted((s, t) for s, t, _, _ in mpairs)
    ip = sorted(map(tuple, o["pairs"]))
    if mp != ip:
        diff = sorted(set(mp) ^ set(ip))[:4]
        out.append(dict(kind="corr", clause=f"{who}-pairs-vs-model", detail=f"model {len(mp)} pairs, implementation {len(ip)}; symmetric difference starts {diff}"))
    else:
        mt = {(s, t): b2f(tb) for s, t, _, tb in mpairs}
        dev = max([abs(mt[tuple(p)] - th) / max(1.0, abs(mt[tuple(p)])) for p, th in zip(o["pairs"], o["th"])] or [0.0])
        if dev > tol:
            out.append(dict(kind="corr", clause=f"{who}-thickness-vs-model", detail=f"relative deviation {dev:.3g}"))


def _vs_cands(who, cands, mcands, out, tol):
    mc = sorted((s, t) for s, t, _ in mcands)
    kc = sorted((s, t) for s, t, _ in cands)
    if mc != kc:
        out.append(dict(kind="corr", clause=f"{who}-candidates-vs-model", detail=f"model {len(mc)}, kernel {len(kc)}; symmetric difference starts {sorted(set(mc) ^ set(kc))[:4]}"))
    else:
        md = {(s, t): b2f(db) for s, t, db in mcands}
        dev = max([abs(md[(s, t)] - d) / max(1.0, d) for s, t, d in cands] or [0.0])
        if dev > tol:
            out.append(dict(kind="corr", clause=f"{who}-distances-vs-model", detail=f"relative deviation {dev:.3g}"))


GPU_NOTE = " [GPU path executed by numba's CUDA simulator: the quantifier names the CPU implementation and the numba kernel, so this is reported as a disagreement with the model, not as a violated clause]"


def _usable_top(who, t, n, out, kind):
    """the entry point's result: (output csv, statistics file); the csv has one row per input row with thickness / valid_measurement / paired_point_idx"""
    if "error" in t:
        if t.get("where"):
            out.append(dict(kind=kind, clause=who + "raises", detail=t["error"] + " @" + t["where"]))
        else:
            out.append(dict(kind="corr", clause="harness-or-library-raised", detail=who + " " + t["error"]))
        return False
    if "shape_error" in t:
        out.append(dict(kind=kind, clause=who + "output-is-not-the-documented-csv", detail=t["shape_error"]))
        return False
    if "untyped" in t:
        out.append(dict(kind=kind, clause=who + "output-not-numeric", detail=str(t["untyped"])[:300]))
        return False
    if t["n"] != n or not t["clean"]:
        out.append(dict(kind="corr", clause=who + "output-shape", detail=f"rows {t['n']} (input {n}), zero where not valid: {t['clean']}"))
    return t["n"] == n


def judge(case, obs, resps):
    out = []
    if "error" in obs:
        if not obs.get("where"):  # G4: no frame of the traceback lies inside cryocat
            return [dict(kind="corr", clause="harness-or-library-raised", detail=obs["error"])]
        # every generated input meets the documented preconditions (arrays of matching length, boolean masks, positive voxel size / maximum,
        # angle in 1..30 degrees, a documented direction): an exception raised inside cryocat is a violated statement whatever its type / message
        return [dict(kind="spec", clause="raises", detail=obs["error"] + " @" + obs.get("where", ""))]
    _resolve_gpu(obs)
    plan = _plan(case, obs)
    if len(plan) != len(resps):
        return [dict(kind="corr", clause="driver-requests-out-of-step", detail=f"{plan} vs {len(resps)} responses")]
    RS = dict(zip(plan, resps))
    for tag, r in RS.items():
        if "error" in r:
            return [dict(kind="corr", clause="model-rejects", detail=f"{tag}: {r}")]
    R = RS["main"]
    n = len(case["lab"])
    cpu, ker = obs["cpu"], obs["kernel"]
    # the multiplier expressions extracted from the source (Gen.C20.multCpu / multGpu), evaluated by the driver, are the model's multiplier
    for k in ("mult_src_cpu", "mult_src_gpu"):
        if R.get(k) != R.get("mult"):
            out.append(dict(kind="corr", clause="source-multiplier-expression-differs-from-model", detail=f"{k} evaluates to {b2f(R[k]) if isinstance(R.get(k), int) else R.get(k)!r}, "
                            f"the model uses tan(radians({case['deg']}))**2 = {b2f(R['mult'])!r}"))
    # outside the quantifier: a source with more than 25 admissible targets (the generator never produces one; corpus / shrunk cases may)
    capped = lambda r: max(r.get("max_per_source", 0), r.get("max_per_source_strict", 0)) > CAP
    ok_cpu, ok_ker = _usable("", cpu, n, out), _usable("kernel:", ker, n, out)
    # ---- verified checker + independent evaluation of the per-pair clauses, on the real outputs ---------
    if ok_cpu:
        _checker("", R.get("check"), R.get("check_alt"), out, capped=capped(R))
        out += _direct(case, cpu, "")
    if ok_ker:
        _checker("kernel:", R.get("check_kernel"), R.get("check_kernel_alt"), out, capped=capped(R))
        out += _direct(case, ker, "kernel:")
    # ---- invariances of the statement, on the real code -----------------------------------------------
    if ok_cpu and "moved" in obs and _usable("moved:", obs["moved"], n, out) and not capped(R):
        mv = obs["moved"]
        if not _same_pairs(cpu, mv):
            out.append(dict(kind="spec", clause="rigid-motion-changes-pairing", detail=f"{len(cpu['pairs'])} pairs before, {len(mv['pairs'])} after; first difference "
                            f"{sorted(set(map(tuple, cpu['pairs'])) ^ set(map(tuple, mv['pairs'])))[:3]}"))
        else:
            a = dict(zip(map(tuple, cpu["pairs"]), cpu["th"])); b = dict(zip(map(tuple, mv["pairs"]), mv["th"]))
            dev = max([abs(a[k] - b[k]) / max(1.0, abs(a[k])) for k in a] or [0.0])
            if dev > TH_TOL:
                out.append(dict(kind="spec", clause="rigid-motion-changes-thickness", detail=f"relative deviation {dev:.3g}"))
    if ok_cpu and "rescaled" in obs and _usable("rescaled:", obs["rescaled"], n, out) and not capped(R):
        rs = obs["rescaled"]
        if not _same_pairs(cpu, rs):
            out.append(dict(kind="spec", clause="voxel-rescaling-changes-pairing", detail=f"k={case['k']}: {len(cpu['pairs'])} pairs vs {len(rs['pairs'])}"))
        else:
            a = dict(zip(map(tuple, cpu["pairs"]), cpu["th"])); b = dict(zip(map(tuple, rs["pairs"]), rs["th"]))
            dev = max([abs(a[k] * case["k"] - b[k]) / max(1.0, abs(b[k])) for k in a] or [0.0])
            if dev > TH_TOL:
                out.append(dict(kind="spec", clause="thickness-does-not-scale-with-voxel", detail=f"k={case['k']}: relative deviation {dev:.3g}"))
    if ok_cpu and _usable("swapped:", obs["swapped"], n, out) and not capped(R):
        sw = obs["swapped"]
        if sw["pairs"] != cpu["pairs"] or sw["th"] != cpu["th"]:
            out.append(dict(kind="spec", clause="direction-does-not-swap-roles", detail=f"direction {case['dir']} on (m1,m2) differs from the other direction on (m2,m1)"))
    # ---- other voxel size at the SAME physical maximum thickness: just another input; thickness of a pair kept by both runs scales
    if "revoxel" in RS and _usable("revoxel:", obs["revoxel"], n, out):
        rv, c2 = obs["revoxel"], dict(case, voxel=case["voxel"] * case["kv"])
        _checker("revoxel:", RS["revoxel"].get("check"), RS["revoxel"].get("check_alt"), out, capped=capped(RS["revoxel"]))
        out += _direct(c2, rv, "revoxel:")
        if not capped(RS["revoxel"]):
            _vs_model("revoxel", rv, RS["revoxel"]["pairs"], out)
        if ok_cpu:
            a = dict(zip(map(tuple, cpu["pairs"]), cpu["th"]))
            for p, th in zip(map(tuple, rv["pairs"]), rv["th"]):
                if p in a and abs(a[p] * case["kv"] - th) > TH_TOL * max(1.0, abs(th)):
                    out.append(dict(kind="spec", clause="thickness-of-a-pair-does-not-scale-with-voxel", detail=f"pair {p}: {a[p]} at voxel {case['voxel']}, {th} at voxel {c2['voxel']}"))
                    break
    # ---- cross-call state: second call on the same (edited in place) caller-owned arrays, third call unchanged --------------
    if "second" in RS and _usable("second-call:", obs["second"], n, out):
        sc, c2 = obs["second"], dict(case, lab=_apply_edit(case, case["lab"]))
        _checker("second-call:", RS["second"].get("check"), RS["second"].get("check_alt"), out, capped=capped(RS["second"]))
        out += _direct(c2, sc, "second-call:")
        if not capped(RS["second"]):
            _vs_model("second-call", sc, RS["second"]["pairs"], out)
        if _usable("third-call:", obs["third"], n, out):
            th3 = obs["third"]
            if th3["pairs"] != sc["pairs"] or th3["th"] != sc["th"]:  # the model is a function of its arguments; the statement does not speak about repetition: corr
                out.append(dict(kind="corr", clause="repeated-call-gives-a-different-result", detail=f"same arrays, same arguments: {len(sc['pairs'])} pairs, then {len(th3['pairs'])}"))
    # ---- the same candidate list handed to process_matches_cpu2cpu twice: each call judged like a first call on the candidates it was given ----
    ru = obs.get("reuse")
    if isinstance(ru, dict):
        for k, kk in (("first", 1.0), ("second", case["reuse"])):
            who = f"candidate-list-reused:{k}-call:"
            o = ru[k]
            if _usable(who, o, n, out):
                RR = RS["reuse-" + k]
                _checker(who, RR.get("check_kernel"), RR.get("check_kernel_alt"), out, capped=capped(RR))
                out += _direct(dict(case, voxel=case["voxel"] * kk, maxnm=case["maxnm"] * kk), o, who)
                _vs_model(who.rstrip(":"), o, [[s_, t_, d_, f2b(b2f(d_) * case["voxel"] * kk)] for s_, t_, d_, _th in RR["pairs_strict"]], out)
    t = obs.get("top")
    if isinstance(t, dict) and _usable_top("top:", t, n, out, "spec"):
        ct, RT = dict(case, voxel=t["veff"]), RS["top"]
        _checker("top:", RT.get("check"), RT.get("check_alt"), out, capped=capped(RT))
        out += _direct(ct, t, "top:")
        if not capped(RT):
            _vs_model("top", t, RT["pairs"], out)
    # ---- the GPU path (measure_thickness_gpu + CUDA kernel, executed by numba's CUDA simulator) on the float32-rounded input ------
    g = obs.get("gpu")
    if isinstance(g, dict):
        mark = len(out)
        if "error" in g:
            if g.get("where"):
                out.append(dict(kind="corr", clause="gpu:raises", detail=g["error"] + " @" + g["where"]))
            else:
                out.append(dict(kind="corr", clause="harness-or-library-raised", detail="CUDA simulator run: " + g["error"]))
        elif _usable("gpu:", g, n, out, kind="corr"):
            c32 = _case32(case)
            RG = RS["gpu"]
            _checker("gpu:", RG.get("check_kernel"), RG.get("check_kernel_alt"), out, kind="corr", capped=capped(RG))
            out += _direct(c32, g, "gpu:", th_tol=GPU_TH_TOL, kind="corr")
            _vs_model("gpu", g, RG["pairs_strict"], out, tol=GPU_TH_TOL)
            if "cands" not in g:
                out.append(dict(kind="corr", clause="gpu-kernel-output-not-observed", detail="process_matches_gpu2cpu was not called with the kernel's buffers"))
            else:
                _vs_cands("gpu-kernel", g["cands"], RG["cands_strict"], out, GPU_TH_TOL)
                if g.get("cap") != CAP or g.get("counts_over_cap"):
                    out.append(dict(kind="corr", clause="gpu-kernel-cap", detail=f"cap {g.get('cap')}, rows over the cap {g.get('counts_over_cap')}"))
            gt = g.get("top")
            if isinstance(gt, dict) and _usable_top("gpu-top:", gt, n, out, "corr"):
                RT = RS["gputop"]
                _checker("gpu-top:", RT.get("check_kernel"), RT.get("check_kernel_alt"), out, kind="corr", capped=capped(RT))
                out += _direct(dict(c32, voxel=gt["veff"]), gt, "gpu-top:", th_tol=GPU_TH_TOL, kind="corr")
                _vs_model("gpu-top", gt, RT["pairs_strict"], out, tol=GPU_TH_TOL)
        for f in out[mark:]:
            f["detail"] = str(f.get("detail", "")) + GPU_NOTE
    # ---- correspondence with the Lean model ----------------------------------------------------------
    if ok_cpu and not capped(R):
        _vs_model("cpu", cpu, R["pairs"], out)
    # the kernels' 25-slot buffer is part of the model (candsCapped, scan order = index order): compared above the cap as well
    if ok_ker:
        _vs_model("kernel", ker, R["pairs_strict"], out)
    _vs_cands("kernel", ker["cands"], R["cands_strict"], out, 1e-12)
    if ker["counts_on_non_sources"] or ker.get("counts_over_cap"):
        out.append(dict(kind="corr", clause="kernel-writes-non-source-rows-or-counts-beyond-the-buffer", detail=f"{ker['counts_on_non_sources']} / {ker.get('counts_over_cap')}"))
    return out


def nontrivial(case, obs):
    if "error" in obs:
        return False
    m = case.get("meta") or {}
    if "pairs" not in obs["cpu"]:
        return False
    npairs = len(obs["cpu"]["pairs"])
    return m.get("n_adm", 0) >= 2 and npairs >= 1 and m.get("n_adm", 0) > npairs and m.get("between_cone_and_45", 0) >= 1


def _bucket(x, edges):
    for e in edges:
        if x <= e:
            return f"<={e}"
    return f">{edges[-1]}"


def stats(case, obs, resps):
    m = case.get("meta") or {}
    R = resps[0] if resps else {}
    st = {"family": case["family"] + "/" + str(case.get("shape")), "n_points": _bucket(len(case["lab"]), [10, 20, 50, 100, 200, 400, 600]),
          "max_angle_deg": _bucket(case["deg"], [2, 5, 10, 20, 30]), "direction": case["dir"],
          "labels_both_or_none": _bucket(sum(1 for l in case["lab"] if l in (0, 3)), [0, 2, 10, 50]),
          "admissible_pairs": _bucket(m.get("n_adm", 0), [0, 1, 5, 20, 100, 500]),
          "max_candidates_per_source": _bucket(m.get("max_per_source", 0), [0, 1, 2, 5, 10, 24]),
          "sources_with_choice": _bucket(m.get("src_with_choice", 0), [0, 1, 5, 20]),
          "contested_targets": _bucket(m.get("tgt_contested", 0), [0, 1, 5, 20]),
          "targets_between_cone_and_45deg": _bucket(m.get("between_cone_and_45", 0), [0, 1, 5, 20, 100]),
          "targets_in_cone_beyond_radius": _bucket(m.get("beyond_radius_in_cone", 0), [0, 1, 5, 20]),
          "targets_behind_source": _bucket(m.get("behind", 0), [0, 1, 5, 20]),
          "targets_exactly_on_radius": _bucket(m.get("on_radius", 0), [0, 1, 5])}
    if "error" in obs:
        st["impl"] = "raised"
        return st
    g = obs.get("gpu")
    st["gpu_path_under_cuda_simulator"] = ("not-requested" if not case.get("gpu") else "skipped:float32-margins-or-size" if g is None else
                                           "raised" if "error" in g else "run" if "pairs" in g else "unusable-output")
    if isinstance(g, dict) and "pairs" in g:
        st["gpu_pairs_assigned"] = _bucket(len(g["pairs"]), [0, 1, 5, 20, 100])
        st["gpu_arguments_left_to_defaults"] = g.get("omitted") or ["none"]
    st["cpu_arguments_left_to_defaults"] = obs["cpu"].get("omitted") or ["none"]
    st["argument_types"] = obs.get("arg_types", "?")
    t = obs.get("top")
    st["entry_point_end_to_end"] = ("not-requested" if not case.get("top") else "raised" if (not isinstance(t, dict) or "error" in t) else
                                    f"run(cpu branch, use_gpu={case['top']['use_gpu']})" if "pairs" in t else "unusable-output")
    if isinstance(t, dict) and "pairs" in t:
        st["entry_point_arguments_left_to_defaults"] = t.get("omitted") or ["none"]
        st["entry_point_integer_csv_columns"] = t.get("int_columns", 0)
    gt = g.get("top") if isinstance(g, dict) else None
    if isinstance(gt, dict):
        st["entry_point_gpu_branch_under_simulator"] = "run" if "pairs" in gt else "raised-or-unusable"
    if isinstance(g, dict) and "pairs" in g:
        st["gpu_launch_blocks_of_256_threads"] = (len(case["lab"]) + 255) // 256
    if R and "error" not in R:
        st["quantifier"] = "outside:more-than-25-admissible-targets-for-a-source" if max(R.get("max_per_source", 0), R.get("max_per_source_strict", 0)) > CAP else "inside"
    st["cap_passed_explicitly"] = bool(case.get("pass_cap"))
    st["candidate_list_handed_to_assignment_loop_twice"] = str(case.get("reuse"))
    st["second_voxel_size_same_max_nm"] = str(case.get("kv"))
    st["cross_call_edit_unlabelled_points"] = _bucket(len((case.get("edit") or {}).get("unlabel", [])), [0, 1, 2, 3, 10])
    st["returned_dtypes"] = f"{obs['cpu'].get('dtype')}/{obs['cpu'].get('valid_dtype')}/{obs['cpu'].get('pp_dtype')}"
    if "pairs" not in obs["cpu"]:
        st["impl"] = "unusable-output"
        return st
    npairs = len(obs["cpu"]["pairs"])
    st["pairs_assigned"] = _bucket(npairs, [0, 1, 5, 20, 100, 300])
    st["candidates_refused_by_one_to_one"] = _bucket(max(0, m.get("n_adm", 0) - npairs), [0, 1, 5, 20, 100])
    if R and "error" not in R:
        st["model_branch"] = ["pairs" if R["pairs"] else "no-pairs"] + (["strict-differs"] if [p[:2] for p in R["pairs"]] != [p[:2] for p in R["pairs_strict"]] else [])
        st["checker_cpu"] = "accept" if R.get("check", {}).get("ok") else "reject"
        st["checker_kernel"] = "accept" if R.get("check_kernel", {}).get("ok") else "reject"
        mt = {(s, t): b2f(tb) for s, t, _, tb in R["pairs"]}
        devs = [abs(mt[tuple(p)] - th) / max(1.0, abs(th)) for p, th in zip(obs["cpu"]["pairs"], obs["cpu"]["th"]) if tuple(p) in mt]
        st["max_rel_thickness_deviation"] = _bucket(max(devs or [0.0]), [0, 1e-8, 1e-7, 1e-6])
        tn = math.tan(math.radians(case["deg"]))
        st["tan_deviation_ulps"] = _bucket(abs(b2f(R["tan"]) - tn) / (abs(tn) * 2.2e-16), [0, 1, 2, 4])
    return st


def classify(case, obs, finding):
    return None


def probes(rng):
    out = []
    # KD-tree closed ball = brute force (including points exactly on the radius)
    try:
        from scipy.spatial import KDTree
        ok, detail = True, ""
        for _ in range(20):
            n = rng.randint(5, 200)
            pts = np.array([[rng.randint(0, 12) * 0.5 for _ in range(3)] for _ in range(n)])
            q = np.array([[rng.randint(0, 12) * 0.5 for _ in range(3)] for _ in range(10)])
            r = rng.choice([1.0, 1.5, 2.5, 3.0, 0.5 * math.sqrt(2) * 2])
            got = KDTree(pts).query_ball_point(q, r)
            for qi, g in zip(q, got):
                d = np.sqrt(((pts - qi) ** 2).sum(1))
                exp = set(np.where(d <= r)[0].tolist())
                if set(g) != exp:
                    ok, detail = False, f"r={r}: {sorted(set(g) ^ exp)[:5]}"
        out.append(dict(name="scipy-KDTree-query_ball_point=closed-ball-brute-force", ok=ok, detail=detail))
    except Exception as e:
        out.append(dict(name="scipy-KDTree-query_ball_point=closed-ball-brute-force", ok=False, detail=f"{type(e).__name__}: {e}"))
    # float32 product semantics of `thickness_results * voxel_size`
    a = (np.array([3.3, 7.123456789], dtype=np.float32) * 1.37)
    out.append(dict(name="numpy-float32-array-times-python-float-stays-float32", ok=(a.dtype == np.float32), detail=str(a.dtype)))
    # libm tan: Lean driver vs numpy
    try:
        degs = [1.0, 5.0, 12.5, 30.0] + [rng.uniform(1, 30) for _ in range(6)]
        base = dict(prop=PROP, op="all", pts=[], m1=[], m2=[], voxel=f2b(1.0), maxnm=f2b(1.0), rev=0)
        rs = core.run_driver([dict(base, deg=f2b(d)) for d in degs])
        worst = max(abs(b2f(r["tan"]) - float(np.tan(np.radians(d)))) / (float(np.tan(np.radians(d))) * 2.2e-16) for r, d in zip(rs, degs))
        out.append(dict(name="tan(radians(deg)):Lean-Float=numpy-within-4-ulp", ok=worst <= 4, detail=f"worst {worst:.2f} ulp"))
    except Exception as e:
        out.append(dict(name="tan(radians(deg)):Lean-Float=numpy-within-4-ulp", ok=False, detail=f"{type(e).__name__}: {e}"))
    return out


LEVEL_TEXT = ("Lean 4 theorems about an executable model of measure_thickness_cpu + process_matches_cpu2cpu (and of the numba/CUDA candidate test with its 25-slot buffer followed by "
              "process_matches_gpu2cpu), for every point set, labelling, voxel size, maximum thickness, cone half-angle and direction, over any linearly ordered "
              "field: model_spec (every pair admissible; one-to-one; greedy by increasing distance), model_lex (Python tuple tie-break), check_iff = check_sound + check_complete "
              "(the verified checker run on every real output accepts exactly the outputs that satisfy the statement), no_leftover, no_closer, at_most_one, within_range_and_forward, "
              "in_cone / cone_iff (the test with multiplier tan^2 is exactly the cone of half-angle max_angle for unit normals), in_cone_approx (normals with n.n >= 1 - eps), measure_move (rigid motion), measure_rescale (change of unit: "
              "voxel size with the maximum rescaled along), cands_at_larger_voxel_iff + thickness_at_other_voxel (what holds at a fixed physical maximum), direction_swap, "
              "capped_eq_uncapped / fewer_than_25_candidates (the 25-slot buffer changes nothing inside the quantifier), capped_pairs_sound + cap_counterexample (above the cap: per-pair clauses hold, "
              "greedy fails), measure_order_independent (KD-tree order is irrelevant), cone_counterexample (regression witness of D17). Tied to the source by translator theorems whose "
              "expected values are literals compared by the Lean kernel: the three admissibility sites CPU/numba/CUDA are syntactically identical after inlining and evaluate to the model's "
              "d2/proj/lat2 over every commutative ring; the recorded distance is the square root of that d2; guard chain and store block of each site; whole canonical bodies "
              "(alpha-renamed statement lists, annotations / docstrings / logging removed, constant-left comparisons mirrored) of the two kernels, measure_thickness_cpu/gpu, the two assignment loops, "
              "the entry point measure_membrane_thickness and read_segmentation; the logging helpers (fall back to print without a logger); helpers_pure (the statistics / volume helpers around the CSV stores modify no parameter in place); callers_documented (run_full_pipeline and the command line: anchored only); the entry point's dispatch with every argument "
              "resolved to CSV columns / MRC header / its own parameters; signature defaults and decorators of all seven functions; multiplier tan(radians(deg))**2 (evaluated: multiplier_evaluates) and radius on both paths. "
              "Differential run of the real CPU path, the real numba kernel, the entry point end to end and (under numba's CUDA simulator) the real GPU path against the model at Float")
LEVEL_NOTE = ("proved: all clauses for the model and - as far as they concern the PAIRING - for every implementation output accepted by the verified checker (sound and complete), in exact arithmetic with an abstract square root and an "
              "abstract angle (cos, tan with cos^2(1+tan^2)=1). Spec / check_iff decide the pairing only (admissible, one-to-one, greedy): 'a pair's thickness is the distance times the voxel size' is proved for the MODEL "
              "(model_distance) and, on real outputs, evaluated by the harness in Python (independent float64 evaluation, tolerance 1e-6) and compared with the model's value (correspondence) - not by a Lean checker. "
              "in_cone / in_cone_real ask for n.n = 1 exactly (vacuous for noisy float normals); in_cone_approx / in_cone_real_approx are the versions for n.n >= 1 - eps. Validated only: floating point, libm tan/sqrt, the KD-tree ball query, numba scheduling, float32 rounding of the "
              "thickness (tolerance 1e-6) and of the GPU path's coordinates; the GPU path is executed by the CUDA simulator only (never on a device) and its disagreements are reported as correspondence; "
              "'scales with the voxel size' is proved as measure_rescale (a change of unit: maximum rescaled along) - at a fixed max_thickness_nm the candidate set shrinks with a larger voxel size "
              "(cands_at_larger_voxel_iff) and only the thickness of a pair kept by both runs scales (thickness_at_other_voxel); the real code is run at a second "
              "voxel size as an ordinary input; the 25-candidate cap is modelled for the kernels (scan order), not for the KD-tree order of the CPU path - outside the quantifier either way")
TECHNIQUE = "Lean 4 proof (greedy-fold invariant over a sorted list, ring identities for rigid motions and the cone, verified checker sound+complete, capped-buffer refinement) + regenerated expression trees and canonical statement lists compared with hand-written literals by the kernel + differential correspondence with margins (CPU, numba, entry point end to end, CUDA simulator)"
DESIGN_REF = "DESIGN.md section 4, C20; Appendix A.1"
