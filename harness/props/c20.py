"""C20 — membrane thickness pairs: one-to-one, forward, within range and cone (DESIGN.md section 4, C20)."""
import os, ast, math, json, logging
import numpy as np
import core
from core import f2b, b2f

PROP = "C20"
REL = "cryocat/memthick.py"


# ================================================================================ translator (T)
class _Sym:
    """symbolic inliner for one kernel: resolves local names to expressions over points/normals/params"""

    def __init__(self, fn, upto_line):
        self.assign = {}
        for n in ast.walk(fn):
            if isinstance(n, ast.Assign) and len(n.targets) == 1 and isinstance(n.targets[0], ast.Name):
                self.assign.setdefault(n.targets[0].id, []).append(n)
        self.upto = upto_line
        self.leaves = []  # (array, index-text, component)

    def lookup(self, name, line):
        """nearest assignment to `name` strictly before `line`"""
        c = [a for a in self.assign.get(name, []) if a.lineno < line]
        return max(c, key=lambda a: a.lineno) if c else None

    def leaf(self, node, line):
        """points[X][k] / points[X, k] / alias[k] -> ('points'|'normals', 'X', k)"""
        if not isinstance(node, ast.Subscript):
            return None
        base, idx = node.value, node.slice
        if isinstance(base, ast.Name) and base.id in ("points", "normals"):
            if isinstance(idx, ast.Tuple) and len(idx.elts) == 2 and isinstance(idx.elts[1], ast.Constant):
                return (base.id, ast.unparse(idx.elts[0]), int(idx.elts[1].value))
            return None
        if isinstance(idx, ast.Constant) and isinstance(idx.value, int):
            inner = base
            if isinstance(inner, ast.Name):
                a = self.lookup(inner.id, line)
                if a is None:
                    return None
                inner = a.value
            if isinstance(inner, ast.Subscript) and isinstance(inner.value, ast.Name) and inner.value.id in ("points", "normals") \
                    and not isinstance(inner.slice, ast.Tuple):
                return (inner.value.id, ast.unparse(inner.slice), int(idx.value))
        return None

    def expr(self, node, line, depth=0):
        if depth > 60:
            raise core.AnchorMissing("expression too deep")
        if isinstance(node, ast.BinOp):
            if isinstance(node.op, ast.Pow):
                if isinstance(node.right, ast.Constant) and node.right.value == 2:
                    return ("sq", self.expr(node.left, line, depth + 1))
                raise core.AnchorMissing("power other than 2: " + ast.unparse(node))
            op = {ast.Add: "add", ast.Sub: "sub", ast.Mult: "mul"}.get(type(node.op))
            if op is None:
                raise core.AnchorMissing("operator " + ast.unparse(node))
            return (op, self.expr(node.left, line, depth + 1), self.expr(node.right, line, depth + 1))
        if isinstance(node, ast.Subscript):
            lf = self.leaf(node, line)
            if lf is None:
                raise core.AnchorMissing("unrecognised subscript " + ast.unparse(node))
            self.leaves.append(lf)
            return ("leaf",) + lf
        if isinstance(node, ast.Name):
            if node.id == "max_angle_cos":
                return ("var", "m")
            if node.id == "max_thickness_voxels":
                return ("var", "r")
            a = self.lookup(node.id, line)
            if a is None:
                raise core.AnchorMissing("unbound name " + node.id)
            return self.expr(a.value, a.lineno, depth + 1)
        raise core.AnchorMissing("unsupported expression " + ast.unparse(node)[:60])


_CMP = {ast.Lt: "lt", ast.LtE: "le", ast.Gt: "gt", ast.GtE: "ge", ast.Eq: "eq", ast.NotEq: "ne"}


def _rename(e, src_idx, tgt_idx):
    if e[0] == "leaf":
        _, arr, idx, k = e
        if arr == "normals":
            if idx != src_idx:
                raise core.AnchorMissing(f"normal of a point other than the source: normals[{idx}]")
            return ("var", f"n{k}")
        if idx == src_idx:
            return ("var", f"ps{k}")
        if idx == tgt_idx:
            return ("var", f"pt{k}")
        raise core.AnchorMissing(f"third point index {idx}")
    if e[0] == "var":
        return e
    return (e[0],) + tuple(_rename(x, src_idx, tgt_idx) for x in e[1:])


def _lean_expr(e):
    if e[0] == "var":
        return f"(.var .{e[1]})"
    if e[0] == "sq":
        return f"(.sq {_lean_expr(e[1])})"
    return f"(.{e[0]} {_lean_expr(e[1])} {_lean_expr(e[2])})"


def _site(src, fname):
    """-> dict(dist2, proj, projCmp, lat2, coneCmp, coneRhs, ball, sqrt)"""
    fn = src.find(REL, fname)
    cone = [n for n in ast.walk(fn) if isinstance(n, ast.Compare) and isinstance(n.left, ast.Name) and n.left.id == "lateral_dist_sq"]
    if len(cone) != 1 or len(cone[0].ops) != 1:
        raise core.AnchorMissing(f"{fname}: exactly one comparison `lateral_dist_sq <op> ...` expected, found {len(cone)}")
    cone = cone[0]
    pj = [n for n in ast.walk(fn) if isinstance(n, ast.Compare) and isinstance(n.left, ast.Name) and n.left.id == "proj"]
    if len(pj) != 1 or len(pj[0].ops) != 1 or not (isinstance(pj[0].comparators[0], ast.Constant) and pj[0].comparators[0].value == 0):
        raise core.AnchorMissing(f"{fname}: exactly one comparison `proj <op> 0` expected")
    pj = pj[0]
    if not (pj.lineno < cone.lineno):
        raise core.AnchorMissing(f"{fname}: the proj test does not precede the cone test")
    sym = _Sym(fn, cone.lineno)
    lat2 = sym.expr(cone.left, cone.lineno)
    rhs = sym.expr(cone.comparators[0], cone.lineno)
    proj = sym.expr(pj.left, pj.lineno)
    da = sym.lookup("dist", cone.lineno)
    if da is None or not (isinstance(da.value, ast.Call) and ast.unparse(da.value.func) in ("np.sqrt", "math.sqrt") and len(da.value.args) == 1):
        raise core.AnchorMissing(f"{fname}: dist = sqrt(...) not found")
    dist2 = sym.expr(da.value.args[0], da.lineno)
    nidx = {l[1] for l in sym.leaves if l[0] == "normals"}
    pidx = {l[1] for l in sym.leaves if l[0] == "points"}
    if len(nidx) != 1 or len(pidx) != 2 or not nidx <= pidx:
        raise core.AnchorMissing(f"{fname}: point/normal indices {sorted(pidx)}/{sorted(nidx)}")
    s_idx = next(iter(nidx))
    t_idx = next(iter(pidx - nidx))
    # distance pre-filter
    ballc = [n for n in ast.walk(fn) if isinstance(n, ast.Compare) and isinstance(n.left, ast.Name) and n.left.id == "dist"]
    if ballc:
        if len(ballc) != 1 or not (isinstance(ballc[0].comparators[0], ast.Name) and ballc[0].comparators[0].id == "max_thickness_voxels"):
            raise core.AnchorMissing(f"{fname}: `dist <op> max_thickness_voxels` expected")
        ball = f"(.cmp .{_CMP[type(ballc[0].ops[0])]})"
    else:
        calls = [n for n in ast.walk(fn) if isinstance(n, ast.Call) and isinstance(n.func, ast.Attribute) and n.func.attr == "query_ball_point"]
        if len(calls) == 1 and len(calls[0].args) == 2 and ast.unparse(calls[0].args[1]) == "max_thickness_voxels" \
                and ast.unparse(calls[0].args[0]) == "source_points" and not calls[0].keywords:
            ball = ".kdtreeClosedBall"
        else:
            ball = ".missing"
    r = dict(dist2=_rename(dist2, s_idx, t_idx), proj=_rename(proj, s_idx, t_idx), projCmp=_CMP[type(pj.ops[0])],
             lat2=_rename(lat2, s_idx, t_idx), coneCmp=_CMP[type(cone.ops[0])], coneRhs=_rename(rhs, s_idx, t_idx), ball=ball)
    return r


def _lean_site(name, s):
    if s is None:  # anchor missing: a site that satisfies none of the theorems
        z = "(.var .r)"
        return (f"def {name} : Site := ⟨{z}, {z}, .ne, {z}, .ne, {z}⟩\n" f"def {name}Ball : Ball := .missing\n")
    return (f"def {name} : Site :=\n  {{ dist2 := {_lean_expr(s['dist2'])}\n    proj := {_lean_expr(s['proj'])}\n    projCmp := .{s['projCmp']}\n"
            f"    lat2 := {_lean_expr(s['lat2'])}\n    coneCmp := .{s['coneCmp']}\n    coneRhs := {_lean_expr(s['coneRhs'])} }}\n"
            f"def {name}Ball : Ball := {s['ball']}\n")


def _aexpr(node):
    if isinstance(node, ast.Name) and node.id == "max_angle_degrees":
        return ".deg"
    if isinstance(node, ast.BinOp) and isinstance(node.op, ast.Pow) and isinstance(node.right, ast.Constant) and node.right.value == 2:
        return f"(.sq {_aexpr(node.left)})"
    if isinstance(node, ast.Call) and len(node.args) == 1 and not node.keywords:
        f = ast.unparse(node.func)
        if f in ("np.radians", "math.radians", "np.deg2rad"):
            return f"(.radians {_aexpr(node.args[0])})"
        for nm in ("tan", "cos", "sin"):
            if f in (f"np.{nm}", f"math.{nm}"):
                return f"(.{nm} {_aexpr(node.args[0])})"
    return f"(.other {core.lean_str(ast.unparse(node)[:80])})"


def _mult(src, fname):
    fn = src.find(REL, fname)
    a = [n for n in ast.walk(fn) if isinstance(n, ast.Assign) and len(n.targets) == 1 and isinstance(n.targets[0], ast.Name) and n.targets[0].id == "max_angle_cos"]
    if len(a) != 1:
        raise core.AnchorMissing(f"{fname}: exactly one assignment to max_angle_cos expected")
    return _aexpr(a[0].value)


def _radius(src, fname):
    fn = src.find(REL, fname)
    a = [n for n in ast.walk(fn) if isinstance(n, ast.Assign) and len(n.targets) == 1 and isinstance(n.targets[0], ast.Name) and n.targets[0].id == "max_thickness_voxels"]
    if len(a) != 1:
        raise core.AnchorMissing(f"{fname}: assignment to max_thickness_voxels")
    return core.norm_expr(a[0].value)


def _gpu_call_positions(src):
    """the GPU driver passes radius and multiplier in the kernel's parameter positions"""
    kern = src.find(REL, "find_all_possible_matches_kernel")
    params = [a.arg for a in kern.args.args]
    fn = src.find(REL, "measure_thickness_gpu")
    calls = [n for n in ast.walk(fn) if isinstance(n, ast.Call) and isinstance(n.func, ast.Subscript)
             and ast.unparse(n.func.value) == "find_all_possible_matches_kernel"]
    if len(calls) != 1:
        raise core.AnchorMissing("measure_thickness_gpu: kernel launch not found")
    args = [ast.unparse(a) for a in calls[0].args]
    if len(args) != len(params):
        raise core.AnchorMissing("kernel launch arity")
    return all(args[params.index(p)] == p for p in ("max_thickness_voxels", "max_angle_cos"))


def _assign_anchors(src, fname, loopvars):
    """process_matches_*: plain ascending sort of (dist, source, target) tuples, first-come one-to-one assignment, voxel scaling"""
    fn = src.find(REL, fname)
    sorts = [n for n in ast.walk(fn) if isinstance(n, ast.Call) and isinstance(n.func, ast.Attribute) and n.func.attr in ("sort",)]
    sorted_calls = [n for n in ast.walk(fn) if isinstance(n, ast.Call) and ast.unparse(n.func) == "sorted"]
    if len(sorts) != 1 or sorted_calls:
        raise core.AnchorMissing(f"{fname}: exactly one .sort() expected")
    plain = (not sorts[0].args) and (not sorts[0].keywords)
    lst = ast.unparse(sorts[0].func.value)
    loops = [n for n in ast.walk(fn) if isinstance(n, ast.For) and ast.unparse(n.iter) == lst]
    if len(loops) != 1:
        raise core.AnchorMissing(f"{fname}: loop over the sorted list")
    lp = loops[0]
    if sorts[0].lineno > lp.lineno:
        raise core.AnchorMissing(f"{fname}: sort after the loop")
    tv = [e.id for e in lp.target.elts] if isinstance(lp.target, ast.Tuple) else []
    if len(tv) != 3:
        raise core.AnchorMissing(f"{fname}: loop does not unpack three names")
    d, s, t = tv
    ifs = [n for n in lp.body if isinstance(n, ast.If)]
    if len(lp.body) != 1 or len(ifs) != 1 or ifs[0].orelse:
        raise core.AnchorMissing(f"{fname}: loop body is not a single if")
    cond = ifs[0].test
    ok_cond = False
    if isinstance(cond, ast.BoolOp) and isinstance(cond.op, ast.And) and len(cond.values) == 2:
        a, b = cond.values
        def notin(x, v):
            return isinstance(x, ast.Compare) and len(x.ops) == 1 and isinstance(x.ops[0], ast.NotIn) and isinstance(x.left, ast.Name) and x.left.id == v \
                and isinstance(x.comparators[0], ast.Name)
        if notin(a, s) and notin(b, t):
            sset, tset = a.comparators[0].id, b.comparators[0].id
            body = [ast.unparse(x).replace(" ", "") for x in ifs[0].body]
            need = [f"thickness_results[{s}]={d}", f"valid_mask[{s}]=True", f"point_pairs[{s}]={t}", f"{sset}.add({s})", f"{tset}.add({t})"]
            ok_cond = sset != tset and sorted(body) == sorted(need)
    # sets start empty
    inits = {ast.unparse(n.targets[0]): ast.unparse(n.value) for n in fn.body if isinstance(n, ast.Assign) and len(n.targets) == 1}
    sets_empty = ok_cond and inits.get(sset) == "set()" and inits.get(tset) == "set()"
    scale = [n for n in fn.body if isinstance(n, ast.Assign) and ast.unparse(n.targets[0]) == "thickness_results" and n.lineno > lp.lineno]
    ok_scale = len(scale) == 1 and core.norm_expr(scale[0].value) in ("thickness_results*voxel_size", "voxel_size*thickness_results")
    ret = [n for n in fn.body if isinstance(n, ast.Return)]
    ok_ret = len(ret) == 1 and core.norm_expr(ret[0].value) == "(thickness_results,valid_mask,point_pairs)"
    return dict(plain=plain, cond=ok_cond and sets_empty, scale=ok_scale, ret=ok_ret)


def _cpu_flow(src):
    fn = src.find(REL, "measure_thickness_cpu")
    txt = {}
    # direction swap
    ifs = [n for n in fn.body if isinstance(n, ast.If) and core.norm_expr(n.test) in ("direction=='2to1'", 'direction=="2to1"')]
    if len(ifs) != 1:
        raise core.AnchorMissing("measure_thickness_cpu: `if direction == '2to1'`")
    def asg(body):
        a = [core.norm_expr(x) for x in body if isinstance(x, ast.Assign)]
        return a
    txt["dir"] = asg(ifs[0].body) == ["source_mask,target_mask=(surface2_mask,surface1_mask)"] and \
        asg(ifs[0].orelse) == ["source_mask,target_mask=(surface1_mask,surface2_mask)"]
    whole = ast.unparse(fn).replace(" ", "")
    txt["idx"] = all(s in whole for s in ("target_indices=np.where(target_mask)[0]", "source_indices=np.where(source_mask)[0]",
                                           "target_points=points[target_indices]", "source_points=points[source_indices]",
                                           "target_tree=ScipyKDTree(target_points)", "source_idx=source_indices[i]",
                                           "target_idx=target_indices[n]", "forninneighbors:",
                                           "fori,neighborsinenumerate(neighbor_lists):"))
    app = [n for n in ast.walk(fn) if isinstance(n, ast.Call) and isinstance(n.func, ast.Attribute) and n.func.attr == "append"]
    txt["tuple"] = len(app) == 1 and core.norm_expr(app[0]) == "flat_matches.append((dist,source_idx,target_idx))"
    txt["call"] = "thickness_results,valid_mask,point_pairs=process_matches_cpu2cpu(flat_matches,n_points,voxel_size)" in whole \
        and "return(thickness_results,valid_mask,point_pairs)" in whole.replace("returnthickness_results,valid_mask,point_pairs", "return(thickness_results,valid_mask,point_pairs)")
    cap = None
    a = fn.args
    names = [x.arg for x in a.args]
    defaults = dict(zip(names[len(names) - len(a.defaults):], a.defaults))
    if "max_matches_per_point" in defaults and isinstance(defaults["max_matches_per_point"], ast.Constant):
        cap = int(defaults["max_matches_per_point"].value)
    if cap is None:
        raise core.AnchorMissing("measure_thickness_cpu: default of max_matches_per_point")
    txt["cap"] = cap
    txt["capcmp"] = "ifvalid_matches>=max_matches_per_point:break" in whole.replace("\n", "")
    return txt


def translate(src):
    s_cpu = src.anchor("cone-site:measure_thickness_cpu", lambda: _site(src, "measure_thickness_cpu"))
    s_nb = src.anchor("cone-site:find_matches_parallel(numba)", lambda: _site(src, "find_matches_parallel"))
    s_cu = src.anchor("cone-site:find_all_possible_matches_kernel(CUDA)", lambda: _site(src, "find_all_possible_matches_kernel"))
    m_cpu = src.anchor("multiplier:measure_thickness_cpu", lambda: _mult(src, "measure_thickness_cpu"))
    m_gpu = src.anchor("multiplier:measure_thickness_gpu", lambda: _mult(src, "measure_thickness_gpu"))
    r_cpu = src.anchor("radius:measure_thickness_cpu", lambda: _radius(src, "measure_thickness_cpu"))
    r_gpu = src.anchor("radius:measure_thickness_gpu", lambda: _radius(src, "measure_thickness_gpu"))
    gpos = src.anchor("gpu-launch-argument-positions", lambda: _gpu_call_positions(src))
    a_cpu = src.anchor("assignment:process_matches_cpu2cpu", lambda: _assign_anchors(src, "process_matches_cpu2cpu", None))
    a_gpu = src.anchor("assignment:process_matches_gpu2cpu", lambda: _assign_anchors(src, "process_matches_gpu2cpu", None))
    flow = src.anchor("flow:measure_thickness_cpu", lambda: _cpu_flow(src))
    a_cpu = a_cpu if isinstance(a_cpu, dict) else {}
    a_gpu = a_gpu if isinstance(a_gpu, dict) else {}
    flow = flow if isinstance(flow, dict) else {}
    # anchors store str(dict); keep evidence small
    for a in src.anchors:
        if isinstance(a.get("value"), str) and len(a["value"]) > 400:
            a["value"] = a["value"][:400] + "..."
    b = lambda v: "true" if v else "false"
    return f"""-- GENERATED by harness/props/c20.py from {REL}; do not edit
import CryoCat.Model.C20_Expr
namespace CryoCat.Gen.C20
open CryoCat.C20
def anchorsOk : Bool := {b(src.ok)}
{_lean_site("siteCpu", s_cpu if isinstance(s_cpu, dict) else None)}{_lean_site("siteNumba", s_nb if isinstance(s_nb, dict) else None)}{_lean_site("siteCuda", s_cu if isinstance(s_cu, dict) else None)}/-- `max_angle_cos = ...` in measure_thickness_cpu / measure_thickness_gpu -/
def multCpu : AExpr := {m_cpu if m_cpu else '(.other "missing")'}
def multGpu : AExpr := {m_gpu if m_gpu else '(.other "missing")'}
/-- `max_thickness_voxels = ...` -/
def radiusCpu : String := {core.lean_str(r_cpu or "missing")}
def radiusGpu : String := {core.lean_str(r_gpu or "missing")}
def gpuLaunchPositionsOk : Bool := {b(gpos)}
/-- process_matches_cpu2cpu / gpu2cpu: `list.sort()` without key/reverse on (dist, source, target) tuples -/
def sortPlainCpu : Bool := {b(a_cpu.get("plain"))}
def sortPlainGpu : Bool := {b(a_gpu.get("plain"))}
/-- loop body is `if s not in S and t not in T: record; S.add(s); T.add(t)` with S, T initially empty -/
def firstComeCpu : Bool := {b(a_cpu.get("cond"))}
def firstComeGpu : Bool := {b(a_gpu.get("cond"))}
/-- `thickness_results = thickness_results * voxel_size` after the loop, and the triple is returned -/
def scaleByVoxelCpu : Bool := {b(a_cpu.get("scale") and a_cpu.get("ret"))}
def scaleByVoxelGpu : Bool := {b(a_gpu.get("scale") and a_gpu.get("ret"))}
/-- measure_thickness_cpu: direction '2to1' swaps the masks; sources/targets are the mask members; tuples are (dist, source_idx, target_idx) -/
def directionSwapsMasks : Bool := {b(flow.get("dir"))}
def indexPlumbingOk : Bool := {b(flow.get("idx") and flow.get("call"))}
def tupleIsDistSourceTarget : Bool := {b(flow.get("tuple"))}
def capDefault : Nat := {flow.get("cap", 0)}
def capIsBreakAtGe : Bool := {b(flow.get("capcmp"))}
end CryoCat.Gen.C20
"""


# ================================================================================ constants
COUNT = {"quick": 250, "thorough": 2000, "search": 600}
PARALLEL = False  # numba's thread pool does not survive vcheck's fork pool: forked workers deadlock once the parent has run a prange kernel
os.environ.setdefault("NUMBA_NUM_THREADS", "2")  # 16 forked workers x prange threads
CAP = 25
REL_MARGIN = 1e-6      # distance of every decision from the ball / cone boundary (relative)
TIE_MARGIN = 1e-9      # relative gap between candidate distances (float families)
TH_TOL = 1e-6          # thickness is float32(dist) * float32(voxel): relative tolerance
ANGLE_EPS = 1e-4       # degrees, for the independent evaluation of the cone clause

RULE = ("point sets of 20..600 points (search tier: 6..40): family 'sheets' = two sheets (flat, tilted or curved; separation h, "
        "jitter), unit normals with angular noise and ~5% flipped, targets aimed at sources at off-axis angles spread around "
        "max_angle (inside, just outside, up to 44 degrees), competing sources aimed at the same target, ~5% arbitrary relabelling "
        "(none/1/2/both), shuffled order, random rigid placement; family 'grid' = integer lattices scaled by 2^-k with axis normals "
        "(exact float arithmetic: exact distance ties decided by index order, targets exactly on the search radius); voxel size "
        "0.3..3, max_thickness 0.75..1.8 x separation, max_angle 1..30 degrees, both directions; every decision kept a relative "
        "margin 1e-6 away from the ball/cone boundary and (float families) candidate distances 1e-9 apart; < 25 candidates per "
        "source. Each case: measure_thickness_cpu, numba find_matches_parallel + process_matches_gpu2cpu, and re-runs on a "
        "rigidly moved copy, a voxel-rescaled copy and the surface-swapped copy. non-trivial = at least 2 admissible pairs, at "
        "least one admissible pair refused because its source or target was taken, and at least one in-range forward target "
        "between the cone and 45 degrees; distinct = distinct case content")
ASSUMPTIONS = [
    "numpy float64 arithmetic = Lean Float (IEEE binary64) on the model's expressions; decisions are kept 1e-6 (relative) away from ties so "
    "rounding cannot flip them; family 'grid' is exact",
    "scipy.spatial.KDTree.query_ball_point(x, r) returns exactly the points with distance <= r (probed each run against brute force)",
    "libm tan of Lean's Float.tan and numpy's np.tan agree to a few ulp (probed each run)",
    "thickness_results is float32: float32(dist) * float32(voxel) is compared with dist*voxel at relative tolerance 1e-6",
    "numba prange scheduling does not influence per-source candidate lists (each source writes its own row)",
    "the CUDA kernel is never executed: it is tied only through the translator (expressions identical to the CPU/numba sites)",
]
TRUSTED = ["harness geometry used only to *generate* margins (props/c20.py _analyse) and for the independent angle/thickness evaluation in judge()"]


# ================================================================================ geometry helpers (generator side only)
def _unit(v):
    v = np.asarray(v, dtype=float)
    return v / np.linalg.norm(v)


def _rot(rotvec):
    """Rodrigues formula (no scipy)"""
    rv = np.asarray(rotvec, dtype=float)
    a = np.linalg.norm(rv)
    if a == 0:
        return np.eye(3)
    k = rv / a
    K = np.array([[0, -k[2], k[1]], [k[2], 0, -k[0]], [-k[1], k[0], 0]])
    return np.eye(3) + math.sin(a) * K + (1 - math.cos(a)) * (K @ K)


def _perp(n, rng):
    """random unit vector orthogonal to n"""
    while True:
        v = np.array([rng.gauss(0, 1) for _ in range(3)])
        v = v - np.dot(v, n) * n
        l = np.linalg.norm(v)
        if l > 1e-3:
            return v / l


def _tilt(n, ang_deg, rng):
    """unit vector at angle ang_deg from n in a random azimuth"""
    e = _perp(n, rng)
    a = math.radians(ang_deg)
    return _unit(math.cos(a) * n + math.sin(a) * e)


def _masks(case):
    lab = np.asarray(case["lab"], dtype=int)
    return (lab & 1).astype(bool), (lab & 2).astype(bool)


def _src_tgt(case):
    m1, m2 = _masks(case)
    return (m2, m1) if case["dir"] == "2to1" else (m1, m2)


def _analyse(case):
    """all source x target quantities by the *statement* (tan^2 cone), float64; generator/judge side"""
    P = np.asarray(case["pts"], dtype=float).reshape(-1, 3)
    N = np.asarray(case["nrm"], dtype=float).reshape(-1, 3)
    sm, tm = _src_tgt(case)
    si, ti = np.where(sm)[0], np.where(tm)[0]
    if len(si) == 0 or len(ti) == 0:
        z = np.zeros((len(si), len(ti)))
        return dict(si=si, ti=ti, d=z, proj=z, lat2=z, rhs=z, adm=z.astype(bool), r=case["maxnm"] / case["voxel"], m=0.0)
    V = P[ti][None, :, :] - P[si][:, None, :]
    d = np.sqrt((V * V).sum(-1))
    proj = (V * N[si][:, None, :]).sum(-1)
    L = V - proj[:, :, None] * N[si][:, None, :]
    lat2 = (L * L).sum(-1)
    m = math.tan(math.radians(case["deg"])) ** 2
    r = case["maxnm"] / case["voxel"]
    rhs = m * proj * proj
    adm = (d <= r) & (proj > 0) & (lat2 < rhs)
    return dict(si=si, ti=ti, d=d, proj=proj, lat2=lat2, rhs=rhs, adm=adm, r=r, m=m)


def _meta(case):
    A = _analyse(case)
    adm, d, proj, lat2, r = A["adm"], A["d"], A["proj"], A["lat2"], A["r"]
    between = int(((d <= r) & (proj > 0) & ~adm & (lat2 < proj * proj)).sum()) if d.size else 0
    return dict(n_adm=int(adm.sum()), max_per_source=int(adm.sum(1).max()) if adm.size else 0,
                src_with_choice=int((adm.sum(1) >= 2).sum()) if adm.size else 0,
                tgt_contested=int((adm.sum(0) >= 2).sum()) if adm.size else 0,
                between_cone_and_45=between,
                beyond_radius_in_cone=int(((d > r) & (proj > 0) & (lat2 < A["rhs"])).sum()) if d.size else 0,
                behind=int(((d <= r) & (proj <= 0)).sum()) if d.size else 0,
                on_radius=int((d == r).sum()) if d.size else 0)


def corpus():
    """hand-written adversarial cases and minimised past failures (corpus/C20/*.json); meta is recomputed"""
    import glob
    out = []
    for p in sorted(glob.glob(os.path.join(core.VERIF, "corpus", PROP, "*.json"))):
        d = json.load(open(p))
        for c in (d if isinstance(d, list) else [d]):
            c = dict(c)
            c.setdefault("family", "corpus"); c.setdefault("shape", os.path.basename(p)[:-5])
            c.setdefault("motion", None); c.setdefault("k", None)
            c["meta"] = _meta(c)
            out.append(c)
    return out


def _clean(case, rng, exact=False):
    """unlabel targets until every decision is a margin away from a boundary, candidate distances are apart
    (float families) and every source has < CAP candidates; then record the meta counts"""
    lab = case["lab"]
    tbit = 1 if case["dir"] == "2to1" else 2
    for _ in range(12):
        A = _analyse(case)
        si, ti, d, proj, lat2, rhs, adm, r = (A[k] for k in ("si", "ti", "d", "proj", "lat2", "rhs", "adm", "r"))
        drop = set()
        if d.size:
            near = (d <= r * (1 + 10 * REL_MARGIN)) & (proj > 0)
            cone_close = near & (np.abs(lat2 - rhs) <= REL_MARGIN * (lat2 + rhs))
            ball_close = (np.abs(d - r) <= REL_MARGIN * r) if not exact else np.zeros_like(adm)
            if exact:  # exact families may sit exactly on the radius, but not a rounding error away from it
                ball_close = (np.abs(d - r) <= REL_MARGIN * r) & (d != r)
            for a, b in zip(*np.where(cone_close | ball_close)):
                drop.add(int(ti[b]))
            if not exact and not drop:
                ia, ib = np.where(adm)
                dd = d[ia, ib]
                o = np.argsort(dd)
                for k in range(len(o) - 1):
                    if dd[o[k + 1]] - dd[o[k]] <= TIE_MARGIN * dd[o[k + 1]]:
                        drop.add(int(ti[ib[o[k + 1]]]))
            if not drop:
                cnt = adm.sum(1)
                for a in np.where(cnt >= CAP - 1)[0]:
                    bs = list(np.where(adm[a])[0])
                    rng.shuffle(bs)
                    for b in bs[: int(cnt[a]) - (CAP - 6)]:
                        drop.add(int(ti[b]))
        if not drop:
            break
        for t in drop:
            lab[t] &= ~tbit
    case["meta"] = _meta(case)
    return case


# ================================================================================ generators
def _surface(kind, L, kappa):
    """(u,v) -> point, unit normal"""
    if kind == "curved":
        def f(u, v):
            x, y = u - L / 2, v - L / 2
            p = np.array([x, y, 0.5 * kappa * (x * x + y * y)])
            n = _unit([-kappa * x, -kappa * y, 1.0])
            return p, n
    else:
        def f(u, v):
            return np.array([u - L / 2, v - L / 2, 0.0]), np.array([0.0, 0.0, 1.0])
    return f


def _gen_sheets(rng, nmin, nmax):
    n = rng.randint(nmin, nmax)
    deg = float(rng.randint(1, 30)) if rng.random() < 0.4 else rng.uniform(1.0, 30.0)
    th = deg
    h = rng.uniform(3.0, 12.0)
    voxel = rng.choice([0.5, 1.0, 2.0, 0.78, 1.37]) if rng.random() < 0.4 else rng.uniform(0.3, 3.0)
    r = h * rng.uniform(0.75, 1.8)
    kind = rng.choice(["flat", "tilted", "curved"])
    n_src0 = max(2, int(n * rng.uniform(0.25, 0.5)))
    lam45 = math.exp(rng.uniform(math.log(0.5), math.log(8.0)))
    n_bg = max(1, int((n - n_src0) * rng.uniform(0.2, 0.6)))
    L = h * math.sqrt(math.pi * max(n_bg, 1) / lam45)
    kappa = rng.uniform(0.2, 1.0) / max(L, h) if kind == "curved" else 0.0
    f = _surface(kind, L, kappa)
    noise = rng.choice([0.0, 1.0, 3.0, 8.0, 20.0])
    jit = rng.choice([0.0, 0.02, 0.1]) * h
    pts, nrm, role = [], [], []  # role: 'S' source sheet, 'T' target sheet

    def add(p, nn, ro):
        pts.append(p); nrm.append(nn); role.append(ro)

    src = []
    for _ in range(n_src0):
        p, N = f(rng.uniform(0, L), rng.uniform(0, L))
        p = p + rng.uniform(-jit, jit) * N
        nn = _tilt(N, abs(rng.gauss(0, noise)), rng) if noise else N
        if rng.random() < 0.05:
            nn = -nn
        add(p, nn, "S"); src.append(len(pts) - 1)
    # background targets on the offset sheet
    for _ in range(n_bg):
        p, N = f(rng.uniform(0, L), rng.uniform(0, L))
        q = p + (h + rng.uniform(-jit, jit)) * N
        nn = _tilt(-N, abs(rng.gauss(0, noise)), rng) if noise else -N
        add(q, nn, "T")
    # aimed targets and competing sources until the budget is used
    budget = n - len(pts)
    guard = 0
    while budget > 0 and guard < 10 * n:
        guard += 1
        k = rng.random()
        if k < 0.7:
            a = rng.choice(src)
            u = rng.random()
            rho = rng.uniform(0, 0.95) if u < 0.5 else (rng.uniform(1.05, 2.5) if u < 0.8 else rng.uniform(1.0, 44.0 / th))
            phi = min(th * rho, 60.0)
            dirv = _tilt(nrm[a], phi, rng)
            dist = h * rng.uniform(0.8, 1.25) if rng.random() < 0.8 else r * rng.uniform(0.9, 1.15)
            q = pts[a] + dist * dirv
            add(q, _tilt(-nrm[a], abs(rng.gauss(0, noise)), rng) if noise else -nrm[a], "T")
            budget -= 1
        else:
            tg = [i for i, ro in enumerate(role) if ro == "T"]
            b = rng.choice(tg)
            base = -nrm[b] if rng.random() < 0.7 else _unit(pts[b] - pts[rng.choice(src)] + 1e-9)
            nd = _tilt(base, rng.uniform(0, 25.0), rng)
            dist = h * rng.uniform(0.6, 1.4)
            a_p = pts[b] - dist * nd
            a_n = _tilt(nd, th * (rng.uniform(0, 0.9) if rng.random() < 0.75 else rng.uniform(1.1, 3.0)), rng)
            add(a_p, a_n, "S"); src.append(len(pts) - 1)
            budget -= 1
    direction = rng.choice(["1to2", "2to1"])
    sl, tl = (1, 2) if direction == "1to2" else (2, 1)
    lab = [sl if ro == "S" else tl for ro in role]
    for i in range(len(lab)):
        if rng.random() < 0.05:
            lab[i] = rng.choice([0, 1, 2, 3])
    order = list(range(len(pts)))
    rng.shuffle(order)
    R = _rot([rng.gauss(0, 1.5) for _ in range(3)]) if kind != "flat" else np.eye(3)
    shift = np.array([rng.uniform(0, 200) for _ in range(3)])
    P = np.array([R @ pts[i] + shift for i in order])
    Nn = np.array([_unit(R @ nrm[i]) for i in order])
    case = dict(family="sheets", shape=kind, pts=P.tolist(), nrm=Nn.tolist(), lab=[lab[i] for i in order],
                voxel=float(voxel), maxnm=float(r * voxel), deg=float(deg), dir=direction,
                motion=dict(rotvec=[rng.gauss(0, 1.2) for _ in range(3)], shift=[rng.uniform(-50, 50) for _ in range(3)]),
                k=rng.choice([0.5, 2.0, 4.0]))
    return _clean(case, rng)


_SIGNED_PERMS = None


def _signed_perms():
    """the 24 rotations of the cube as integer matrices"""
    global _SIGNED_PERMS
    if _SIGNED_PERMS is None:
        import itertools
        out = []
        for perm in itertools.permutations(range(3)):
            for sg in itertools.product([1, -1], repeat=3):
                M = np.zeros((3, 3))
                for i in range(3):
                    M[i, perm[i]] = sg[i]
                if round(np.linalg.det(M)) == 1:
                    out.append(M)
        _SIGNED_PERMS = out
    return _SIGNED_PERMS


def _gen_grid(rng, nmin, nmax):
    n = rng.randint(nmin, min(nmax, 300))
    hz = rng.choice([2, 3, 4, 5, 6])
    side = max(3, int(math.sqrt(n)) + rng.randint(0, 3))
    cells = [(i, j) for i in range(side) for j in range(side)]
    na = max(2, n // 2)
    A = rng.sample(cells, min(na, len(cells)))
    B = rng.sample(cells, min(n - len(A), len(cells)))
    scale = rng.choice([1.0, 0.5, 0.25, 2.0])
    pts = [[i * scale, j * scale, 0.0] for i, j in A] + [[i * scale, j * scale, hz * scale] for i, j in B]
    if rng.random() < 0.3:  # a second target layer: distance ties between layers
        C = rng.sample(cells, min(len(B) // 2 + 1, len(cells)))
        pts += [[i * scale, j * scale, (hz + 1) * scale] for i, j in C]
        nB = len(B) + len(C)
    else:
        nB = len(B)
    nrm = [[0.0, 0.0, 1.0]] * len(A) + [[0.0, 0.0, -1.0]] * nB
    role = ["S"] * len(A) + ["T"] * nB
    M = rng.choice(_signed_perms())
    shift = np.array([rng.randint(-8, 8) * scale for _ in range(3)])
    P = (np.array(pts) @ M.T) + shift
    Nn = np.array(nrm) @ M.T
    direction = rng.choice(["1to2", "2to1"])
    sl, tl = (1, 2) if direction == "1to2" else (2, 1)
    lab = [sl if ro == "S" else tl for ro in role]
    for i in range(len(lab)):
        if rng.random() < 0.04:
            lab[i] = rng.choice([0, 3])
    order = list(range(len(pts)))
    rng.shuffle(order)
    voxel = rng.choice([0.5, 1.0, 2.0, 0.25])
    # radius in lattice units: on a lattice distance (3-4-5), between, or generous
    rl = rng.choice([hz, hz + 0.5, 5.0 if hz in (3, 4) else hz + 1, math.sqrt(hz * hz + 1) + 0.25, hz + 2])
    r = float(np.float64(rl)) * scale
    r = round(r * 1024) / 1024  # dyadic
    deg = float(rng.choice([5, 10, 15, 20, 25, 30, 12.5, 28]))
    M2 = rng.choice(_signed_perms())
    case = dict(family="grid", shape="lattice", pts=(P[order] + 0.0).tolist(), nrm=(Nn[order] + 0.0).tolist(), lab=[lab[i] for i in order],
                voxel=float(voxel), maxnm=float(r * voxel), deg=deg, dir=direction,
                motion=dict(matrix=M2.tolist(), shift=[float(rng.randint(-16, 16)) * scale for _ in range(3)]),
                k=rng.choice([0.5, 2.0, 4.0]))
    return _clean(case, rng, exact=True)


def generate(rng, tier, n):
    for t in range(n):
        if tier == "search":
            lo, hi = 6, 40
        elif tier == "quick":
            lo, hi = (20, 600) if t % 10 == 0 else (20, 160)
        else:
            lo, hi = 20, 600
        if rng.random() < 0.25:
            yield _gen_grid(rng, lo, hi)
        else:
            yield _gen_sheets(rng, lo, hi)


def shrink(case):
    n = len(case["lab"])

    def keep(idx):
        c = dict(case)
        c["pts"] = [case["pts"][i] for i in idx]
        c["nrm"] = [case["nrm"][i] for i in idx]
        c["lab"] = [case["lab"][i] for i in idx]
        c.pop("meta", None)
        try:
            c["meta"] = _meta(c)
        except Exception:
            pass
        return c
    if n > 2:
        for parts in (2, 4, 8):
            size = max(1, n // parts)
            for s in range(0, n, size):
                idx = [i for i in range(n) if not (s <= i < s + size)]
                if 1 <= len(idx) < n:
                    yield keep(idx)
        if n <= 40:
            for i in range(n):
                yield keep([j for j in range(n) if j != i])
    for fld in ("motion", "k"):
        if case.get(fld) is not None:
            c = dict(case); c[fld] = None
            yield c


def sample_view(case):
    return dict(family=case["family"], shape=case.get("shape"), n_points=len(case["lab"]), labels={str(k): case["lab"].count(k) for k in (0, 1, 2, 3)},
                voxel=case["voxel"], maxnm=case["maxnm"], deg=case["deg"], dir=case["dir"], meta=case.get("meta"),
                first_points=[dict(p=case["pts"][i], n=case["nrm"][i], lab=case["lab"][i]) for i in range(min(3, len(case["lab"])))])


# ================================================================================ implementation adapter
_LOG = logging.getLogger("c20.null")
_LOG.addHandler(logging.NullHandler())
_LOG.propagate = False
_LOG.setLevel(logging.CRITICAL)


def _pairs(th, valid, pp):
    idx = np.where(valid)[0]
    return dict(pairs=[[int(s), int(pp[s])] for s in idx], th=[float(th[s]) for s in idx],
                clean=bool(np.all(th[~valid] == 0) and np.all(pp[~valid] == 0)), dtype=str(th.dtype), n=int(len(th)))


def _cpu(memthick, P, N, m1, m2, voxel, maxnm, deg, direction):
    th, valid, pp = memthick.measure_thickness_cpu(P, N, m1, m2, voxel, maxnm, deg, direction, logger=_LOG)
    return _pairs(th, valid, pp)


def run_impl(case):
    from cryocat import memthick
    P = np.ascontiguousarray(np.asarray(case["pts"], dtype=np.float64).reshape(-1, 3))
    N = np.ascontiguousarray(np.asarray(case["nrm"], dtype=np.float64).reshape(-1, 3))
    m1, m2 = _masks(case)
    voxel, maxnm, deg, direction = case["voxel"], case["maxnm"], case["deg"], case["dir"]
    obs = {"cpu": _cpu(memthick, P, N, m1, m2, voxel, maxnm, deg, direction)}
    # numba candidate kernel with the documented multiplier, then the GPU-path assignment loop
    sm, tm = (m2, m1) if direction == "2to1" else (m1, m2)
    n = len(P)
    md = np.zeros((n, CAP), dtype=np.float64)
    mi = np.zeros((n, CAP), dtype=np.int64)
    mc = np.zeros(n, dtype=np.int64)
    ti = np.where(tm)[0].astype(np.int64)
    memthick.find_matches_parallel(P, N, sm, tm, ti, maxnm / voxel, math.tan(math.radians(deg)) ** 2, md, mi, mc)
    cands = [[int(s), int(mi[s, j]), float(md[s, j])] for s in range(n) for j in range(int(mc[s]))]
    th, valid, pp = memthick.process_matches_gpu2cpu(md.ravel(), mi.ravel(), mc, n, CAP, voxel)
    obs["kernel"] = dict(cands=cands, counts_on_non_sources=int(mc[~sm].sum()), **_pairs(th, valid, pp))
    # the statement's invariances, observed on the real code
    mo = case.get("motion")
    if mo:
        R = np.asarray(mo["matrix"], dtype=float) if "matrix" in mo else _rot(mo["rotvec"])
        b = np.asarray(mo["shift"], dtype=float)
        obs["moved"] = _cpu(memthick, np.ascontiguousarray(P @ R.T + b), np.ascontiguousarray(N @ R.T), m1, m2, voxel, maxnm, deg, direction)
    if case.get("k"):
        k = case["k"]
        obs["rescaled"] = _cpu(memthick, P, N, m1, m2, voxel * k, maxnm * k, deg, direction)
    other = "1to2" if direction == "2to1" else "2to1"
    obs["swapped"] = _cpu(memthick, P, N, m2, m1, voxel, maxnm, deg, other)
    return obs


def requests(case, obs):
    P = np.asarray(case["pts"], dtype=float).reshape(-1, 3)
    N = np.asarray(case["nrm"], dtype=float).reshape(-1, 3)
    flat = [f2b(x) for row in np.hstack([P, N]).tolist() for x in row]
    m1, m2 = _masks(case)
    q = dict(op="all", pts=flat, m1=[int(x) for x in m1], m2=[int(x) for x in m2], voxel=f2b(case["voxel"]), maxnm=f2b(case["maxnm"]),
             deg=f2b(case["deg"]), rev=1 if case["dir"] == "2to1" else 0)
    if "error" not in obs:
        q["out"] = obs["cpu"]["pairs"]
        q["out_kernel"] = obs["kernel"]["pairs"]
    return [q]


# ================================================================================ judge
def _angle_deg(v, n):
    c = np.cross(v, n)
    return math.degrees(math.atan2(float(np.linalg.norm(c)), float(np.dot(v, n))))


def _direct(case, o, who):
    """independent evaluation of the per-pair clauses of the statement on an implementation output"""
    out = []
    P = np.asarray(case["pts"], dtype=float).reshape(-1, 3)
    N = np.asarray(case["nrm"], dtype=float).reshape(-1, 3)
    sm, tm = _src_tgt(case)
    seen_s, seen_t = set(), set()
    for (s, t), th in zip(o["pairs"], o["th"]):
        if not (0 <= s < len(P) and 0 <= t < len(P)) or not sm[s] or not tm[t]:
            out.append(dict(kind="spec", clause=f"{who}pair-not-source-to-target", detail=f"pair ({s},{t}) labels {case['lab'][s] if s < len(P) else '?'}/{case['lab'][t] if 0 <= t < len(P) else '?'} direction {case['dir']}"))
            continue
        if s in seen_s or t in seen_t:
            out.append(dict(kind="spec", clause=f"{who}not-one-to-one", detail=f"pair ({s},{t}) reuses a point"))
        seen_s.add(s); seen_t.add(t)
        v = P[t] - P[s]
        d = float(np.linalg.norm(v))
        nn = N[s] / np.linalg.norm(N[s])
        ang = _angle_deg(v, nn)
        if float(np.dot(v, nn)) <= 0:
            out.append(dict(kind="spec", clause=f"{who}pair-not-forward", detail=f"pair ({s},{t}): target lies {ang:.3f} degrees off the source normal (behind the source)"))
        elif ang > case["deg"] + ANGLE_EPS:
            out.append(dict(kind="spec", clause=f"{who}pair-outside-cone", detail=f"pair ({s},{t}): {ang:.4f} degrees off the normal, max_angle {case['deg']}"))
        if d * case["voxel"] > case["maxnm"] * (1 + 1e-9):
            out.append(dict(kind="spec", clause=f"{who}pair-beyond-max-thickness", detail=f"pair ({s},{t}): {d * case['voxel']:.6g} > {case['maxnm']:.6g}"))
        if abs(th - d * case["voxel"]) > TH_TOL * max(1.0, abs(d * case["voxel"])):
            out.append(dict(kind="spec", clause=f"{who}thickness-is-not-distance-times-voxel", detail=f"pair ({s},{t}): reported {th!r}, distance*voxel {d * case['voxel']!r}"))
    return out


def _same_pairs(a, b):
    return sorted(map(tuple, a["pairs"])) == sorted(map(tuple, b["pairs"]))


def judge(case, obs, resps):
    out = []
    if "error" in obs:
        return [dict(kind="spec", clause="raises", detail=obs["error"] + " @" + obs.get("where", ""))]
    R = resps[0]
    if "error" in R:
        return [dict(kind="corr", clause="model-rejects", detail=str(R))]
    cpu, ker = obs["cpu"], obs["kernel"]
    # ---- verified checker on the real outputs (Props/C20.check_sound) --------------------------------
    # A target exactly on the search radius may be kept (closed KD-tree ball) or dropped (`dist < r` in the kernels): the statement
    # ("does not exceed") does not decide it, so a clause counts as violated only if the output fails under both readings.
    for who, key in (("", "check"), ("kernel:", "check_kernel")):
        c, alt = R.get(key), R.get(key + "_alt")
        if c is None or alt is None:
            out.append(dict(kind="corr", clause=who + "checker-did-not-run", detail="")); continue
        if c["ok"]:
            continue
        if alt["ok"]:
            out.append(dict(kind="corr", clause=who + "radius-boundary-convention-differs-from-model",
                            detail=f"output satisfies the statement only with the other reading of a target exactly on the radius: {c}"))
            continue
        if not c["admissible"]:
            dg = c.get("diag") or {}
            if dg.get("not_source_or_not_target"):
                cl = "pair-not-source-to-target"
            elif dg.get("in_ball") is False:
                cl = "pair-beyond-max-thickness"
            elif dg.get("forward") is False:
                cl = "pair-not-forward"
            else:
                cl = "pair-outside-cone"
            detail = {k: (b2f(v) if k in ("dist", "proj", "lat2", "rhs") else v) for k, v in dg.items()}
            out.append(dict(kind="spec", clause=who + cl, detail=f"verified checker: reported pair is not admissible: {detail}"))
        if not c["one_to_one"]:
            out.append(dict(kind="spec", clause=who + "not-one-to-one", detail="verified checker: a source or a target occurs in two pairs"))
        if not c["greedy"]:
            out.append(dict(kind="spec", clause=who + "not-greedy-by-distance", detail="verified checker: an admissible pair shares neither point with a reported pair that is not farther "
                            "(an admissible pair of unmatched points is left over, or a matched source/target had a closer admissible partner)"))
    # ---- independent evaluation of the per-pair clauses ----------------------------------------------
    out += _direct(case, cpu, "")
    out += _direct(case, ker, "kernel:")
    # ---- invariances of the statement, on the real code -----------------------------------------------
    if "moved" in obs:
        mv = obs["moved"]
        if not _same_pairs(cpu, mv):
            out.append(dict(kind="spec", clause="rigid-motion-changes-pairing", detail=f"{len(cpu['pairs'])} pairs before, {len(mv['pairs'])} after; first difference "
                            f"{sorted(set(map(tuple, cpu['pairs'])) ^ set(map(tuple, mv['pairs'])))[:3]}"))
        else:
            a = dict(zip(map(tuple, cpu["pairs"]), cpu["th"])); b = dict(zip(map(tuple, mv["pairs"]), mv["th"]))
            dev = max([abs(a[k] - b[k]) / max(1.0, abs(a[k])) for k in a] or [0.0])
            if dev > TH_TOL:
                out.append(dict(kind="spec", clause="rigid-motion-changes-thickness", detail=f"relative deviation {dev:.3g}"))
    if "rescaled" in obs:
        rs = obs["rescaled"]
        if not _same_pairs(cpu, rs):
            out.append(dict(kind="spec", clause="voxel-rescaling-changes-pairing", detail=f"k={case['k']}: {len(cpu['pairs'])} pairs vs {len(rs['pairs'])}"))
        else:
            a = dict(zip(map(tuple, cpu["pairs"]), cpu["th"])); b = dict(zip(map(tuple, rs["pairs"]), rs["th"]))
            dev = max([abs(a[k] * case["k"] - b[k]) / max(1.0, abs(b[k])) for k in a] or [0.0])
            if dev > TH_TOL:
                out.append(dict(kind="spec", clause="thickness-does-not-scale-with-voxel", detail=f"k={case['k']}: relative deviation {dev:.3g}"))
    sw = obs["swapped"]
    if sw["pairs"] != cpu["pairs"] or sw["th"] != cpu["th"]:
        out.append(dict(kind="spec", clause="direction-does-not-swap-roles", detail=f"direction {case['dir']} on (m1,m2) differs from the other direction on (m2,m1)"))
    # ---- correspondence with the Lean model ----------------------------------------------------------
    for who, o, key in (("cpu", cpu, "pairs"), ("kernel", ker, "pairs_strict")):
        mp = sorted((s, t) for s, t, _, _ in R[key])
        ip = sorted(map(tuple, o["pairs"]))
        if mp != ip:
            diff = sorted(set(mp) ^ set(ip))[:4]
            out.append(dict(kind="corr", clause=f"{who}-pairs-vs-model", detail=f"model {len(mp)} pairs, implementation {len(ip)}; symmetric difference starts {diff}"))
        else:
            mt = {(s, t): b2f(tb) for s, t, _, tb in R[key]}
            dev = max([abs(mt[tuple(p)] - th) / max(1.0, abs(mt[tuple(p)])) for p, th in zip(o["pairs"], o["th"])] or [0.0])
            if dev > TH_TOL:
                out.append(dict(kind="corr", clause=f"{who}-thickness-vs-model", detail=f"relative deviation {dev:.3g}"))
        if not o["clean"] or o["dtype"] != "float32" or o["n"] != len(case["lab"]):
            out.append(dict(kind="corr", clause=f"{who}-output-shape", detail=f"clean={o['clean']} dtype={o['dtype']} n={o['n']}"))
    mc = sorted((s, t) for s, t, _ in R["cands_strict"])
    kc = sorted((s, t) for s, t, _ in ker["cands"])
    if mc != kc:
        out.append(dict(kind="corr", clause="kernel-candidates-vs-model", detail=f"model {len(mc)}, numba kernel {len(kc)}; symmetric difference starts {sorted(set(mc) ^ set(kc))[:4]}"))
    else:
        md = {(s, t): b2f(db) for s, t, db in R["cands_strict"]}
        dev = max([abs(md[(s, t)] - d) / max(1.0, d) for s, t, d in ker["cands"]] or [0.0])
        if dev > 1e-12:
            out.append(dict(kind="corr", clause="kernel-distances-vs-model", detail=f"relative deviation {dev:.3g}"))
    if ker["counts_on_non_sources"]:
        out.append(dict(kind="corr", clause="kernel-writes-non-source-rows", detail=str(ker["counts_on_non_sources"])))
    return out


def nontrivial(case, obs):
    if "error" in obs:
        return False
    m = case.get("meta") or {}
    npairs = len(obs["cpu"]["pairs"])
    return m.get("n_adm", 0) >= 2 and npairs >= 1 and m.get("n_adm", 0) > npairs and m.get("between_cone_and_45", 0) >= 1


def _bucket(x, edges):
    for e in edges:
        if x <= e:
            return f"<={e}"
    return f">{edges[-1]}"


def stats(case, obs, resps):
    m = case.get("meta") or {}
    R = resps[0] if resps else {}
    st = {"family": case["family"] + "/" + str(case.get("shape")), "n_points": _bucket(len(case["lab"]), [10, 20, 50, 100, 200, 400, 600]),
          "max_angle_deg": _bucket(case["deg"], [2, 5, 10, 20, 30]), "direction": case["dir"],
          "labels_both_or_none": _bucket(sum(1 for l in case["lab"] if l in (0, 3)), [0, 2, 10, 50]),
          "admissible_pairs": _bucket(m.get("n_adm", 0), [0, 1, 5, 20, 100, 500]),
          "max_candidates_per_source": _bucket(m.get("max_per_source", 0), [0, 1, 2, 5, 10, 24]),
          "sources_with_choice": _bucket(m.get("src_with_choice", 0), [0, 1, 5, 20]),
          "contested_targets": _bucket(m.get("tgt_contested", 0), [0, 1, 5, 20]),
          "targets_between_cone_and_45deg": _bucket(m.get("between_cone_and_45", 0), [0, 1, 5, 20, 100]),
          "targets_in_cone_beyond_radius": _bucket(m.get("beyond_radius_in_cone", 0), [0, 1, 5, 20]),
          "targets_behind_source": _bucket(m.get("behind", 0), [0, 1, 5, 20]),
          "targets_exactly_on_radius": _bucket(m.get("on_radius", 0), [0, 1, 5])}
    if "error" in obs:
        st["impl"] = "raised"
        return st
    npairs = len(obs["cpu"]["pairs"])
    st["pairs_assigned"] = _bucket(npairs, [0, 1, 5, 20, 100, 300])
    st["candidates_refused_by_one_to_one"] = _bucket(max(0, m.get("n_adm", 0) - npairs), [0, 1, 5, 20, 100])
    if R and "error" not in R:
        st["model_branch"] = ["pairs" if R["pairs"] else "no-pairs"] + (["strict-differs"] if [p[:2] for p in R["pairs"]] != [p[:2] for p in R["pairs_strict"]] else [])
        st["checker_cpu"] = "accept" if R.get("check", {}).get("ok") else "reject"
        st["checker_kernel"] = "accept" if R.get("check_kernel", {}).get("ok") else "reject"
        mt = {(s, t): b2f(tb) for s, t, _, tb in R["pairs"]}
        devs = [abs(mt[tuple(p)] - th) / max(1.0, abs(th)) for p, th in zip(obs["cpu"]["pairs"], obs["cpu"]["th"]) if tuple(p) in mt]
        st["max_rel_thickness_deviation"] = _bucket(max(devs or [0.0]), [0, 1e-8, 1e-7, 1e-6])
        tn = math.tan(math.radians(case["deg"]))
        st["tan_deviation_ulps"] = _bucket(abs(b2f(R["tan"]) - tn) / (abs(tn) * 2.2e-16), [0, 1, 2, 4])
    return st


def classify(case, obs, finding):
    return None


def probes(rng):
    out = []
    # KD-tree closed ball = brute force (including points exactly on the radius)
    try:
        from scipy.spatial import KDTree
        ok, detail = True, ""
        for _ in range(20):
            n = rng.randint(5, 200)
            pts = np.array([[rng.randint(0, 12) * 0.5 for _ in range(3)] for _ in range(n)])
            q = np.array([[rng.randint(0, 12) * 0.5 for _ in range(3)] for _ in range(10)])
            r = rng.choice([1.0, 1.5, 2.5, 3.0, 0.5 * math.sqrt(2) * 2])
            got = KDTree(pts).query_ball_point(q, r)
            for qi, g in zip(q, got):
                d = np.sqrt(((pts - qi) ** 2).sum(1))
                exp = set(np.where(d <= r)[0].tolist())
                if set(g) != exp:
                    ok, detail = False, f"r={r}: {sorted(set(g) ^ exp)[:5]}"
        out.append(dict(name="scipy-KDTree-query_ball_point=closed-ball-brute-force", ok=ok, detail=detail))
    except Exception as e:
        out.append(dict(name="scipy-KDTree-query_ball_point=closed-ball-brute-force", ok=False, detail=f"{type(e).__name__}: {e}"))
    # float32 product semantics of `thickness_results * voxel_size`
    a = (np.array([3.3, 7.123456789], dtype=np.float32) * 1.37)
    out.append(dict(name="numpy-float32-array-times-python-float-stays-float32", ok=(a.dtype == np.float32), detail=str(a.dtype)))
    # libm tan: Lean driver vs numpy
    try:
        degs = [1.0, 5.0, 12.5, 30.0] + [rng.uniform(1, 30) for _ in range(6)]
        base = dict(prop=PROP, op="all", pts=[], m1=[], m2=[], voxel=f2b(1.0), maxnm=f2b(1.0), rev=0)
        rs = core.run_driver([dict(base, deg=f2b(d)) for d in degs])
        worst = max(abs(b2f(r["tan"]) - float(np.tan(np.radians(d)))) / (float(np.tan(np.radians(d))) * 2.2e-16) for r, d in zip(rs, degs))
        out.append(dict(name="tan(radians(deg)):Lean-Float=numpy-within-4-ulp", ok=worst <= 4, detail=f"worst {worst:.2f} ulp"))
    except Exception as e:
        out.append(dict(name="tan(radians(deg)):Lean-Float=numpy-within-4-ulp", ok=False, detail=f"{type(e).__name__}: {e}"))
    return out


LEVEL_TEXT = ("Lean 4 theorems about an executable model of measure_thickness_cpu + process_matches_cpu2cpu (and of the numba/CUDA candidate test followed by "
              "process_matches_gpu2cpu), for every point set, labelling, voxel size, maximum thickness, cone half-angle and direction, over any linearly ordered "
              "field: model_spec (every pair admissible; one-to-one; greedy by increasing distance), model_lex (Python tuple tie-break), check_sound (verified checker "
              "run on every real output), no_leftover, no_closer, at_most_one, within_range_and_forward, in_cone / cone_iff (the test with multiplier tan^2 is exactly "
              "the cone of half-angle max_angle for unit normals), measure_move (rigid motion), measure_rescale (voxel size), direction_swap, cone_counterexample "
              "(regression witness of D17). Tied to the source by translator theorems (the three admissibility sites CPU/numba/CUDA are syntactically identical after "
              "inlining and evaluate to the model's d2/proj/lat2 over every commutative ring; operators; multiplier tan(radians(deg))**2 on both paths; sort/assignment "
              "loop shape) and by a differential run of the real CPU path and the real numba kernel against the model at Float")
LEVEL_NOTE = ("proved: all clauses for the model and for every implementation output accepted by the verified checker, in exact arithmetic with an abstract square root and an "
              "abstract angle (cos, tan with cos^2(1+tan^2)=1). Validated only: floating point, libm tan/sqrt, the KD-tree ball query, numba scheduling, float32 rounding of the "
              "thickness (tolerance 1e-6); the CUDA kernel is tied by the translator only (never executed); the 25-candidate cap is outside the quantifier and not modelled")
TECHNIQUE = "Lean 4 proof (greedy-fold invariant over a sorted list, ring identities for rigid motions and the cone, verified checker) + regenerated expression trees + differential correspondence with margins"
DESIGN_REF = "DESIGN.md section 4, C20; Appendix A.1"
