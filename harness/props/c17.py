"""C17 — tilt-series metadata: mdoc round trip, loaders, wedge lists (DESIGN.md section 4, C17)."""
import os, ast, math, tempfile, re
from fractions import Fraction
import core

PROP = "C17"
COUNT = {"quick": 240, "thorough": 3000, "search": 900}
PARALLEL = True
RULE = ("four case kinds from one PRNG. mdoc (44%): texts from a grammar - header entries (int / float / negative / text values), 0..3 "
        "titles, ZValue (10% FrameSet) sections with 1..80 images, per image a TiltAngle (distinct, negative and positive, 0..4 decimals; in 12% of the texts also "
        "'+5', '1e-3', '0.00001' spellings that float() reads), "
        "ExposureDose, PriorRecordDose and 0..6 further keys with int / float (<=15 significant digits, leading/trailing zeros, '.5', '5.') / "
        "negative / exponent-form / multi-word text values, random blanks around '=' and at line ends; then an op sequence of sort_by_tilt (reset_z_value both ways, "
        "also on FrameSet mdocs, where it renumbers the FrameSet values since fix 6061ac6) and "
        "remove_images (any index subset incl. negative indices, kept_only both ways), write(removed both ways), re-read; keywords OMITTED in ~40% of the calls whose "
        "value is the documented default; 6% malformed texts the "
        "reader must refuse; 10% texts of the shapes the strict model does not describe: duplicate header keys and float() tilt spellings are FOLLOWED by the extended "
        "model parseMdocX; sections with different key sets (pandas fills NaN, written as 'key = nan', re-read as text), a '[' line or a repeated key inside a section, "
        "section values only int() accepts ('+3', '1_0'), TiltAngle nan / inf / with '_' are NAMED CLASSES OUTSIDE THE QUANTIFIER (model answer whyNone): the judge compares "
        "nothing there and counts the case under mdoc_outside_class - it never reports agreement. "
        "g2 (10%): cross-call state - ONE integer ndarray (or list) of image numbers applied through mdoc.remove_images to 2..3 mdocs (array compared before / after "
        "every call, every call judged like a first one); ONE path read, edited in place, read again unchanged, rewritten (also with the same byte length), read a third time. "
        "loaders (24%): tilt / dose files with 1..80 values, gctf STAR (with / without rlnPhaseShift, the rln columns in canonical, alphabetical, angle-first, "
        "phase-before-V, V-before-U, reversed and shuffled FILE order) and ctffind4 text with "
        "1..80 rows; input dispatch of tlt_load / total_dose_load (ndarray, list, path with .tlt / .rawtlt / .txt / .csv / no extension / "
        ".mdoc, empty array / list / file, sort_angles both ways) and of defocus_load (DataFrame, Nx5 / Nx4 array, path with file_type in any case or omitted, unknown type); "
        "dtype / element type of every result recorded, caller-owned inputs compared before / after. wedge (22%): 1..5 tomograms, per-tomogram dimensions and z-shifts "
        "(tables in another row order than the tomogram list, with rows of further tomograms), 1..80 tilts in ascending or acquisition (unsorted, 35%) FILE order, optional ctf (gctf / ctffind4 / "
        "array) and dose (file / array / mdoc) inputs, file and array inputs, voltage / amp_contrast / cs / z_shift / ctf_file_type omitted in ~30% (documented defaults), "
        "10% with a tomogram listed twice (interleaved), STAR output re-read and compared "
        "with the model's table (columns, cells), EM list, sg->em conversion; create_wedge_list_sg called twice with the same arrays. "
        "ROUND 5: equal tilt angles are generated deliberately (12% of the mdoc texts: plain repeats and other spellings of the same number, -0 / 0; "
        "plus corpus cases) with a sort followed by index-addressed removals - every ascending arrangement of a tie group is accepted (judge by "
        "content, step by step on the recorded tables; the model is told the arrangement and checks it with arrangeOk); non-ASCII text values and "
        "titles; write() with out_path omitted; sections with the same keys in another order (inside, followed by parseMdocX) and with different key "
        "sets (statement evaluated on the implementation alone); per-tomogram dimension / z-shift FILES (tomo_dim_file_format, z_shift_file_format); "
        "create_wedge_list_sg(output_file=...) re-read; wedge_list_sg_to_em(write_out=False); total_dose_load of an mdoc without PriorRecordDose. "
        "Numbers of text files go to the model as TOKENS (parseDecimal); the loaders' numbers are compared EXACTLY with the nearest float32 / float64. "
        "non-trivial = mdoc with >=3 images, >=1 negative tilt, >=1 float and >=1 text cell and >=1 removed image; g2 with a removal in every call; loaders with >=3 rows; wedge "
        "with >=2 tomograms of different lengths; distinct = distinct case content")
ASSUMPTIONS = ["Python float(s) followed by str() of a decimal with <= 15 significant digits prints the canonical decimal (plain form for 1e-4 <= x < 1e16, "
               "exponent form otherwise) - probed on every run (probe py-float-repr)",
               "numpy float64 str() = Python float repr (TiltAngle column) - probed (probe np-float64-str)",
               "DataFrame.sort_values returns SOME ascending arrangement (quicksort: no promise inside a group of equal keys). Nothing is assumed about ties: the "
               "judge accepts every ascending permutation, the model is given the arrangement chosen and verifies it (arrangeOk; theorems sort_as_spec, "
               "sorted_perm_unique_up_to_ties); without ties the model sorts on its own",
               "pandas.read_csv / numpy parse a decimal of <= 15 significant digits and magnitude < 1e30 to the correctly rounded double and cast to float32 by rounding "
               "to nearest (no double-rounding case among decimals of <= 12 digits): the loaders' numbers are compared EXACTLY with `_nearest` (probe nearest-float); "
               "computed numbers (Angstrom->micron, mean, prior + exposure, STAR re-reads) within RELATIVE bounds derived from the number of roundings (F32, F64, STAR)",
               "mdoc sections carry distinct keys, no '[' line inside a section, section values and TiltAngle in decimal / exponent spelling, floats of <= 15 significant "
               "digits: the complement is named (whyNone / long_float). Sections with DIFFERENT KEY SETS and floats of > 15 digits are not described by the model: the "
               "statement is evaluated on the implementation alone (spec clauses; no model comparison); the other classes are outside the quantifier, skipped and counted",
               "the STAR layer round-trips well-formed tables (property C02): hypothesis StarRoundTrip of wedge_via_file / sg_to_em_via_file; the real file is "
               "re-read on every wedge case and compared with the model's table (columns exactly, cells within 1e-5)",
               "WARP xml and csv inputs of the loaders are outside the model (the dispatch to them is modelled, their readers are not; the whole bodies of tlt_load, "
               "total_dose_load, defocus_load, indices_load are pinned by normalised dumps: body_digests_documented)"]
TRUSTED = ["harness line splitting of mdoc text (str.split('\\n')) and the canonicalisation of pandas cells in props/c17.py",
           "Starfile.read/write (property C02) when a wedge list goes through a STAR file"]

WEDGE_COLS = ["tomo_num", "pixelsize", "tomo_x", "tomo_y", "tomo_z", "z_shift", "tilt_angle", "defocus", "exposure", "voltage", "amp_contrast", "cs"]


# ------------------------------------------------------------------ translator
def _chars(s):
    def one(c):
        if c == "'":
            return "'\\''"
        if c == "\\":
            return "'\\\\'"
        if c == "\n":
            return "'\\n'"
        return "'" + c + "'"
    return "[" + ", ".join(one(c) for c in s) + "]"


def _consts_in(node):
    return [n.value for n in ast.walk(node) if isinstance(n, ast.Constant)]


# ---- rename-insensitive views of a function (G5) ----------------------------------------------------------------------
def _params_of(fn):
    params = {a.arg for a in fn.args.args + fn.args.kwonlyargs + fn.args.posonlyargs}
    if fn.args.vararg:
        params.add(fn.args.vararg.arg)
    if fn.args.kwarg:
        params.add(fn.args.kwarg.arg)
    return params


def _locals_of(fn):
    """names bound inside the function (assignment / for / with / comprehension targets), in order of their first BINDING occurrence;
    parameters are API and keep their names. A name that is only ever bound and never read is a discard (`_`, `unused`, `_idx` …): every such
    occurrence is renamed to `_`, whatever it is called and however many different discards there are (H2)"""
    params = _params_of(fn)
    order, loaded = [], set()

    class V(ast.NodeVisitor):
        def visit_Name(self, n):
            if isinstance(n.ctx, ast.Store) and n.id not in params and n.id not in order:
                order.append(n.id)
            elif isinstance(n.ctx, (ast.Load, ast.Del)):
                loaded.add(n.id)

        def visit_FunctionDef(self, n):
            if n is fn:
                self.generic_visit(n)
            else:
                for m in ast.walk(n):                   # a nested function may read the local (closure)
                    if isinstance(m, ast.Name) and isinstance(m.ctx, ast.Load):
                        loaded.add(m.id)
    V().visit(fn)
    return order, loaded


_MESSAGE_CALLS = ("warnings.warn", "print", "logging.info", "logging.warning", "logging.error", "logging.debug", "logger.info", "logger.warning",
                  "logger.error", "logger.debug")


def _normalised(fn):
    """a copy of the function in which everything a HARMLESS edit may touch is erased (H1, H2): type annotations (argument, return, `x: T = v`
    becomes `x = v`), docstrings, the text of exception / warning / log messages (`raise E("…")` becomes `raise E`, the arguments of
    warnings.warn / print / logging calls are dropped), and the names of locals (v0, v1, … by first binding occurrence; discards `_`)"""
    import copy
    fn2 = copy.deepcopy(fn)
    order, loaded = _locals_of(fn2)
    names, k = {}, 0
    for n in order:
        if n in loaded:
            names[n] = f"v{k}"
            k += 1
        else:
            names[n] = "_"

    class R(ast.NodeTransformer):
        def visit_Name(self, n):
            if n.id in names:
                return ast.copy_location(ast.Name(id=names[n.id], ctx=n.ctx), n)
            return n

        def visit_arg(self, n):
            n.annotation = None
            return n

        def visit_AnnAssign(self, n):
            self.generic_visit(n)
            if n.value is None:
                return None
            return ast.copy_location(ast.Assign(targets=[n.target], value=n.value, lineno=n.lineno), n)

        def visit_Raise(self, n):
            self.generic_visit(n)
            if isinstance(n.exc, ast.Call):
                n.exc = n.exc.func              # the exception TYPE stays, the message goes
            return n

        def visit_Call(self, n):
            self.generic_visit(n)
            if ast.unparse(n.func) in _MESSAGE_CALLS:
                n.args, n.keywords = [], []
            return n

        def visit_FunctionDef(self, n):
            self.generic_visit(n)
            n.returns = None
            if n.body and isinstance(n.body[0], ast.Expr) and isinstance(n.body[0].value, ast.Constant) and isinstance(n.body[0].value.value, str):
                n.body = n.body[1:] or [ast.Pass()]
            return n
    fn2 = R().visit(fn2)
    ast.fix_missing_locations(fn2)
    return fn2


def _alpha(fn):
    """normalised text of the function body (see `_normalised`): a rename of a local, a type hint, a reworded message or docstring leaves the
    text unchanged; any added / removed / edited statement changes it"""
    return "\n".join(ast.unparse(st) for st in _normalised(fn).body)


def _digest(fn):
    import hashlib
    fn2 = _normalised(fn)
    sig = ast.unparse(fn2.args)
    return hashlib.sha1((sig + "\n" + "\n".join(ast.unparse(st) for st in fn2.body)).encode()).hexdigest()[:16]


def _inline_assignments(fn):
    """[(target text, value text)] for every assignment of the function, in source order, where every local variable that was assigned
    ONCE by a plain `name = expr` before is replaced by that expression (recursively): the result names only parameters, attributes
    and calls, never a local — so it does not depend on how locals are called"""
    import copy
    counts = {}
    for n in ast.walk(fn):
        if isinstance(n, (ast.Assign, ast.AugAssign, ast.AnnAssign, ast.For, ast.With, ast.comprehension)):
            tg = n.targets if isinstance(n, ast.Assign) else ([n.target] if hasattr(n, "target") else [])
            for t in tg:
                for m in ast.walk(t):
                    if isinstance(m, ast.Name) and isinstance(m.ctx, ast.Store):
                        counts[m.id] = counts.get(m.id, 0) + 1
    env = {}

    class S(ast.NodeTransformer):
        def visit_Name(self, n):
            if isinstance(n.ctx, ast.Load) and n.id in env:
                return copy.deepcopy(env[n.id])
            return n

    def subst(e):
        return S().visit(copy.deepcopy(e))
    out = []

    def walk(stmts):
        for st in stmts:
            if isinstance(st, ast.AnnAssign) and st.value is not None:          # `x: T = v` is `x = v` (H1)
                st = ast.copy_location(ast.Assign(targets=[st.target], value=st.value), st)
            if isinstance(st, ast.Assign) and len(st.targets) == 1:
                val = subst(st.value)
                t = st.targets[0]
                if isinstance(t, ast.Name):
                    out.append((t.id, core.norm_expr(val)))
                    if counts.get(t.id, 0) == 1 or t.id in {a.arg for a in fn.args.args}:
                        env[t.id] = val
                    else:
                        env.pop(t.id, None)
                else:
                    base = t
                    while isinstance(base, (ast.Subscript, ast.Attribute)):
                        base = base.value
                    key = core.norm_expr(t.slice) if isinstance(t, ast.Subscript) else ast.unparse(t)
                    out.append(((base.id if isinstance(base, ast.Name) else "?") + "[" + key + "]", core.norm_expr(val)))
            for fld in ("body", "orelse"):
                if hasattr(st, fld) and isinstance(getattr(st, fld), list) and not isinstance(st, (ast.FunctionDef, ast.ClassDef)):
                    walk(getattr(st, fld))
    walk(fn.body)
    return out


# the DOCUMENTED values: what the model falls back to when an anchor is missing (never a value that silently changes the model)
DOC = dict(prefixes=[("[ZValue", "ZValue"), ("[FrameSet", "FrameSet")], kv=["", " = ", "\n"], sec=["[", " = ", "]\n"], tit=["[", "]\n"],
           sort=["TiltAngle", True], tilt="TiltAngle", removed="Removed", dose=["ExposureDose", "PriorRecordDose", True],
           factor="0.0001", divisor="2.0", wedge_cols=["tomo_num", "pixelsize", "tomo_x", "tomo_y", "tomo_z", "z_shift", "tilt_angle", "defocus",
                                                           "exposure", "voltage", "amp_contrast", "cs"],
           em_cols=["tomo_num", "min_angle", "max_angle"], star=["data_stopgap_wedgelist", False],
           s2e=["tomo_num", "tilt_angle", "min", "max"],
           tlt=dict(types=["np.ndarray", "list", "str"], table=[[".mdoc", "mdoc.Mdoc"], [".xml", "get_data_from_warp_xml"]], default="one_value_per_line_read",
                    returns=[["np.ndarray", "input_tlt"], ["list", "np.asarray(input_tlt)"]], sort_files_only=True),
           dosel=dict(types=["np.ndarray", "(list, tuple)", "str"], table=[[".csv", "pd.read_csv"], [".mdoc", "mdoc.Mdoc"], [".xml", "get_data_from_warp_xml"]],
                      default="one_value_per_line_read", returns=[["np.ndarray", "input_dose"], ["(list, tuple)", "np.asarray(input_dose)"]]),
           defocus=dict(types=["pd.DataFrame", "str"], table=[["gctf", "gctf_read"], ["ctffind4", "ctffind4_read"], ["warp", "warp_ctf_read"]], lowers=True,
                        array_columns=["defocus1", "defocus2", "astigmatism", "phase_shift", "defocus_mean"]),
           wedge_assign=sorted([["tilt_angle", "ioutils.tlt_load(tlt_file)"],
                         ["defocus", "ioutils.defocus_load(ctf_file,ctf_file_type)['defocus_mean'].values"],
                         ["exposure", "ioutils.total_dose_load(dose_file)"], ["tomo_num", "tomo_id"], ["pixelsize", "pixel_size"],
                         ["['tomo_x','tomo_y','tomo_z']", "np.repeat(ioutils.dimensions_load(tomo_dim).values,ioutils.tlt_load(tlt_file).shape[0],axis=0)"],
                         ["z_shift", "ioutils.z_shift_load(z_shift).values[0][0]"], ["voltage", "voltage"], ["amp_contrast", "amp_contrast"], ["cs", "cs"]]),
           gctf=dict(columns=["rlnDefocusU", "rlnDefocusV", "rlnDefocusAngle", "rlnPhaseShift"], phase="rlnPhaseShift", lo=0, hi=2),
           dtype="np.float32", reset=["ZValue", True], indices=[True, True],
           defaults=dict(write_removed=False, write_overwrite=False, remove_kept_only=True, sort_reset=False, mdoc_section_id="ZValue",
                         script_from1=True, defocus_file_type="gctf", sg_z_shift="0.0", sg_ctf_type="gctf", sg_voltage="300.0", sg_amp="0.07", sg_cs="2.7",
                         batch_z_shift="0.0", batch_ctf_type="gctf", batch_voltage="300.0", batch_amp="0.07", batch_cs="2.7", sg_drop_nan=True))
# functions of which (also) branches run that the correspondence run never executes (.xml / .csv / warp / DateTime paths, csv / text
# index files) or whose whole body is short enough to be pinned: a normalised dump of the whole body is anchored (G5)
DIGEST_FUNCS = [("cryocat/ioutils.py", "tlt_load"), ("cryocat/ioutils.py", "total_dose_load"), ("cryocat/ioutils.py", "defocus_load"),
                ("cryocat/ioutils.py", "indices_load"), ("cryocat/ioutils.py", "one_value_per_line_read"),
                ("cryocat/mdoc.py", "Mdoc.__init__"), ("cryocat/mdoc.py", "Mdoc.remove_image"), ("cryocat/mdoc.py", "Mdoc.remove_images"),
                ("cryocat/mdoc.py", "Mdoc.kept_images"), ("cryocat/mdoc.py", "Mdoc.removed_images"), ("cryocat/mdoc.py", "Mdoc.get_image_feature"),
                ("cryocat/mdoc.py", "remove_images"), ("cryocat/mdoc.py", "sort_mdoc_by_tilt_angles"), ("cryocat/mdoc.py", "get_tilt_angles"),
                ("cryocat/ioutils.py", "dimensions_load"), ("cryocat/ioutils.py", "z_shift_load"), ("cryocat/ioutils.py", "imod_com_read"),
                ("cryocat/wedgeutils.py", "check_data_consistency"), ("cryocat/wedgeutils.py", "load_wedge_list_sg")]


def _strip_annotations(fn):
    """a copy of the function without type annotations: `x: T = v` becomes `x = v`, `x: T` disappears, argument and return annotations are
    dropped (H1: adding a type hint is a harmless edit and must not move any anchor)"""
    import copy

    class R(ast.NodeTransformer):
        def visit_arg(self, n):
            n.annotation = None
            return n

        def visit_AnnAssign(self, n):
            self.generic_visit(n)
            if n.value is None:
                return None
            return ast.copy_location(ast.Assign(targets=[n.target], value=n.value, lineno=n.lineno), n)

        def visit_FunctionDef(self, n):
            self.generic_visit(n)
            n.returns = None
            return n
    out = R().visit(copy.deepcopy(fn))
    ast.fix_missing_locations(out)
    return out


def translate(src):
    M, I, W = "cryocat/mdoc.py", "cryocat/ioutils.py", "cryocat/wedgeutils.py"

    def find(rel, q):
        return _strip_annotations(src.find(rel, q))

    def prefixes():
        fn = find(M, "Mdoc._read_mdoc")
        out = []
        for n in ast.walk(fn):
            if isinstance(n, ast.If) and isinstance(n.test, ast.Call) and ast.unparse(n.test.func) == "line.startswith":
                pre = n.test.args[0].value
                sid = [a.value.value for a in n.body if isinstance(a, ast.Assign) and ast.unparse(a.targets[0]) == "section_id"]
                if len(sid) == 1:
                    out.append((pre, sid[0]))
        # ast.walk is breadth first; if/elif nest, so source order = nesting order
        if not out:
            raise core.AnchorMissing("line.startswith('[ZValue') / '[FrameSet'")
        return out
    pre = src.anchor("Mdoc._read_mdoc:section prefixes", prefixes) or DOC["prefixes"]

    def write_formats():
        fn = find(M, "Mdoc.write")
        in_raise = {id(c) for r in ast.walk(fn) if isinstance(r, ast.Raise) for c in ast.walk(r)}        # message texts are not formats (H1)
        return [n.value for n in ast.walk(fn) if isinstance(n, ast.Constant) and id(n) not in in_raise and isinstance(n.value, str) and "{}" in n.value]
    fmts = src.anchor("Mdoc.write:format strings", write_formats) or []

    def fmt_parts(pred, n):
        for f in fmts:
            parts = f.split("{}")
            if len(parts) == n + 1 and pred(parts):
                return parts
        raise core.AnchorMissing("format string")
    kv = src.anchor("Mdoc.write:'{} = {}\\n'", lambda: fmt_parts(lambda p: p[0] == "" and p[-1] == "\n", 2)) or DOC["kv"]
    sec = src.anchor("Mdoc.write:'[{} = {}]\\n'", lambda: fmt_parts(lambda p: p[0] != "" and p[-1].endswith("\n"), 2)) or DOC["sec"]
    tit = src.anchor("Mdoc.write:'[{}]\\n'", lambda: fmt_parts(lambda p: p[-1].endswith("\n"), 1)) or DOC["tit"]

    def write_cond():
        fn = find(M, "Mdoc.write")
        for n in ast.walk(fn):
            if isinstance(n, ast.If) and "Removed" in ast.unparse(n.test):
                import copy
                test = copy.deepcopy(n.test)
                for m in ast.walk(test):        # the loop variable may have any name
                    if isinstance(m, ast.Subscript) and isinstance(m.slice, ast.Constant) and m.slice.value == "Removed" and isinstance(m.value, ast.Name):
                        m.value.id = "ROW"
                t = core.norm_expr(test).replace('(', '').replace(')', '')
                if t in ("removedornotremovedandnotROW['Removed']", "removedornotROW['Removed']"):
                    return True
                if t in ("removedornotremovedandROW['Removed']", "removedorROW['Removed']"):
                    return False
                raise core.AnchorMissing("write condition rewritten: " + ast.unparse(n.test))
        raise core.AnchorMissing("write condition on row['Removed']")
    wc = src.anchor("Mdoc.write:row filter", write_cond)
    if wc is None:
        wc = True

    def write_skips_nan():
        """fix C17-fix-1: inside the column loop of `write`, a NaN cell (an image whose section lacked the key) is skipped:
        `if pd.isna(row[column]): continue` directly before the line is written"""
        fn = find(M, "Mdoc.write")
        for n in ast.walk(fn):
            if isinstance(n, ast.If) and len(n.body) >= 2 and isinstance(n.body[0], ast.If) and not n.orelse:
                g = n.body[0]
                if re.fullmatch(r"pd\.isna\((\w+)\[(\w+)\]\)", core.norm_expr(g.test)) and len(g.body) == 1 and isinstance(g.body[0], ast.Continue) and not g.orelse \
                        and any(isinstance(c, ast.Call) and ast.unparse(c.func).endswith(".write") for c in ast.walk(n.body[1])):
                    return True
        raise core.AnchorMissing("Mdoc.write: `if pd.isna(row[column]): continue` before the `key = value` line is written (a NaN cell is printed as `key = nan`)")
    wsn = src.anchor("Mdoc.write:NaN cells (keys a section did not have) are not written", write_skips_nan)
    if wsn is None:
        wsn = True

    def row_frame_object():
        """fix C17-fix-2: the one-row frame of every section is created with dtype=object, so that a key first met in a LATER section keeps the
        type `_format_value` gave its value (pandas otherwise infers float64 for the new column: 8 -> 8.0)"""
        fn = find(M, "Mdoc._parse_images")
        for n in ast.walk(fn):
            if isinstance(n, ast.Call) and ast.unparse(n.func) == "pd.concat":
                inner = [c for c in ast.walk(n) if isinstance(c, ast.Call) and ast.unparse(c.func) == "pd.DataFrame"]
                if len(inner) == 1 and any(k.arg == "dtype" and ast.unparse(k.value) == "object" for k in inner[0].keywords) \
                        and any(k.arg == "index" and core.norm_expr(k.value) == "[0]" for k in inner[0].keywords):
                    return True
        raise core.AnchorMissing("_parse_images: pd.concat([imgs, pd.DataFrame(img, index=[0], dtype=object)], ...) - without dtype=object a key first met in a "
                                 "later section is read with an inferred dtype (int -> float)")
    rfo = src.anchor("Mdoc._parse_images:one-row frames are object-typed (late keys keep their value types)", row_frame_object)
    if rfo is None:
        rfo = True

    def sort_key():
        fn = find(M, "Mdoc.sort_by_tilt")
        for n in ast.walk(fn):
            if isinstance(n, ast.Call) and ast.unparse(n.func).endswith("sort_values"):
                kw = {k.arg: k.value for k in n.keywords}
                by = kw["by"].value if "by" in kw else n.args[0].value
                asc = True
                if "ascending" in kw:
                    asc = bool(ast.literal_eval(kw["ascending"]))
                return [by, asc]
        raise core.AnchorMissing("sort_values(by=...)")
    sk = src.anchor("Mdoc.sort_by_tilt:sort_values", sort_key) or DOC["sort"]

    def tilt_key():
        fn = find(M, "Mdoc._parse_images")
        for n in ast.walk(fn):
            if isinstance(n, ast.Assign) and ast.unparse(n.value).endswith(".astype(float)"):
                return n.targets[0].slice.value
        raise core.AnchorMissing("imgs[...].astype(float)")
    tk = src.anchor("Mdoc._parse_images:float column", tilt_key) or DOC["tilt"]

    def removed_key():
        fn = find(M, "Mdoc.kept_images")
        txt = core.norm_expr(fn.body[-1].value)
        if txt == "self.imgs[self.imgs['Removed']==False]":
            return "Removed"
        raise core.AnchorMissing("kept_images: " + txt)
    rk = src.anchor("Mdoc.kept_images", removed_key) or DOC["removed"]

    def dose_expr():
        fn = find(I, "total_dose_load")
        pat = re.compile(r"mdoc\.Mdoc\(input_dose\)\.get_image_feature\('(\w+)'\)\.values([-+*/])mdoc\.Mdoc\(input_dose\)\.get_image_feature\('(\w+)'\)\.values")
        for tgt, val in _inline_assignments(fn):
            m = pat.fullmatch(val)
            if m:
                keys = sorted([m.group(1), m.group(3)])
                if keys != ["ExposureDose", "PriorRecordDose"]:
                    return [m.group(1), m.group(3), m.group(2) == "+"]
                return ["ExposureDose", "PriorRecordDose", m.group(2) == "+"]
        raise core.AnchorMissing("total_dose = <ExposureDose values> + <PriorRecordDose values> (after inlining the locals)")
    de = src.anchor("total_dose_load:mdoc dose", dose_expr) or DOC["dose"]

    def factor(fname):
        def f():
            fn = find(I, fname)
            for n in ast.walk(fn):
                if isinstance(n, (ast.Assign, ast.AugAssign)) and isinstance(n.value, (ast.BinOp, ast.Constant)):
                    v = n.value
                    if isinstance(n, ast.AugAssign) and isinstance(n.op, ast.Mult) and isinstance(v, ast.Constant):
                        return repr(float(v.value))
                    if isinstance(v, ast.BinOp) and isinstance(v.op, ast.Mult) and isinstance(v.right, ast.Constant) and "iloc" in ast.unparse(v.left):
                        return repr(float(v.right.value))
            raise core.AnchorMissing(fname + ": * <const>")
        return f
    fg = src.anchor("gctf_read:angstrom->micron factor", factor("gctf_read")) or DOC["factor"]
    fc = src.anchor("ctffind4_read:angstrom->micron factor", factor("ctffind4_read")) or DOC["factor"]

    def mean_expr():
        res = []
        for fname in ("gctf_read", "ctffind4_read"):
            fn = find(I, fname)
            ok = None
            for n in ast.walk(fn):
                if isinstance(n, ast.Assign) and "defocus_mean" in ast.unparse(n.targets[0]):
                    t = core.norm_expr(n.value)
                    m = re.fullmatch(r"\((\w+)\['defocus1'\]\+\1\['defocus2'\]\)\.values/([0-9.]+)", t) or \
                        re.fullmatch(r"\((\w+)\['defocus2'\]\+\1\['defocus1'\]\)\.values/([0-9.]+)", t)
                    if not m:
                        raise core.AnchorMissing(fname + ": defocus_mean expression rewritten: " + t)
                    ok = m.group(2)
            if ok is None:
                raise core.AnchorMissing(fname + ": defocus_mean")
            res.append(ok)
        if res[0] != res[1]:
            raise core.AnchorMissing("different divisors")
        return res[0]
    md = src.anchor("gctf_read/ctffind4_read:defocus_mean", mean_expr) or DOC["divisor"]

    def tlt_default():
        fn = find(I, "tlt_load")
        d = fn.args.defaults[-1]
        txt = ast.unparse(fn)
        if not re.search(r"(\w+) = np\.sort\(\1\)", txt):
            raise core.AnchorMissing("tlt_load: x = np.sort(x)")
        return bool(d.value)
    td = src.anchor("tlt_load:sort_angles default + np.sort", tlt_default)
    if td is None:
        td = True

    def wedge_cols():
        fn = find(W, "create_wedge_list_sg")
        for n in ast.walk(fn):
            if isinstance(n, ast.Call) and ast.unparse(n.func) == "pd.DataFrame":
                for k in n.keywords:
                    if k.arg == "columns":
                        return src.literal(k.value)
        raise core.AnchorMissing("pd.DataFrame(columns=[...])")
    wcols = src.anchor("create_wedge_list_sg:columns", wedge_cols) or DOC["wedge_cols"]

    def wedge_assign():
        """what is assigned to every column of the table, with all local variables inlined (names only parameters and loader calls)"""
        fn = find(W, "create_wedge_list_sg")
        df = None
        for n in ast.walk(fn):
            if isinstance(n, ast.Assign) and isinstance(n.value, ast.Call) and ast.unparse(n.value.func) == "pd.DataFrame" and isinstance(n.targets[0], ast.Name) \
                    and any(k.arg == "columns" for k in n.value.keywords):
                df = n.targets[0].id
        if df is None:
            raise core.AnchorMissing("x = pd.DataFrame(columns=[...])")
        out = []
        for tgt, val in _inline_assignments(fn):
            if tgt.startswith(df + "["):
                key = tgt[len(df) + 1:-1]
                out.append([key[1:-1] if key[:1] == "'" and key.count("'") == 2 else key, val])
        # a MAP column -> value: the order in which the columns are filled is not observable (the column order of the result is that of the
        # `columns=[…]` list, anchored separately); a column assigned twice stays twice (stable sort), which breaks the obligation
        return sorted(out, key=lambda kv: kv[0])
    wass = src.anchor("create_wedge_list_sg:column assignments (locals inlined)", wedge_assign) or DOC["wedge_assign"]

    def em_cols():
        fn = find(W, "create_wedge_list_em_batch")
        for n in ast.walk(fn):
            if isinstance(n, ast.Call) and ast.unparse(n.func) == "pd.DataFrame":
                for k in n.keywords:
                    if k.arg == "columns":
                        return src.literal(k.value)
        raise core.AnchorMissing("pd.DataFrame(columns=[...])")
    ecols = src.anchor("create_wedge_list_em_batch:columns", em_cols) or DOC["em_cols"]

    def em_minmax():
        fn = find(W, "create_wedge_list_em_batch")
        t = _alpha(fn).replace(" ", "")
        # back-references instead of fixed alpha-names (round 7): the order in which the two lists are created does not matter
        mt = re.search(r"(\w+)=ioutils\.tlt_load\((\w+)\)\.astype\(np\.single\)", t)
        mn = re.search(r"(\w+)\.append\(np\.min\((\w+)\)\)", t)
        mx = re.search(r"(\w+)\.append\(np\.max\((\w+)\)\)", t)
        tm = re.search(r"(\w+)=ioutils\.tlt_load\(tomo_list\)\.astype\(int\)", t)
        ok = bool(mt and mn and mx and tm) and mn.group(2) == mt.group(1) == mx.group(2) and mn.group(1) != mx.group(1)
        if ok:
            lo, hi = mn.group(1), mx.group(1)
            a = re.search(r"(\w+)\['min_angle'\]=np\.asarray\(" + lo + r"\)", t)
            b = re.search(r"(\w+)\['max_angle'\]=np\.asarray\(" + hi + r"\)", t)
            ok = bool(a and b) and a.group(1) == b.group(1) and (a.group(1) + "['tomo_num']=" + tm.group(1)) in t \
                and (lo + "=[]") in t and (hi + "=[]") in t and re.search(r"for(\w+)in" + tm.group(1) + ":", t) is not None
        if not ok:
            raise core.AnchorMissing("min/max collection rewritten")
        return True
    emm = src.anchor("create_wedge_list_em_batch:min/max", em_minmax)
    if emm is None:
        emm = True

    # ---- dispatch tables of the loaders (type chain, extension / file-type chain, default reader)
    def _if_chain(fn):
        """top-level if / elif chain of a function body -> list of (test node | None for else, body)"""
        top = [st for st in fn.body if isinstance(st, ast.If)]
        if len(top) != 1:
            raise core.AnchorMissing(fn.name + ": expected exactly one top-level if-chain")
        out, node = [], top[0]
        while True:
            out.append((node.test, node.body))
            if len(node.orelse) == 1 and isinstance(node.orelse[0], ast.If):
                node = node.orelse[0]
            else:
                out.append((None, node.orelse))
                return out

    def _isinstance_type(test, var):
        if isinstance(test, ast.Call) and ast.unparse(test.func) == "isinstance" and ast.unparse(test.args[0]) == var:
            return ast.unparse(test.args[1])
        raise core.AnchorMissing("not isinstance(" + var + ", ...): " + ast.unparse(test))

    def _first_call(body):
        for st in body:
            if isinstance(st, ast.Assign) and isinstance(st.value, ast.Call):
                return ast.unparse(st.value.func)
            if isinstance(st, ast.Return) and isinstance(st.value, ast.Call):
                return ast.unparse(st.value.func)
        raise core.AnchorMissing("branch does not start with a reader call")

    def _ext_chain(body, var):
        """the `if var.endswith(ext) … elif … else` chain inside the str branch -> ([(ext, reader)], default reader, chain node)"""
        chain = [st for st in body if isinstance(st, ast.If) and "endswith" in ast.unparse(st.test)]
        if len(chain) != 1:
            raise core.AnchorMissing("expected one endswith chain")
        node, table = chain[0], []
        while True:
            t = node.test
            if not (isinstance(t, ast.Call) and ast.unparse(t.func) == var + ".endswith" and isinstance(t.args[0], ast.Constant)):
                raise core.AnchorMissing("extension test rewritten: " + ast.unparse(t))
            table.append([t.args[0].value, _first_call(node.body)])
            if len(node.orelse) == 1 and isinstance(node.orelse[0], ast.If):
                node = node.orelse[0]
            else:
                return table, _first_call(node.orelse), chain[0]

    def loader_dispatch(fname, var):
        def f():
            fn = find(I, fname)
            ch = _if_chain(fn)
            types = [_isinstance_type(t, var) for t, _ in ch[:-1]]
            if not (ch[-1][1] and isinstance(ch[-1][1][0], ast.Raise)):
                raise core.AnchorMissing(fname + ": the final else no longer raises")
            sbody = [b for t, b in ch[:-1] if _isinstance_type(t, var) == "str"]
            if len(sbody) != 1:
                raise core.AnchorMissing(fname + ": no str branch")
            table, dflt, chain = _ext_chain(sbody[0], var)
            # what the array / list branches return
            rets = []
            for t, b in ch[:-1]:
                ty = _isinstance_type(t, var)
                if ty == "str":
                    continue
                r = [core.norm_expr(n.value) for st in b for n in ast.walk(st) if isinstance(n, ast.Return)]
                rets.append([ty, r[-1] if r else "?"])
            # is np.sort applied inside the str branch only, after the extension chain?
            sort_in_str = any("np.sort(" in ast.unparse(st) for st in sbody[0] if st is not chain)
            sort_elsewhere = any("np.sort(" in ast.unparse(st) for t, b in ch[:-1] if _isinstance_type(t, var) != "str" for st in b)
            return dict(types=types, table=table, default=dflt, returns=rets, sort_files_only=(sort_in_str and not sort_elsewhere))
        return f
    tl = src.anchor("tlt_load:type chain + extension dispatch", loader_dispatch("tlt_load", "input_tlt")) or DOC["tlt"]
    dl = src.anchor("total_dose_load:type chain + extension dispatch", loader_dispatch("total_dose_load", "input_dose")) or DOC["dosel"]

    def dose_sort_default():
        fn = find(I, "total_dose_load")
        names = [a.arg for a in fn.args.args]
        if "sort_mdoc" not in names:
            raise core.AnchorMissing("total_dose_load: sort_mdoc parameter")
        d = fn.args.defaults[names.index("sort_mdoc") - (len(names) - len(fn.args.defaults))]
        return bool(ast.literal_eval(d))
    dsd = src.anchor("total_dose_load:sort_mdoc default", dose_sort_default)
    if dsd is None:
        dsd = True

    def defocus_dispatch():
        fn = find(I, "defocus_load")
        ch = _if_chain(fn)
        types = [_isinstance_type(t, "input_data") for t, _ in ch[:-1]]
        first = [core.norm_expr(st) for st in ch[0][1]]
        ret = [st for st in fn.body if isinstance(st, ast.Return)]
        res = ast.unparse(ret[-1].value) if ret and isinstance(ret[-1].value, ast.Name) else "?"      # the result variable, whatever its name
        if types[:1] != ["pd.DataFrame"] or first != [res + "=input_data"]:
            raise core.AnchorMissing("defocus_load: DataFrame branch rewritten")
        sbody = [b for t, b in ch[:-1] if _isinstance_type(t, "input_data") == "str"]
        if len(sbody) != 1 or len(sbody[0]) != 1 or not isinstance(sbody[0][0], ast.If):
            raise core.AnchorMissing("defocus_load: str branch rewritten")
        node, table, lowers = sbody[0][0], [], True
        while True:
            t = node.test
            if not (isinstance(t, ast.Compare) and len(t.ops) == 1 and isinstance(t.ops[0], ast.Eq) and isinstance(t.comparators[0], ast.Constant)):
                raise core.AnchorMissing("file-type test rewritten: " + ast.unparse(t))
            lhs = core.norm_expr(t.left)
            if lhs not in ("file_type.lower()", "file_type"):
                raise core.AnchorMissing("file-type test rewritten: " + ast.unparse(t))
            lowers = lowers and lhs == "file_type.lower()"
            table.append([t.comparators[0].value, _first_call(node.body)])
            if len(node.orelse) == 1 and isinstance(node.orelse[0], ast.If):
                node = node.orelse[0]
            else:
                if not (node.orelse and isinstance(node.orelse[0], ast.Raise)):
                    raise core.AnchorMissing("defocus_load: unknown file type no longer raises")
                break
        cols = None
        for st in ch[-1][1]:
            if isinstance(st, ast.Assign) and isinstance(st.value, ast.List):
                cols = src.literal(st.value)
        els = [core.norm_expr(st) for st in ch[-1][1]]
        colvar = [ast.unparse(st.targets[0]) for st in ch[-1][1] if isinstance(st, ast.Assign) and isinstance(st.value, ast.List)]
        if cols is None and colvar:
            for st in ch[-1][1]:
                if isinstance(st, ast.Assign) and ast.unparse(st.targets[0]) == colvar[0]:
                    cols = src.literal(st.value)
        if cols is None or not any(e == f"{res}=pd.DataFrame(input_data,columns={cv})" for e in els for cv in colvar):
            raise core.AnchorMissing("defocus_load: array branch rewritten")
        return dict(types=types, table=table, lowers=lowers, array_columns=cols)
    dd = src.anchor("defocus_load:type chain + file-type dispatch", defocus_dispatch) or DOC["defocus"]

    def star_write_args():
        out = []
        for fname in ("create_wedge_list_sg", "create_wedge_list_sg_batch"):
            fn = find(W, fname)
            calls = [n for n in ast.walk(fn) if isinstance(n, ast.Call) and ast.unparse(n.func) == "starfileio.Starfile.write"]
            if len(calls) != 1:
                raise core.AnchorMissing(fname + ": Starfile.write call")
            kw = {k.arg: k.value for k in calls[0].keywords}
            spec = src.literal(kw["specifiers"])
            numc = bool(src.literal(kw["number_columns"])) if "number_columns" in kw else True
            if not re.fullmatch(r"\[\w+\]", core.norm_expr(calls[0].args[0])) or len(spec) != 1:
                raise core.AnchorMissing(fname + ": Starfile.write arguments rewritten")
            out.append([spec[0], numc])
        if out[0] != out[1]:
            raise core.AnchorMissing("single and batch writer use different STAR arguments")
        return out[0]
    swa = src.anchor("create_wedge_list_sg(_batch):Starfile.write specifier", star_write_args) or DOC["star"]

    def wedge_write_last():
        """the STAR file is written when the table is COMPLETE (M-9: a write placed before the voltage / amp_contrast / cs assignments gives a
        file with NaN constants while the returned table is right): the `if output_file is not None: Starfile.write([df], …)` block is the
        last statement before `return df`, in both functions"""
        for fname in ("create_wedge_list_sg", "create_wedge_list_sg_batch"):
            fn = find(W, fname)
            idx = [i for i, st in enumerate(fn.body)
                   if any(isinstance(n, ast.Call) and ast.unparse(n.func) == "starfileio.Starfile.write" for n in ast.walk(st))]
            if len(idx) != 1:
                raise core.AnchorMissing(fname + ": exactly one statement with a Starfile.write call")
            st, later = fn.body[idx[0]], fn.body[idx[0] + 1:]
            if not (isinstance(st, ast.If) and core.norm_expr(st.test) == "output_fileisnotNone" and len(st.body) == 1 and not st.orelse):
                raise core.AnchorMissing(fname + ": `if output_file is not None: starfileio.Starfile.write(...)` rewritten: " + ast.unparse(st)[:80])
            if not (len(later) == 1 and isinstance(later[0], ast.Return)):
                raise core.AnchorMissing(fname + ": the Starfile.write block is no longer the last statement before the return (statements after it: "
                                         + "; ".join(ast.unparse(x)[:50] for x in later[:-1]) + ")")
            call = [n for n in ast.walk(st) if isinstance(n, ast.Call) and ast.unparse(n.func) == "starfileio.Starfile.write"][0]
            if core.norm_expr(call.args[0]) != "[" + ast.unparse(later[0].value) + "]":
                raise core.AnchorMissing(fname + ": the table written is not the table returned")
        return True
    wwl = src.anchor("create_wedge_list_sg(_batch):the STAR file is written last, from the table that is returned", wedge_write_last)
    if wwl is None:
        wwl = True

    def mdoc_open_args():
        out = []
        for q in ("Mdoc.write", "Mdoc._read_mdoc"):
            fn = find(M, q)
            calls = [n for n in ast.walk(fn) if isinstance(n, ast.Call) and ast.unparse(n.func) == "open"]
            if len(calls) != 1:
                raise core.AnchorMissing(q + ": one open(...) call")
            out.append(",".join([core.norm_expr(a) for a in calls[0].args] + [k.arg + "=" + core.norm_expr(k.value) for k in calls[0].keywords]).replace('"', "'"))
        return out
    moa = src.anchor("Mdoc.write / _read_mdoc:open() arguments (no encoding / errors handler: what is written is what is read)", mdoc_open_args) \
        or ["out_path,'w'", "file_path,'r'"]

    def sg2em_groupby():
        fn = find(W, "wedge_list_sg_to_em")
        t = _alpha(fn).replace(" ", "")
        m = re.search(r"(\w+)=load_wedge_list_sg\(input_path\)", t)
        if not m:
            raise core.AnchorMissing("x = load_wedge_list_sg(input_path)")
        v = m.group(1)
        g = re.search(r"(\w+)=" + v + r"\.groupby\('tomo_num'\)\.agg\(min_tilt_angle=\('tilt_angle','min'\),max_tilt_angle=\('tilt_angle','max'\)\)", t)
        if not g or (g.group(1) + ".reset_index(inplace=True)") not in t:
            raise core.AnchorMissing("groupby('tomo_num').agg(min, max) rewritten")
        return ["tomo_num", "tilt_angle", "min", "max"]
    s2e = src.anchor("wedge_list_sg_to_em:groupby + agg", sg2em_groupby) or DOC["s2e"]

    # ---- hardening pass: new anchors ---------------------------------------------------------------------------------------
    def one_value_dtype():
        fn = find(I, "one_value_per_line_read")
        names = [a.arg for a in fn.args.args]
        d = fn.args.defaults[names.index("data_type") - (len(names) - len(fn.args.defaults))]
        calls = [n for n in ast.walk(fn) if isinstance(n, ast.Call) and ast.unparse(n.func) == "pd.read_csv"]
        if len(calls) != 1 or not any(k.arg == "dtype" and ast.unparse(k.value) == "data_type" for k in calls[0].keywords):
            raise core.AnchorMissing("pd.read_csv(..., dtype=data_type)")
        return ast.unparse(d)
    ovd = src.anchor("one_value_per_line_read:data_type default (float32 is pinned HERE, not in the oracle)", one_value_dtype) or DOC["dtype"]

    def gctf_select():
        fn = find(I, "gctf_read")
        lists = []
        for n in ast.walk(fn):
            if isinstance(n, ast.Subscript) and isinstance(n.slice, ast.List) and all(isinstance(e, ast.Constant) for e in n.slice.elts):
                lists.append([e.value for e in n.slice.elts])
        lists.sort(key=len)
        if len(lists) != 2 or lists[1][:-1] != lists[0]:
            raise core.AnchorMissing("gctf_read: the columns are no longer selected by two explicit name lists df[[...]]")
        tests = [ast.unparse(n.test) for n in ast.walk(fn) if isinstance(n, ast.If)]
        if not any(re.fullmatch(r"'" + lists[1][-1] + r"' in \w+\.columns", t) for t in tests):
            raise core.AnchorMissing("gctf_read: if '<phase>' in df.columns")
        sl = None
        for n in ast.walk(fn):
            if isinstance(n, ast.Assign) and isinstance(n.targets[0], ast.Subscript) and "iloc" in ast.unparse(n.targets[0]):
                m = re.fullmatch(r"(\w+)\.iloc\[:,(\d+):(\d+)\]", core.norm_expr(n.targets[0]))
                if m and core.norm_expr(n.value).startswith(core.norm_expr(n.targets[0]) + "*"):
                    sl = [int(m.group(2)), int(m.group(3))]
        if sl is None:
            raise core.AnchorMissing("gctf_read: x.iloc[:, a:b] = x.iloc[:, a:b] * c")
        rn = [n for n in ast.walk(fn) if isinstance(n, ast.Call) and ast.unparse(n.func).endswith(".rename")]
        want = {"rlnDefocusU": "defocus1", "rlnDefocusV": "defocus2", "rlnDefocusAngle": "astigmatism", "rlnPhaseShift": "phase_shift"}
        if len(rn) != 1 or src.literal({k.arg: k.value for k in rn[0].keywords}["columns"]) != want:
            raise core.AnchorMissing("gctf_read: rename(columns=...)")
        return dict(columns=lists[1], phase=lists[1][-1], lo=sl[0], hi=sl[1])
    gs = src.anchor("gctf_read:name-list selection + positional scaling slice", gctf_select) or DOC["gctf"]

    def reset_key():
        fn = find(M, "Mdoc.sort_by_tilt")
        for n in ast.walk(fn):
            if isinstance(n, ast.If) and ast.unparse(n.test) == "reset_z_value":
                for st in n.body:
                    if isinstance(st, ast.Assign) and ast.unparse(st.targets[0].value) == "self.imgs" and core.norm_expr(st.value) == "range(self.imgs.shape[0])":
                        k = st.targets[0].slice
                        if isinstance(k, ast.Constant):
                            return [k.value, False]
                        if ast.unparse(k) == "self.section_id":
                            return [DOC["reset"][0], True]
        raise core.AnchorMissing("if reset_z_value: self.imgs[<key>] = range(self.imgs.shape[0])")
    rsk = src.anchor("Mdoc.sort_by_tilt:key written by reset_z_value", reset_key) or DOC["reset"]

    def indices_shift():
        fn = find(I, "indices_load")
        names = [a.arg for a in fn.args.args]
        d = bool(ast.literal_eval(fn.args.defaults[names.index("numbered_from_1") - (len(names) - len(fn.args.defaults))]))
        for st in fn.body:
            if isinstance(st, ast.If) and ast.unparse(st.test) == "numbered_from_1":
                if len(st.body) == 1 and isinstance(st.body[0], ast.Assign) and re.fullmatch(r"(\w+)=\1-1", core.norm_expr(st.body[0])):
                    return [True, d]
                if len(st.body) == 1 and isinstance(st.body[0], ast.AugAssign):
                    return [False, d]       # in-place: the caller's array is edited
        raise core.AnchorMissing("if numbered_from_1: x = x - 1")
    ish = src.anchor("indices_load:shift builds a new array", indices_shift) or DOC["indices"]

    def sig_defaults():
        def dflt(rel, q, name):
            fn = find(rel, q)
            names = [a.arg for a in fn.args.args]
            return ast.literal_eval(fn.args.defaults[names.index(name) - (len(names) - len(fn.args.defaults))])
        sg, bt = "create_wedge_list_sg", "create_wedge_list_sg_batch"
        return dict(write_removed=bool(dflt(M, "Mdoc.write", "removed")), write_overwrite=bool(dflt(M, "Mdoc.write", "overwrite")),
                    remove_kept_only=bool(dflt(M, "Mdoc.remove_images", "kept_only")), sort_reset=bool(dflt(M, "Mdoc.sort_by_tilt", "reset_z_value")),
                    mdoc_section_id=dflt(M, "Mdoc.__init__", "section_id"), script_from1=bool(dflt(M, "remove_images", "numbered_from_1")),
                    defocus_file_type=dflt(I, "defocus_load", "file_type"),
                    sg_z_shift=repr(float(dflt(W, sg, "z_shift"))), sg_ctf_type=dflt(W, sg, "ctf_file_type"), sg_voltage=repr(float(dflt(W, sg, "voltage"))),
                    sg_amp=repr(float(dflt(W, sg, "amp_contrast"))), sg_cs=repr(float(dflt(W, sg, "cs"))),
                    batch_z_shift=repr(float(dflt(W, bt, "z_shift"))), batch_ctf_type=dflt(W, bt, "ctf_file_type"), batch_voltage=repr(float(dflt(W, bt, "voltage"))),
                    batch_amp=repr(float(dflt(W, bt, "amp_contrast"))), batch_cs=repr(float(dflt(W, bt, "cs"))), sg_drop_nan=bool(dflt(W, sg, "drop_nan_columns")))
    sd = src.anchor("signature defaults (write, remove_images, sort_by_tilt, defocus_load, create_wedge_list_sg(_batch), mdoc.remove_images)", sig_defaults) or DOC["defaults"]

    def batch_lookups():
        fn = find(W, "create_wedge_list_sg_batch")
        t = _alpha(fn).replace(" ", "")
        d = re.search(r"=(\w+)\.loc\[\1\['tomo_id'\]==(\w+),\['x','y','z'\]\]\.values\[0\]", t)
        z = re.search(r"=(\w+)\.loc\[\1\['tomo_id'\]==(\w+),'z_shift'\]\.values\[0\]", t)
        if not d or not z or d.group(2) != z.group(2) or not re.search(r"for" + d.group(2) + r"in(\w+):", t.replace("\n", "")):
            raise core.AnchorMissing("per-tomogram look-ups table.loc[table['tomo_id'] == t, ...].values[0] rewritten")
        # M-8: every per-tomogram FILE name (tilts, ctf, dose, dimensions, z-shift) is formed from the LOOP variable
        for fmt in ("tlt_file_format", "ctf_file_format", "dose_file_format", "tomo_dim_file_format", "z_shift_file_format"):
            m = re.findall(r"ioutils\.fileformat_replace_pattern\(" + fmt + r",([^,]+),'x',raise_error=False\)", t)
            if m != [d.group(2)]:
                raise core.AnchorMissing(f"create_wedge_list_sg_batch: the file named by {fmt} is not that of the tomogram being processed "
                                         f"(fileformat_replace_pattern({fmt}, {m[0] if m else '?'}, ...))")
        return True
    blk = src.anchor("create_wedge_list_sg_batch:dimensions and z-shift are looked up by tomo_id", batch_lookups)
    if blk is None:
        blk = True

    def digests():
        return [[rel.split("/")[-1] + ":" + q, _digest(find(rel, q))] for rel, q in DIGEST_FUNCS]
    dg = src.anchor("normalised whole-body dumps (functions with branches the run never executes / short helpers)", digests) or \
        [[rel.split("/")[-1] + ":" + q, "?"] for rel, q in DIGEST_FUNCS]

    def ext_table(tb):
        return "[" + ", ".join("(" + _chars(e) + ", " + core.lean_str(h) + ")" for e, h in tb) + "]"

    def str_pairs(tb):
        return "[" + ", ".join("(" + core.lean_str(a) + ", " + core.lean_str(b) + ")" for a, b in tb) + "]"

    def rat(x):
        return core.lean_rat(x)

    def b(x):
        return "true" if x else "false"
    kvsep = kv[1]
    return f"""-- GENERATED by harness/props/c17.py from {M}, {I}, {W}; do not edit
namespace CryoCat.Gen.C17
def anchorsOk : Bool := {"true" if src.ok else "false"}
def sectionPrefixes : List (List Char × List Char) := [{", ".join("(" + _chars(a) + ", " + _chars(b) + ")" for a, b in pre)}]
def kvSep : List Char := {_chars(kvsep)}
def secOpen : List Char := {_chars(sec[0] if sec else "?")}
def secSep : List Char := {_chars(sec[1] if sec else "?")}
def secClose : List Char := {_chars(sec[2].rstrip(chr(10)) if sec else "?")}
def titleOpen : List Char := {_chars(tit[0] if tit else "?")}
def titleClose : List Char := {_chars(tit[1].rstrip(chr(10)) if tit else "?")}
def tiltKey : List Char := {_chars(tk)}
def sortKey : List Char := {_chars(sk[0])}
def sortAscending : Bool := {"true" if sk[1] else "false"}
def removedKey : List Char := {_chars(rk)}
def writeKeepsWhenNotRemoved : Bool := {"true" if wc else "false"}
def exposureKey : List Char := {_chars(de[0])}
def priorKey : List Char := {_chars(de[1])}
def doseIsExposurePlusPrior : Bool := {"true" if de[2] else "false"}
def angToMicronGctf : Rat := {rat(fg)}
def angToMicronCtffind : Rat := {rat(fc)}
def meanDivisor : Rat := {rat(md)}
def tltSortsByDefault : Bool := {"true" if td else "false"}
def emMinMax : Bool := {"true" if emm else "false"}
def wedgeColumns : List String := {core.lean_str_list(wcols)}
def wedgeAssignments : List (String × String) := [{", ".join("(" + core.lean_str(a) + ", " + core.lean_str(b) + ")" for a, b in wass)}]
def wedgeEmColumns : List String := {core.lean_str_list(ecols)}
def wedgeSpecifier : String := {core.lean_str(swa[0])}
def wedgeNumberColumns : Bool := {"true" if swa[1] else "false"}
def sgToEmGroupAgg : List String := {core.lean_str_list(s2e)}
def tltTypeChain : List String := {core.lean_str_list(tl.get("types", []))}
def tltDispatch : List (List Char × String) := {ext_table(tl.get("table", []))}
def tltDefault : String := {core.lean_str(tl.get("default", "?"))}
def tltReturns : List (String × String) := {str_pairs(tl.get("returns", []))}
def tltSortsFilesOnly : Bool := {"true" if tl.get("sort_files_only") else "false"}
def doseTypeChain : List String := {core.lean_str_list(dl.get("types", []))}
def doseDispatch : List (List Char × String) := {ext_table(dl.get("table", []))}
def doseDefault : String := {core.lean_str(dl.get("default", "?"))}
def doseReturns : List (String × String) := {str_pairs(dl.get("returns", []))}
def doseSortsMdocByDefault : Bool := {"true" if dsd else "false"}
def defocusTypeChain : List String := {core.lean_str_list(dd.get("types", []))}
def defocusDispatch : List (String × String) := {str_pairs(dd.get("table", []))}
def defocusLowers : Bool := {"true" if dd.get("lowers") else "false"}
def defocusArrayColumns : List String := {core.lean_str_list(dd.get("array_columns", []))}
def oneValueDtype : String := {core.lean_str(ovd)}
def gctfColumns : List String := {core.lean_str_list(gs["columns"])}
def gctfPhaseColumn : String := {core.lean_str(gs["phase"])}
def gctfScaleLo : Nat := {gs["lo"]}
def gctfScaleHi : Nat := {gs["hi"]}
def resetKey : List Char := {_chars(rsk[0])}
def resetUsesSectionId : Bool := {b(rsk[1])}
def indicesShiftPure : Bool := {b(ish[0])}
def indicesFrom1Default : Bool := {b(ish[1])}
def writeRemovedDefault : Bool := {b(sd["write_removed"])}
def writeOverwriteDefault : Bool := {b(sd["write_overwrite"])}
def removeKeptOnlyDefault : Bool := {b(sd["remove_kept_only"])}
def sortResetDefault : Bool := {b(sd["sort_reset"])}
def mdocSectionIdDefault : String := {core.lean_str(sd["mdoc_section_id"])}
def scriptFrom1Default : Bool := {b(sd["script_from1"])}
def defocusFileTypeDefault : String := {core.lean_str(sd["defocus_file_type"])}
def sgDefaults : String × List Rat := ({core.lean_str(sd["sg_ctf_type"])}, [{rat(sd["sg_z_shift"])}, {rat(sd["sg_voltage"])}, {rat(sd["sg_amp"])}, {rat(sd["sg_cs"])}])
def batchDefaults : String × List Rat := ({core.lean_str(sd["batch_ctf_type"])}, [{rat(sd["batch_z_shift"])}, {rat(sd["batch_voltage"])}, {rat(sd["batch_amp"])}, {rat(sd["batch_cs"])}])
def sgDropsNanColumnsByDefault : Bool := {b(sd["sg_drop_nan"])}
def batchLooksUpByTomoId : Bool := {b(blk)}
def wedgeWrittenLast : Bool := {b(wwl)}
def writeSkipsNan : Bool := {b(wsn)}
def rowFramesObjectTyped : Bool := {b(rfo)}
def mdocOpenArgs : List String := {core.lean_str_list(moa)}
def bodyDigests : List (String × String) := {str_pairs(dg)}
end CryoCat.Gen.C17
"""


# ------------------------------------------------------------------ mdoc grammar
KEYS = ["MinMaxMean", "StagePosition", "StageZ", "Magnification", "Intensity", "DoseRate", "PixelSpacing", "SpotSize", "Defocus",
        "ImageShift", "RotationAngle", "ExposureTime", "Binning", "TargetDefocus", "SubFramePath", "NumSubFrames", "DateTime",
        "NavigatorLabel", "FilterSlitAndLoss", "UncroppedSize", "CountsPerElectron"]
HKEYS = ["PixelSpacing", "Voltage", "Version", "ImageFile", "ImageSize", "DataMode", "Montage", "T"]
TEXTS = ["137.175 367.199", "06-Jun-23  23:19:46", "018_01.mrc", "0 1948 630.934", "SerialEM Version 4.0.20 64-bit,  built Feb 17 2023  20:15:15",
         "-4096 -4096", "10 0", "9.37679e-005 0.5514", "0.023687 3  0.035531 7", "X:\\frames\\a_001.tif", "1e-05", "-0.0733564", "-3", "1.2.3", ".", "nan",
         "a]b", "x [y]", "5 \u00b5m", "M\u00fcller lab, Z\u00fcrich", "3.5 \u00c5/px"]


def _digits(rng, n, first_nonzero=False):
    s = "".join(rng.choice("0123456789") for _ in range(n))
    if first_nonzero and s and s[0] == "0":
        s = rng.choice("123456789") + s[1:]
    return s


def _plain_float(rng):
    """decimal text that _format_value types as float and Python prints in plain form (<= 15 significant digits)"""
    k = rng.random()
    if k < 0.08:
        return rng.choice(["0.0", "0.", ".0", "00.000"])
    if k < 0.2:   # the boundary 1e-4 .. and small values that are still plain
        return rng.choice(["0.0001", "0.00010", "0.000123", "0.0009", ".0001"])
    if k < 0.3:   # large but below 1e16
        return _digits(rng, rng.randint(1, 3), True) + "0" * rng.randint(8, 10) + rng.choice([".0", ".", ".5", ".25"])
    ni, nf = rng.randint(0, 6), rng.randint(0, 6)
    if ni == 0 and nf == 0:
        ni = 1
    i = _digits(rng, ni)
    f = _digits(rng, nf)
    if rng.random() < 0.3:
        i = "0" * rng.randint(1, 2) + i
    if rng.random() < 0.3 and nf:
        f = f + "0" * rng.randint(1, 2)
    # keep the value in the plain range [1e-4, 1e16) or zero
    fr = Fraction(int(i or "0")) + (Fraction(int(f), 10 ** len(f)) if f else 0)
    if fr != 0 and fr < Fraction(1, 10000):
        f = "001" + f
        f = f[:8]
    return i + "." + f


def _exp_float(rng):
    """decimal text typed as float that Python prints in exponent form: 0 < x < 1e-4 or x >= 1e16 (class of C17-K1)"""
    if rng.random() < 0.7:
        return rng.choice(["0.", "."]) + "0" * rng.randint(4, 7) + _digits(rng, rng.randint(1, 4), True).rstrip("0") + rng.choice(["", "1"])
    return _digits(rng, rng.randint(1, 3), True) + "0" * rng.randint(16, 19) + rng.choice([".0", "."])


def _value(rng, allow_exp=True):
    k = rng.random()
    if k < 0.22:
        return rng.choice(["0", "1", "300", "007", "64000", str(rng.randint(0, 10 ** rng.randint(1, 9)))])
    if k < 0.55:
        return _plain_float(rng)
    if k < 0.585 and allow_exp:
        return _exp_float(rng)
    if k < 0.7:
        return "-" + rng.choice([str(rng.randint(0, 5000)), _plain_float(rng)])
    if k < 0.72:
        return ""
    return rng.choice(TEXTS)


def _kv_line(rng, k, v):
    style = rng.random()
    if style < 0.7:
        return f"{k} = {v}"
    if style < 0.8:
        return f"{k}={v}"
    if style < 0.9:
        return f"{k}  =   {v}" + rng.choice(["", " ", "\t", "  "])
    return rng.choice(["", " ", "\t"]) + f"{k} = {v}" + rng.choice(["", "   "])


def _tilt_fraction(t):
    body = t.lstrip("+-")
    sign = -1 if t.startswith("-") else 1
    mant, _, ex = body.lower().partition("e")
    if mant.endswith("."):
        mant += "0"
    if mant.startswith("."):
        mant = "0" + mant
    return sign * Fraction(mant) * (Fraction(10) ** int(ex or "0"))


def _tilt_texts(rng, n, odd=True):
    seen, out = set(), []
    while len(out) < n:
        k = rng.random()
        if k < 0.6:
            t = f"{rng.uniform(-70, 70):.{rng.randint(1, 4)}f}"
        elif k < 0.8:
            t = str(rng.randint(-70, 70))
        elif k < 0.88:
            t = rng.choice(["-0", "0", "0.0", "3.", "-3.", ".5", "-.5", "007", "-060.00", "12.50"])
        elif k < 0.92 and odd:
            # spellings the strict model does not know but Python's float() reads (audit item 5b): explicit '+', exponent forms,
            # values below 1e-4 (printed back in exponent form by write)
            t = rng.choice(["+5", "+12.5", "1e-3", "2.5E+1", "-1e-05", "0.00001", "-0.00002", "+.5", "5e0", "1.25e1", "-3E-2", "0.000012"])
        else:
            t = f"{rng.uniform(-3, 3):.2f}"
        fr = _tilt_fraction(t)
        if fr in seen:
            continue
        seen.add(fr)
        out.append(t)
    return out


def _respell(rng, t):
    """another decimal spelling of the same number (strict-model forms only: [-]digits[.digits])"""
    # only texts of the form -?digits[.digits] / -?.digits are respelled; the float()-only spellings `_tilt_texts` may hand over (`+5`, `-3E-2`,
    # `+.5`, `2.5E+1`) are REPEATED as they are (round 7, item 2: `3E-2.` / `0+.5` crashed the generator on seeds 316, 713, 1893, thorough 91)
    if not re.fullmatch(r"-?(\d+\.?\d*|\.\d+)", t):
        return t
    neg = t.startswith("-")
    b = t.lstrip("-")
    if _tilt_fraction(t) == 0 and rng.random() < 0.5:
        new = rng.choice(["0", "-0", "0.0", "-0.0", "00"])        # -0.0 == 0.0: equal keys, different cells
    else:
        if "." in b:
            b = rng.choice([b + "0", "0" + b, b + "00"]) if not b.startswith(".") else "0" + b
        else:
            b = rng.choice([b + ".0", b + ".", "0" + b, b + ".00"])
        new = ("-" if neg else "") + b
    assert _tilt_fraction(new) == _tilt_fraction(t), (t, new)
    return new


def _tie_tilts(rng, tilts):
    """equal tilt angles, deliberately (work-list item 1 of round 5): 1..2 groups of 2..3 images share one angle - as a plain repeat of
    the text or as another spelling of the same number. `sort_values` (quicksort) leaves such a group in an order of its own choosing;
    every ascending arrangement satisfies the statement"""
    n = len(tilts)
    kinds = []
    for _ in range(rng.choice([1, 1, 2])):
        if n < 2:
            break
        grp = rng.sample(range(n), min(n, rng.choice([2, 2, 3])))
        kind = rng.choice(["repeat", "spelling"])
        for j in grp[1:]:
            tilts[j] = tilts[grp[0]] if kind == "repeat" else _respell(rng, tilts[grp[0]])
        kinds.append(kind)
    return kinds


def _mdoc_text(rng, n_img, allow_exp=True, ties=False):
    sid = "FrameSet" if rng.random() < 0.1 else "ZValue"
    lines = []
    hk = rng.sample(HKEYS, rng.randint(0, 5))
    for k in hk:
        lines.append(_kv_line(rng, k, _value(rng, allow_exp)))
        if rng.random() < 0.1:
            lines.append("")
    lines.append("")
    for _ in range(rng.randint(0, 3)):
        t = rng.choice(["T = SerialEM: Titan Krios G4 D3946 at MPI BP                06-Jun-23  23:19:47    ",
                        "T =     Tilt axis angle = 82.9, binning = 1  spot = 5  camera = 1 dosym = 8.0", "T = x", "note [a] b", "", "T = a=b=c",
                        "T = dose 3.2 e\u207b/\u00c5\u00b2, defocus -2.5 \u00b5m"])
        lines.append(rng.choice(["", " "]) + "[" + t + "]" + rng.choice(["", " "]))
        lines.append("")
    extra = rng.sample(KEYS, rng.randint(0, 6))
    keys = ["TiltAngle", "ExposureDose", "PriorRecordDose"] + extra
    if rng.random() < 0.15:
        keys.remove("PriorRecordDose")
    if rng.random() < 0.1 and "ExposureDose" in keys:
        keys.remove("ExposureDose")
    rng.shuffle(keys)
    tilts = _tilt_texts(rng, n_img, odd=(rng.random() < 0.12))
    if ties:
        _tie_tilts(rng, tilts)
    zs = list(range(n_img))
    if rng.random() < 0.2:
        zs = rng.sample(range(0, 3 * n_img + 3), n_img)
    coltype = {k: rng.choice(["int", "float", "text", "mixed"]) for k in extra}
    for j in range(n_img):
        ztxt = str(zs[j]) if rng.random() < 0.9 else "0" + str(zs[j])
        lines.append(rng.choice([f"[{sid} = {ztxt}]", f"[{sid} = {ztxt}]", f"[{sid}={ztxt}]", f"[{sid} = {ztxt} ]", f"[{sid} = {ztxt}]  "]))
        for k in keys:
            if k == "TiltAngle":
                v = tilts[j]
            elif k in ("ExposureDose", "PriorRecordDose"):
                v = rng.choice([_plain_float(rng), str(rng.randint(0, 200)), f"{rng.uniform(0, 200):.3f}"])
            else:
                ct = coltype[k]
                if ct == "int":
                    v = str(rng.randint(0, 99999))
                elif ct == "float":
                    v = _plain_float(rng)
                elif ct == "text":
                    v = rng.choice(TEXTS)
                else:
                    v = _value(rng, allow_exp)
            lines.append(_kv_line(rng, k, v))
        lines.append("")
        if rng.random() < 0.05:
            lines.append("")
    text = "\n".join(lines) + "\n"
    if rng.random() < 0.1:
        text = text.rstrip("\n")
    return text


def _steps(rng, n_img):
    steps = []
    n_removed = 0
    for _ in range(rng.choice([0, 1, 1, 2, 2, 3, 4])):
        if rng.random() < 0.4:
            steps.append(dict(k="sort", reset=(rng.random() < 0.2)))
        else:
            kept_only = rng.random() < 0.7
            pool = (n_img - n_removed) if kept_only else n_img
            if pool <= 0:
                continue
            cnt = rng.randint(0, min(pool, max(1, pool // 2 + 1)))
            idxs = rng.sample(range(pool), cnt)
            idxs = [i - pool if rng.random() < 0.15 else i for i in idxs]
            if rng.random() < 0.1 and idxs:
                idxs.append(idxs[0])
            if rng.random() < 0.04:
                idxs.append(pool + rng.randint(0, 2))     # IndexError
            steps.append(dict(k="remove", idxs=idxs, kept_only=kept_only))
            if kept_only:
                n_removed += len(set(i % pool for i in idxs if -pool <= i < pool))
    return steps


def _malform(rng, text):
    lines = text.split("\n")
    k = rng.choice(["no-eq", "two-eq", "no-section", "bad-z", "bad-tilt", "no-tilt", "sec-no-eq"])
    sec = [i for i, l in enumerate(lines) if l.startswith("[ZValue") or l.startswith("[FrameSet")]
    body = [i for i, l in enumerate(lines) if l.strip() and not l.strip().startswith("[") and sec and i > sec[0]]
    if k == "no-eq" and body:
        i = rng.choice(body); lines[i] = lines[i].replace("=", " ")
    elif k == "two-eq" and body:
        i = rng.choice(body); lines[i] = lines[i] + " = 1"
    elif k == "no-section":
        lines = lines[:sec[0]] if sec else lines
    elif k == "bad-z":
        i = rng.choice(sec); lines[i] = re.sub(r"=\s*\d+", "= abc", lines[i])
    elif k == "bad-tilt":
        t = [i for i in body if lines[i].strip().startswith("TiltAngle")]
        i = rng.choice(t); lines[i] = "TiltAngle = abc"
    elif k == "no-tilt":
        lines = [l for l in lines if not l.strip().startswith("TiltAngle")]
    else:
        i = rng.choice(sec); lines[i] = lines[i].replace("=", " ")
    return "\n".join(lines), k


def gen_mdoc(rng, tier):
    big = rng.random() < (0.08 if tier != "search" else 0.02)
    n_img = rng.randint(20, 80) if big else rng.randint(1, 8 if tier == "search" else 14)
    ties = n_img >= 2 and rng.random() < 0.12
    text = _mdoc_text(rng, n_img, allow_exp=(rng.random() < 0.08), ties=ties)
    case = dict(kind="mdoc", text=text, steps=_steps(rng, n_img), write_removed=(rng.random() < 0.3))
    if ties:
        # a sort first, then index-addressed removals that depend on the order the sort left, then possibly another sort
        k = rng.randint(0, max(0, n_img - 1))
        case["steps"] = [dict(k="sort", reset=(rng.random() < 0.25)), dict(k="remove", idxs=sorted(set(rng.sample(range(n_img), min(n_img, rng.randint(1, 3))))), kept_only=True)] \
            + ([dict(k="sort", reset=False)] if rng.random() < 0.4 else []) + ([dict(k="remove", idxs=[0], kept_only=rng.random() < 0.5)] if n_img >= 5 else [])
        case["ties"] = True
    # G1: in a share of the calls the keyword is OMITTED so that the library's default is what runs (the expectation then uses the
    # DOCUMENTED default: kept_only=True, reset_z_value=False, removed=False)
    for st in case["steps"]:
        if st["k"] == "sort" and not st["reset"] and rng.random() < 0.5:
            st["omit_kw"] = True
        if st["k"] == "remove" and st["kept_only"] and rng.random() < 0.4:
            st["omit_kw"] = True
    if not case["write_removed"] and rng.random() < 0.4:
        case["write_removed"] = None                # write(path, overwrite=True) without `removed`
    if "[FrameSet" in text and rng.random() < 0.5 and n_img >= 2:
        # audit item 4: FrameSet + sort_by_tilt(reset_z_value=True) (regression of fix 6061ac6, formerly C17-K3)
        case["steps"] = case["steps"][:2] + [dict(k="sort", reset=True)] + case["steps"][2:]
    if rng.random() < 0.1:
        return gen_mdoc_odd(rng, text, n_img)
    if rng.random() < 0.06:
        case["text"], case["malformed"] = _malform(rng, text)
        case["steps"] = []
    return case


ODD_KINDS = ["diff-keys", "diff-keys-first", "dup-header", "dup-body", "dup-body-first", "bracket-in-section", "bracket-no-eq", "z-form", "tilt-outside", "tilt-forms",
             "keys-reordered", "diff-keys", "keys-reordered"]


def gen_mdoc_odd(rng, text, n_img):
    """audit item 5: texts of the shapes where the strict model answers `none` although the code does not raise. dup-header and
    tilt-forms are FOLLOWED by the extended model (parseMdocX); the others are named classes outside the quantifier (whyNone): the
    judge skips them explicitly and counts them"""
    lines = text.split("\n")
    sec = [i for i, l in enumerate(lines) if l.startswith("[ZValue") or l.startswith("[FrameSet")]
    kind = rng.choice(ODD_KINDS)
    body = [i for i, l in enumerate(lines) if l.strip() and not l.strip().startswith("[") and sec and i > sec[0]]
    first_body = [i for i in body if len(sec) < 2 or i < sec[1]]
    later_body = [i for i in body if len(sec) >= 2 and i > sec[1]]
    nt = lambda idx: [i for i in idx if not lines[i].strip().startswith("TiltAngle")]
    if kind == "diff-keys" and nt(later_body):
        del lines[rng.choice(nt(later_body))]
    elif kind == "diff-keys-first" and nt(first_body) and len(sec) >= 2:
        del lines[rng.choice(nt(first_body))]
    elif kind == "keys-reordered" and len(sec) >= 2:
        # the SAME keys in another order in a later section (inside the quantifier; pd.concat aligns by column name; parseMdocX follows)
        j = rng.randrange(1, len(sec))
        lo, hi = sec[j] + 1, (sec[j + 1] if j + 1 < len(sec) else len(lines))
        idx = [i for i in range(lo, hi) if lines[i].strip()]
        vals = [lines[i] for i in idx]
        rng.shuffle(vals)
        for i, v in zip(idx, vals):
            lines[i] = v
    elif kind == "dup-header":
        hk = rng.choice(["PixelSpacing", "Voltage", "Q"])
        lines = [f"{hk} = 1.5", "Other = a b"] + lines[:sec[0]] + [f"{hk} = {rng.choice(['7', 'x y', '2.25'])}"] + lines[sec[0]:]
    elif kind == "dup-body" and later_body:
        i = rng.choice(later_body); lines.insert(i + 1, lines[i].split("=")[0] + "= 77")
    elif kind == "dup-body-first" and first_body:
        i = rng.choice(first_body); lines.insert(i + 1, lines[i].split("=")[0] + "= 77")
    elif kind == "bracket-in-section" and body:
        lines.insert(rng.choice(body), rng.choice(["[T = 5]", "[Note = x]", "[ZValue = 9]x"][:2]))
    elif kind == "bracket-no-eq" and body:
        lines.insert(rng.choice(body), "[T]")
    elif kind == "z-form":
        i = rng.choice(sec); lines[i] = re.sub(r"=\s*0*(\d+)", lambda m: "= " + rng.choice(["+", "-" if m.group(1) == "0" else "+", ""]) + m.group(1) + rng.choice(["", "_0"]), lines[i], 1)
    elif kind == "tilt-outside":
        t = [i for i in body if lines[i].strip().startswith("TiltAngle")]
        lines[rng.choice(t)] = "TiltAngle = " + rng.choice(["nan", "inf", "-inf", "1_0", "NaN", "1e400", "Infinity"])
    else:
        t = [i for i in body if lines[i].strip().startswith("TiltAngle")]
        used = {l.split("=")[1].strip() for l in lines if l.strip().startswith("TiltAngle")}
        for i in rng.sample(t, min(len(t), rng.randint(1, 3))):
            c = rng.choice([x for x in ["+5", "+12.5", "1e-3", "2.5E+1", "-1e-05", "0.00001", "-0.00002", "+.5", "5e0", "-3E-2", "0.000012", "+81", "7.5e-1"]
                            if x not in used])
            used.add(c)
            lines[i] = "TiltAngle = " + c
    steps = _steps(rng, n_img) if kind in ("dup-header", "tilt-forms", "keys-reordered", "diff-keys", "diff-keys-first") else []
    steps = [st for st in steps if st["k"] != "remove" or all(-n_img <= i < n_img for i in st["idxs"])]
    return dict(kind="mdoc", text="\n".join(lines), steps=steps, write_removed=(rng.random() < 0.3 if kind.startswith(("diff-keys", "keys-")) else False), odd=kind)


# ------------------------------------------------------------------ mdoc: implementation adapter
def _canon_cell(v):
    import numpy as np
    if isinstance(v, (bool, np.bool_)):
        return ["b", bool(v)]
    if isinstance(v, (int, np.integer)):
        return ["i", str(int(v))]
    if isinstance(v, (float, np.floating)):
        return ["f", repr(float(v))]
    if isinstance(v, str):
        return ["s", v]
    return ["?", repr(v)]


def _canon_mdoc(m):
    cols = [str(c) for c in m.imgs.columns]
    sid = m.section_id
    rest = [c for c in cols if c not in (sid, "Removed")]
    rows = []
    for lab, row in zip(m.imgs.index.tolist(), m.imgs.itertuples(index=False, name=None)):
        d = dict(zip(cols, row))
        rows.append(dict(label=int(lab), z=_canon_cell(d[sid]), cells=[_canon_cell(d[c]) for c in rest], removed=_canon_cell(d.get("Removed"))))
    return dict(info=[[str(k), _canon_cell(v)] for k, v in m.project_info.items()], titles=list(m.titles), sid=sid, cols=rest, rows=rows,
                columns_all=cols)


def _exc(e):
    """an exception as an observation; `in_cryocat` says whether any frame of its traceback lies inside /cryocat/ (G4: a failure of
    the harness or of a third-party library outside any cryoCAT call is not a finding about cryoCAT)"""
    import traceback
    tb = traceback.extract_tb(e.__traceback__)
    return {"raise": f"{type(e).__name__}: {str(e)[:200]}", "type": type(e).__name__, "in_cryocat": any("/cryocat/" in fr.filename for fr in tb)}


def _try(f):
    try:
        return f()
    except Exception as e:
        return _exc(e)


# spec / corr discipline (round 7): clauses the statement is SILENT about - a caller-owned input edited in place, the dtype of a result, the row
# index of a returned table, which exception a refusal raises - are `corr`; `spec` is kept for the clauses of the statement itself
def _raised(r, clause, detail, kind="spec", **kw):
    """finding for an observation {"raise": …}: `kind` when cryoCAT code was on the stack, else corr/harness-or-library-raised"""
    if r.get("in_cryocat", True):
        return dict(kind=kind, clause=clause, detail=detail, **kw)
    return dict(kind="corr", clause="harness-or-library-raised", detail=f"{clause}: {detail} (no frame of the traceback is inside /cryocat/)")


def _apply_traced(m, steps, trace):
    """apply the op sequence to the Mdoc object, appending the canonical rows after every step that did not raise; returns the
    exception observation of the first step that raised, else None"""
    for st in steps:
        try:
            if st["k"] == "sort":
                if st.get("omit_kw"):
                    m.sort_by_tilt()
                else:
                    m.sort_by_tilt(reset_z_value=st.get("reset", False))
            elif st.get("omit_kw"):
                m.remove_images(list(st["idxs"]))
            else:
                m.remove_images(list(st["idxs"]), kept_only=st.get("kept_only", True))
        except Exception as e:
            return _exc(e)
        trace.append(_canon_mdoc(m)["rows"])
    return None


def run_mdoc(case):
    from cryocat import mdoc, ioutils
    out = {}
    with tempfile.TemporaryDirectory(prefix="c17_") as td:
        p = os.path.join(td, "a.mdoc")
        with open(p, "w", newline="") as f:
            f.write(case["text"])
        try:
            m = mdoc.Mdoc(p)
        except Exception as e:
            return {"parsed": _exc(e)}
        out["parsed"] = _canon_mdoc(m)
        # round trip of the freshly read object (all images written)
        p2 = os.path.join(td, "b.mdoc")
        m.write(p2, overwrite=True, removed=True)
        out["fresh_written"] = open(p2, newline="").read()
        out["fresh_reread"] = _try(lambda: _canon_mdoc(mdoc.Mdoc(p2)))
        # operation sequence; the table is recorded after EVERY step (trace): with equal tilt angles the order pandas' quicksort leaves
        # inside a tie group is the implementation's choice, and a later remove_images(index) refers to it
        out["trace"] = []
        failed = _apply_traced(m, case.get("steps", []), out["trace"])
        if failed:
            out["after"] = failed
        else:
            out["after"] = _canon_mdoc(m)
            kept = m.kept_images()
            out["kept_labels"] = [int(i) for i in kept.index.tolist()]
            out["removed_labels"] = [int(i) for i in m.removed_images().index.tolist()]
            p3 = os.path.join(td, "c.mdoc")
            if case.get("write_removed", False) is None:
                m.write(p3, overwrite=True)
            else:
                m.write(p3, overwrite=True, removed=case.get("write_removed", False))
            out["written"] = open(p3, newline="").read()
            out["reread"] = _try(lambda: _canon_mdoc(mdoc.Mdoc(p3)))
        # write() with out_path omitted: the object is written back to the file it was read from (overwrite=True needed; without it the
        # documented FileExistsError) - on a copy, so that the loaders below still see the original text
        p4 = os.path.join(td, "d.mdoc")
        with open(p4, "w", newline="") as f:
            f.write(case["text"])

        def self_write():
            m4 = mdoc.Mdoc(p4)
            refused = None
            try:
                m4.write()
                refused = False
            except Exception as e:
                refused = type(e).__name__
            m4.write(overwrite=True)
            return dict(refused=refused, text=open(p4, newline="").read(), reread=_try(lambda: _canon_mdoc(mdoc.Mdoc(p4))))
        out["self_write"] = _try(self_write)
        cols = out["parsed"]["cols"]
        dts = out["dtypes"] = {}
        if "ExposureDose" in cols and "PriorRecordDose" in cols:
            def dose():
                a = ioutils.total_dose_load(p)
                dts["dose"] = str(a.dtype)
                return [_canon_cell(x) for x in a.tolist()]
            out["dose"] = _try(dose)
        out["tilts"] = _try(lambda: _floats(ioutils.tlt_load(p, False), dts, "tilts"))

        def gta():
            # the console-level mdoc.get_tilt_angles(path, output_file): the TiltAngle column in file order, also written one value per line
            q = os.path.join(td, "angles.tlt")
            a = mdoc.get_tilt_angles(p, output_file=q)
            return dict(ret=_floats(a), file=[l.strip() for l in open(q).read().split("\n") if l.strip()],
                        ret_no_file=(_floats(mdoc.get_tilt_angles(p)) if small else None))
        small = len(out["parsed"]["rows"]) <= 12       # every extra Mdoc(path) costs one pd.concat per image: the second forms only on small files
        out["get_tilt_angles"] = _try(gta)

        def script_sort():
            # the console-level mdoc.sort_mdoc_by_tilt_angles(path, reset_z_value, output_file) (round 7, item 4: was pinned by a digest only)
            reset = len(case["text"]) % 2 == 0
            q = os.path.join(td, "sorted.mdoc")
            sm = mdoc.sort_mdoc_by_tilt_angles(p, reset_z_value=reset, output_file=q)
            return dict(reset=reset, rows=_canon_mdoc(sm)["rows"], reread=_try(lambda: _canon_mdoc(mdoc.Mdoc(q))))
        if small:
            out["script_sort"] = _try(script_sort)
        out["tilts_sorted"] = _try(lambda: _floats(ioutils.tlt_load(p), dts, "tilts_sorted"))
    return out


# ------------------------------------------------------------------ mdoc: comparison with the model
def _is_exp(i, f):
    return len(i) >= 17 or (i == "0" and f != "0" and len(f) - len(f.lstrip("0")) >= 4)


def _cell_eq(impl, mod):
    """implementation cell (canonical) vs model value"""
    if mod[0] == "i":
        return impl[0] == "i" and impl[1] == mod[1]
    if mod[0] == "s":
        return impl[0] == "s" and impl[1] == mod[1]
    if mod[0] == "f":
        return impl[0] == "f" and float(impl[1]) == float(mod[1] + "." + mod[2])
    if mod[0] == "t":
        if impl[0] != "f":
            return False
        x = float(impl[1]); y = float(mod[2] + "." + mod[3])
        return abs(x) == y and (math.copysign(1.0, x) < 0) == bool(mod[1])
    return False


def _mdoc_eq(impl, mod, labels=False):
    """None when equal, else a short description of the first difference"""
    if mod is None:
        return "model has no value (rejects / outside modelled class)"
    if "raise" in impl:
        return "implementation raised: " + impl["raise"]
    if [k for k, _ in impl["info"]] != [k for k, _ in mod["info"]]:
        return f"header keys {[k for k, _ in impl['info']]} vs {[k for k, _ in mod['info']]}"
    for (k, a), (_, b) in zip(impl["info"], mod["info"]):
        if not _cell_eq(a, b):
            return f"header {k}: {a} vs {b}"
    if impl["titles"] != mod["titles"]:
        return f"titles {impl['titles']} vs {mod['titles']}"
    if impl["sid"] != mod["sid"] or impl["cols"] != mod["cols"]:
        return f"section id / columns {impl['sid']} {impl['cols']} vs {mod['sid']} {mod['cols']}"
    if len(impl["rows"]) != len(mod["rows"]):
        return f"{len(impl['rows'])} rows vs {len(mod['rows'])}"
    for n, (a, b) in enumerate(zip(impl["rows"], mod["rows"])):
        if a["z"] != ["i", b["z"]]:
            return f"row {n}: section value {a['z']} vs {b['z']}"
        if a["removed"] != ["b", b["removed"]]:
            return f"row {n}: Removed {a['removed']} vs {b['removed']}"
        for c, x, y in zip(impl["cols"], a["cells"], b["cells"]):
            if not _cell_eq(x, y):
                return f"row {n} column {c}: {x} vs {y}"
    return None


def _strip_rows(obj):
    return [dict(z=r["z"], cells=r["cells"]) for r in obj["rows"]]


def _same_object(a, b, ignore_flags=False):
    """two canonical implementation objects: same header entries and the same per-image table?"""
    if "raise" in a or "raise" in b:
        return "raised: " + str(a.get("raise") or b.get("raise"))
    for k in ("info", "titles", "sid", "cols"):
        if a[k] != b[k]:
            if k == "info":
                d = [(x, y) for x, y in zip(a[k], b[k]) if x != y]
                return f"header entry {d[0][0]} became {d[0][1]}" if d else f"header keys differ"
            return f"{k}: {a[k]} became {b[k]}"
    if len(a["rows"]) != len(b["rows"]):
        return f"{len(a['rows'])} images became {len(b['rows'])}"
    for n, (x, y) in enumerate(zip(a["rows"], b["rows"])):
        if x["z"] != y["z"]:
            return f"image {n}: section value {x['z']} became {y['z']}"
        for c, u, v in zip(a["cols"], x["cells"], y["cells"]):
            if u != v:
                return f"image {n} column {c}: {u} became {v}"
        if not ignore_flags and x["removed"] != y["removed"]:
            return f"image {n}: Removed {x['removed']} became {y['removed']}"
    return None


def _k1_only(a, b):
    """True when the ONLY differences between object a and its re-read b are floats of the exponent-form class that came back as the
    text Python printed for them (class of the known finding C17-K1). Images are compared on their ENTRIES key -> value (a NaN cell = the
    image has no such key), as `_same_images` does - not on the column list: when the first written section lacks a key, the re-read table
    carries that column last, which is no difference between the two files' images (round 7, item 1: false alarm on seeds 105, 137, ...)."""
    if "raise" in a or "raise" in b:
        return False
    if [x[0] for x in a["info"]] != [x[0] for x in b["info"]] or a["titles"] != b["titles"] or a["sid"] != b["sid"] or len(a["rows"]) != len(b["rows"]):
        return False
    pairs = [(x[1], y[1]) for x, y in zip(a["info"], b["info"])]
    for x, y in zip(a["rows"], b["rows"]):
        if x["z"] != y["z"]:
            return False
        ex = {c: v for c, v in zip(a["cols"], x["cells"]) if not _is_nan_cell(v)}
        ey = {c: v for c, v in zip(b["cols"], y["cells"]) if not _is_nan_cell(v)}
        if set(ex) != set(ey):
            return False
        pairs += [(ex[c], ey[c]) for c in ex]
    diff = [(u, v) for u, v in pairs if u != v]
    if not diff:
        return False
    for u, v in diff:
        if not (u[0] == "f" and v[0] == "s" and v[1] == u[1] and "e" in u[1]):
            return False
        x = float(u[1])
        if not (0 < x < 1e-4 or x >= 1e16):
            return False
    return True


def _frac_cell(c):
    try:
        return Fraction(c[1]) if c[0] in ("i", "f") else None
    except (ValueError, OverflowError):
        return None


def _is_nan_cell(c):
    return c[0] == "f" and c[1] == "nan"


def _same_images(a, b, ignore_flags=False):
    """two canonical objects whose sections may carry different key sets: same header entries, titles, section id, and image by image the same
    section value and the same ENTRIES key -> value (a NaN cell = the image has no such key). The column LIST is not compared: it is derived
    from the first section of whatever file is read (a column whose only entries belonged to images that were not written is gone, rightly)"""
    if "raise" in a or "raise" in b:
        return "raised: " + str(a.get("raise") or b.get("raise"))
    for k in ("info", "titles", "sid"):
        if a[k] != b[k]:
            return f"{k}: {a[k]} became {b[k]}"
    if len(a["rows"]) != len(b["rows"]):
        return f"{len(a['rows'])} images became {len(b['rows'])}"
    for n, (x, y) in enumerate(zip(a["rows"], b["rows"])):
        if x["z"] != y["z"]:
            return f"image {n}: section value {x['z']} became {y['z']}"
        ex = {c: v for c, v in zip(a["cols"], x["cells"]) if not _is_nan_cell(v)}
        ey = {c: v for c, v in zip(b["cols"], y["cells"]) if not _is_nan_cell(v)}
        if ex != ey:
            k = sorted(set(ex) ^ set(ey)) or [c for c in ex if ex[c] != ey[c]]
            return f"image {n}: entries {[(c, ex.get(c)) for c in k[:3]]} became {[(c, ey.get(c)) for c in k[:3]]}"
        if not ignore_flags and x["removed"] != y["removed"]:
            return f"image {n}: Removed {x['removed']} became {y['removed']}"
    return None


def _judge_written(case, obs, A, same=None):
    """SPEC: the written file omits exactly the removed images, and re-reads to the header and table of the images written"""
    same = same or _same_object
    out = []
    wr = bool(case.get("write_removed", False))        # None = keyword omitted = the documented default False
    want = [r for r in A["rows"] if wr or r["removed"] == ["b", False]]
    nsec = sum(1 for l in obs["written"].split("\n") if l.startswith("[" + A["sid"]))
    R = obs["reread"]
    if nsec != len(want):
        out.append(dict(kind="spec", clause="written-omits-removed", detail=f"{nsec} sections written, {len(want)} images are to be written"))
    elif not want:
        # EVERY image is removed: the file cryoCAT writes has a header and no section, and Mdoc(path) cannot read it back (open known finding
        # C17-K4: `_read_mdoc` takes the section id and the columns from the first section; UnboundLocalError without one)
        if "raise" in R:
            out.append(_raised(R, "written-omits-removed", "all images are removed: the written file (header only, no section) cannot be re-read: " + R["raise"],
                               all_removed=(R.get("type") == "UnboundLocalError")))
        elif R["rows"] or R["info"] != A["info"] or R["titles"] != A["titles"]:
            out.append(dict(kind="spec", clause="written-omits-removed", detail="all images are removed, yet the re-read of the written file has images or another header"))
    elif "raise" in R:
        out.append(_raised(R, "written-omits-removed", "written file cannot be re-read: " + R["raise"]))
    else:
        W = dict(A, rows=want)
        d = same(W, R, ignore_flags=True)
        if d:
            # a difference that consists ONLY of exponent-form floats re-read as text is the open finding C17-K1 showing in the written file
            # (k1 flag: classified as C17-K1, exactly when every differing entry is such a change)
            out.append(dict(kind="spec", clause="written-omits-removed", detail="re-read of the written file: " + d, k1=_k1_only(W, R)))
    return out


def _judge_mdoc_impl_only(case, obs):
    """a text whose sections carry DIFFERENT KEY SETS (pandas fills the missing cells with NaN): the model does not describe the reading of this
    class (dtype inference of `pd.concat` for late columns), but the statement does not exclude it - "an mdoc written by cryoCAT re-reads to the
    same header entries and the same per-image table", sorting / removing change only order / flag, the written file omits exactly the removed
    images. These clauses are evaluated on the IMPLEMENTATION ALONE (spec; no model comparison). Before fix C17-fix-1 `write` printed a NaN
    cell as `key = nan`, re-read as the text 'nan'."""
    out = []
    P = obs["parsed"]
    d = _same_images(P, obs["fresh_reread"])
    if d:
        out.append(dict(kind="spec", clause="mdoc-roundtrip", detail="sections with different key sets; after write + re-read: " + d, k1=_k1_only(P, obs["fresh_reread"])))
    sw = obs.get("self_write")
    if isinstance(sw, dict) and "raise" not in sw:
        d = _same_images(P, sw["reread"])
        if d and not _k1_only(P, sw["reread"]):
            out.append(dict(kind="spec", clause="mdoc-roundtrip", detail="after write(overwrite=True) [out_path omitted] + re-read: " + d))
    A = obs["after"]
    if "raise" in A:
        return out
    rp = _replay(P, case["steps"], obs.get("trace", []))
    out += rp["findings"]
    for k in ("info", "titles", "sid", "cols"):      # the operations themselves do not touch the column list
        if A[k] != P[k]:
            out.append(dict(kind="spec", clause="ops-change-header", detail=k))
    out += _judge_written(case, obs, A, _same_images)
    return out


def judge_mdoc(case, obs, resp):
    out = []
    mod = resp
    if "error" in mod:
        return [dict(kind="corr", clause="driver-error", detail=str(mod))]
    if mod["parsed"] is None:
        # the model reads nothing: either the code must raise (why = raises), or the text belongs to a NAMED class outside the
        # quantifier (sections with different key sets, '[' line / repeated key inside a section, int()-only section values, nan / inf
        # tilts): then nothing is compared, explicitly - stats() counts the case under mdoc_outside_class
        why = mod.get("why") or "raises"
        if why == "raises":
            if "raise" not in obs["parsed"]:
                out.append(dict(kind="corr", clause="malformed-accepted", detail=f"{case.get('malformed') or case.get('odd')}: reader accepted, the model says the code raises"))
            elif not obs["parsed"].get("in_cryocat", True):
                out.append(_raised(obs["parsed"], "reader-raises", obs["parsed"]["raise"]))
        elif why == "different-key-sets" and "raise" not in obs["parsed"] and "TiltAngle" in obs["parsed"]["cols"]:
            out += _judge_mdoc_impl_only(case, obs)
        return out
    if mod.get("long_float") and "raise" not in obs["parsed"] and not case.get("malformed"):
        # a float with more than 15 significant digits: outside the model's recorded assumption on repr(float) (the model keeps the file's digits,
        # Python the nearest double); a NAMED class the model does not describe - the statement is evaluated on the implementation alone
        return _judge_mdoc_impl_only(case, obs)
    if case.get("malformed"):
        if "raise" in obs["parsed"]:
            out.append(dict(kind="corr", clause="malformed-model-accepts", detail=f"{case['malformed']}: reader raised {obs['parsed']['raise']}, model accepts"))
        return out
    if "raise" in obs["parsed"]:
        return [_raised(obs["parsed"], "reader-raises", obs["parsed"]["raise"])]
    P = obs["parsed"]
    strict = bool(mod.get("strict", True))
    # (1) reading: implementation vs model
    d = _mdoc_eq(P, mod["parsed"])
    if d:
        out.append(dict(kind="corr", clause="read-vs-model", detail=d))
    # (2) SPEC round trip: what was read, written, re-read is the same header and table
    d = _same_object(P, obs["fresh_reread"])
    if d:
        out.append(dict(kind="spec", clause="mdoc-roundtrip", detail="after write + re-read: " + d, k1=_k1_only(P, obs["fresh_reread"])))
        if strict and (mod.get("wf") or mod.get("text_ok")):
            out.append(dict(kind="corr", clause="theorem-hypotheses-hold-but-roundtrip-fails",
                            detail=f"the text is in the class textOk={mod.get('text_ok')} / the model object passes wfb={mod.get('wf')} (hypotheses of "
                                   "read_write_read_text / read_write_read) yet the real round trip differs: " + d))
    if mod["fresh_written"] is not None and obs["fresh_written"] != "".join(l + "\n" for l in mod["fresh_written"]):
        out.append(dict(kind="corr", clause="written-text-vs-model", detail=_first_line_diff(obs["fresh_written"], mod["fresh_written"])))
    d = _mdoc_eq(obs["fresh_reread"], mod["fresh_reread"]) if "raise" not in obs["fresh_reread"] else ("re-read raised " + obs["fresh_reread"]["raise"])
    if d:
        out.append(dict(kind="corr", clause="reread-vs-model", detail=d))
    if strict and mod["parsed"] is not None and bool(mod.get("text_ok")) != bool(mod.get("wf")):
        out.append(dict(kind="corr", clause="text_class_exact-contradicted", detail=f"the model reads the text, textOk={mod.get('text_ok')} but wfb={mod.get('wf')}"))
    if mod.get("tilt_ties") is not None and bool(mod["tilt_ties"]) != _has_ties(P):
        out.append(dict(kind="corr", clause="tilt-ties-vs-model", detail=f"model sees equal tilt angles: {mod['tilt_ties']}, the table read: {_has_ties(P)}"))
    # (2b) write() with the path omitted writes back to the file read (all images: none is removed yet, removed=False is the default)
    sw = obs.get("self_write")
    if isinstance(sw, dict):
        if "raise" in sw:
            out.append(_raised(sw, "mdoc-roundtrip", "write(overwrite=True) without out_path: " + sw["raise"]))
        else:
            if sw["refused"] != "FileExistsError":
                out.append(dict(kind="corr", clause="write-overwrite-refusal", detail=f"write() onto the existing input file without overwrite=True: {sw['refused']} (documented: FileExistsError)"))
            d = _same_object(P, sw["reread"])
            if d and not _k1_only(P, sw["reread"]):
                out.append(dict(kind="spec", clause="mdoc-roundtrip", detail="after write(overwrite=True) [out_path omitted: back to the file read] + re-read: " + d))
            if mod["fresh_written"] is not None and sw["text"] != "".join(l + "\n" for l in mod["fresh_written"]):
                out.append(dict(kind="corr", clause="written-text-vs-model", detail="write() without out_path: " + _first_line_diff(sw["text"], mod["fresh_written"])))
    # (3) operations
    A = obs["after"]
    if "raise" in A:
        if mod["after"] is not None:
            out.append(dict(kind="corr", clause="ops-raise", detail=f"implementation raised {A['raise']}, model does not"))
    else:
        if mod["after"] is None:
            out.append(dict(kind="corr", clause="ops-model-raises", detail="model refuses the op sequence, implementation accepts"))
        else:
            d = _mdoc_eq(A, mod["after"])
            if d:
                out.append(dict(kind="corr", clause="ops-vs-model", detail=d))
        # SPEC: only the order or the removed flag changes; the flags are exactly the ones the index semantics demand; the order after a sort is
        # ascending in the tilt angle (any arrangement of equal angles) - evaluated step by step on the observed tables, rows identified by content
        rp = _replay(P, case["steps"], obs.get("trace", []))
        out += rp["findings"]
        if any(f["clause"] == "sort-reset-adds-entry" for f in rp["findings"]):
            A = dict(A, cols=A["cols"][:len(P["cols"])], rows=[dict(r, cells=r["cells"][:len(P["cols"])]) for r in A["rows"]])
        for k in ("info", "titles", "sid", "cols"):
            if A[k] != P[k]:
                out.append(dict(kind="spec", clause="ops-change-header", detail=k))
        out += _judge_written(case, obs, A)
        if mod["written"] is not None and obs["written"] != "".join(l + "\n" for l in mod["written"]):
            out.append(dict(kind="corr", clause="ops-written-text-vs-model", detail=_first_line_diff(obs["written"], mod["written"])))
    # (4) loaders on the mdoc
    ti = P["cols"].index("TiltAngle")
    tl = [Fraction(r["cells"][ti][1]) for r in P["rows"]]
    for key, dt in obs.get("dtypes", {}).items():
        if not _numeric_dtype(dt):
            out.append(dict(kind="corr", clause="loader-dtype", detail=f"{key} of the mdoc comes back with dtype {dt}, not a numeric one"))
    g = obs.get("get_tilt_angles")
    if isinstance(g, dict):
        if "raise" in g:
            out.append(_raised(g, "get-tilt-angles", g["raise"]))
        else:
            def fr(xs):
                try:
                    return [Fraction(x) for x in xs]
                except (ValueError, ZeroDivisionError):
                    return None
            if fr(g["ret"]) != tl or (g["ret_no_file"] is not None and fr(g["ret_no_file"]) != tl):
                out.append(dict(kind="spec", clause="get-tilt-angles", detail=f"mdoc.get_tilt_angles returns {g['ret'][:6]}, the TiltAngle entries of the file are {[float(x) for x in tl[:6]]}"))
            elif fr(g["file"]) != tl:
                out.append(dict(kind="spec", clause="get-tilt-angles", detail=f"the file written by mdoc.get_tilt_angles(output_file=...) holds {g['file'][:6]}, the TiltAngle entries are {[float(x) for x in tl[:6]]}"))
    ss = obs.get("script_sort")
    if isinstance(ss, dict) and not case.get("odd") and None not in [_tilt_of(r, ti) for r in P["rows"]]:
        if "raise" in ss:
            out.append(_raised(ss, "script-sort", "sort_mdoc_by_tilt_angles: " + ss["raise"]))
        else:
            st = [dict(k="sort", reset=ss["reset"])]
            rp2 = _replay(P, st, [ss["rows"]], "sort_mdoc_by_tilt_angles: ")
            out += rp2["findings"]
            if ss["reset"] and [r["z"] for r in ss["rows"]] != [["i", str(k)] for k in range(len(ss["rows"]))]:
                out.append(dict(kind="corr", clause="script-sort-reset", detail="sort_mdoc_by_tilt_angles(reset_z_value=True): the section values are not renumbered 0..n-1"))
            if not rp2["findings"] and "rows" in ss.get("reread", {}):
                d = _same_object(dict(P, rows=ss["rows"]), ss["reread"], ignore_flags=True)
                if d and not _k1_only(dict(P, rows=ss["rows"]), ss["reread"]):
                    out.append(dict(kind="spec", clause="script-sort", detail="the file written by sort_mdoc_by_tilt_angles(output_file=...) re-read: " + d))
    for key, want in (("tilts", tl), ("tilts_sorted", sorted(tl))):
        got = obs[key]
        if isinstance(got, dict):
            out.append(_raised(got, "tlt_load-mdoc-raises", got["raise"]))
        elif [Fraction(x) for x in got] != want:
            out.append(dict(kind="spec", clause="tlt_load-mdoc", detail=f"{key}: {got[:6]}... expected {[float(x) for x in want[:6]]}"))
        elif mod[key] is not None and [Fraction(a, b) for a, b in mod[key]] != [_dec_of_float(x) for x in got]:
            out.append(dict(kind="corr", clause="tlt_load-mdoc-vs-model", detail=key))
    if "dose" in obs:
        ei, pi = P["cols"].index("ExposureDose"), P["cols"].index("PriorRecordDose")
        srt = sorted(P["rows"], key=lambda r: Fraction(r["cells"][ti][1]))
        keys = [Fraction(r["cells"][ti][1]) for r in srt]
        want = [(_frac_cell(r["cells"][ei]), _frac_cell(r["cells"][pi])) for r in srt]
        got = obs["dose"]
        if isinstance(got, dict):
            if all(a is not None and b is not None for a, b in want):
                out.append(_raised(got, "mdoc-dose-raises", got["raise"]))
            elif mod["dose"] is not None:
                out.append(dict(kind="corr", clause="mdoc-dose", detail="implementation raises, model does not"))
        else:
            # images with EQUAL tilt angles may come in any order (the loader sorts with pandas' quicksort; the statement fixes the order by the
            # angle only): inside a group of equal angles the doses are compared as multisets (theorem sorted_perm_unique_up_to_ties, part 2 with f = the dose)
            tol = lambda x: F64 * abs(x)            # a + b in float64, both non-negative: relative, see the derivation at F64
            bad = None
            if len(got) != len(want):
                bad = f"{len(got)} doses for {len(want)} images"
            elif any(g[0] not in ("i", "f") for g in got):
                n = next(n for n, g in enumerate(got) if g[0] not in ("i", "f"))
                bad = f"image {n} in tilt order: the dose comes back as {got[n]}, not a number"
            elif any(a is None or b is None for a, b in want):
                bad = "ExposureDose / PriorRecordDose of an image is not a number, yet a dose is returned"
            else:
                n = 0
                for gg, ww in zip(_tie_groups(keys, [Fraction(g[1]) for g in got]), _tie_groups(keys, [a + b for a, b in want])):
                    for g, w in zip(sorted(gg), sorted(ww)):
                        if abs(g - w) > tol(w) and bad is None:
                            bad = (f"image(s) {n}..{n + len(ww) - 1} in tilt order (tilt {float(keys[n])}): dose(s) {[float(x) for x in sorted(gg)]}, "
                                   f"prior + exposure = {[float(x) for x in sorted(ww)]}")
                    n += len(ww)
            if bad:
                out.append(dict(kind="spec", clause="mdoc-dose", detail=bad))
            md = mod["dose"]
            ok = md is not None and len(md) == len(got) and all(g[0] in ("i", "f") for g in got)
            if ok:
                for gg, mm in zip(_tie_groups(keys, [Fraction(g[1]) for g in got]), _tie_groups(keys, [Fraction(a, b) for a, b in md])):
                    ok = ok and all(abs(g - m) <= tol(m) for g, m in zip(sorted(gg), sorted(mm)))
            if not ok:
                out.append(dict(kind="corr", clause="mdoc-dose-vs-model", detail=f"{got[:4]} vs {md and md[:4]}"))
    return out


def _dec_of_float(s):
    return Fraction(s)


def _first_line_diff(text, lines):
    a = text.split("\n")
    for n, (x, y) in enumerate(zip(a, lines + [""])):
        if x != y:
            return f"line {n}: file has {x!r}, model prints {y!r}"
    return f"file has {len(a)} lines, model prints {len(lines)}"


def _tilt_of(row, ti):
    try:
        return Fraction(row["cells"][ti][1])
    except (ValueError, ZeroDivisionError, OverflowError):
        return None         # nan / inf: class tilt-form, outside the quantifier


def _content(r, with_z):
    return (tuple(tuple(c) for c in r["cells"]), (tuple(r["z"]) if with_z else None), tuple(r["removed"]))


def _bare(rows, ncol=None):
    return [dict(z=r["z"], cells=(r["cells"] if ncol is None else r["cells"][:ncol]), removed=r["removed"]) for r in rows]


def _step_kw(st):
    """(kept_only, zero-based indices) of a remove step; an omitted keyword / the console-level call means the documented default"""
    kept_only = True if st.get("omit_kw") or "from1" in st else st.get("kept_only", True)
    idxs = [i - 1 for i in st["idxs"]] if st.get("from1") else list(st["idxs"])
    return kept_only, idxs


def _has_ties(P):
    if "rows" not in P or "TiltAngle" not in P.get("cols", []):
        return False
    ti = P["cols"].index("TiltAngle")
    tl = [_tilt_of(r, ti) for r in P["rows"]]
    return None not in tl and len(set(tl)) < len(tl)


def _replay(P, steps, trace, what=""):
    """The statement - "sorting by tilt and removing images change only the order or the removed flag" - evaluated STEP BY STEP on the tables
    the implementation went through (independent of the model). Rows are identified by their CONTENT (section value, cells, flag), never by
    the DataFrame index label (of which the statement says nothing: `sort_values(ignore_index=True)` is a harmless edit). A sort step is right
    when the new table is a rearrangement of the old rows that is ascending in the tilt angle - ANY such rearrangement: pandas' quicksort
    promises no order inside a group of equal angles, and neither does the statement. A remove step is right when nothing but flags changed and
    the flags are the ones Python indexing into the kept (kept_only) / all images of the CURRENT table order demands.
    Returns dict(findings, orders, raise_expected): orders[k] = for sort step k the position in the previous table of every row of the new one
    (None for other steps / when the rows cannot be matched); raise_expected = whether the step at which the trace ends must raise
    (an index out of range), None when every step has a trace entry."""
    ti = P["cols"].index("TiltAngle")
    ncol = len(P["cols"])
    prev = _bare(P["rows"])
    finds, orders, extra = [], [], False
    res = dict(findings=finds, orders=orders, raise_expected=None)
    for k, st in enumerate(steps):
        if st["k"] != "sort":
            kept_only, idxs = _step_kw(st)
            pool = [i for i, r in enumerate(prev) if r["removed"] == ["b", False]] if kept_only else list(range(len(prev)))
            in_range = all(-len(pool) <= i < len(pool) for i in idxs)
        if k >= len(trace):
            res["raise_expected"] = (st["k"] != "sort" and not in_range)
            return res
        cur = trace[k]
        if extra or (st["k"] == "sort" and st.get("reset") and P["sid"] != "ZValue" and cur and all(len(r["cells"]) == ncol + 1 for r in cur)):
            # regression of fix 6061ac6 (formerly C17-K3): reset_z_value=True on a FrameSet mdoc added a column ZValue = k to the table (one more
            # entry in every image) - reported ONCE, under its own clause; the column is then set aside so that the other clauses are still judged
            if not extra:
                finds.append(dict(kind="spec", clause="sort-reset-adds-entry",
                                  detail=f"{what}sort_by_tilt(reset_z_value=True) on a {P['sid']} mdoc: sorting must change only the order, but every image gained an "
                                         f"entry 'ZValue = k' ({ncol} columns became {ncol + 1}) while the {P['sid']} values were not renumbered"))
                extra = True
            cur = _bare(cur, ncol)
        else:
            cur = _bare(cur)
        if st["k"] == "sort":
            reset = bool(st.get("reset"))
            pool = {}
            for i, r in enumerate(prev):
                pool.setdefault(_content(r, not reset), []).append(i)
            order, bad = [], None
            for r in cur:
                q = pool.get(_content(r, not reset))
                if not q:
                    bad = r
                    break
                order.append(q.pop(0))
            if bad is not None or len(cur) != len(prev):
                finds.append(dict(kind="spec", clause="ops-change-cells",
                                  detail=f"{what}step {k + 1} (sort_by_tilt): the table is no rearrangement of the rows it had before: "
                                         + (f"{len(prev)} rows became {len(cur)}" if bad is None else f"row {bad} was not there")))
                orders.append(None)
                return res
            tl = [_tilt_of(r, ti) for r in cur]
            if None not in tl and any(a > b for a, b in zip(tl, tl[1:])):
                finds.append(dict(kind="spec", clause="sort-order",
                                  detail=f"{what}step {k + 1}: tilt angles after sort_by_tilt are {[float(x) for x in tl][:12]}{'...' if len(tl) > 12 else ''} - not ascending"))
            orders.append(order)
        else:
            orders.append(None)
            if not in_range:
                return res          # the call had to raise (IndexError) and did not: documented Python indexing, judged against the model (corr)
            if len(cur) != len(prev) or any((a["z"], a["cells"]) != (b["z"], b["cells"]) for a, b in zip(cur, prev)):
                n = next((j for j, (a, b) in enumerate(zip(cur, prev)) if (a["z"], a["cells"]) != (b["z"], b["cells"])), min(len(cur), len(prev)))
                finds.append(dict(kind="spec", clause="ops-change-cells",
                                  detail=f"{what}step {k + 1} (remove_images): something other than a removed flag changed at table position {n}"))
                return res
            exp = [r["removed"] == ["b", True] for r in prev]
            for i in idxs:
                exp[pool[i]] = True
            got = [r["removed"] == ["b", True] for r in cur]
            if got != exp:
                finds.append(dict(kind="spec", clause="removed-flags",
                                  detail=f"{what}step {k + 1}: after remove_images({idxs}, kept_only={kept_only}) the images flagged removed are at table positions "
                                         f"{[j for j, g in enumerate(got) if g]}, the index subset demands {[j for j, g in enumerate(exp) if g]}"))
        prev = cur
    res["final"] = prev
    return res


def _tie_orders(P, steps, trace):
    """for the driver: the arrangement the implementation chose at every sort step - only when the table holds equal tilt angles (otherwise
    the model sorts on its own; theorem sorted_perm_unique_up_to_ties: without ties there is exactly one ascending arrangement)"""
    if not _has_ties(P):
        return [None] * len(steps)
    o = _replay(P, steps, trace)["orders"]
    return o + [None] * (len(steps) - len(o))


def _tie_groups(keys, vals):
    """vals partitioned along the runs of equal (ascending) keys"""
    out, i = [], 0
    while i < len(keys):
        j = i
        while j < len(keys) and keys[j] == keys[i]:
            j += 1
        out.append(vals[i:j])
        i = j
    return out


# ------------------------------------------------------------------ loaders and wedge lists: generators
def _rat(s):
    """a number for the driver. A decimal TOKEN of a text file goes over the wire AS TEXT: the model's `parseDecimal` turns it into the exact
    rational (round 5: the text -> number step of the loaders is inside the model; theorem parse_print_decimal). Anything else as an exact
    rational [numerator, denominator]."""
    if isinstance(s, str):
        return s
    fr = Fraction(s)
    return [fr.numerator, fr.denominator]


def _nearest(fr, p):
    """the binary floating-point number with a p-bit significand (24: float32, 53: float64) NEAREST to the rational fr, ties to even - by exact
    integer arithmetic, independent of numpy and of Python's float parser (both are probed against it on every run: probe nearest-float).
    Normal range only (|fr| between 1e-30 and 1e30 or zero: no subnormals / overflow among generated values). Returned as a Python float (exact)."""
    fr = Fraction(fr)
    if fr == 0:
        return 0.0
    a = abs(fr)
    e = a.numerator.bit_length() - a.denominator.bit_length()
    if Fraction(2) ** e > a:
        e -= 1                       # now 2^e <= a < 2^(e+1)
    q = a / Fraction(2) ** (e - p + 1)          # in [2^(p-1), 2^p)
    n = q.numerator // q.denominator
    r = q - n
    if r > Fraction(1, 2) or (r == Fraction(1, 2) and n % 2 == 1):
        n += 1
    v = Fraction(n) * Fraction(2) ** (e - p + 1)
    out = v.numerator / v.denominator           # exact: v has at most p <= 53 significant bits
    return -out if fr < 0 else out


def _is_nearest(x, fr, widths=(24, 53)):
    """x (repr of a returned number) is EXACTLY the float nearest to fr for one of the float widths (the statement does not name the width;
    which one the reader uses is a translator anchor: one_value_dtype_documented)"""
    try:
        v = float(x)
    except (TypeError, ValueError):
        return False
    return any(v == _nearest(fr, p) for p in widths)


def _width(dtype):
    return (24,) if str(dtype) == "float32" else ((53,) if str(dtype) in ("float64", "list", "ndarray") else (24, 53))


def _asc_tilts(rng, n):
    """n distinct ascending tilt angles as decimal texts"""
    step = rng.choice([1, 2, 3])
    start = -rng.randint(0, step * n)
    vals = []
    x = Fraction(start)
    for _ in range(n):
        x += Fraction(rng.randint(50, 300), 100) if rng.random() < 0.5 else Fraction(step)
        vals.append(x)
    return [f"{float(v):.2f}" for v in vals]


def _ctf_rows(rng, n):
    rows = []
    for i in range(n):
        u = f"{rng.uniform(5000, 60000):.{rng.choice([2, 6])}f}"
        v = f"{rng.uniform(5000, 60000):.{rng.choice([2, 6])}f}"
        a = f"{rng.uniform(-90, 90):.6f}"
        p = f"{rng.uniform(0, 3):.6f}"
        rows.append([u, v, a, p])
    return rows


TLT_EXTS = [".tlt", ".rawtlt", ".txt", ".csv", "", ".tlt.bak", ".mdoc.txt", ".xmlx"]
FILE_TYPES = {"gctf": ["gctf", "GCTF", "Gctf", "gCTF"], "ctffind": ["ctffind4", "CTFFIND4", "CtfFind4"]}


def gen_load_in(rng, sub, n):
    """input-dispatch cases of tlt_load / total_dose_load / defocus_load"""
    if sub in ("tlt_in", "dose_in"):
        k = rng.random()
        case = dict(kind="load", sub=sub, sort=(None if rng.random() < 0.6 else rng.random() < 0.5))
        if k < 0.12:
            case.update(input=rng.choice(["array", "list", "file"]), vals=[], ext=rng.choice(TLT_EXTS))       # empty input
        elif k < 0.4:
            case.update(input=rng.choice(["array", "list"] + (["tuple"] if sub == "dose_in" else [])),      # total_dose_load takes a tuple like a list (fix fb2f9e8)
                        vals=[f"{rng.uniform(-70, 200):.{rng.randint(0, 3)}f}" for _ in range(n)])
        elif k < 0.75:
            case.update(input="file", ext=rng.choice(TLT_EXTS), vals=[f"{rng.uniform(-70, 200):.{rng.randint(0, 3)}f}" for _ in range(n)])
        else:
            tilts = _asc_tilts(rng, n)
            doses = [[f"{rng.uniform(1, 4):.4f}", f"{rng.uniform(0, 150):.3f}"] for _ in range(n)]
            times = None
            if sub == "dose_in" and rng.random() < 0.35:
                # an mdoc WITHOUT PriorRecordDose: the dose is ExposureDose x (acquisition rank by DateTime + 1) (documented in total_dose_load; not a
                # clause of the statement, whose "mdoc dose = prior + exposure dose" needs a prior dose: judged as corr)
                times = rng.sample(range(0, 3500), n)
            case.update(input="file", ext=".mdoc", tilts=tilts, doses=doses, text=_mdoc_for_wedge(rng, tilts, doses, times), stem=rng.choice(["x", "TS_01.mrc", "a.tlt"]))
            if times is not None:
                case["times"] = times
        return case
    k = rng.random()
    case = dict(kind="load", sub=sub, rows=_ctf_rows(rng, n))
    if k < 0.2:
        case.update(input="frame")
    elif k < 0.4:
        case.update(input="array", width=(5 if rng.random() < 0.8 else rng.choice([4, 6])))
    else:
        content = rng.choice(["gctf", "ctffind"])
        ft = rng.choice(FILE_TYPES[content]) if rng.random() < 0.85 else rng.choice(["relion", "ctffind", "gctf2", ""])
        case.update(input="file", content=content, file_type=ft, phase=(rng.random() < 0.5))
        if content == "gctf":
            case["col_order"] = rng.choice(GCTF_ORDERS)
            case["perm"] = rng.sample(range(6), 6)
            if ft.lower() == "gctf" and rng.random() < 0.4:
                case["file_type"] = None        # G1: defocus_load(path) - the default file_type="gctf" runs
    return case


def gen_load(rng, tier):
    sub = rng.choice(["tlt", "tlt", "dose", "gctf", "gctf", "ctffind", "ctffind", "tlt_in", "tlt_in", "dose_in", "dose_in", "defocus_in", "defocus_in"])
    n = rng.randint(20, 80) if rng.random() < 0.1 else rng.randint(1, 12)
    if sub.endswith("_in"):
        return gen_load_in(rng, sub, n)
    if sub in ("tlt", "dose"):
        if sub == "tlt" and rng.random() < 0.6:
            vals = _asc_tilts(rng, n)
        else:
            vals = [f"{rng.uniform(-70, 200):.{rng.randint(0, 3)}f}" for _ in range(n)]
        return dict(kind="load", sub=sub, vals=vals, indent=rng.choice(["", "  ", "\t"]), ext=rng.choice([".tlt", ".txt", ".rawtlt"]))
    return dict(kind="load", sub=sub, rows=_ctf_rows(rng, n), phase=(rng.random() < 0.5), comments=rng.randint(0, 6),
                extra_cols=rng.randint(0, 3), col_order=rng.choice(GCTF_ORDERS), perm=rng.sample(range(8), 8))


def _mdoc_for_wedge(rng, tilts, doses, times=None):
    """a small well-formed mdoc in acquisition (shuffled) order carrying the given tilts and (exposure, prior) doses. With `times` (one
    acquisition time per image, seconds after 23:00:00) the file has NO PriorRecordDose but a DateTime entry: total_dose_load then takes the
    documented other route, ExposureDose x (rank of the image by DateTime + 1)"""
    order = list(range(len(tilts)))
    rng.shuffle(order)
    lines = ["PixelSpacing = 1.971", "Voltage = 300", "", "[T = SerialEM: generated]", ""]
    for z, j in enumerate(order):
        lines += [f"[ZValue = {z}]", f"TiltAngle = {tilts[j]}", f"ExposureDose = {doses[j][0]}"]
        if times is None:
            lines.append(f"PriorRecordDose = {doses[j][1]}")
        else:
            t = times[j]
            lines.append("DateTime = 06-Jun-23  23:%02d:%02d" % (t // 60, t % 60))
        lines += ["SubFramePath = X:\\frames\\f_%03d.tif" % z, ""]
    return "\n".join(lines) + "\n"


def gen_wedge(rng, tier):
    nt = rng.randint(1, 5)
    ids = rng.sample(range(1, 999), nt)
    ctf = rng.choice([None, "gctf", "ctffind4", "gctf"])
    dose = rng.choice([None, "txt", "mdoc", "txt"])
    tomos = []
    for t in ids:
        n = rng.randint(20, 80) if rng.random() < 0.08 else rng.randint(1, 9)
        tilts = _asc_tilts(rng, n)
        tm = dict(id=t, dims=[str(rng.randint(200, 4096)) for _ in range(3)], z=rng.choice(["0", f"{rng.uniform(-200, 200):.1f}", str(rng.randint(-50, 50))]),
                  tilts=tilts)
        if ctf:
            tm["ctf_rows"] = _ctf_rows(rng, n)
        if dose == "txt":
            tm["dose"] = [f"{rng.uniform(0.5, 4) * (i + 1):.3f}" for i in range(n)]
        elif dose == "mdoc":
            tm["mdoc_doses"] = [[f"{rng.uniform(1, 4):.4f}", f"{rng.uniform(0, 150):.3f}"] for _ in range(n)]
            tm["mdoc"] = _mdoc_for_wedge(rng, tilts, tm["mdoc_doses"])
        tomos.append(tm)
    case = dict(kind="wedge", tomos=tomos, ctf=ctf, dose=dose, phase=(rng.random() < 0.5),
                consts=dict(pixel=rng.choice(["1.327", "2.176", "10.8", "1"]), voltage=rng.choice(["300.0", "200.0"]), amp=rng.choice(["0.07", "0.1"]),
                            cs=rng.choice(["2.7", "2.0"])),
                tomo_list=rng.choice(["array", "file", "list"]), dims_mode=rng.choice(["array", "file", "single", "files", "com"]),
                z_mode=rng.choice(["array", "file", "scalar", "files", "com"]), tlt_from_mdoc=(dose == "mdoc" and rng.random() < 0.5))
    # "com" (round 7, item 3): one IMOD tilt.com per tomogram, named by tomo_dim_file_format / z_shift_file_format - dimensions from FULLIMAGE x y and
    # THICKNESS z, z-shift from the SECOND number of SHIFT (the first is the x-shift: written as a decoy)
    # "files": one dimension / z-shift file PER TOMOGRAM, named by tomo_dim_file_format / z_shift_file_format (M-8)
    # audit item 6: tilt FILES in acquisition (unsorted) order - tlt_load re-sorts them, ctf / dose lists stay in file order, the
    # i-th ascending tilt is paired with the i-th defocus / exposure of the files
    if rng.random() < 0.35:
        case["tilts_unsorted"] = True
        for tm in tomos:
            if "mdoc" not in tm:
                rng.shuffle(tm["tilts"])
    # the dimension / z-shift tables in another row order than the tomogram list, possibly with rows of further tomograms
    if rng.random() < 0.5:
        case["table_perm"] = rng.sample(range(nt), nt)
        if rng.random() < 0.4:
            case["table_extra"] = [dict(id=rng.choice([i for i in range(1, 999) if i not in ids]), dims=[str(rng.randint(200, 4096)) for _ in range(3)],
                                        z=f"{rng.uniform(-200, 200):.1f}")]
    if ctf == "gctf":
        case["col_order"] = rng.choice(GCTF_ORDERS)
        case["perm"] = rng.sample(range(6), 6)
    # G1: omit keywords so that the documented defaults run (voltage 300, amplitude contrast 0.07, cs 2.7, z_shift 0, ctf_file_type gctf)
    omit = []
    for k, d in (("voltage", "300.0"), ("amp", "0.07"), ("cs", "2.7")):
        if rng.random() < 0.3:
            case["consts"][k] = d
            omit.append(k)
    if ctf == "gctf" and rng.random() < 0.4:
        omit.append("ctf_file_type")
    if rng.random() < 0.12:
        omit.append("z_shift")
        case["z_mode"] = "scalar"
        for tm in tomos:
            tm["z"] = "0"
    case["omit"] = omit
    if case["dims_mode"] == "single":
        for tm in tomos:
            tm["dims"] = tomos[0]["dims"]
    if case["z_mode"] == "scalar":
        for tm in tomos:
            tm["z"] = tomos[0]["z"]
    if case["z_mode"] == "array" and rng.random() < 0.12:
        case["z_int_array"] = True      # integer-valued ndarray of z-shifts (fixed defect D26, commit e6f42f2)
        for tm in tomos + (case.get("table_extra") or []):
            tm["z"] = str(rng.randint(-50, 50))
    if nt >= 2 and rng.random() < 0.1:
        tomos.append(tomos[0])          # a tomogram listed twice, interleaved: one block per listing, sg->em merges them
        case["duplicate"] = True
    if rng.random() < 0.05 and (ctf or dose == "txt"):
        tm = rng.choice(tomos)          # inconsistent lengths: check_data_consistency must refuse
        if ctf and rng.random() < 0.5:
            tm["ctf_rows"] = tm["ctf_rows"] + _ctf_rows(rng, 1)
        elif dose == "txt":
            tm["dose"] = tm["dose"][:-1] if len(tm["dose"]) > 1 else tm["dose"] + ["1.0"]
        else:
            tm["ctf_rows"] = tm["ctf_rows"] + _ctf_rows(rng, 1)
        case["inconsistent"] = True
    return case


# ------------------------------------------------------------------ loaders and wedge lists: implementation adapter
GCTF_ORDERS = ["canonical", "canonical", "alphabetical", "angle-first", "phase-before-v", "v-before-u", "reversed", "shuffled"]


def _gctf_columns(phase, extra, order="canonical", perm=None):
    """column names of a gctf STAR loop in FILE order. gctf itself writes U, V, angle, …, phase shift; tools that re-save STAR files
    write other orders (alphabetical: angle < phase shift < U < V) - gctf_read selects by NAME, so every order must read the same"""
    core_cols = ["rlnDefocusU", "rlnDefocusV", "rlnDefocusAngle"] + (["rlnPhaseShift"] if phase else [])
    if order == "alphabetical":
        core_cols = sorted(core_cols)
    elif order == "angle-first":
        core_cols = ["rlnDefocusAngle"] + [c for c in core_cols if c != "rlnDefocusAngle"]
    elif order == "phase-before-v" and phase:
        core_cols = ["rlnDefocusU", "rlnPhaseShift", "rlnDefocusV", "rlnDefocusAngle"]
    elif order == "v-before-u":
        core_cols = ["rlnDefocusV", "rlnDefocusU"] + core_cols[2:]
    elif order == "reversed":
        core_cols = core_cols[::-1]
    cols = ["rlnMicrographName"] + [f"rlnExtra{i}" for i in range(extra)] + core_cols + ["rlnVoltage"]
    if order == "shuffled" and perm:
        base = cols
        cols = [base[i] for i in perm if i < len(base)] + [c for j, c in enumerate(base) if j not in perm]
    return cols


def _gctf_cells(rows, phase, extra):
    """per row: column name -> cell text"""
    out = []
    for i, r in enumerate(rows):
        d = {"rlnMicrographName": f"split.mrc.{i+1:02d}", "rlnDefocusU": r[0], "rlnDefocusV": r[1], "rlnDefocusAngle": r[2], "rlnVoltage": "300.000000"}
        if phase:
            d["rlnPhaseShift"] = r[3]
        for j in range(extra):
            d[f"rlnExtra{j}"] = "%d.5" % j
        out.append(d)
    return out


def _gctf_text(rows, phase, extra, order="canonical", perm=None):
    cols = _gctf_columns(phase, extra, order, perm)
    out = ["", "data_", "", "loop_"] + [f"_{c} #{i+1}" for i, c in enumerate(cols)]
    for d in _gctf_cells(rows, phase, extra):
        out.append(" ".join(d[c] for c in cols))
    return "\n".join(out) + "\n"


def _gctf_request(rows, phase, extra, order, perm):
    """code-level request: the numeric columns of the STAR table in FILE order + the rows by name for the specification-level reader"""
    cols = [c for c in _gctf_columns(phase, extra, order, perm) if c != "rlnMicrographName"]
    return dict(op="gctf_code", cols=cols, cells=[[_rat(d[c]) for c in cols] for d in _gctf_cells(rows, phase, extra)],
                rows=[[_rat(r[0]), _rat(r[1]), _rat(r[2]), (_rat(r[3]) if phase else None)] for r in rows])


def _ctffind_text(rows, comments):
    out = [f"# comment line {i}: micrograph number; defocus 1 [Angstroms]" for i in range(comments)]
    for i, r in enumerate(rows):
        out.append(f"{i+1}.000000 {r[0]} {r[1]} {r[2]} {r[3]} 0.001071 12.144508")
    return "\n".join(out) + "\n"


def _num(x):
    """one returned element WITHOUT coercion (G3): numbers as repr of their value, anything else (text, None, …) marked as such"""
    import numpy as np
    if isinstance(x, (bool, np.bool_)):
        return "bool:" + str(bool(x))
    if isinstance(x, (int, np.integer)):
        return repr(int(x))
    if isinstance(x, (float, np.floating)):
        return repr(float(x))
    return f"{type(x).__name__}:{x!r}"


def _floats(a, rec=None, key=None):
    import numpy as np
    if rec is not None:
        rec[key] = str(a.dtype) if isinstance(a, np.ndarray) else type(a).__name__
    return [_num(x) for x in (a.tolist() if isinstance(a, np.ndarray) else a)]


def _numeric_dtype(dt):
    """G3: a numeric result must not come back with a text dtype. `object` arrays / columns (pandas builds them for mdoc columns) are
    judged element by element: `_num` / `_canon_cell` keep the Python type of every element, a str element then fails the value clause"""
    return str(dt).startswith(("float", "int", "uint", "object", "ndarray", "list"))


def _df_rows(df):
    return dict(columns=[str(c) for c in df.columns], rows=[[_num(x) for x in r] for r in df.itertuples(index=False, name=None)],
                dtypes=[str(t) for t in df.dtypes])


def run_load_in(case):
    import numpy as np, pandas as pd
    from cryocat import ioutils
    out = {}
    with tempfile.TemporaryDirectory(prefix="c17_") as td:
        if case["sub"] in ("tlt_in", "dose_in"):
            if case["input"] == "array":
                inp = np.array([float(v) for v in case["vals"]], dtype=float)
            elif case["input"] == "list":
                inp = [float(v) for v in case["vals"]]
            elif case["input"] == "tuple":
                inp = tuple(float(v) for v in case["vals"])
            elif case["ext"] == ".mdoc":
                inp = os.path.join(td, case["stem"] + ".mdoc")
                open(inp, "w").write(case["text"])
            else:
                inp = os.path.join(td, "x" + case["ext"])
                open(inp, "w").write("".join(v + "\n" for v in case["vals"]))
            dts = out["dtypes"] = {}
            before = inp.copy() if isinstance(inp, np.ndarray) else (list(inp) if isinstance(inp, list) else None)
            if case["sub"] == "tlt_in":
                kw = {} if case["sort"] is None else dict(sort_angles=case["sort"])
                out["out"] = _try(lambda: _floats(ioutils.tlt_load(inp, **kw), dts, "out"))
            else:
                out["out"] = _try(lambda: _floats(ioutils.total_dose_load(inp), dts, "out"))
            if before is not None:
                out["input_unchanged"] = bool(np.array_equal(np.asarray(before), np.asarray(inp)))
            return out
        want = _expected_defocus(case["rows"])
        if case["input"] == "frame":
            df = pd.DataFrame([[float(x) for x in r] for r in want], columns=DEF_COLS)
            before = df.copy()
            res = ioutils.defocus_load(df) if case.get("omit_file_type") else ioutils.defocus_load(df, "gctf")
            out["same_object"] = res is df
            out["input_unchanged"] = bool(before.equals(df))
            out["out"] = _df_rows(res)
        elif case["input"] == "array":
            arr = np.array([[float(x) for x in r][:case["width"]] + [0.0] * max(0, case["width"] - 5) for r in want])
            out["out"] = _try(lambda: _df_rows(ioutils.defocus_load(arr, "gctf")))
        else:
            if case["content"] == "gctf":
                p = os.path.join(td, "x_gctf.star")
                open(p, "w").write(_gctf_text(case["rows"], case["phase"], 0, case.get("col_order", "canonical"), case.get("perm")))
            else:
                p = os.path.join(td, "x_ctffind4.txt")
                open(p, "w").write(_ctffind_text(case["rows"], 2))
            if case["file_type"] is None:
                out["out"] = _try(lambda: _df_rows(ioutils.defocus_load(p)))
            else:
                out["out"] = _try(lambda: _df_rows(ioutils.defocus_load(p, case["file_type"])))
    return out


def run_load(case):
    import numpy as np
    from cryocat import ioutils
    if case["sub"].endswith("_in"):
        return run_load_in(case)
    out = {}
    with tempfile.TemporaryDirectory(prefix="c17_") as td:
        if case["sub"] in ("tlt", "dose"):
            p = os.path.join(td, "x" + case["ext"])
            open(p, "w").write("".join(case["indent"] + v + "\n" for v in case["vals"]))
            dts = out["dtypes"] = {}
            if case["sub"] == "tlt":
                out["sorted"] = _floats(ioutils.tlt_load(p), dts, "sorted")
                out["unsorted"] = _floats(ioutils.tlt_load(p, sort_angles=False), dts, "unsorted")
                arr = np.array([float(v) for v in case["vals"]])
                out["array"] = _floats(ioutils.tlt_load(arr), dts, "array")
                out["list"] = _floats(ioutils.tlt_load([float(v) for v in case["vals"]]), dts, "list")
            else:
                out["file"] = _floats(ioutils.total_dose_load(p), dts, "file")
                arr = np.array([float(v) for v in case["vals"]])
                out["array"] = _floats(ioutils.total_dose_load(arr), dts, "array")
        else:
            if case["sub"] == "gctf":
                p = os.path.join(td, "x_gctf.star")
                open(p, "w").write(_gctf_text(case["rows"], case["phase"], case["extra_cols"], case.get("col_order", "canonical"), case.get("perm")))
                out["df"] = _df_rows(ioutils.gctf_read(p))
                out["df_load"] = _df_rows(ioutils.defocus_load(p, "gctf"))
            else:
                p = os.path.join(td, "x_ctffind4.txt")
                open(p, "w").write(_ctffind_text(case["rows"], case["comments"]))
                out["df"] = _df_rows(ioutils.ctffind4_read(p))
                out["df_load"] = _df_rows(ioutils.defocus_load(p, "ctffind4"))
            out["df_array"] = _try(lambda: _df_rows(ioutils.defocus_load(np.array([[float(x) for x in r] for r in out["df"]["rows"]]), "gctf")))
    return out


def _em_rows(path):
    """the EM wedge-list file read with emfile itself (load_wedge_list_em squeezes one-tomogram files into a vector and raises)"""
    import emfile, numpy as np
    _, data = emfile.read(path)
    a = np.asarray(data, dtype=float)
    a = a.reshape(-1, a.shape[-1])
    return dict(columns=["tomo_id", "min_tilt_angle", "max_tilt_angle"], rows=[[repr(float(x)) for x in r] for r in a.tolist()], dtypes=[])


def run_wedge(case):
    import numpy as np
    from cryocat import ioutils, wedgeutils
    out = {}
    tomos = case["tomos"]
    c = case["consts"]
    with tempfile.TemporaryDirectory(prefix="c17_") as td:
        for tm in tomos:
            t = tm["id"]
            open(os.path.join(td, f"{t:03d}.tlt"), "w").write("".join("  " + v + "\n" for v in tm["tilts"]))
            if "mdoc" in tm:
                open(os.path.join(td, f"{t:03d}.mdoc"), "w").write(tm["mdoc"])
            if "dose" in tm:
                open(os.path.join(td, f"{t:03d}_dose.txt"), "w").write("".join(v + "\n" for v in tm["dose"]))
            if "ctf_rows" in tm:
                if case["ctf"] == "gctf":
                    open(os.path.join(td, f"{t:03d}_gctf.star"), "w").write(_gctf_text(tm["ctf_rows"], case["phase"], 0, case.get("col_order", "canonical"), case.get("perm")))
                else:
                    open(os.path.join(td, f"{t:03d}_ctffind4.txt"), "w").write(_ctffind_text(tm["ctf_rows"], 3))
        ids = [tm["id"] for tm in tomos]
        if case["tomo_list"] == "file":
            tl = os.path.join(td, "tomo_list.txt")
            open(tl, "w").write("".join(f"{i}\n" for i in ids))
        elif case["tomo_list"] == "list":
            tl = list(ids)
        else:
            tl = np.array(ids)
        dims4 = [[tm["id"]] + [int(x) for x in tm["dims"]] for tm in _table_rows(case)]
        ztab = _table_rows(case)
        if case["dims_mode"] == "array":
            dims = np.array(dims4)
        elif case["dims_mode"] == "file":
            dims = os.path.join(td, "dims.txt")
            open(dims, "w").write("".join(" ".join(str(x) for x in r) + "\n" for r in dims4))
        elif case["dims_mode"] == "files":
            dims = None
            for tm in tomos:
                open(os.path.join(td, f"{tm['id']:03d}_dims.txt"), "w").write(" ".join(tm["dims"]) + "\n")
        elif case["dims_mode"] == "com":
            dims = None
        else:
            dims = [int(x) for x in tomos[0]["dims"]]
        if "com" in (case["dims_mode"], case["z_mode"]):
            for tm in tomos:
                # what is NOT read from the .com file in this case carries decoy values
                d3 = tm["dims"] if case["dims_mode"] == "com" else ["11", "12", "13"]
                zc = tm["z"] if case["z_mode"] == "com" else "77.5"
                open(os.path.join(td, f"{tm['id']:03d}_tilt.com"), "w").write(
                    "# Command file to run Tilt\n$tilt -StandardInput\nInputProjections x.ali\n"
                    f"FULLIMAGE {d3[0]} {d3[1]}\nTHICKNESS {d3[2]}\nIMAGEBINNED 1\nSHIFT {float(zc) + 3.5} {zc}\nXAXISTILT 0.0\n$if (-e ./savework) ./savework\n")
        if case["z_mode"] == "com":
            zs = None
        elif case["z_mode"] == "files":
            zs = None
            for tm in tomos:
                open(os.path.join(td, f"{tm['id']:03d}_zshift.txt"), "w").write(tm["z"] + "\n")
        elif case["z_mode"] == "array":
            if case.get("z_int_array"):
                zs = np.array([[tm["id"], int(tm["z"])] for tm in ztab])
            else:
                zs = np.array([[tm["id"], float(tm["z"])] for tm in ztab], dtype=float)
        elif case["z_mode"] == "file":
            zs = os.path.join(td, "zshift.txt")
            open(zs, "w").write("".join(f"{tm['id']} {tm['z']}\n" for tm in ztab))
        else:
            zs = float(tomos[0]["z"])
        tlt_fmt = os.path.join(td, "$xxx.mdoc" if case.get("tlt_from_mdoc") else "$xxx.tlt")
        omit = set(case.get("omit", []))
        kw = dict(tomo_dim=dims, z_shift=zs, voltage=float(c["voltage"]), amp_contrast=float(c["amp"]), cs=float(c["cs"]))
        for k, name in (("voltage", "voltage"), ("amp", "amp_contrast"), ("cs", "cs"), ("z_shift", "z_shift")):
            if k in omit:
                del kw[name]
        if case["dims_mode"] in ("files", "com"):
            del kw["tomo_dim"]
            kw["tomo_dim_file_format"] = os.path.join(td, "$xxx_dims.txt" if case["dims_mode"] == "files" else "$xxx_tilt.com")
        if case["z_mode"] in ("files", "com"):
            kw.pop("z_shift", None)
            kw["z_shift_file_format"] = os.path.join(td, "$xxx_zshift.txt" if case["z_mode"] == "files" else "$xxx_tilt.com")
        if case["ctf"]:
            kw["ctf_file_format"] = os.path.join(td, "$xxx_gctf.star" if case["ctf"] == "gctf" else "$xxx_ctffind4.txt")
            if "ctf_file_type" not in omit:
                kw["ctf_file_type"] = case["ctf"]
        inputs_before = {k: (v.copy() if isinstance(v, np.ndarray) else list(v)) for k, v in (("tomo_list", tl), ("tomo_dim", dims), ("z_shift", zs))
                         if isinstance(v, (np.ndarray, list))}
        if case["dose"]:
            kw["dose_file_format"] = os.path.join(td, "$xxx_dose.txt" if case["dose"] == "txt" else "$xxx.mdoc")
        star = os.path.join(td, "wedge.star")
        try:
            df = wedgeutils.create_wedge_list_sg_batch(tl, float(c["pixel"]), tlt_fmt, output_file=star, **kw)
            out["batch"] = _df_rows(df)
            out["index_ok"] = df.index.tolist() == list(range(len(df)))
            out["star"] = _try(lambda: _df_rows(wedgeutils.load_wedge_list_sg(star)))
            out["sg2em"] = _try(lambda: _df_rows(wedgeutils.wedge_list_sg_to_em(star, os.path.join(td, "sg2em.em"))))
            out["sg2em_file"] = _try(lambda: _em_rows(os.path.join(td, "sg2em.em")))
            nowrite = os.path.join(td, "sg2em_nowrite.em")
            out["sg2em_nowrite"] = _try(lambda: _df_rows(wedgeutils.wedge_list_sg_to_em(star, nowrite, write_out=False)))
            out["sg2em_nowrite_file_exists"] = os.path.exists(nowrite)
        except Exception as e:
            out["batch"] = _exc(e)
        out["inputs_changed"] = [k for k, v in inputs_before.items()
                                 if not np.array_equal(np.asarray(v), np.asarray(dict(tomo_list=tl, tomo_dim=dims, z_shift=zs)[k]))]
        # single-tomogram call with array inputs (first tomogram)
        tm = tomos[0]
        def single():
            tilts = np.array([float(v) for v in tm["tilts"]])
            ctf_in = None
            if case["ctf"]:
                p = os.path.join(td, f"{tm['id']:03d}_gctf.star" if case["ctf"] == "gctf" else f"{tm['id']:03d}_ctffind4.txt")
                ctf_df = ioutils.defocus_load(p, case["ctf"])
                ctf_in = ctf_df.to_numpy(dtype=float) if len(tm["tilts"]) % 2 else ctf_df
            dose_in = np.array([float(v) for v in tm["dose"]]) if "dose" in tm else None
            kws = dict(z_shift=float(tm["z"]), ctf_file=ctf_in, ctf_file_type=case["ctf"] or "gctf", dose_file=dose_in,
                       voltage=float(c["voltage"]), amp_contrast=float(c["amp"]), cs=float(c["cs"]))
            for k, name in (("voltage", "voltage"), ("amp", "amp_contrast"), ("cs", "cs"), ("z_shift", "z_shift")):
                if k in omit:
                    del kws[name]
            if "ctf_file_type" in omit or not case["ctf"]:
                del kws["ctf_file_type"]
            # G2: the SAME caller-owned arrays / DataFrame go into two calls (two tomogram numbers); they must come back untouched and
            # the second list must be as right as the first
            held = dict(tilts=tilts.copy(), ctf=(None if ctf_in is None else (ctf_in.copy())), dose=(None if dose_in is None else dose_in.copy()))
            star1 = os.path.join(td, "wedge_single.star")
            # the dimension triple as a list or (every third case) as a TUPLE: dimensions_load takes every array-like (fix 53a1a4f)
            dims1 = tuple(int(x) for x in tm["dims"]) if len(tm["tilts"]) % 3 == 0 else [int(x) for x in tm["dims"]]
            first = _df_rows(wedgeutils.create_wedge_list_sg(tm["id"], dims1, float(c["pixel"]), tilts, output_file=star1, **kws))
            out["single_star"] = _try(lambda: _df_rows(wedgeutils.load_wedge_list_sg(star1)))
            second = _df_rows(wedgeutils.create_wedge_list_sg(tm["id"] + 1000, [int(x) for x in tm["dims"]], float(c["pixel"]), tilts, **kws))
            changed = []
            if not np.array_equal(held["tilts"], tilts):
                changed.append("tilts")
            if ctf_in is not None and not (held["ctf"].equals(ctf_in) if hasattr(ctf_in, "equals") else np.array_equal(held["ctf"], ctf_in)):
                changed.append("ctf")
            if dose_in is not None and not np.array_equal(held["dose"], dose_in):
                changed.append("dose")
            out["single_inputs_changed"] = changed
            out["single_again"] = second
            return first
        out["single"] = _try(single)
        em = os.path.join(td, "wedge.em")
        out["em"] = _try(lambda: _df_rows(wedgeutils.create_wedge_list_em_batch(tl, os.path.join(td, "$xxx.tlt"), output_file=em)))
        out["em_file"] = _try(lambda: _em_rows(em))
    return out


# ------------------------------------------------------------------ loaders and wedge lists: the statement, evaluated independently
# H4 - tolerances follow the arithmetic, and are RELATIVE ONLY (a loader returning 0 for 1e-7 is wrong):
#  * numbers that are only parsed (tlt / dose files, tilt_angle and exposure columns of a wedge list) are compared EXACTLY with the float nearest
#    to the decimal (`_is_nearest`), no tolerance at all;
#  * float32 chains (ctffind4: parse, x 1e-4, +, / 2; EM lists: cast to single): every operation rounds with relative error <= 2^-24, at most
#    four in a row, all operands of one sign: <= 4 * 2^-24; F32 = 16 * 2^-24 leaves a factor 4;
#  * float64 chains (gctf: parse, x 1e-4 [the constant itself is rounded], +, / 2; mdoc dose a + b): <= 5 * 2^-53; F64 = 32 * 2^-53;
#  * numbers re-read from a STAR file (property C02 prints 6 decimals): absolute 5e-7 from the printing on top of the chain: STAR = (F32, 1e-6).
F32 = Fraction(16, 2 ** 24)
F64 = Fraction(32, 2 ** 53)
STAR = (F32, Fraction(1, 10 ** 6))
DEF_COLS = ["defocus1", "defocus2", "astigmatism", "phase_shift", "defocus_mean"]


def _close(x, fr, tol):
    """|x - fr| <= rel * |fr| (+ abs when tol is a pair (rel, abs): values that went through a fixed-decimals text file)"""
    rel, ab = tol if isinstance(tol, tuple) else (tol, 0)
    try:
        v = Fraction(float(x))
    except (ValueError, OverflowError, TypeError):
        return False
    return abs(v - fr) <= rel * abs(fr) + ab


def _f32(s):
    import numpy as np
    return float(np.float32(float(s)))


def _expected_defocus(rows, phase=True):
    out = []
    for u, v, a, p in rows:
        U, V = Fraction(u), Fraction(v)
        out.append([U / 10000, V / 10000, Fraction(a), Fraction(p) if phase else Fraction(0), (U + V) / 2 / 10000])
    return out


def _table_rows(case):
    """rows of the per-tomogram dimension / z-shift tables in THEIR order (a permutation of the tomogram list, possibly with further rows)"""
    tomos = case["tomos"]
    perm = case.get("table_perm")
    base = tomos[:len(perm)] if perm else tomos
    rows = [base[i] for i in perm] + list(tomos[len(perm):]) if perm else list(tomos)
    extra = case.get("table_extra") or []
    if extra:
        rows = rows[:1] + list(extra) + rows[1:]
    return rows


def _tomo_order(case):
    """a tomogram list given as a file goes through tlt_load and is processed in ascending order; arrays / lists in the given order"""
    return sorted(case["tomos"], key=lambda t: t["id"]) if case.get("tomo_list") == "file" else case["tomos"]


def _expected_wedge(case, as_given=False):
    """rows the statement demands (exact rationals), or None when the inputs are inconsistent (the call must refuse).
    Derivation (round 5, item 6 - this is the STATEMENT's pairing, not a copy of the code): "one row per tilt per tomogram pairing the i-th tilt
    angle, defocus and exposure" speaks of the tomogram's three lists AS ITS LOADERS RETURN THEM, and the loader clause of the same statement
    fixes those: tilt angles ASCENDING ("angles ascending": a tilt FILE in acquisition order is re-sorted; an ARRAY is used as given, as_given),
    defocus rows in file order (one row per line / STAR row), doses in file order (text file) resp. in ascending-tilt order (mdoc dose). So
    row i = (i-th ascending tilt, i-th defocus row of the file, i-th dose). Whether a user SHOULD hand over an unsorted tilt file next to a
    ctf file in acquisition order is outside the statement."""
    c = case["consts"]
    rows, em = [], []
    for tm in _tomo_order(case):
        tilts = [Fraction(t) for t in tm["tilts"]] if as_given else sorted(Fraction(t) for t in tm["tilts"])
        n = len(tilts)
        defocus = [r[4] for r in _expected_defocus(tm["ctf_rows"])] if "ctf_rows" in tm else None
        dose = None
        if "dose" in tm:
            dose = [Fraction(v) for v in tm["dose"]]
        elif "mdoc_doses" in tm:
            order = sorted(range(n), key=lambda j: Fraction(tm["tilts"][j]))
            dose = [Fraction(tm["mdoc_doses"][j][0]) + Fraction(tm["mdoc_doses"][j][1]) for j in order]
        if (defocus is not None and len(defocus) != n) or (dose is not None and len(dose) != n):
            return None, None
        for i in range(n):
            rows.append([Fraction(tm["id"]), Fraction(c["pixel"])] + [Fraction(x) for x in tm["dims"]] + [Fraction(tm["z"]), tilts[i],
                        defocus[i] if defocus else None, dose[i] if dose else None, Fraction(c["voltage"]), Fraction(c["amp"]), Fraction(c["cs"])])
        em.append([Fraction(tm["id"]), min(tilts), max(tilts)])
    return rows, em


def _merge_em(em):
    """one row per tomogram number, ascending, min of the minima / max of the maxima (a tomogram listed twice is merged)"""
    by = {}
    for t, lo, hi in em:
        by[t] = (min(lo, by[t][0]), max(hi, by[t][1])) if t in by else (lo, hi)
    return [[t, by[t][0], by[t][1]] for t in sorted(by)]


def _cmp_table(got, cols, want, rels, what):
    """got: _df_rows dict; want: list of rows of Fractions aligned with cols"""
    if "raise" in got:
        return f"{what}: raised {got['raise']}"
    if got["columns"] != cols:
        return f"{what}: columns {got['columns']}, expected {cols}"
    bad = [(c, t) for c, t in zip(got["columns"], got.get("dtypes") or []) if not _numeric_dtype(t)]
    if bad:
        return f"{what}: numeric column(s) returned with a non-numeric dtype {bad}"
    if len(got["rows"]) != len(want):
        return f"{what}: {len(got['rows'])} rows, expected {len(want)}"
    for n, (g, w) in enumerate(zip(got["rows"], want)):
        for cname, x, y in zip(cols, g, w):
            tol = rels.get(cname, F32)
            if not (_is_nearest(x, y) if tol == "nearest" else _close(x, y, tol)):
                return f"{what}: row {n} column {cname} = {x}, the statement demands {float(y)!r}" + (" (the float nearest to the number in the file)" if tol == "nearest" else "")
    return None


def _model_rows(resp_rows):
    return [[None if v is None else (Fraction(v) if isinstance(v, int) else Fraction(v[0], v[1])) for v in r] for r in resp_rows]


def _expected_reader(path, table, default):
    for ext, reader in table:
        if path.endswith(ext):
            return reader
    return default


def judge_load_in(case, obs, resp):
    """the statement ("loaders return the numbers in their files", arrays as given) evaluated independently, then model vs implementation"""
    out = []
    got = obs["out"]
    raised = isinstance(got, dict) and "raise" in got
    mod = resp["out"]
    if case["sub"] in ("tlt_in", "dose_in"):
        tlt = case["sub"] == "tlt_in"
        sort = tlt and (case["sort"] is None or case["sort"])
        if case["input"] in ("array", "list", "tuple"):
            want = [Fraction(v) for v in case["vals"]]            # as given, not sorted
            must_raise = tlt and not want
            rel = "nearest"         # the float64 the caller put in (float(text) is correctly rounded)
            reader = None
        elif case["ext"] == ".mdoc":
            order = sorted(range(len(case["tilts"])), key=lambda j: Fraction(case["tilts"][j]))
            if tlt:
                acq = [Fraction(l.split("=")[1]) for l in case["text"].split("\n") if l.startswith("TiltAngle")]
                want = sorted(acq) if sort else acq
            elif case.get("times"):
                rank = {j: r for r, j in enumerate(sorted(range(len(case["times"])), key=lambda j: case["times"][j]))}
                want = [Fraction(case["doses"][j][0]) * (rank[j] + 1) for j in order]
            else:
                want = [Fraction(case["doses"][j][0]) + Fraction(case["doses"][j][1]) for j in order]
            must_raise, rel, reader = False, ("nearest" if tlt else F64), "mdoc.Mdoc"      # a tilt is parsed only; a dose is a + b (or a x k) in float64
        else:
            vals = [Fraction(v) for v in case["vals"]]          # the numbers IN the file (any float width the loader uses is within F32)
            want = sorted(vals) if sort else vals
            must_raise, rel, reader = (not vals), "nearest", "one_value_per_line_read"
        if reader is not None:
            table = [(".mdoc", "mdoc.Mdoc"), (".xml", "get_data_from_warp_xml")]
            if not tlt:
                table = [(".csv", "pd.read_csv")] + table
            indep = _expected_reader("x" + case["ext"] if case["ext"] != ".mdoc" else case["stem"] + ".mdoc", table, "one_value_per_line_read")
            if not tlt and case["ext"] == ".csv":
                return out if resp["reader"] == "pd.read_csv" and mod is None else [dict(kind="corr", clause="loader-dispatch-model", detail=f".csv dose path: model reader {resp['reader']}")]
            if resp["reader"] != indep:
                out.append(dict(kind="corr", clause="loader-dispatch-model", detail=f"model sends {case['ext']!r} to {resp['reader']}, the extension table says {indep}"))
        if must_raise:
            # (G6) that an empty input is refused is documented behaviour, not a clause of the statement: corr
            if not raised:
                out.append(dict(kind="corr", clause="loader-accepts-empty", detail=f"{case['sub']} {case['input']}: empty input returned {got}"))
            if mod is not None:
                out.append(dict(kind="corr", clause="loader-model-accepts-empty", detail=""))
            return out
        if raised:
            out.append(_raised(got, "loader-raises", f"{case['sub']} {case['input']} {case.get('ext', '')}: {got['raise']}"))
            return out
        if obs.get("input_unchanged") is False:
            out.append(dict(kind="corr", clause="caller-input-mutated", detail=f"{case['sub']}: the {case['input']} passed in was edited in place"))
        for key, dt in obs.get("dtypes", {}).items():
            if not _numeric_dtype(dt):
                out.append(dict(kind="corr", clause="loader-dtype", detail=f"{case['sub']} {case['input']} {case.get('ext', '')}: returned dtype {dt}, not a numeric one"))
        if case.get("times"):
            # documented route outside the statement (no prior dose in the file): corr, and the model (prior + exposure) has no value here
            if len(got) != len(want) or any(not _close(g, w, F64) for g, w in zip(got, want)):
                out.append(dict(kind="corr", clause="mdoc-dose-without-prior", detail=f"returned {got[:6]}, ExposureDose x (DateTime rank + 1) in tilt order is {[float(w) for w in want[:6]]}"))
            if mod is not None:
                out.append(dict(kind="corr", clause="mdoc-dose-without-prior-model", detail="the model returns a dose although the file has no PriorRecordDose"))
            return out
        ok1 = (lambda g, w: _is_nearest(g, w)) if rel == "nearest" else (lambda g, w: _close(g, w, rel))
        if len(got) != len(want) or any(not ok1(g, w) for g, w in zip(got, want)):
            out.append(dict(kind="spec", clause="loader-values", detail=f"{case['sub']} {case['input']} {case.get('ext', '')} sort={case['sort']}: returned {got[:6]}, "
                                                                         f"the input holds {[float(w) for w in want[:6]]}"))
        if mod is None:
            out.append(dict(kind="corr", clause="loader-model-refuses", detail=f"{case['sub']} {case['input']} {case.get('ext', '')}"))
        else:
            m = [Fraction(a, b) for a, b in mod]
            wd = _width((obs.get("dtypes") or {}).get("out"))
            ok2 = (lambda g, w: _is_nearest(g, w, wd)) if rel == "nearest" else (lambda g, w: _close(g, w, rel))
            if len(m) != len(got) or any(not ok2(g, x) for g, x in zip(got, m)):
                out.append(dict(kind="corr", clause="loader-vs-model", detail=f"model {[float(x) for x in m[:6]]} / impl {got[:6]}"))
        return out
    # defocus_load
    want = _expected_defocus(case["rows"], True)
    if case["input"] == "frame":
        if not obs.get("same_object"):
            out.append(dict(kind="corr", clause="defocus-frame-not-as-given", detail="a DataFrame input is not returned as is"))
        if obs.get("input_unchanged") is False:
            out.append(dict(kind="corr", clause="caller-input-mutated", detail="defocus_load edited the DataFrame passed in"))
        d = _cmp_table(got, DEF_COLS, want, {c: F64 for c in DEF_COLS}, "defocus_load(DataFrame)")
        if d:
            out.append(dict(kind="spec", clause="defocus-frame-values", detail=d))
        if mod is None or _model_rows(mod) != want:
            out.append(dict(kind="corr", clause="defocus-frame-model", detail=""))
        return out
    if case["input"] == "array":
        if case["width"] != 5:
            if not raised:
                out.append(dict(kind="corr", clause="defocus-array-width", detail=f"an N x {case['width']} array is accepted"))
            if mod is not None:
                out.append(dict(kind="corr", clause="defocus-array-width-model", detail=""))
            return out
        d = _cmp_table(got, DEF_COLS, want, {c: F64 for c in DEF_COLS}, "defocus_load(ndarray)")
        if d:
            out.append(dict(kind="spec", clause="defocus-array-values", detail=d))
        if mod is None or _model_rows(mod) != want:
            out.append(dict(kind="corr", clause="defocus-array-model", detail=""))
        return out
    ft = "gctf" if case["file_type"] is None else case["file_type"].lower()       # None: keyword omitted, documented default "gctf"
    known = {"gctf": "gctf_read", "ctffind4": "ctffind4_read", "warp": "warp_ctf_read"}
    if resp["reader"] != known.get(ft):
        out.append(dict(kind="corr", clause="defocus-dispatch-model", detail=f"file_type {case['file_type']!r}: model reader {resp['reader']}, table says {known.get(ft)}"))
    matches = (ft == "gctf" and case["content"] == "gctf") or (ft == "ctffind4" and case["content"] == "ctffind")
    if ft not in known:
        # the refusal is recognised by its TYPE (the documented `Raises: ValueError`) and by the precondition violated (a file_type outside the
        # dispatch table) - never by the wording of the message (H1)
        if not raised or got.get("type") != "ValueError":
            out.append(dict(kind="corr", clause="defocus-unknown-type", detail=f"file_type {case['file_type']!r}: {got}"))
        if mod is not None:
            out.append(dict(kind="corr", clause="defocus-unknown-type-model", detail=""))
    elif matches:
        g = case["content"] == "gctf"
        want = _expected_defocus(case["rows"], case["phase"] or not g)
        rel = F64 if g else F32
        d = _cmp_table(got, DEF_COLS, want, {c: rel for c in DEF_COLS}, f"defocus_load(path, {case['file_type']!r}) [gctf columns in {case.get('col_order', 'canonical')} order]")
        if d:
            out.append(_raised(got, "defocus-units-or-mean", d) if raised else dict(kind="spec", clause="defocus-units-or-mean", detail=d))
        if mod is None or _model_rows(mod) != want:
            out.append(dict(kind="corr", clause="defocus-file-model", detail=f"model {mod and mod[:1]}"))
        elif not raised:
            d = _cmp_table(got, DEF_COLS, _model_rows(mod), {c: rel for c in DEF_COLS}, "implementation vs model")
            if d:
                out.append(dict(kind="corr", clause="defocus-impl-vs-model", detail=d))
        out += _judge_gctf_code(case, resp.get("code"))
    else:
        # a file of the other program under this type: the reader chosen must be the one named by file_type (it then fails or mis-reads;
        # only the dispatch is judged, by the model's reader above)
        pass
    return out


def _judge_gctf_code(case, resp):
    """the CODE-LEVEL model of gctf_read (name-list selection on the table in file order + positional scaling) against the
    specification-level reader: both are the model, a difference is a corr finding (it appears when the translator re-extracts another
    selection / slice from the source)"""
    if case.get("content", "gctf") != "gctf" or not isinstance(resp, dict) or "spec" not in resp:
        return []
    if resp.get("out") is None or resp["out"] != resp["spec"]:
        return [dict(kind="corr", clause="gctf-code-model-vs-spec-model", detail=f"columns in {case.get('col_order')} order: code-level model {resp.get('out') and resp['out'][:1]}, "
                                                                                  f"specification-level {resp['spec'] and resp['spec'][:1]}")]
    return []


def judge_load(case, obs, resp):
    out = []
    if "error" in resp:
        return [dict(kind="corr", clause="driver-error", detail=str(resp))]
    if case["sub"].endswith("_in"):
        return judge_load_in(case, obs, resp)
    for key, dt in obs.get("dtypes", {}).items():
        if not _numeric_dtype(dt):
            out.append(dict(kind="corr", clause="loader-dtype", detail=f"{case['sub']} {key}: returned dtype {dt}, not a numeric one"))

    def same(got, want, widths=(24, 53)):
        return len(got) == len(want) and all(_is_nearest(g, w, widths) for g, w in zip(got, want))
    # the statement: "loaders return the numbers in their files": every returned number is EXACTLY the binary float nearest to the decimal in
    # the file (float32 or float64: the statement does not name the width; that the reader uses float32 is pinned by the translator,
    # one_value_dtype_documented). The MODEL parses the same tokens itself (parseDecimal): implementation = float nearest to the model's
    # rational, of the width the returned dtype names.
    exact = [Fraction(v) for v in case.get("vals", [])]
    dts = obs.get("dtypes", {})
    if case["sub"] == "tlt":
        if not same(obs["unsorted"], exact):
            out.append(dict(kind="spec", clause="tlt-values", detail=f"tlt_load(sort_angles=False) = {obs['unsorted'][:6]}, file holds {case['vals'][:6]}"))
        if not same(obs["sorted"], sorted(exact)):
            out.append(dict(kind="spec", clause="tlt-ascending", detail=f"tlt_load = {obs['sorted'][:8]}, ascending file values are {[float(x) for x in sorted(exact)[:8]]}"))
        if not same(obs["array"], exact, (53,)) or not same(obs["list"], exact, (53,)):
            out.append(dict(kind="spec", clause="tlt-array-input", detail="array / list input is not returned as given"))
        ms = [Fraction(a, b) for a, b in resp["sorted"]]
        mu = [Fraction(a, b) for a, b in resp["unsorted"]]
        if not same(obs["sorted"], ms, _width(dts.get("sorted"))) or not same(obs["unsorted"], mu, _width(dts.get("unsorted"))):
            out.append(dict(kind="corr", clause="tlt-vs-model", detail=f"model (parsed from the tokens) sorted {[float(x) for x in ms[:6]]} / impl {obs['sorted'][:6]}"))
    elif case["sub"] == "dose":
        if not same(obs["file"], exact):
            out.append(dict(kind="spec", clause="dose-values", detail=f"total_dose_load = {obs['file'][:6]}, file holds {case['vals'][:6]}"))
        if not same(obs["array"], exact, (53,)):
            out.append(dict(kind="spec", clause="dose-array-input", detail="array input is not returned as given"))
        if not same(obs["file"], [Fraction(a, b) for a, b in resp["dose"]], _width(dts.get("file"))):
            out.append(dict(kind="corr", clause="dose-vs-model", detail=""))
    else:
        g = case["sub"] == "gctf"
        want = _expected_defocus(case["rows"], case["phase"] or not g)
        rel = F64 if g else F32
        rels = {c: rel for c in DEF_COLS}
        for key in ("df", "df_load", "df_array"):
            d = _cmp_table(obs[key], DEF_COLS, want, rels, f"{case['sub']} {key}" + (f" [columns in {case.get('col_order', 'canonical')} order]" if g else ""))
            if d:
                out.append(dict(kind="spec", clause="defocus-units-or-mean", detail=d)); break
        spec_resp = resp["spec"] if g else resp
        model = _model_rows(spec_resp) if spec_resp is not None else None
        if model != want:
            out.append(dict(kind="corr", clause="defocus-model-vs-statement", detail=f"model row 0 {model and [float(x) for x in model[0]]} vs {[float(x) for x in want[0]]}"))
        else:
            d = _cmp_table(obs["df"], DEF_COLS, model, rels, "implementation vs model")
            if d:
                out.append(dict(kind="corr", clause="defocus-impl-vs-model", detail=d))
        if g:
            out += _judge_gctf_code(case, resp)
    return out


def judge_wedge(case, obs, resp, resp1=None):
    out = []
    if "error" in resp:
        return [dict(kind="corr", clause="driver-error", detail=str(resp))]
    want, em = _expected_wedge(case)
    B = obs["batch"]
    if obs.get("inputs_changed"):
        out.append(dict(kind="corr", clause="caller-input-mutated", detail=f"create_wedge_list_sg_batch edited its argument(s) {obs['inputs_changed']} in place"))
    if obs.get("single_inputs_changed"):
        out.append(dict(kind="corr", clause="caller-input-mutated", detail=f"create_wedge_list_sg edited its argument(s) {obs['single_inputs_changed']} in place"))
    if want is None:
        if "raise" not in B:
            # (G6) refusing inconsistent inputs is documented behaviour (check_data_consistency), not a clause of the statement: corr
            out.append(dict(kind="corr", clause="wedge-accepts-inconsistent", detail="ctf / dose entries differ in number from the tilts, yet a wedge list is returned"))
        if resp["rows"] is not None:
            out.append(dict(kind="corr", clause="wedge-model-accepts-inconsistent", detail=""))
        return out
    has_ctf, has_dose = case["ctf"] is not None, case["dose"] is not None
    keep = [i for i, cname in enumerate(WEDGE_COLS) if (cname != "defocus" or has_ctf) and (cname != "exposure" or has_dose)]
    cols = [WEDGE_COLS[i] for i in keep]
    wrows = [[r[i] for i in keep] for r in want]
    rels = {cname: F64 for cname in WEDGE_COLS}
    # tilt angles and the doses of a text file are only PARSED: exactly the float nearest to the number in the file; an mdoc dose is a + b in
    # float64; defocus went through the float32 (ctffind4) or float64 (gctf) chain
    rels.update(tilt_angle="nearest", defocus=(F32 if case["ctf"] == "ctffind4" else F64), exposure=(F64 if case["dose"] == "mdoc" else "nearest"))
    if "raise" in B:
        out.append(_raised(B, "wedge-raises", B["raise"]))
    else:
        d = _cmp_table(B, cols, wrows, rels, "create_wedge_list_sg_batch")
        if d:
            out.append(dict(kind="spec", clause="wedge-rows", detail=d))
        if not obs.get("index_ok", True):
            out.append(dict(kind="corr", clause="wedge-index", detail="row index of the batch table is not 0..n-1"))
        loose = {cname: STAR for cname in WEDGE_COLS}
        d = _cmp_table(obs["star"], cols, wrows, loose, "wedge list STAR file re-read")
        if d:
            out.append(dict(kind="spec", clause="wedge-star-file", detail=d))
        merged = _merge_em(em)
        if obs.get("sg2em_nowrite_file_exists"):
            out.append(dict(kind="corr", clause="wedge-sg-to-em-write-out", detail="wedge_list_sg_to_em(..., write_out=False) wrote the EM file"))
        for key in ("sg2em", "sg2em_file", "sg2em_nowrite"):
            d = _cmp_table(obs[key], ["tomo_id", "min_tilt_angle", "max_tilt_angle"], merged, {"tomo_id": F64, "min_tilt_angle": loose["cs"], "max_tilt_angle": loose["cs"]}, f"wedge_list_sg_to_em {key}")
            if d:
                out.append(dict(kind="spec", clause="wedge-sg-to-em", detail=d)); break
    n0 = len(case["tomos"][0]["tilts"])
    if "mdoc" not in case["tomos"][0] or True:
        tm = case["tomos"][0]
        one = dict(case, tomos=[dict((k, v) for k, v in tm.items() if k not in ("mdoc", "mdoc_doses"))], dose=("txt" if "dose" in tm else None))
        w1, _ = _expected_wedge(one, as_given=True)
        if w1 is not None:
            keep1 = [i for i, cname in enumerate(WEDGE_COLS) if (cname != "defocus" or has_ctf) and (cname != "exposure" or "dose" in tm)]
            cols1 = [WEDGE_COLS[i] for i in keep1]
            rels1 = dict(rels, tilt_angle="nearest", exposure="nearest")
            d = _cmp_table(obs["single"], cols1, [[r[i] for i in keep1] for r in w1], rels1, "create_wedge_list_sg (array inputs)")
            if d:
                out.append(dict(kind="spec", clause="wedge-single-rows", detail=d))
            elif "single_star" in obs:
                # M-9: the file written by the single-tomogram function holds the COMPLETE table (constants included)
                d2 = _cmp_table(obs["single_star"], cols1, [[r[i] for i in keep1] for r in w1], {cname: STAR for cname in WEDGE_COLS},
                                "create_wedge_list_sg(output_file=...) re-read")
                if d2:
                    out.append(dict(kind="spec", clause="wedge-star-file", detail=d2))
            if d is None and "single_again" in obs:
                # G2: the second call with the very same arrays (another tomogram number) is judged as strictly as the first
                w2 = [[r[0] + 1000] + r[1:] for r in w1]
                d = _cmp_table(obs["single_again"], cols1, [[r[i] for i in keep1] for r in w2], rels1, "create_wedge_list_sg, second call with the same arrays")
                if d:
                    out.append(dict(kind="spec", clause="wedge-single-rows-second-call", detail=d))
            # implementation vs the CODE-LEVEL model (np.repeat of the dimension table, z.values[0][0]) on the arrays as given
            if resp1 is not None and "raise" not in obs["single"]:
                sc = (resp1.get("single_code") or [None])[0]
                if sc is None:
                    out.append(dict(kind="corr", clause="wedge-single-model-refuses", detail=""))
                else:
                    d = _cmp_table(obs["single"], cols1, [[r[i] for i in keep1] for r in _model_rows(sc)], rels1, "create_wedge_list_sg vs code-level model")
                    if d:
                        out.append(dict(kind="corr", clause="wedge-single-impl-vs-model", detail=d))
    for key, cn in (("em", ["tomo_num", "min_angle", "max_angle"]), ("em_file", ["tomo_id", "min_tilt_angle", "max_tilt_angle"])):
        d = _cmp_table(obs[key], cn, em, {c: F32 for c in cn}, f"create_wedge_list_em_batch {key}")
        if d:
            out.append(dict(kind="spec", clause="wedge-em-minmax", detail=d)); break
    # model vs statement (exact)
    if resp["rows"] is None:
        out.append(dict(kind="corr", clause="wedge-model-refuses", detail=""))
    else:
        if _model_rows(resp["rows"]) != want:
            out.append(dict(kind="corr", clause="wedge-model-vs-statement", detail="model rows differ from the independently evaluated statement"))
        # audit item 6: the IMPLEMENTATION's rows against the CODE-LEVEL model (tables in their own row order, look-ups by tomogram number,
        # np.repeat, values[0][0]); and code-level = specification-level model (theorem wedge_batch_code_spec, here on the instance)
        if resp.get("rows_code") is None:
            out.append(dict(kind="corr", clause="wedge-code-model-refuses", detail=""))
        else:
            if resp.get("code_eq_spec") is not True:
                out.append(dict(kind="corr", clause="wedge-code-model-vs-spec-model", detail="wedgeBatchCode differs from wedgeBatch on this input"))
            if "raise" not in B:
                d = _cmp_table(B, cols, [[r[i] for i in keep] for r in _model_rows(resp["rows_code"])], rels, "create_wedge_list_sg_batch vs code-level model")
                if d:
                    out.append(dict(kind="corr", clause="wedge-impl-vs-model", detail=d))
        if resp["em"] is not None and "raise" not in obs["em"]:
            d = _cmp_table(obs["em"], ["tomo_num", "min_angle", "max_angle"], _model_rows(resp["em"]), {c: F32 for c in ("tomo_num", "min_angle", "max_angle")}, "create_wedge_list_em_batch vs model")
            if d:
                out.append(dict(kind="corr", clause="wedge-em-impl-vs-model", detail=d))
        if resp["sg2em"] is not None and "raise" not in B and "raise" not in obs.get("sg2em", {"raise": 1}):
            d = _cmp_table(obs["sg2em"], ["tomo_id", "min_tilt_angle", "max_tilt_angle"], _model_rows(resp["sg2em"]),
                           {"tomo_id": F64, "min_tilt_angle": STAR, "max_tilt_angle": STAR}, "wedge_list_sg_to_em vs model")
            if d:
                out.append(dict(kind="corr", clause="wedge-sg2em-impl-vs-model", detail=d))
        if resp["header"] != cols:
            out.append(dict(kind="corr", clause="wedge-model-header", detail=f"{resp['header']} vs {cols}"))
        if resp["em"] is None or _model_rows(resp["em"]) != em:
            out.append(dict(kind="corr", clause="wedge-em-model-vs-statement", detail=""))
        if resp["sg2em"] is None or _model_rows(resp["sg2em"]) != _merge_em(em):
            out.append(dict(kind="corr", clause="wedge-sg2em-model-vs-statement", detail=""))
        # the file layer of the model: the table that is written, its reload, sg->em on it
        if resp.get("table_cols") != cols:
            out.append(dict(kind="corr", clause="wedge-table-columns-model", detail=f"{resp.get('table_cols')} vs {cols}"))
        elif _model_rows(resp["table_rows"]) != wrows:
            out.append(dict(kind="corr", clause="wedge-table-cells-model", detail="cells of the model's STAR table differ from the statement"))
        if resp.get("table_reload_same") is not True:
            out.append(dict(kind="corr", clause="wedge-table-reload-model", detail="loadSg (sgTable rows) is not rows"))
        if resp.get("sg2em_table") is None or _model_rows(resp["sg2em_table"]) != _merge_em(em):
            out.append(dict(kind="corr", clause="wedge-sg2em-table-model", detail=""))
        if "raise" not in B and isinstance(obs.get("star"), dict) and "columns" in obs["star"] and obs["star"]["columns"] != resp.get("table_cols"):
            out.append(dict(kind="corr", clause="wedge-star-columns-vs-model", detail=f"file has {obs['star']['columns']}, model table {resp.get('table_cols')}"))
    return out



# ------------------------------------------------------------------ G2: cross-call state (same caller-owned object / same path across calls)
def gen_g2(rng, tier):
    """(indices) ONE integer ndarray of image numbers applied to two or three mdocs through the console-level mdoc.remove_images
    (indices_load inside); (reread) ONE path read, edited in place, read again unchanged, then legitimately rewritten and read a third
    time. Every call is judged like a first call and the caller's array is compared before / after each call."""
    if rng.random() < 0.5:
        n_calls = rng.choice([2, 2, 3])
        sizes = [rng.randint(3, 10) for _ in range(n_calls)]
        from1 = rng.choice([True, True, False, None])          # None: keyword omitted (documented default: numbered from 1)
        lo = 0 if from1 is False else 1
        m = min(sizes)
        idx = sorted(rng.sample(range(lo, m + lo), rng.randint(1, max(1, m // 2))))
        if rng.random() < 0.3:
            rng.shuffle(idx)
        return dict(kind="g2", sub="indices", texts=[_mdoc_text(rng, k, allow_exp=False) for k in sizes], idx=idx, from1=from1,
                    dtype=rng.choice(["int64", "int64", "int32"]), as_list=(rng.random() < 0.15))
    n1, n2 = rng.randint(2, 9), rng.randint(2, 9)
    return dict(kind="g2", sub="reread", text=_mdoc_text(rng, n1, allow_exp=False), steps1=_steps(rng, n1) or [dict(k="remove", idxs=[0], kept_only=True)],
                steps2=_steps(rng, n1), text2=_mdoc_text(rng, n2, allow_exp=False), same_size=(rng.random() < 0.3))


def run_g2(case):
    import numpy as np
    from cryocat import mdoc
    out = {"calls": []}
    with tempfile.TemporaryDirectory(prefix="c17_") as td:
        if case["sub"] == "indices":
            idx = list(case["idx"]) if case.get("as_list") else np.array(case["idx"], dtype=case["dtype"])
            for k, text in enumerate(case["texts"]):
                p = os.path.join(td, f"in{k}.mdoc")
                with open(p, "w", newline="") as f:
                    f.write(text)
                q = os.path.join(td, f"out{k}.mdoc")
                call = {"idx_before": [int(x) for x in idx]}
                try:
                    call["fresh"] = _canon_mdoc(mdoc.Mdoc(p))
                    if case["from1"] is None:
                        m = mdoc.remove_images(p, idx, output_file=q)
                    else:
                        m = mdoc.remove_images(p, idx, numbered_from_1=case["from1"], output_file=q)
                    call["after"] = _canon_mdoc(m)
                    call["trace"] = [call["after"]["rows"]]
                    call["written"] = open(q, newline="").read()
                    call["reread"] = _try(lambda: _canon_mdoc(mdoc.Mdoc(q)))
                except Exception as e:
                    call["after"] = _exc(e)
                call["idx_after"] = [int(x) for x in idx]
                call["idx_type"] = type(idx).__name__ + (":" + str(idx.dtype) if isinstance(idx, np.ndarray) else "")
                out["calls"].append(call)
            return out
        p = os.path.join(td, "a.mdoc")

        def put(text):
            with open(p, "w", newline="") as f:
                f.write(text)

        put(case["text"])
        for steps in (case["steps1"], case["steps2"]):
            call = {}
            try:
                m = mdoc.Mdoc(p)
                call["fresh"] = _canon_mdoc(m)
                call["trace"] = []
                failed = _apply_traced(m, steps, call["trace"])
                call["after"] = failed or _canon_mdoc(m)
            except Exception as e:
                call["fresh"] = _exc(e)
            out["calls"].append(call)
        # the same path legitimately REWRITTEN (other content; with same_size the byte length is kept) and read again
        t2 = case["text2"]
        if case.get("same_size"):
            t2 = (t2 + " " * len(case["text"]))[:len(case["text"])] if len(t2) < len(case["text"]) else t2
        put(t2)
        out["text2"] = t2
        out["third"] = _try(lambda: _canon_mdoc(mdoc.Mdoc(p)))
    return out


def requests_g2(case, obs):
    if case["sub"] == "indices":
        st = dict(k="remove", idxs=case["idx"], from1=(True if case["from1"] is None else case["from1"]))
        return [_mdoc_request(t, [st], False) for t in case["texts"]]
    calls = obs.get("calls", [])
    orders = [(_tie_orders(c["fresh"], steps, c.get("trace", [])) if "rows" in c.get("fresh", {}) else None)
              for c, steps in zip(calls + [{}, {}], (case["steps1"], case["steps2"]))]
    return [_mdoc_request(case["text"], case["steps1"], False, orders[0]), _mdoc_request(case["text"], case["steps2"], False, orders[1]),
            _mdoc_request(obs.get("text2", case["text2"]), [], False)]


def _judge_ops(P, A, steps, trace, mod_after, what):
    """flags / order after an op sequence: the statement evaluated step by step on the observed tables (spec, `_replay`), then implementation
    vs model (corr)"""
    rp = _replay(P, steps, trace, what + ": ")
    out = list(rp["findings"])
    if "raise" in A:
        if rp["raise_expected"] is False:
            out.append(_raised(A, "ops-raise", f"{what}: {A['raise']}"))
        return out
    if mod_after is None:
        if "final" in rp:
            out.append(dict(kind="corr", clause="ops-model-raises", detail=what))
    else:
        d = _mdoc_eq(A, mod_after)
        if d:
            out.append(dict(kind="corr", clause="ops-vs-model", detail=f"{what}: {d}"))
    return out


def judge_g2(case, obs, resps):
    out = []
    if any("error" in r for r in resps):
        return [dict(kind="corr", clause="driver-error", detail=str(resps)[:300])]
    if case["sub"] == "indices":
        from1 = True if case["from1"] is None else case["from1"]
        steps = [dict(k="remove", idxs=case["idx"], from1=from1)]
        for k, (call, mod) in enumerate(zip(obs["calls"], resps)):
            what = f"call {k + 1} of {len(obs['calls'])} with the same index array {case['idx']} (numbered_from_1={case['from1']})"
            if call["idx_after"] != case["idx"]:
                out.append(dict(kind="corr", clause="caller-array-mutated",
                                detail=f"{what}: the caller's {call['idx_type']} was {call['idx_before']} before and {call['idx_after']} after the call"))
            if "fresh" not in call or "raise" in call.get("fresh", {}):
                out.append(_raised(call.get("after", {"raise": "?"}), "reader-raises", what)); continue
            P = call["fresh"]
            d = _mdoc_eq(P, mod["parsed"])
            if d:
                out.append(dict(kind="corr", clause="read-vs-model", detail=d))
            out += _judge_ops(P, call["after"], steps, call.get("trace", []), mod["after"], what)
            if "raise" not in call["after"] and "written" in call:
                A = call["after"]
                want = [r for r in A["rows"] if r["removed"] == ["b", False]]
                R = call["reread"]
                if not want:
                    if "raise" in R:
                        out.append(_raised(R, "written-omits-removed", f"{what}: all images are removed: the written file (header only) cannot be re-read: {R['raise']}",
                                           all_removed=(R.get("type") == "UnboundLocalError")))
                elif "raise" in R:
                    out.append(_raised(R, "written-omits-removed", f"{what}: written file cannot be re-read: {R['raise']}"))
                else:
                    # the images the call must leave: Python indexing of the given numbers into the images of the file, in file order
                    # (independent of the flags the implementation set)
                    _, idxs0 = _step_kw(steps[0])
                    n = len(P["rows"])
                    if all(-n <= i < n for i in idxs0):
                        gone = {i % n for i in idxs0}
                        keep_rows = [r for j, r in enumerate(P["rows"]) if j not in gone]
                        d = _same_object(dict(P, rows=keep_rows), R, ignore_flags=True)
                        if d and not _k1_only(dict(P, rows=keep_rows), R):
                            out.append(dict(kind="spec", clause="written-omits-removed", detail=f"{what}: the written file must hold exactly the images not addressed: {d}"))
                if mod["written"] is not None and call["written"] != "".join(l + "\n" for l in mod["written"]):
                    out.append(dict(kind="corr", clause="ops-written-text-vs-model", detail=_first_line_diff(call["written"], mod["written"])))
        return out
    # reread: every read of the unchanged file gives the object of the first read, untouched by what was done to earlier objects
    c1, c2 = obs["calls"]
    if "raise" in c1.get("fresh", {"raise": "?"}):
        return [_raised(c1["fresh"], "reader-raises", c1["fresh"]["raise"])]
    if "raise" in c2.get("fresh", {"raise": "?"}):
        return [_raised(c2["fresh"], "reader-raises", "second read of the unchanged file: " + c2["fresh"]["raise"])]
    d = _same_object(c1["fresh"], c2["fresh"])
    if d:
        out.append(dict(kind="spec", clause="reread-same-file-differs",
                        detail=f"the unchanged file read a second time (after in-place operations {case['steps1']} on the first object): {d}"))
    for k, (call, steps, mod) in enumerate(zip((c1, c2), (case["steps1"], case["steps2"]), resps[:2])):
        d = _mdoc_eq(call["fresh"], mod["parsed"])
        if d:
            out.append(dict(kind="corr", clause="read-vs-model", detail=f"read {k + 1}: {d}"))
        out += _judge_ops(c1["fresh"], call["after"], steps, call.get("trace", []), mod["after"], f"operations on the object of read {k + 1}")
    T = obs["third"]
    m3 = resps[2]["parsed"]
    if "raise" in T:
        if m3 is not None:
            out.append(_raised(T, "reader-raises", "read after the file was rewritten: " + T["raise"]))
    elif m3 is None:
        out.append(dict(kind="corr", clause="malformed-accepted", detail="rewritten file"))
    else:
        d = _mdoc_eq(T, m3)
        if d:
            # the model is a pure function of the text; what the file holds NOW is decided by the text alone
            stale = _same_object(c1["fresh"], T) is None
            out.append(dict(kind=("spec" if stale else "corr"), clause=("stale-read-after-rewrite" if stale else "read-vs-model"),
                            detail=f"the path was rewritten with other content, the read returns {'the OLD content' if stale else 'something else'}: {d}"))
    return out


# ------------------------------------------------------------------ module interface
def generate(rng, tier, n):
    for _ in range(n):
        k = rng.random()
        if k < 0.44:
            yield gen_mdoc(rng, tier)
        elif k < 0.54:
            yield gen_g2(rng, tier)
        elif k < 0.78:
            yield gen_load(rng, tier)
        else:
            yield gen_wedge(rng, tier)


def run_impl(case):
    if case["kind"] == "mdoc":
        return run_mdoc(case)
    if case["kind"] == "g2":
        return run_g2(case)
    if case["kind"] == "load":
        return run_load(case)
    return run_wedge(case)


def _lines(text):
    ls = text.split("\n")
    if ls and ls[-1] == "":
        ls = ls[:-1]
    return ls


def _model_steps(steps, orders=None):
    """steps for the driver: a keyword the adapter OMITS is omitted here too (the model then uses the default the translator extracted); a
    sort step of a table with equal tilt angles carries the arrangement the implementation chose (`order`), which the model's verified
    checker arrangeOk accepts or refuses"""
    out = [{k: v for k, v in st.items() if not (st.get("omit_kw") and k in ("kept_only", "reset")) and k != "omit_kw"} for st in steps]
    for st, o in zip(out, orders or []):
        if o is not None and st["k"] == "sort":
            st["order"] = o
    return out


def _mdoc_request(text, steps, write_removed, orders=None):
    r = dict(op="mdoc", lines=_lines(text), steps=_model_steps(steps, orders))
    if write_removed is not None:
        r["write_removed"] = write_removed
    return r


def requests(case, obs):
    if case["kind"] == "mdoc":
        orders = _tie_orders(obs["parsed"], case.get("steps", []), obs.get("trace", [])) if "rows" in obs.get("parsed", {}) else None
        return [_mdoc_request(case["text"], case.get("steps", []), case.get("write_removed", False), orders)]
    if case["kind"] == "g2":
        return requests_g2(case, obs)
    if case["kind"] == "load" and case["sub"].endswith("_in"):
        if case["sub"] in ("tlt_in", "dose_in"):
            r = dict(op=case["sub"], kind=("list" if case["input"] == "tuple" else case["input"]))      # a tuple takes the list branch of the type chain
            if case["sub"] == "tlt_in" and case["sort"] is not None:
                r["sort"] = case["sort"]
            if case["input"] == "file" and case["ext"] == ".mdoc":
                r.update(path="/tmp/" + case["stem"] + ".mdoc", lines=_lines(case["text"]))
            elif case["input"] == "file":
                r.update(path="/tmp/x" + case["ext"], vals=[_rat(v) for v in case["vals"]])
            else:
                r["vals"] = [_rat(v) for v in case["vals"]]
            return [r]
        want = _expected_defocus(case["rows"], True)
        if case["input"] in ("frame", "array"):
            w = case.get("width", 5)
            arr = [[[x.numerator, x.denominator] for x in r][:w] + [[0, 1]] * max(0, w - 5) for r in want]
            return [dict(op="defocus_in", kind=case["input"], arr=arr)]
        g = case["content"] == "gctf"
        rs = [dict(op="defocus_in", kind="file", file_type=("gctf" if case["file_type"] is None else case["file_type"]), content=case["content"],
                   rows=[[_rat(r[0]), _rat(r[1]), _rat(r[2]), (_rat(r[3]) if (case["phase"] or not g) else None)] for r in case["rows"]])]
        if g:
            rs.append(_gctf_request(case["rows"], case["phase"], 0, case.get("col_order", "canonical"), case.get("perm")))
        return rs
    if case["kind"] == "load":
        if case["sub"] in ("tlt", "dose"):
            return [dict(op="tlt", vals=[_rat(v) for v in case["vals"]])]
        g = case["sub"] == "gctf"
        if g:
            return [_gctf_request(case["rows"], case["phase"], case["extra_cols"], case.get("col_order", "canonical"), case.get("perm"))]
        return [dict(op="defocus", kind=("gctf" if g else "ctffind"),
                     rows=[[_rat(r[0]), _rat(r[1]), _rat(r[2]), (_rat(r[3]) if (case["phase"] or not g) else None)] for r in case["rows"]])]
    c = case["consts"]
    tomos = []
    for tm in case["tomos"]:
        t = dict(id=tm["id"], dims=[_rat(x) for x in tm["dims"]], z=_rat(tm["z"]), defocus=None, dose=None)
        if case.get("tlt_from_mdoc"):
            t["mdoc"] = _lines(tm["mdoc"])
        else:
            t["tilts"] = [_rat(x) for x in tm["tilts"]]
        if "ctf_rows" in tm:
            g = case["ctf"] == "gctf"
            t["ctf_kind"] = "gctf" if g else "ctffind"
            t["ctf_rows"] = [[_rat(r[0]), _rat(r[1]), _rat(r[2]), (_rat(r[3]) if (case["phase"] or not g) else None)] for r in tm["ctf_rows"]]
        if "dose" in tm:
            t["dose"] = [_rat(x) for x in tm["dose"]]
        elif "mdoc" in tm:
            t["dose_from_mdoc"] = True
            t["mdoc"] = _lines(tm["mdoc"])
            if not case.get("tlt_from_mdoc"):
                t["tilts"] = [_rat(x) for x in tm["tilts"]]
        tomos.append(t)
    consts = [_rat(c["pixel"]), _rat(c["voltage"]), _rat(c["amp"]), _rat(c["cs"])]
    batch = dict(op="wedge", tomo_list_from_file=(case.get("tomo_list") == "file"), consts=consts, tomos=tomos)
    # the per-tomogram tables in THEIR row order (a single dimension triple / scalar z-shift is repeated along the processed list)
    order_ids = [tm["id"] for tm in _tomo_order(case)]
    if case.get("dims_mode") == "single":
        batch["dim_table"] = [[i, [_rat(x) for x in case["tomos"][0]["dims"]]] for i in order_ids]
    else:
        batch["dim_table"] = [[tm["id"], [_rat(x) for x in tm["dims"]]] for tm in _table_rows(case)]
    if case.get("z_mode") == "scalar":
        batch["z_table"] = [[i, _rat(case["tomos"][0]["z"])] for i in order_ids]
    else:
        batch["z_table"] = [[tm["id"], _rat(tm["z"])] for tm in _table_rows(case)]
    # the single-tomogram call gets ARRAYS: tilts as given (not sorted), no mdoc
    t0 = {k: v for k, v in tomos[0].items() if k not in ("mdoc", "dose_from_mdoc")}
    t0["tilts"] = [_rat(x) for x in case["tomos"][0]["tilts"]]
    t0["as_given"] = True
    if "dose" not in case["tomos"][0]:
        t0["dose"] = None
    single = dict(op="wedge", tomo_list_from_file=False, consts=consts, tomos=[t0])
    return [batch, single]


def judge(case, obs, resps):
    if "error" in obs and "where" in obs:
        if not obs.get("where"):
            # G4: no frame of the traceback lies inside /cryocat/: the harness or a third-party library failed, not cryoCAT
            return [dict(kind="corr", clause="harness-or-library-raised", detail=obs["error"])]
        return [dict(kind="spec", clause="raises", detail=obs["error"] + " @" + obs.get("where", ""))]
    if case["kind"] == "mdoc":
        return judge_mdoc(case, obs, resps[0])
    if case["kind"] == "g2":
        return judge_g2(case, obs, resps)
    if case["kind"] == "load":
        if len(resps) > 1:
            return judge_load(case, obs, dict(resps[0], code=resps[1]))
        return judge_load(case, obs, resps[0])
    return judge_wedge(case, obs, resps[0], resps[1] if len(resps) > 1 else None)


def classify(case, obs, finding):
    if finding.get("clause") in ("mdoc-roundtrip", "written-omits-removed") and finding.get("k1") and finding.get("kind") == "spec":
        return "C17-K1"
    if finding.get("clause") == "written-omits-removed" and finding.get("all_removed") and finding.get("kind") == "spec":
        return "C17-K4"
    return None


def nontrivial(case, obs):
    if case["kind"] == "g2":
        if case["sub"] == "indices":
            return len(obs.get("calls", [])) >= 2 and all("rows" in c.get("after", {}) and any(r["removed"] == ["b", True] for r in c["after"]["rows"]) for c in obs["calls"])
        c = obs.get("calls", [{}])
        return "rows" in c[0].get("after", {}) and any(r["removed"] == ["b", True] for r in c[0]["after"]["rows"]) and "rows" in obs.get("third", {})
    if case["kind"] == "mdoc":
        if case.get("malformed") or "raise" in obs.get("parsed", {"raise": 1}):
            return False
        P = obs["parsed"]
        cells = [c for r in P["rows"] for c in r["cells"]]
        ti = P["cols"].index("TiltAngle")
        A = obs.get("after", {})
        return (len(P["rows"]) >= 3 and any(float(r["cells"][ti][1]) < 0 for r in P["rows"]) and any(c[0] == "s" for c in cells)
                and sum(1 for c in cells if c[0] == "f") > len(P["rows"]) and "rows" in A and any(r["removed"] == ["b", True] for r in A["rows"]))
    if case["kind"] == "load":
        return len(case.get("vals", case.get("rows", case.get("tilts", [])))) >= 3
    return len(case["tomos"]) >= 2 and len({len(t["tilts"]) for t in case["tomos"]}) >= 2


def _bucket(n):
    return "1" if n == 1 else ("2-5" if n <= 5 else ("6-20" if n <= 20 else "21-80"))


def stats(case, obs, resps):
    if case["kind"] == "g2":
        d = {"kind": "g2:" + case["sub"]}
        if case["sub"] == "indices":
            d["g2_calls_with_same_array"] = len(case["texts"])
            d["g2_index_input"] = ("list" if case.get("as_list") else "ndarray:" + case["dtype"]) + f",from1={case['from1']}"
        else:
            d["g2_first_object_ops"] = [st["k"] for st in case["steps1"]]
            d["g2_rewrite_same_size"] = bool(case.get("same_size"))
        return d
    if case["kind"] == "mdoc":
        d = {"kind": "mdoc" + ("-malformed:" + case["malformed"] if case.get("malformed") else "") + ("-odd:" + case["odd"] if case.get("odd") else "")}
        r0 = resps[0] if resps and isinstance(resps[0], dict) else {}
        if r0.get("parsed") is None and "why" in r0:
            # the model reads nothing: the code must raise ("raises"), or a named class outside the quantifier that the judge SKIPS
            d["mdoc_outside_class"] = r0["why"] + (":impl-raises" if "raise" in obs.get("parsed", {}) else ":impl-reads")
        elif r0.get("long_float"):
            d["mdoc_outside_class"] = "float-with-more-than-15-significant-digits:impl-only"
        elif "strict" in r0:
            d["mdoc_reader_model"] = "strict" if r0["strict"] else "extended-only (duplicate header key / float() tilt spelling)"
        P = obs.get("parsed", {})
        if "rows" in P:
            d["mdoc_images"] = _bucket(len(P["rows"]))
            d["mdoc_sid"] = P["sid"]
            d["mdoc_cell_types"] = sorted({c[0] for r in P["rows"] for c in r["cells"]} | {v[0] for _, v in P["info"]})
            d["mdoc_titles"] = len(P["titles"])
            d["mdoc_steps"] = [(("sort-reset" if s.get("reset") else "sort") if s["k"] == "sort" else ("remove-kept" if s.get("kept_only", True) else "remove-all"))
                               + ("(keyword omitted)" if s.get("omit_kw") else "") for s in case["steps"]] or ["none"]
            d["mdoc_write_kw"] = "omitted" if case.get("write_removed", False) is None else "explicit"
            if P["sid"] != "ZValue" and any(s["k"] == "sort" and s.get("reset") for s in case["steps"]):
                d["mdoc_frameset_reset"] = True
            A = obs.get("after", {})
            d["mdoc_ops_outcome"] = "raise" if "raise" in A else f"removed:{_bucket(sum(1 for r in A['rows'] if r['removed'] == ['b', True])) if any(r['removed'] == ['b', True] for r in A['rows']) else 0}"
            d["mdoc_write_removed"] = case.get("write_removed", False)
            expf = any(c[0] == "f" and "e" in c[1] for r in P["rows"] for c in r["cells"]) or any(v[0] == "f" and "e" in v[1] for _, v in P["info"])
            d["mdoc_exponent_form_float"] = expf
            d["mdoc_dose_path"] = "prior+exposure" if "dose" in obs else "absent"
            d["mdoc_equal_tilt_angles"] = (("yes, sorted" if any(s["k"] == "sort" for s in case["steps"]) else "yes, not sorted") if _has_ties(P) else "no")
            if resps and isinstance(resps[0], dict) and "wf" in resps[0]:
                rt = "raise" in obs.get("fresh_reread", {}) or _same_object(P, obs["fresh_reread"]) is not None
                d["mdoc_wfb_vs_roundtrip"] = f"wfb={resps[0]['wf']},roundtrip={'differs' if rt else 'same'}"
                d["mdoc_textok_vs_wfb"] = f"textOk={resps[0].get('text_ok')},wfb={resps[0]['wf']}"
        return d
    if case["kind"] == "load":
        d = {"kind": "load:" + case["sub"], "load_rows": _bucket(len(case.get("vals", case.get("rows", case.get("tilts", [])))) or 1)}
        if case.get("col_order") and (case["sub"] == "gctf" or case.get("content") == "gctf"):
            d["load_gctf_column_order"] = case["col_order"]
        if case["sub"].endswith("_in"):
            d["load_input"] = case["sub"] + ":" + case["input"] + (":" + (case.get("ext") or "noext") if case["input"] == "file" and "ext" in case else "") + \
                (":empty" if case.get("vals") == [] else "") + (":" + case["file_type"].lower() if "file_type" in case else "") + \
                (":width" + str(case["width"]) if "width" in case else "")
            d["load_outcome"] = "raise" if isinstance(obs.get("out"), dict) and "raise" in obs["out"] else "values"
            if case.get("file_type", 0) is None:
                d["load_file_type_kw"] = "omitted"
            if resps and isinstance(resps[0], dict):
                d["load_model_reader"] = str(resps[0].get("reader"))
        return d
    if case["kind"] == "load" and case.get("col_order"):
        pass
    return {"kind": "wedge", "wedge_tomograms": len(case["tomos"]), "wedge_ctf": str(case["ctf"]), "wedge_dose": str(case["dose"]),
            "wedge_gctf_column_order": str(case.get("col_order")) if case["ctf"] == "gctf" else "-",
            "wedge_tilt_files_unsorted": bool(case.get("tilts_unsorted")), "wedge_tables_permuted": bool(case.get("table_perm")),
            "wedge_tables_extra_rows": bool(case.get("table_extra")), "wedge_keywords_omitted": sorted(case.get("omit", [])) or ["none"],
            "wedge_inputs": [f"list:{case['tomo_list']}", f"dims:{case['dims_mode']}", f"z:{case['z_mode']}" + ("-int" if case.get("z_int_array") else ""),
                             "tlt:" + ("mdoc" if case.get("tlt_from_mdoc") else "file")],
            "wedge_tilts": [_bucket(len(t["tilts"])) for t in case["tomos"]],
            "wedge_outcome": "raise" if "raise" in obs.get("batch", {}) else "rows", "wedge_inconsistent": bool(case.get("inconsistent")),
            "wedge_duplicate_tomogram": bool(case.get("duplicate"))}


def shrink(case):
    if case["kind"] == "g2":
        if case["sub"] == "indices":
            if len(case["texts"]) > 2:
                yield dict(case, texts=case["texts"][:2])
            if len(case["idx"]) > 1:
                yield dict(case, idx=case["idx"][:1])
        else:
            if len(case["steps1"]) > 1:
                for i in range(len(case["steps1"])):
                    yield dict(case, steps1=case["steps1"][:i] + case["steps1"][i + 1:])
            if case["steps2"]:
                yield dict(case, steps2=[])
        return
    if case["kind"] == "mdoc":
        lines = case["text"].split("\n")
        sec = [i for i, l in enumerate(lines) if l.startswith("[ZValue") or l.startswith("[FrameSet")]
        if case.get("steps"):
            yield dict(case, steps=[])
            for i in range(len(case["steps"])):
                yield dict(case, steps=case["steps"][:i] + case["steps"][i + 1:])
        if len(sec) > 1:
            # fewer images (an op sequence whose indices no longer fit simply stops failing and the candidate is dropped)
            yield dict(case, text="\n".join(lines[:sec[len(sec) // 2]]) + "\n")
            yield dict(case, text="\n".join(lines[:sec[-1]]) + "\n")
            if not case.get("steps"):
                yield dict(case, text="\n".join(lines[:sec[1]]) + "\n")
                yield dict(case, text="\n".join(lines[:sec[0]] + lines[sec[1]:]))
        for i, st in enumerate(case.get("steps", [])):
            if st["k"] == "remove" and len(st["idxs"]) > 1:
                yield dict(case, steps=case["steps"][:i] + [dict(st, idxs=st["idxs"][:len(st["idxs"]) // 2])] + case["steps"][i + 1:])
                yield dict(case, steps=case["steps"][:i] + [dict(st, idxs=st["idxs"][1:])] + case["steps"][i + 1:])
        # drop one header / body line at a time (keeping TiltAngle)
        if not case.get("steps"):
            first = sec[0] if sec else len(lines)
            for i, l in enumerate(lines):
                if i in sec or not l.strip() or l.strip().startswith("TiltAngle"):
                    continue
                if i < first:
                    yield dict(case, text="\n".join(lines[:i] + lines[i + 1:]))
                elif len(sec) == 1:
                    yield dict(case, text="\n".join(lines[:i] + lines[i + 1:]))
                else:
                    # remove the key from every section
                    key = l.split("=")[0].strip()
                    yield dict(case, text="\n".join(x for j, x in enumerate(lines) if j < first or x.split("=")[0].strip() != key))
                    break
    elif case["kind"] == "load" and case.get("ext") == ".mdoc":
        return
    elif case["kind"] == "load":
        for k in ("vals", "rows"):
            if k in case and len(case[k]) > 1:
                yield dict(case, **{k: case[k][:1]})
                yield dict(case, **{k: case[k][:len(case[k]) // 2]})
                yield dict(case, **{k: case[k][1:]})
    else:
        ts = case["tomos"]
        if len(ts) > 1:
            for i in range(len(ts)):
                yield dict(case, tomos=ts[:i] + ts[i + 1:])
        for i, tm in enumerate(ts):
            n = len(tm["tilts"])
            if n > 1 and "mdoc" not in tm:
                h = max(1, n // 2)
                cut = dict(tm, tilts=tm["tilts"][:h])
                for k in ("ctf_rows", "dose"):
                    if k in tm:
                        cut[k] = tm[k][:max(0, len(tm[k]) - (n - h))]
                yield dict(case, tomos=ts[:i] + [cut] + ts[i + 1:])
        if case.get("ctf") and not case.get("inconsistent"):
            yield dict(case, ctf=None, tomos=[{k: v for k, v in tm.items() if k != "ctf_rows"} for tm in ts])
        if case.get("dose") == "txt" and not case.get("inconsistent"):
            yield dict(case, dose=None, tomos=[{k: v for k, v in tm.items() if k != "dose"} for tm in ts])


def sample_view(case):
    if case["kind"] == "g2":
        return {k: ((v[:300] + "...") if isinstance(v, str) and len(v) > 300 else ([x[:200] for x in v] if k == "texts" else v)) for k, v in case.items()}
    if case["kind"] == "mdoc":
        return dict(kind="mdoc", text_head=case["text"][:700], n_lines=case["text"].count("\n"), steps=case.get("steps"), write_removed=case.get("write_removed"),
                    malformed=case.get("malformed"))
    if case["kind"] == "load":
        return {k: (v[:5] if isinstance(v, list) else v) for k, v in case.items()}
    return dict(kind="wedge", ctf=case["ctf"], dose=case["dose"], consts=case["consts"], tomo_list=case["tomo_list"], dims_mode=case["dims_mode"], z_mode=case["z_mode"],
                tomos=[dict(id=t["id"], dims=t["dims"], z=t["z"], tilts=t["tilts"][:5], n=len(t["tilts"])) for t in case["tomos"]])


def probes(rng):
    import numpy as np
    out = []
    bad = []
    for _ in range(400):
        s = _plain_float(rng) if rng.random() < 0.8 else _exp_float(rng)
        i, _, f = s.partition(".")
        ci = i.lstrip("0") or "0"
        cf = f.rstrip("0") or "0"
        if _is_exp(ci, cf):
            ok = "e" in repr(float(s)) and Fraction(repr(float(s))) == Fraction(ci + "." + cf)
        else:
            ok = repr(float(s)) == ci + "." + cf
        if not ok:
            bad.append(s)
    out.append(dict(name="py-float-repr", ok=not bad, detail=f"repr(float(s)) is not the canonical decimal for {bad[:3]}" if bad else "400 decimals"))
    # the exact rounding used by the loader oracle against the two library roundings it stands for
    bad = []
    for _ in range(400):
        t = f"{rng.uniform(-70000, 70000) * 10 ** -rng.randint(0, 4):.{rng.randint(0, 6)}f}"
        fr = Fraction(t)
        if _nearest(fr, 53) != float(t) or _nearest(fr, 24) != float(np.float32(t)):
            bad.append(t)
    for t, p, v in (("0.1", 24, 0.10000000149011612), ("16777217", 24, 16777216.0), ("16777219", 24, 16777220.0), ("0.1", 53, 0.1), ("-2.5", 24, -2.5)):
        if _nearest(Fraction(t), p) != v:
            bad.append(t)
    out.append(dict(name="nearest-float", ok=not bad, detail=f"_nearest differs from float() / numpy.float32() for {bad[:3]}" if bad else "400 decimals + ties"))
    bad = [x for x in (rng.uniform(-90, 90) for _ in range(300)) if str(np.float64(round(x, 4))) != repr(float(round(x, 4)))]
    bad += [x for x in (1e-05, 1e16, 0.0001, -0.0, 123456789012345.0) if str(np.float64(x)) != repr(x)]
    out.append(dict(name="np-float64-str", ok=not bad, detail=str(bad[:3])))
    return out


LEVEL_TEXT = ("Lean 4 theorems about an executable character-level model of Mdoc reading/writing (_format_value typing, write, _read_mdoc), sort_by_tilt, "
              "remove_images / kept_images, the mdoc dose, and polymorphic models of the tilt / dose / defocus loaders (incl. their input dispatch) and of the "
              "STOPGAP / EM wedge lists (incl. the STAR table that is written, its reload and the sg->em grouping); read-write-read is proved for a decidable, "
              "exact class of texts (textOk); "
              "tied to the source by regenerated constants (section prefixes, write format strings, row filter of write, sort key, float column, dose keys and '+', "
              "Angstrom->micron factors, mean expression, wedge column list and assignments, STAR specifier, groupby/agg of sg->em, type chains and extension / "
              "file-type dispatch tables of tlt_load, total_dose_load, defocus_load) and by a differential run of the real functions against the model")
LEVEL_NOTE = ("trusted: Lean kernel; translator anchors; harness canonicalisation of pandas cells; Python float repr of <=15-digit decimals (probed); the rounding of an exact "
              "rational to the nearest float32 / float64 in the harness (`_nearest`, probed against float() and numpy.float32); computed loader outputs within relative bounds "
              "16*2^-24 (float32 chains) / 32*2^-53 (float64 chains); Starfile I/O belongs to C02; open findings C17-K1 (exponent-form floats re-read as text) and C17-K4 "
              "(an mdoc written with every image removed cannot be re-read)")
TECHNIQUE = "Lean 4 proof (list induction over lines/characters, merge-sort permutation, zip/flatten indexing, field identities) + regenerated constants + differential correspondence"
DESIGN_REF = "DESIGN.md section 4, C17"
