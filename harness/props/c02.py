"""C02 — STAR files read back to the same blocks, columns, rows and values (DESIGN.md section 4, C02).

Five case streams (field `kind`):
  write      list of tables (30 %: permuted / reversed / repeated / string / gapped row labels) -> real Starfile.write (keywords with a
             default left out in ~30 %) -> file text (independent tokenizer + byte compare with the Lean `printStar`; every float cell:
             the Lean checker `round6Cell` decides "equal after rounding to 6 decimals" on the token in exact rational arithmetic) ->
             real Starfile.read (20 %: through the constructor Starfile(path)) -> compared with the tables (the statement, evaluated
             directly, incl. integer / float / text typing of what comes back) and with the Lean `readStar` of the same text
  rewrite    cross-call state: two or three write/read rounds in one process on the SAME path (same shape and byte length with other
             values / unrelated tables / the same caller-owned list object again); every read judged against the tables of its write
  remove     Starfile.remove_lines on a written file (the comments and specifiers `read` returned are fed back into `write`)
  read       grammar-generated STAR text (comments / blank lines in the permitted places or absent, tabs, runs of blanks incl. the
             whole str.isspace set, non-ASCII word characters, trailing blanks, CRLF/LF, final newline or not) -> real Starfile.read
             vs. the generating structure vs. the harness's own line tokenizer vs. the Lean `readStar` (three-way, exact)
  malformed  a `read` text damaged in one place (ragged row, comment on a row, missing loop_, ...): if the independent tokenizer
             still finds a STAR text of the statement it is judged like a `read` case; otherwise accept/reject and the error kind
             are compared with the Lean parser only (correspondence, never a spec finding)
"""
import os, re, ast, math, tempfile, copy
import core
from core import f2b, b2f

PROP = "C02"
COUNT = {"quick": 700, "thorough": 9000, "search": 4000}
PARALLEL = True
PRECISION = 6  # documented default of Starfile.write(float_precision=6); Props/C02 proves Gen.floatPrecision = 6
HUGE = 1.7976931348623157e302  # the smallest double v for which v*1e6 overflows binary64 (its predecessor times 1e6 is still finite)

RULE = ("write stream (with, in a third of the cases, a `comments` argument: per block None or 0..3 comment lines incl. empty, padded, '#', 'loop_', "
        "'data_x', '_rlnFake #1'; in half of all write/read cases also Starfile.read(data_id=i) with i in -n-1..n and in 40% "
        "get_frame_and_comments/get_specifier_id with a present, duplicated or absent block name, on the same file; each of the keywords "
        "number_columns / specifiers / comments LEFT OUT of the call in ~30% so that the signature defaults True / ['data']*n / None run): "
        "1..4 tables (1..200 rows, an empty table only last; 1..30 columns) of int64 / float64 / text columns, in 30% of the cases with non-default row labels on every table "
        "(permuted as after sort_values, reversed, repeated as after pd.concat, strings, gaps as after remove_feature, constant): the file must hold the rows in the order of the table; "
        "labels incl. real RELION names of 25..33 characters, one of 60, and labels / a block name / text cells that Unicode normalisation would change (combining accents, ANGSTROM SIGN, OHM SIGN, ligature, superscript); "
        "in 20% the tables are read back through the constructor Starfile(path) instead of Starfile.read (rewrite stream: every round of half of the cases); in 15% specifiers / comments are handed over as tuples; "
        "names from data_, data_particles, data_optics, data_general, data_stopgap_*, number_columns on/off; float cells from "
        "integers-as-floats, 1..9 decimals, values that change under round(6), half-way cases at the 7th decimal, tiny, 1e15..1e22, random mantissas up to 1e40, "
        "+-0; text cells printable ASCII or non-ASCII word characters (U+200B, U+180E, U+FEFF, letters, ...) without str.isspace characters/#, not starting with _, never empty, at least one cell per text column "
        "that is not a number (letters), some cells number-like (1e5, .5, nan, inf, 1_0) beside it, some longer than the 10-wide pad, 3% of the free text tokens 63..300 characters long (corpus: 1500 characters, row lines over 4 kB). "
        "Value clause on the file: every float cell's token goes to the Lean checker round6Cell (exact rational arithmetic: a decimal literal with at most 6 fractional digits within 0.5e-6 + 3 ulp of the written double), cross-checked by the harness's own Fraction arithmetic. "
        "rewrite stream (G2): 2..3 write/read rounds on one path in one process: same shape + all cells <= 10 characters (identical byte length, same second) with other values (60%), "
        "unrelated tables (20%), the same caller-owned list object written again with the other header style (20%); the caller's tables, list, specifiers and comments are compared before/after every call. "
        "remove stream: Starfile.remove_lines(path, positions as a list, (30%) a numpy integer array or (15%) a tuple, output_file or not, data_specifier None/present/absent, number_columns given or left out) on a written file of exactly-parsed cells; positions "
        "non-negative, distinct or repeated, 6% beyond the last row; a block other than the last keeps a row. "
        "read stream: grammar-generated texts (see module docstring; integer tokens beyond 64 bits in 3% of the integer cells; per integer COLUMN 2% hold a token of the unsigned 64-bit range beside non-negative ones and 2% beside a negative one = class C02-K5; "
        "10% of the float tokens at full precision: 17 significant digits, fixed notation with 19..30 fractional digits -- the value pandas assigns is compared with float(token) as a correspondence matter only, tolerance max(4 ulp, 1e-12 relative, 1e-15 absolute) as measured; 20% read through Starfile(path)); 2% of the later blocks directly follow the previous block's rows and 40% of the texts whose last block is empty and unfollowed end "
        "without final newline -- both layouts are INSIDE the statement (blank/comment lines `may` separate blocks; `with or without final newline`) and the reader raises on them: open findings C02-K4 / C02-K3. "
        "malformed stream: one damage per text; a damaged text the independent tokenizer still reads as a STAR text of the statement is judged as such (spec), any other is OUTSIDE the quantifier "
        "(e.g. `1 2` / `3` under two labels: not `data blocks with one loop each` whose rows an independent tokenizer finds -- the reader drops the short row silently, theorem short_last_row_dropped; "
        "counted in the histogram malformed.accepted-by-reader-though-malformed, never a finding). "
        "non-trivial = write case with >=2 blocks, or with >=1 text column and >=1 float cell changed by round(6); rewrite case whose rounds differ (or reuse the list); remove case that removes a row; read case "
        "with >=1 comment line and >=1 token separator longer than one character; malformed case the model rejects. "
        "distinct = distinct case content (sha1 of the JSON)")
ASSUMPTIONS = [
    "Python text-mode I/O: open(path,'w') writes the given characters with LF line ends; open(path,'r').read() may or may not turn CRLF into LF -- the model reads the characters as they are on disk (CRLF included) and theorem crlf_normalisation proves both readings equal (also run on every CRLF case); a CR not followed by LF is outside the quantifier",
    "the shortest round-trip digit string and decimal exponent of a rounded float64 cell are those of numpy's Dragon4 (format_float_scientific(unique=True)); their layout by Python's repr (fixed/exponent form, thresholds 1e16 and 1e-4, '.0', two-digit exponent, inf, nan) and str(int) are modelled in Lean (floatRepr, intStr; theorem written_cell_value: the cell laid out from any digit string denotes digits*10^(decpt-len)) and the produced file is compared byte for byte",
    "DataFrame.round(6) = numpy.round(v, 6) per float cell (harness computes numpy.round itself; byte compare of the file on every case)",
    "float(repr(x)) = x and int(str(n)) = n (probed on every run); pandas.to_numeric turns a column into numbers iff every cell is a decimal literal [+-]?(d+[.d*]|.d+)([eE][+-]?d+)? or [+-]?(inf|infinity) in any letter case -- not nan (model `isNumTok`, proved equal to the grammar `NumTok` and to hold for every cell the writer prints for a number; probed on every run on the token pool incl. all spellings; integer tokens beyond 64 bits come back as Python ints in an object column and are numbers all the same; a column mixing a token of the unsigned range 2^63..2^64-1 with a negative integer is refused by to_numeric and stays text -- proposed finding C02-K5, generated only once it is listed)",
    "pandas.to_numeric(token) is within 4 ulp of the correctly rounded float(token): measured on pandas 3.0.6 with 400 000 random 17-digit mantissas per band -- at most 1 ulp off below 1e9, 2 ulp for 1e9..1e47 (e.g. '3.3e+100' -> 3.2999999999999997e+100), 3 ulp for a few mantissas per million in 1e47..1e60 and above 1e120; bound = worst measured + 1 ulp; probed on every run on 7000 values of the magnitudes the generator writes (<= 1e40 and its listed constants). numpy.round(v, 6) = rint(v*1e6)/1e6 within 0.5e-6 + 1.5 ulp of v (probed likewise). The statement's `equal after rounding to 6 decimals` is judged on the FILE TEXT in exact rational arithmetic by the Lean checker `round6Cell` (theorem round6Ok_iff: the token is a decimal literal, its exactly parsed value d has at most 6 fractional digits -- d*10^6 is an integer -- and |d - written| <= 0.5e-6 + 3 ulp(written); 3 = 1 for the product v*1e6, 2*(1/2 + 1/2) for the quotient and the shortest digits, whose result may lie in the next binade; worst excess seen in 400 000 draws: 1.5 ulp; the harness repeats the evaluation with Python's Fraction on every cell) and on the frames read back as |read - written| <= 0.5e-6 + 5.5 ulp",
    "pandas.to_numeric gives an integer dtype exactly for columns of [+-]?d+ tokens (int64, uint64 for 2^63..2^64-1 without a negative cell, Python ints beyond 64 bits; model `isIntTok`; probed on every run)",
    "str.isspace() = model `isWs` on ALL code points (theorem isWs_is_str_isspace; the driver lists the model's set and the harness compares it with str.isspace over range(0x110000) on every run); str.split() splits exactly there; files are UTF-8 (an encoding error of the environment is reported as harness-or-library-raised, not as a spec finding)",
    "remove stream: a cell written by Starfile.write, read by pandas.to_numeric and written again prints the same characters (cells restricted to <= 15 significant digits; probed on every run)",
]
TRUSTED = ["harness independent STAR line tokenizer (props/c02.py indep_parse)", "Python builtins float(), str(), repr(), numpy.round used to evaluate the statement"]

NAMES = ["data_", "data_particles", "data_optics", "data_general", "data_stopgap_motl", "data_stopgap_wedgelist", "data_stopgap_x1", "data_micrographs",
         "data_stopgap_cafe\u0301"]  # a block name that Unicode normalisation would change (e + COMBINING ACUTE ACCENT)
LABELS = ["rlnCoordinateX", "rlnCoordinateY", "rlnCoordinateZ", "rlnAngleRot", "rlnAngleTilt", "rlnAnglePsi", "rlnMicrographName", "rlnImageName",
          "rlnOpticsGroup", "rlnClassNumber", "rlnRandomSubset", "rlnOriginXAngst", "rlnTomoName", "motl_idx", "tomo_num", "object", "subtomo_num",
          "halfset", "orig_x", "orig_y", "orig_z", "score", "x_shift", "phi", "psi", "the", "class", "rlnCtfImage", "rlnPixelSize", "rlnVoltage",
          "rlnDetectorPixelSize", "rlnMagnification", "a", "b", "x", "col", "_odd", "name.with.dots", "k-1",
          # real RELION labels of 25..33 characters, a 60-character one, and labels that are not NFC / NFKC stable (combining accent, ANGSTROM SIGN, ligature)
          "rlnCtfDataAreCtfPremultiplied", "rlnTomoTiltSeriesPixelSize", "rlnTomoSubtomogramBinning", "rlnMicrographOriginalPixelSize", "rlnTomoImportFractionalDose",
          "rlnTomoReconstructedTomogramHalf1", "rlnAccumMotionTotalOverAllFramesOfTheTiltSeriesInAngstroms_60", "re\u0301solution", "pixel\u212b", "pro\ufb01le"]
TEXT_SURE = ["A", "B", "x", "mic_001.mrc", "tomo12/sub_3.em", "000012@stack.mrcs", "opticsGroup1", "halfA", "a.b.c", "K3-2021:07", "abc", "Zr", "foo/bar/baz_0001.mrc",
             "very_long_file_name_of_a_tilt_series_TS_001.mrc", "q", "yes", "p'q", "\"quoted\"", "a=b", "[1,2]", "x_", "l00p_", "loop", "Loop_", "loop__", "data_x", "-x", "x-1", "1x", "e5x",
             # not stable under Unicode normalisation (a file name typed on macOS arrives decomposed): the cell must come back character for character
             "cafe\u0301.mrc", "A\u030angstro\u0308m_1", "grid_\u212b2", "\u2126mega", "\ufb01le_1.mrc", "x\u00b2", "\u1e9b\u0323"]
TEXT_AMBIG = ["nan", "NaN", "inf", "-inf", "Infinity", "1_0", "0x10", "1d5", "--1", "1e", "e5", ".", "-", "+", "1.2.3", "True", "None", "NA", "N/A", "1,5", "1f", "5j", "1e400",
              "12", "-3", "4.5", "1e5", ".5", "7.", "+2", "0012", "1E-3"]
INF_SPELLINGS = ["inf", "-inf", "+inf", "Inf", "INF", "iNf", "infinity", "Infinity", "-Infinity", "+INFINITY", "-iNfInItY"]
WS_PAD = [" ", "  ", "\t", "   ", " \t", "\t\t", "    ", " \t ", "          "]


# ------------------------------------------------------------------ translator
def _chars(s):
    def one(c):
        if c == "\n": return "'\\n'"
        if c == "\t": return "'\\t'"
        if c == "\r": return "'\\r'"
        if c == "'": return "'\\''"
        if c == "\\": return "'\\\\'"
        if 32 <= ord(c) < 127: return f"'{c}'"
        return "'\\u%04x'" % ord(c)
    return "[" + ", ".join(one(c) for c in s) + "]"


def _char(s):
    return _chars(s)[1:-1]


def _consts(node):
    return [n.value for n in ast.walk(node) if isinstance(n, ast.Constant) and isinstance(n.value, str)]



class _Alpha(ast.NodeTransformer):
    """rename the local variables of one function to v0, v1, ... BY BINDING OCCURRENCE, in order of first binding (arguments
    first): a plain local gets one number at its first binding; the arguments of a nested def / lambda get fresh numbers of
    their own (scoped to that def), and EVERY `_` discard (argument or assignment target) is a variable of its own -- so a pure
    rename (also of a `_` to a real name, or of one of two `_`) gives the same dump. Dropped: docstrings, type annotations
    (arguments, return, `x: T = v` is treated as `x = v`, a bare `x: T` disappears) and the message arguments of
    `raise X(...)` / `warnings.warn(...)`. Spelling variants folded: `len(x) == 0` -> `not x`, `len(x) > 0` / `!= 0` -> `x`, negations pushed inward (De Morgan; `not x == y` -> `x != y`).
    The dump then depends on the statements, operators, constants, attribute / keyword names and called functions, not on how
    locals are called, annotated or errors worded. `names` (optional): documented name of the k-th binding (used by `_canon`);
    `keep_messages`: leave raise / warn arguments in place."""

    def __init__(self, fn, names=None, keep_messages=False):
        self.names, self.keep_messages = names, keep_messages
        self.count = 0
        self.map = {}          # name -> number (function scope)
        self.orig = []         # number -> identifier in the source (for diagnostics)
        self.scopes = []       # overlays of nested defs being visited
        self.cur_us = None     # number of the most recent `_` binding
        for a in self._args(fn):
            a._aid = self._fresh(a.arg) if a.arg == "_" else self._shared(a.arg)
        self._bind(fn)
        self.scopes, self.cur_us = [], None

    @staticmethod
    def _args(fn):
        a = fn.args
        return a.posonlyargs + a.args + ([a.vararg] if a.vararg else []) + a.kwonlyargs + ([a.kwarg] if a.kwarg else [])

    def _fresh(self, ident):
        self.orig.append(ident); self.count += 1
        return self.count - 1

    def _shared(self, ident):
        for sc in reversed(self.scopes):
            if ident in sc:
                return sc[ident]
        if ident not in self.map:
            self.map[ident] = self._fresh(ident)
        return self.map[ident]

    def _bind(self, node):
        for ch in ast.iter_child_nodes(node):
            if isinstance(ch, ast.Name) and isinstance(ch.ctx, ast.Store):
                ch._aid = self._fresh("_") if ch.id == "_" else self._shared(ch.id)
            elif isinstance(ch, (ast.FunctionDef, ast.AsyncFunctionDef, ast.Lambda)):
                if not isinstance(ch, ast.Lambda):
                    ch._nid = self._shared(ch.name)
                ov = {}
                for a in self._args(ch):
                    a._aid = self._fresh(a.arg)
                    if a.arg != "_":
                        ov[a.arg] = a._aid
                ch._overlay = ov
                self.scopes.append(ov); self._bind(ch); self.scopes.pop()
                continue
            elif isinstance(ch, ast.ExceptHandler) and ch.name:
                ch._nid = self._shared(ch.name)
            self._bind(ch)

    def _render(self, k):
        return self.names[k] if self.names is not None and k < len(self.names) else f"v{k}"

    def visit_Name(self, n):
        if hasattr(n, "_aid"):
            if n.id == "_":
                self.cur_us = n._aid
            return ast.copy_location(ast.Name(id=self._render(n._aid), ctx=n.ctx), n)
        if n.id == "_" and self.cur_us is not None:
            return ast.copy_location(ast.Name(id=self._render(self.cur_us), ctx=n.ctx), n)
        for sc in reversed(self.scopes):
            if n.id in sc:
                return ast.copy_location(ast.Name(id=self._render(sc[n.id]), ctx=n.ctx), n)
        if n.id in self.map:
            return ast.copy_location(ast.Name(id=self._render(self.map[n.id]), ctx=n.ctx), n)
        return n

    def visit_arg(self, n):
        if hasattr(n, "_aid") and n.arg == "_":
            self.cur_us = n._aid
        return ast.copy_location(ast.arg(arg=self._render(n._aid) if hasattr(n, "_aid") else n.arg, annotation=None), n)

    def _visit_def(self, n):
        self.scopes.append(getattr(n, "_overlay", {}))
        n = self.generic_visit(n)
        self.scopes.pop()
        return n

    def visit_FunctionDef(self, n):
        nid = getattr(n, "_nid", None)
        n = self._visit_def(n)
        n.returns = None
        if nid is not None:
            n.name = self._render(nid)
        return n

    def visit_Lambda(self, n):
        return self._visit_def(n)

    def visit_ExceptHandler(self, n):
        nid = getattr(n, "_nid", None)
        n = self.generic_visit(n)
        if nid is not None:
            n.name = self._render(nid)
        return n

    def visit_AnnAssign(self, n):
        if n.value is None:
            return None
        return self.visit(ast.copy_location(ast.Assign(targets=[n.target], value=n.value), n))

    def visit_Compare(self, n):
        n = self.generic_visit(n)
        if len(n.ops) == 1 and isinstance(n.left, ast.Call) and isinstance(n.left.func, ast.Name) and n.left.func.id == "len" and len(n.left.args) == 1 \
                and not n.left.keywords and isinstance(n.comparators[0], ast.Constant) and n.comparators[0].value == 0 and type(n.comparators[0].value) is int:
            if isinstance(n.ops[0], ast.Eq):
                return ast.copy_location(ast.UnaryOp(op=ast.Not(), operand=n.left.args[0]), n)
            if isinstance(n.ops[0], (ast.Gt, ast.NotEq)):
                return n.left.args[0]
        return n

    _NEG = {ast.Eq: ast.NotEq, ast.NotEq: ast.Eq, ast.Is: ast.IsNot, ast.IsNot: ast.Is, ast.In: ast.NotIn, ast.NotIn: ast.In}

    def visit_UnaryOp(self, n):
        """De Morgan: `not (a or b)` -> `not a and not b`, `not (a and b)` -> `not a or not b`, `not (x == y)` -> `x != y` (also `is`, `in`):
        the same truth value in the same evaluation order"""
        n = self.generic_visit(n)
        if isinstance(n.op, ast.Not):
            o = n.operand
            if isinstance(o, ast.BoolOp):
                flip = ast.And() if isinstance(o.op, ast.Or) else ast.Or()
                return ast.copy_location(ast.BoolOp(op=flip, values=[self.visit_UnaryOp(ast.UnaryOp(op=ast.Not(), operand=v)) for v in o.values]), n)
            if isinstance(o, ast.Compare) and len(o.ops) == 1 and type(o.ops[0]) in self._NEG:
                return ast.copy_location(ast.Compare(left=o.left, ops=[self._NEG[type(o.ops[0])]()], comparators=o.comparators), n)
        return n

    def visit_Raise(self, n):
        if isinstance(n.exc, ast.Call) and not self.keep_messages:
            return ast.copy_location(ast.Raise(exc=ast.Call(func=n.exc.func, args=[], keywords=[]), cause=None), n)
        return self.generic_visit(n)

    def visit_Call(self, n):
        if ast.unparse(n.func) in ("warnings.warn", "warn") and not self.keep_messages:
            return ast.copy_location(ast.Call(func=n.func, args=[], keywords=[]), n)
        return self.generic_visit(n)


def _is_docstring(st):
    return isinstance(st, ast.Expr) and isinstance(st.value, ast.Constant) and isinstance(st.value.value, str)


def _default_if(st):
    """`if <name> is None: <name> = <expr>` -> (<name>, <expr>) else None"""
    if isinstance(st, ast.If) and not st.orelse and len(st.body) == 1 and isinstance(st.body[0], ast.Assign) and len(st.body[0].targets) == 1 \
            and isinstance(st.test, ast.Compare) and len(st.test.ops) == 1 and isinstance(st.test.ops[0], ast.Is) and isinstance(st.test.left, ast.Name) \
            and isinstance(st.test.comparators[0], ast.Constant) and st.test.comparators[0].value is None \
            and isinstance(st.body[0].targets[0], ast.Name) and st.body[0].targets[0].id == st.test.left.id:
        return st.test.left.id, st.body[0].value
    return None


def _sort_defaults(body):
    """a leading run of independent `if a is None: a = ...` statements in a canonical order (their order does not matter)"""
    k = 0
    while k < len(body) and _default_if(body[k]):
        k += 1
    run = [_default_if(st) for st in body[:k]]
    names = {n for n, _ in run}
    if k > 1 and len(names) == k and not any(isinstance(x, ast.Name) and x.id in names for _, v in run for x in ast.walk(v)):
        return sorted(body[:k], key=ast.unparse) + body[k:]
    return body


def _dump(fn, skip=0, upto=None):
    """normalised dump of a whole function body (statement kinds + expressions), see `_Alpha`"""
    fn = copy.deepcopy(fn)
    fn.body = [st for st in fn.body if not _is_docstring(st)]
    fn = ast.fix_missing_locations(_Alpha(fn).visit(fn))
    body = _sort_defaults(fn.body[:upto] if upto is not None else fn.body)
    return ";".join(re.sub(r"\s+", "", ast.unparse(st).replace("\n", ";")) for st in body[skip:])


def _canon(fn, names):
    """the function with its locals renamed to the DOCUMENTED names (`names[k]` for the k-th binding occurrence, see `_Alpha`):
    the anchors below match on these names, so a renaming of locals in the source does not matter"""
    fn = copy.deepcopy(fn)
    fn.body = [st for st in fn.body if not _is_docstring(st)]
    return ast.fix_missing_locations(_Alpha(fn, names=names, keep_messages=True).visit(fn))


WRITE_LOCALS = ['frames', 'path', 'specifiers', 'comments', 'number_columns', 'float_precision', 'i', 'f', 'file', 'write_with_number', 'name', 'number',
                'write_without_number', 'name', '_', 'format_value', 'value', 'frame', 'specifier', 'comment', 'stopgap', 'write_function', 'c', 'index', 'column', 'row']


def _signature(fn):
    names = [a.arg for a in fn.args.args]
    nd = len(fn.args.defaults)
    return [n if i < len(names) - nd else f"{n}={ast.unparse(fn.args.defaults[i - (len(names) - nd)])}" for i, n in enumerate(names)]


def translate(src):
    rel = "cryocat/starfileio.py"
    A = core.AnchorMissing

    def tok_fn():
        return src.find(rel, "Token.tokenize")

    def split_sep():
        for n in ast.walk(tok_fn()):
            if isinstance(n, ast.Call) and isinstance(n.func, ast.Attribute) and n.func.attr == "split" and len(n.args) == 1 and isinstance(n.args[0], ast.Constant):
                if len(n.args[0].value) == 1:
                    return n.args[0].value
        raise A("Token.tokenize: text.split(<one char>)")

    def tok_roles():
        """names of the loop variables of the character loop, whatever they are called:
        `for <lineno>, <line> in enumerate(<lines>): ... for <index>, <char> in enumerate(<line>)`"""
        for outer in ast.walk(tok_fn()):
            if isinstance(outer, ast.For) and isinstance(outer.target, ast.Tuple) and len(outer.target.elts) == 2 and ast.unparse(outer.iter).startswith("enumerate("):
                for inner in ast.walk(outer):
                    if inner is not outer and isinstance(inner, ast.For) and isinstance(inner.target, ast.Tuple) and len(inner.target.elts) == 2 \
                            and ast.unparse(inner.iter) == f"enumerate({ast.unparse(outer.target.elts[1])})":
                        return dict(line=ast.unparse(outer.target.elts[1]), index=ast.unparse(inner.target.elts[0]), char=ast.unparse(inner.target.elts[1]))
        raise A("Token.tokenize: for _, line in enumerate(lines): for index, char in enumerate(line)")

    def cmp_consts(shape):
        """comparisons `<left> ==/!= <string constant>` of the tokenizer whose left side has the given shape
        ('char' = the character variable, 'first' = line[<name>], 'slice' = line[<name>:...]); names of locals do not matter"""
        roles = tok_roles()
        out = []
        for n in ast.walk(tok_fn()):
            if not (isinstance(n, ast.Compare) and len(n.comparators) == 1 and isinstance(n.comparators[0], ast.Constant) and isinstance(n.comparators[0].value, str)):
                continue
            l = n.left
            if shape == "char":
                hit = isinstance(l, ast.Name) and l.id == roles["char"]
            else:
                hit = isinstance(l, ast.Subscript) and isinstance(l.value, ast.Name) and l.value.id == roles["line"] and \
                    (isinstance(l.slice, ast.Slice) if shape == "slice" else isinstance(l.slice, ast.Name))
            if hit:
                form = "" if shape != "slice" else ("[a:b]" if l.slice.upper is not None else "[a:]")
                out.append((form, type(n.ops[0]).__name__, n.comparators[0].value))
        return out

    def comment_char():
        # any number of `char == c` / `char != c` tests, all against the same single character (structure, not count)
        cs = cmp_consts("char")
        vals = {c[2] for c in cs}
        if not cs or len(vals) != 1 or len(next(iter(vals))) != 1 or not {c[1] for c in cs} <= {"NotEq", "Eq"}:
            raise A(f"Token.tokenize: <char> != <c> / <char> == <c> comparisons against one character, got {cs}")
        return next(iter(vals))

    def prop_prefix():
        cs = cmp_consts("first")
        vals = {c[2] for c in cs}
        if not cs or len(vals) != 1 or {c[1] for c in cs} != {"Eq"} or len(next(iter(vals))) != 1:
            raise A(f"Token.tokenize: <line>[<first>] == <c>, got {cs}")
        return next(iter(vals))

    def loop_kw():
        cs = cmp_consts("slice")
        vals = {c[2] for c in cs}
        if not cs or len(vals) != 1 or {c[1] for c in cs} != {"Eq"}:
            raise A(f"Token.tokenize: <line>[<first>:<index>] == <kw> / <line>[<first>:] == <kw>, got {cs}")
        return next(iter(vals))

    def classify_order():
        # every if/elif/else classification chain: PROPERTY test first, LOOP second, LITERAL last
        roles = tok_roles()
        chains = []
        for n in ast.walk(tok_fn()):
            if isinstance(n, ast.If) and isinstance(n.test, ast.Compare) and isinstance(n.test.left, ast.Subscript) and isinstance(n.test.left.value, ast.Name) \
                    and n.test.left.value.id == roles["line"] and isinstance(n.test.left.slice, ast.Name):
                kinds = []
                cur = n
                while True:
                    kinds.append(re.search(r"TokenType\.(\w+)", ast.unparse(cur.body[0])).group(1))
                    if len(cur.orelse) == 1 and isinstance(cur.orelse[0], ast.If):
                        cur = cur.orelse[0]
                    else:
                        kinds.append(re.search(r"TokenType\.(\w+)", ast.unparse(cur.orelse[0])).group(1))
                        break
                chains.append(kinds)
        if not chains or any(c != chains[0] for c in chains):
            raise A(f"Token.tokenize: identical classification chains, got {chains}")
        return chains[0]

    def name_drop():
        fn = _canon(src.find(rel, "Token.parse_column"), ["tokens", "column"])
        for n in ast.walk(fn):
            if isinstance(n, ast.Return) and isinstance(n.value, ast.Subscript) and isinstance(n.value.slice, ast.Slice):
                s = n.value.slice
                if s.upper is None and s.step is None and isinstance(s.lower, ast.Constant) and ast.unparse(n.value.value) == "column.value":
                    return int(s.lower.value)
        raise A("Token.parse_column: return column.value[<k>:]")

    _w = {}

    def wfn():
        if "fn" not in _w:
            _w["fn"] = _canon(src.find(rel, "Starfile.write"), WRITE_LOCALS)
        return _w["fn"]

    def winner(name):
        for n in ast.walk(wfn()):
            if isinstance(n, ast.FunctionDef) and n.name == name:
                return n
        raise A(f"Starfile.write.{name}")

    def precision():
        fn = wfn()
        names = [a.arg for a in fn.args.args]
        d = dict(zip(names[len(names) - len(fn.args.defaults):], fn.args.defaults))
        if "float_precision" not in d or not isinstance(d["float_precision"], ast.Constant):
            raise A("Starfile.write: float_precision=<const>")
        return int(d["float_precision"].value)

    def rounds():
        txt = ast.unparse(wfn()).replace(" ", "")
        if "frames[i]=f.round(float_precision)" not in txt:
            raise A("Starfile.write: frames[i] = f.round(float_precision)")
        return True

    def cell_format():
        fn = winner("format_value")
        cs = _consts(fn)
        m = [re.fullmatch(r"\{:(.?)([<>^])(\d+)\}", c) for c in cs]
        m = [x for x in m if x]
        txt = ast.unparse(fn).replace(" ", "")
        if len(m) != 1 or ".format(str(value))" not in txt:
            raise A(f"format_value: '{{:<10}}'.format(str(value)), got {cs}")
        return [m[0].group(1), m[0].group(2), int(m[0].group(3))]

    def cell_sep():
        for n in ast.walk(wfn()):
            if isinstance(n, ast.Call) and isinstance(n.func, ast.Attribute) and n.func.attr == "join" and isinstance(n.func.value, ast.Constant):
                if ast.unparse(n.args[0]).replace(" ", "") == "map(str,row)":
                    par = ast.unparse(n)
                    return n.func.value.value
        raise A("Starfile.write: <sep>.join(map(str, row))")

    def row_end():
        for n in ast.walk(wfn()):
            if isinstance(n, ast.BinOp) and isinstance(n.op, ast.Add) and "join(map(str, row))" in ast.unparse(n.left) and isinstance(n.right, ast.Constant):
                return n.right.value
        raise A("Starfile.write: sep.join(...) + <row end>")

    def stopgap_kw():
        for n in ast.walk(wfn()):
            if isinstance(n, ast.Assign) and ast.unparse(n.targets[0]) == "stopgap" and isinstance(n.value, ast.Compare) and isinstance(n.value.ops[0], ast.In) \
                    and isinstance(n.value.left, ast.Constant) and ast.unparse(n.value.comparators[0]) == "specifier":
                return n.value.left.value
        raise A("Starfile.write: stopgap = <kw> in specifier")

    def numbered_cond():
        for n in ast.walk(wfn()):
            if isinstance(n, ast.Assign) and ast.unparse(n.targets[0]) == "write_function":
                return ast.unparse(n.value).replace(" ", "")
        raise A("Starfile.write: write_function = ...")

    def fpieces(fname, holes):
        fn = winner(fname)
        calls = [n for n in ast.walk(fn) if isinstance(n, ast.Call) and ast.unparse(n.func) == "file.write"]
        if len(calls) != 1 or not isinstance(calls[0].args[0], ast.JoinedStr):
            raise A(f"{fname}: one file.write(f-string)")
        return _fstring(calls[0].args[0], holes, fname)

    def _fstring(js, holes, what):
        pieces, seen, cur = [], [], ""
        for v in js.values:
            if isinstance(v, ast.Constant):
                cur += v.value
            else:
                if v.conversion != -1 or v.format_spec is not None:
                    raise A(f"{what}: plain {{}} holes")
                pieces.append(cur); cur = ""; seen.append(ast.unparse(v.value))
        pieces.append(cur)
        if seen != holes:
            raise A(f"{what}: holes {holes}, got {seen}")
        return pieces

    def file_writes():
        """the file.write calls of the block loop, in order, as normalised source"""
        fn = wfn()
        loop = [n for n in ast.walk(fn) if isinstance(n, ast.For) and "zip(frames,specifiers,comments)" in ast.unparse(n.iter).replace(" ", "")]
        if len(loop) != 1:
            raise A("Starfile.write: for frame, specifier, comment in zip(frames, specifiers, comments)")
        return loop[0]

    def spec_line():
        for n in ast.walk(file_writes()):
            if isinstance(n, ast.Call) and ast.unparse(n.func) == "file.write" and isinstance(n.args[0], ast.JoinedStr) and "specifier" in ast.unparse(n.args[0]):
                return _fstring(n.args[0], ["specifier"], "specifier line")
        raise A("Starfile.write: file.write(f'\\n{specifier}\\n\\n')")

    frame_stmts = []

    def rows_loop():
        """the row loop `for row in frame.itertuples(index=False)`: what is iterated (order of the rows = order of the table, the
        index left out) as normalised source"""
        for st in file_writes().body:
            if isinstance(st, ast.For) and ast.unparse(st.target) == "row":
                return ast.unparse(st.iter).replace(" ", "")
        raise A("Starfile.write: for row in frame.itertuples(index=False)")

    def skeleton():
        """order of the writes of one block (comments branch left out)"""
        out = []
        del frame_stmts[:]
        for st in file_writes().body:
            t = ast.unparse(st).replace(" ", "")
            if t.startswith("ifcommentisnotNone"):
                continue
            if t.startswith("file.write("):
                out.append("W:" + repr(ast.literal_eval(st.value.args[0])) if isinstance(st.value.args[0], ast.Constant) else "W:f" )
            elif t.startswith("forindex,columninenumerate(frame.columns,"):
                out.append("LABELS:" + t.split("enumerate(frame.columns,")[1].split(")")[0] + ":" + ast.unparse(st.body[0]).replace(" ", ""))
            elif t.startswith("ifstopgap:"):
                out.append("STOPGAP:" + repr(ast.literal_eval(st.body[0].value.args[0])))
            elif t.startswith("forrowinframe.itertuples(index=False):"):
                out.append("ROWS")
            elif t.startswith("frame="):
                frame_stmts.append(t)  # every re-binding of the table inside the block loop (sorting, de-duplication, ... would show here)
            elif t.startswith(("stopgap=", "write_function=")):
                continue
            else:
                out.append("?:" + t[:60])
        return out

    def _body(fn):
        return _dump(fn)

    def comments_branch():
        """`if comment is not None: for c in comment: file.write(f"\n# {c}"); file.write("\n")`, before the specifier line"""
        body = file_writes().body
        idx = [i for i, st in enumerate(body) if isinstance(st, ast.If) and ast.unparse(st.test).replace(" ", "") == "commentisnotNone"]
        spec = [i for i, st in enumerate(body) if "file.write" in ast.unparse(st) and "specifier" in ast.unparse(st) and isinstance(st, ast.Expr)]
        if len(idx) != 1 or len(spec) != 1 or idx[0] > spec[0] or any("file.write" in ast.unparse(st) for st in body[:idx[0]] + body[idx[0] + 1:spec[0]]):
            raise A("Starfile.write: `if comment is not None:` directly before the specifier line")
        st = body[idx[0]]
        if st.orelse or len(st.body) != 2 or not isinstance(st.body[0], ast.For) or ast.unparse(st.body[0].iter) != "comment" or ast.unparse(st.body[0].target) != "c" or len(st.body[0].body) != 1:
            raise A("Starfile.write: for c in comment: file.write(...); file.write(...)")
        w = st.body[0].body[0]
        if not (isinstance(w, ast.Expr) and isinstance(w.value, ast.Call) and ast.unparse(w.value.func) == "file.write" and isinstance(w.value.args[0], ast.JoinedStr)):
            raise A("Starfile.write: file.write(f'\\n# {c}')")
        pieces = _fstring(w.value.args[0], ["c"], "comment line")
        e = st.body[1]
        if not (isinstance(e, ast.Expr) and isinstance(e.value, ast.Call) and ast.unparse(e.value.func) == "file.write" and isinstance(e.value.args[0], ast.Constant)):
            raise A("Starfile.write: file.write('\\n') after the comment lines")
        return [pieces, e.value.args[0].value]

    def comment_value():
        roles = tok_roles()
        back = {roles["line"]: "line", roles["index"]: "index", roles["char"]: "char"}
        for n in ast.walk(tok_fn()):
            if isinstance(n, ast.Call) and ast.unparse(n.func) == "Token" and len(n.args) == 3 and ast.unparse(n.args[0]) == "TokenType.COMMENT":
                return re.sub(r"\b\w+\b", lambda m: back.get(m.group(0), m.group(0)), ast.unparse(n.args[1])).replace(" ", "")
        raise A("Token.tokenize: Token(TokenType.COMMENT, <value>, ...)")

    def read_fn():
        return src.find(rel, "Starfile.read")

    def comments_order():
        """which parse function's comment list goes where in `comments.append(a + b + c)` (names of locals do not matter)"""
        d = _dump(read_fn())
        origin = {m.group(1): m.group(2) for m in re.finditer(r"(v\d+),v\d+=Token\.(parse_\w+)\(", d)}
        m = re.search(r"v\d+\.append\(((?:v\d+\+)+v\d+)\)", d)
        if not m:
            raise A("Starfile.read: comments.append(a + b + c)")
        return "+".join(origin.get(v, "?") for v in m.group(1).split("+"))

    def data_id_branch():
        fn = read_fn()
        if "data_id=None" not in _signature(fn):
            raise A("Starfile.read(file_path, data_id=None)")
        if not isinstance(fn.body[-1], ast.If):
            raise A("Starfile.read: final if data_id is not None")
        d = _dump(fn)
        return d[d.rindex(";if") + 1:]

    def ncc_fn():
        return _body(src.find(rel, "Token.parse_newline_or_comments"))

    sep = src.anchor("tokenize:split(sep)", split_sep)
    cch = src.anchor("tokenize:comment-char", comment_char)
    ppf = src.anchor("tokenize:property-prefix", prop_prefix)
    lkw = src.anchor("tokenize:loop-keyword", loop_kw)
    order = src.anchor("tokenize:classification-order", classify_order)
    drop = src.anchor("parse_column:name=value[1:]", name_drop)
    prec = src.anchor("write:float_precision-default", precision)
    rnd = src.anchor("write:round-before-format", rounds)
    cf = src.anchor("write:format_value", cell_format)
    cs = src.anchor("write:cell-separator", cell_sep)
    rend = src.anchor("write:row-end", row_end)
    sg = src.anchor("write:stopgap-keyword", stopgap_kw)
    cond = src.anchor("write:numbered-condition", numbered_cond)
    ln = src.anchor("write:label-numbered", lambda: fpieces("write_with_number", ["name", "number"]))
    lp = src.anchor("write:label-plain", lambda: fpieces("write_without_number", ["name"]))
    sl = src.anchor("write:specifier-line", spec_line)
    sk = src.anchor("write:block-skeleton", skeleton)
    fst = src.anchor("write:frame-statements", lambda: list(frame_stmts) if sk is not None else (_ for _ in ()).throw(A("Starfile.write: block loop")))
    rlp = src.anchor("write:rows-loop", rows_loop)
    tkb = src.anchor("tokenize:body", lambda: _dump(tok_fn()))
    cb = src.anchor("write:comments-branch", comments_branch)
    cv = src.anchor("tokenize:comment-value", comment_value)
    co = src.anchor("read:comments-order", comments_order)
    di = src.anchor("read:data_id", data_id_branch)
    ncc = src.anchor("parse_newline_or_comments:body", ncc_fn)
    gsi = src.anchor("get_specifier_id:body", lambda: _body(src.find(rel, "Starfile.get_specifier_id")))
    gfc = src.anchor("get_frame_and_comments:body", lambda: _body(src.find(rel, "Starfile.get_frame_and_comments")))
    # the parser half and the never-executed-before branches: normalised dumps of whole bodies (G5); signature defaults (G1)
    PARSER = ["Token.parse_specifier", "Token.parse_columns", "Token.parse_column", "Token.parse_rows", "Token.check", "Token.consume",
              "Token.check_then_consume", "Token.lookahead", "Starfile.read", "Starfile._to_numeric_if_possible", "Starfile.remove_lines"]
    # round 7: the constructors and the WHOLE writer (nested defs, statements before / after the `with`, the row loop body)
    WHOLE = [("Token.__init__", "token_init"), ("Starfile.__init__", "starfile_init"), ("Starfile.write", "write")]
    whole = [(nm, src.anchor(q + ":body", lambda q=q: _dump(src.find(rel, q))) or "") for q, nm in WHOLE]
    bodies = []
    for q in PARSER:
        bodies.append((q, src.anchor(q.split(".")[-1] + ":body", lambda q=q: _dump(src.find(rel, q))) or ""))

    def write_defaults():
        """the statements of Starfile.write before the block loop: defaults of specifiers/comments, the length check, round"""
        fn = wfn()
        k = next((i for i, st in enumerate(fn.body) if isinstance(st, ast.With)), None)
        if k is None:
            raise A("Starfile.write: with open(path, 'w') as file")
        # dumped from the source function (not the canonical copy): numbering by binding occurrence, the two independent
        # `if x is None: x = ...` defaults in a canonical order (swapping them is harmless)
        raw = src.find(rel, "Starfile.write")
        body = [st for st in raw.body if not _is_docstring(st)]
        k = next((i for i, st in enumerate(body) if isinstance(st, ast.With)), None)
        return _dump(raw, upto=k)

    def default_specifier():
        for n in ast.walk(wfn()):
            if isinstance(n, ast.If) and isinstance(n.test, ast.Compare) and isinstance(n.test.ops[0], ast.Is) and ast.unparse(n.test.comparators[0]) == "None" \
                    and len(n.body) == 1 and isinstance(n.body[0], ast.Assign) and ast.unparse(n.body[0].targets[0]) == ast.unparse(n.test.left):
                v = n.body[0].value
                if isinstance(v, ast.BinOp) and isinstance(v.op, ast.Mult) and isinstance(v.left, ast.List) and len(v.left.elts) == 1 and isinstance(v.left.elts[0], ast.Constant) \
                        and isinstance(v.left.elts[0].value, str) and ast.unparse(v.right).startswith("len("):
                    return v.left.elts[0].value
        raise A("Starfile.write: if specifiers is None: specifiers = [<name>] * len(frames)")

    def bool_default(qual, arg):
        sig = dict(x.split("=") for x in _signature(src.find(rel, qual)) if "=" in x)
        if sig.get(arg) not in ("True", "False"):
            raise A(f"{qual}: {arg}=<True|False>, got {sig.get(arg)}")
        return sig[arg] == "True"

    wsig = src.anchor("write:signature", lambda: _signature(src.find(rel, "Starfile.write")))
    rsig = src.anchor("read:signature", lambda: _signature(read_fn()))
    rlsig = src.anchor("remove_lines:signature", lambda: _signature(src.find(rel, "Starfile.remove_lines")))
    wdef = src.anchor("write:defaults-and-round", write_defaults)
    dsp = src.anchor("write:default-specifier", default_specifier)
    ncd = src.anchor("write:number_columns-default", lambda: bool_default("Starfile.write", "number_columns"))
    ncd2 = src.anchor("remove_lines:number_columns-default", lambda: bool_default("Starfile.remove_lines", "number_columns"))
    # documented fall-backs for everything (a missing anchor never changes what the model does; anchorsOk is false then)
    wsig = wsig or ["frames", "path", "specifiers=None", "comments=None", "number_columns=True", "float_precision=6"]
    rsig = rsig or ["file_path", "data_id=None"]
    rlsig = rlsig or ["file_path", "lines_to_remove", "output_file=None", "data_specifier=None", "number_columns=True"]
    wdef = wdef or ""; dsp = "data" if dsp is None else dsp; ncd = True if ncd is None else ncd; ncd2 = True if ncd2 is None else ncd2
    cb = cb or [["\n# ", ""], "\n"]; cv = cv or ""; co = co or ""; di = di or ""; ncc = ncc or ""; gsi = gsi or ""; gfc = gfc or ""
    # documented fall-backs (only used to keep the file syntactically valid; anchorsOk is false then)
    sep = sep or "\n"; cch = cch or "#"; ppf = ppf or "_"; lkw = lkw if lkw is not None else "loop_"; order = order or ["PROPERTY", "LOOP", "LITERAL"]
    drop = 1 if drop is None else drop; prec = 6 if prec is None else prec; cf = cf or ["", "<", 10]; cs = "\t" if cs is None else cs
    rend = "\n" if rend is None else rend; sg = "stopgap" if sg is None else sg; cond = cond or ""; ln = ln or ["_", " #", "\n"]; lp = lp or ["_", "\n"]
    sl = sl or ["\n", "\n\n"]; sk = sk or []; fst = fst or []; rlp = rlp or ""; tkb = tkb or ""
    loop_line, stop_extra, block_end, label_start, label_call = "loop_\n", "\n", "\n", 1, "write_function(column,index)"  # documented values (used when the skeleton is not recognised)
    shape_ok = False
    try:
        # expected skeleton: W:f(spec) W:'loop_\n' LABELS:<start>:write_function(column,index) STOPGAP:'\n' ROWS W:'\n'
        if len(sk) == 6 and sk[0] == "W:f" and sk[1].startswith("W:'") and sk[2].startswith("LABELS:") and sk[3].startswith("STOPGAP:") and sk[4] == "ROWS" and sk[5].startswith("W:'"):
            loop_line = ast.literal_eval(sk[1][2:]); stop_extra = ast.literal_eval(sk[3][8:]); block_end = ast.literal_eval(sk[5][2:])
            label_start = int(sk[2].split(":")[1]); label_call = sk[2].split(":", 2)[2]
            shape_ok = True
    except Exception:
        shape_ok = False
    src.anchor("write:block-skeleton-shape", lambda: shape_ok or (_ for _ in ()).throw(A(f"unexpected order of writes: {sk}")))
    lst = lambda xs: "[" + ", ".join(_chars(x) for x in xs) + "]"
    return f"""-- GENERATED by harness/props/c02.py from {rel}; do not edit
namespace CryoCat.Gen.C02
def anchorsOk : Bool := {"true" if src.ok else "false"}
-- Token.tokenize / parse_column
def lineSep : Char := {_char(sep[:1])}
def commentChar : Char := {_char(cch[:1])}
def propPrefix : Char := {_char(ppf[:1])}
def loopKw : List Char := {_chars(lkw)}
def classifyOrder : List String := {core.lean_str_list(order)}
def propNameDrop : Nat := {drop}
-- Starfile.write
def floatPrecision : Nat := {prec}
def roundsBeforeFormat : Bool := {"true" if rnd else "false"}
def cellFill : List Char := {_chars(cf[0])}
def cellAlign : List Char := {_chars(cf[1])}
def cellWidth : Nat := {cf[2]}
def cellSep : List Char := {_chars(cs)}
def rowEnd : List Char := {_chars(rend)}
def stopgapKw : List Char := {_chars(sg)}
def numberedCond : String := {core.lean_str(cond)}
def labelCall : String := {core.lean_str(label_call)}
def labelNumbered : List (List Char) := {lst(ln)}
def labelPlain : List (List Char) := {lst(lp)}
def specLine : List (List Char) := {lst(sl)}
def loopLine : List Char := {_chars(loop_line)}
def stopgapExtra : List Char := {_chars(stop_extra)}
def blockEnd : List Char := {_chars(block_end)}
def labelStart : Nat := {label_start}
def frameStatements : List String := {core.lean_str_list(fst)}
def rowsLoop : String := {core.lean_str(rlp)}
-- comments argument of Starfile.write; comment values / data_id / specifier lookup of the reader
def commentLine : List (List Char) := {lst(cb[0])}
def commentsEnd : List Char := {_chars(cb[1])}
def commentValue : String := {core.lean_str(cv)}
def commentsOrder : String := {core.lean_str(co)}
def dataIdBranch : String := {core.lean_str(di)}
def newlineOrComments : String := {core.lean_str(ncc)}
def getSpecifierId : String := {core.lean_str(gsi)}
def getFrameAndComments : String := {core.lean_str(gfc)}
-- signature defaults (G1) and the statements of Starfile.write before the block loop
def writeSignature : List String := {core.lean_str_list(wsig)}
def readSignature : List String := {core.lean_str_list(rsig)}
def removeLinesSignature : List String := {core.lean_str_list(rlsig)}
def writeDefaults : String := {core.lean_str(wdef)}
def defaultSpecifier : List Char := {_chars(dsp)}
def numberColumnsDefault : Bool := {"true" if ncd else "false"}
def removeLinesNumberColumnsDefault : Bool := {"true" if ncd2 else "false"}
def body_tokenize : String := {core.lean_str(tkb)}
-- normalised whole-body dumps of the parser half, the read loop, the numeric conversion and remove_lines (locals renamed v0, v1, ...; messages dropped)
{chr(10).join(f"def body_{q.split('.')[-1].lstrip('_')} : String := {core.lean_str(b)}" for q, b in bodies)}
{chr(10).join(f"def body_{nm} : String := {core.lean_str(b)}" for nm, b in whole)}
end CryoCat.Gen.C02
"""


# ------------------------------------------------------------------ independent line tokenizer (the specification of `read`)
def line_tokens(line):
    i = line.find("#")
    body = line if i < 0 else line[:i]
    return body.split(), (None if i < 0 else line[i + 1:])


def indep_parse(text):
    """blocks [{name, cols, rows}] of a STAR text made of data blocks with one loop each, or the string 'malformed:<why>'.
    Line based and independent of cryoCAT and of the Lean model. It follows the STATEMENT, not the reader: blank / comment lines
    are optional everywhere they are permitted (a block may directly follow the rows of the previous one: a line holding one
    literal whose next non-blank line is `loop_` starts a block) and the text may end anywhere after the first label."""
    lines = [line_tokens(l) for l in text.split("\n")]
    n, p, blocks = len(lines), 0, []
    is_lit = lambda t: not t.startswith("_") and t != "loop_"

    def skip(p):
        while p < n and not lines[p][0]:
            p += 1
        return p

    def block_start(p):
        if len(lines[p][0]) != 1 or not is_lit(lines[p][0][0]):
            return False
        q = skip(p + 1)
        return q < n and lines[q][0] == ["loop_"]

    while True:
        p = skip(p)
        if p == n:
            return blocks
        toks, com = lines[p]
        if len(toks) != 1 or not is_lit(toks[0]):
            return "malformed:block-name"
        name = toks[0]
        p = skip(p + 1)
        if p == n or lines[p][0] != ["loop_"] or lines[p][1] is not None:
            return "malformed:loop"
        p += 1
        cols = []
        while p < n and len(lines[p][0]) == 1 and lines[p][0][0].startswith("_"):
            cols.append(lines[p][0][0][1:]); p += 1
        if not cols:
            return "malformed:no-labels"
        p = skip(p)
        rows = []
        while p < n and len(lines[p][0]) == len(cols) and lines[p][1] is None and all(is_lit(t) for t in lines[p][0]) and not block_start(p):
            rows.append(lines[p][0]); p += 1
        if p < n and lines[p][0] and not block_start(p):
            return "malformed:ragged-row-or-stray-line"
        if not rows and skip(p) < n:
            return "malformed:empty-loop-not-last"
        blocks.append(dict(name=name, cols=cols, rows=rows))


def layout_class(text):
    """which of the two layouts the statement permits but the reader rejects a text has: 'K3' = ends on the last label line of
    an empty last block without final newline; 'K4' = a block name line directly follows a row of the previous block"""
    out = set()
    lines = [line_tokens(l.rstrip("\r")) for l in text.split("\n")]
    if lines and len(lines[-1][0]) == 1 and lines[-1][0][0].startswith("_"):
        out.add("K3")
    ind = indep_parse(text.replace("\r\n", "\n"))
    if not isinstance(ind, str) and len(ind) > 1:
        is_lit = lambda t: not t.startswith("_") and t != "loop_"
        for p in range(1, len(lines) - 1):
            if len(lines[p][0]) == 1 and is_lit(lines[p][0][0]) and lines[p - 1][0] and all(is_lit(t) for t in lines[p - 1][0]) \
                    and next((l[0] for l in lines[p + 1:] if l[0]), None) == ["loop_"] and lines[p - 1][1] is None:
                # previous line is a row (or a name line, then the text is malformed anyway) and this line starts a block
                out.add("K4")
    return out


NUM_RE = re.compile(r"[+-]?((\d+\.?\d*|\.\d+)([eE][+-]?\d+)?|[iI][nN][fF]([iI][nN][iI][tT][yY])?)\Z")


INT_RE = re.compile(r"[+-]?\d+\Z")


def is_num(tok):
    return NUM_RE.match(tok) is not None


# ------------------------------------------------------------------ generators
def _float_value(rng):
    k = rng.random()
    if k < 0.15:
        return float(rng.randint(-2000, 2000))
    if k < 0.45:
        return round(rng.uniform(-500, 500), rng.randint(1, 5))
    if k < 0.70:
        return rng.uniform(-1000, 1000)  # changes under round(6)
    if k < 0.78:  # half-way at the 7th decimal
        return rng.randint(-10 ** 7, 10 ** 7) / 10 ** 6 + 5e-7
    if k < 0.84:
        return rng.choice([1e-7, -3e-7, 4.9e-7, 5.1e-7, 1e-12, -2.5e-9, 5e-324, 1.5e-6, 0.000123])
    if k < 0.88:
        return rng.choice([1e15, 1.5e16, -2e17, 1e22, 123456789012.34567, 2.0 ** 53, 1e15 + 0.3, -4503599627370497.5, 3.3e100, 1e300])
    if k < 0.90:  # random mantissas at magnitudes where numpy.round's multiply/divide and to_numeric each cost an ulp
        return rng.choice([-1, 1]) * rng.uniform(1, 10) * 10.0 ** rng.randint(9, 40)
    if k < 0.94:
        return rng.choice([0.0, -0.0])
    return rng.gauss(0, 1) * 10 ** rng.randint(-5, 8)


def _int_value(rng):
    k = rng.random()
    if k < 0.6:
        return rng.randint(-5, 400)
    if k < 0.9:
        return rng.randint(-10 ** 6, 10 ** 6)
    return rng.choice([0, -1, 2 ** 31, -2 ** 40, 10 ** 15, 9007199254740993, -(2 ** 62)])


# characters str.isspace() REJECTS although they look like (or once were) spaces, and other non-ASCII letters / signs: word characters
NON_SPACE = ["\u200b", "\u180e", "\ufeff", "\u00ad", "\u2060", "\u00b5", "\u00e9", "\u00c5", "\u03b1", "\u65e5", "\u00b0", "\u2212", "\u0663", "\U0001f600",
             "e\u0301", "\u212b", "\u2126", "\ufb01", "\u00b2", "\u0301"]  # the last six change under NFC / NFKC normalisation (combining accent, singletons, compatibility characters)
UNI_SPACES = ["\x1c", "\x1d", "\x1e", "\x1f", "\x85", "\xa0", "\u1680", "\u2000", "\u2003", "\u200a", "\u2028", "\u2029", "\u202f", "\u205f", "\u3000"]


def _text_token(rng):
    k = rng.random()
    if k < 0.55:
        return rng.choice(TEXT_SURE)
    if k < 0.62:  # non-ASCII word characters (none of them white space for str.isspace)
        base = rng.choice(["tomo", "A", "mic_1", "x"])
        i = rng.randint(0, len(base))
        return base[:i] + rng.choice(NON_SPACE) + base[i:]
    alphabet = "abcdfghijklmopqrstuvwxyzABCDFGHIJKLMOPQRSTUVWXYZ"
    extra = "0123456789_./-:@+=,;!$%&()*<>?[]^{}|~'\"\\`neEN"
    n = rng.choice([1, 2, 3, 5, 8, 9, 10, 11, 12, 20, 40])
    if rng.random() < 0.06:  # long tokens (paths): around the usual buffer sizes, up to 300 characters
        n = rng.choice([63, 64, 65, 100, 127, 128, 129, 200, 255, 256, 257, 300])
    s = rng.choice(alphabet) + "".join(rng.choice(alphabet + extra) for _ in range(n - 1))
    if s.lower() in ("inf", "infinity", "nan") or s == "loop_":
        s += "q"
    return s


def _sure_text(tok):
    """certainly not a number for any reader: has a letter other than those of nan/inf/infinity/e and no number syntax"""
    return not is_num(tok) and tok.lower().lstrip("+-") not in ("nan", "inf", "infinity") and re.search(r"[a-zA-Z]", tok) is not None \
        and re.fullmatch(r"[+-]?[\d_.]+([eE][+-]?\d+)?", tok) is None and not tok.lower().startswith("0x")


def _text_column(rng, n):
    col = []
    for _ in range(n):
        k = rng.random()
        col.append(rng.choice(TEXT_AMBIG) if k < 0.15 else _text_token(rng))
    if n and not any(_sure_text(t) for t in col):
        col[rng.randrange(n)] = rng.choice(["A", "mic_001.mrc", "halfB", "x"])
    return col


def _sizes(rng, tier):
    k = rng.random()
    if tier == "search":
        return rng.randint(1, 4), rng.randint(1, 4)
    if k < 0.70:
        return rng.randint(1, 12), rng.randint(1, 8)
    if k < 0.93:
        return rng.randint(1, 60), rng.randint(1, 30)
    if tier == "thorough":
        return rng.randint(100, 200), rng.randint(1, 30)
    return rng.randint(30, 200), rng.randint(1, 12)


def _labels(rng, n):
    pool = list(LABELS)
    rng.shuffle(pool)
    out = pool[:n]
    while len(out) < n:
        out.append(f"rlnCol{len(out)}")
    return out


SHORT_TEXT = ["A", "B", "x", "halfA", "abc", "Zr", "q", "yes", "tomo_12", "mic_1.mrc", "a.b.c", "x_", "loop", "data_x", "p'q", "a=b"]  # ASCII only: equal character counts must give equal byte counts


def _tame_float(rng):
    """floats whose printed form has at most 15 significant digits and 10 characters: read back exactly by any decimal parser"""
    k = rng.random()
    if k < 0.3:
        return float(rng.randint(-2000, 2000))
    if k < 0.9:
        return round(rng.uniform(-500, 500), rng.randint(1, 4))
    return rng.choice([0.0, -0.0, 1e-05, 0.5, -0.25, 1e-06, 123.456])


def _index_labels(rng, n):
    """row labels of a table a user naturally hands to Starfile.write (`Motl(df)` keeps them, `remove_feature` leaves gaps,
    `sort_values` permutes them, `pd.concat` repeats them); the file must hold the rows in the order of the TABLE"""
    k = rng.choice(["permuted", "permuted", "reversed", "duplicated", "concat", "string", "gaps", "constant"])
    if k == "permuted":
        out = list(range(n)); rng.shuffle(out)
    elif k == "reversed":
        out = list(range(n - 1, -1, -1))
    elif k == "duplicated":
        out = [rng.randint(0, max(0, n // 2)) for _ in range(n)]
    elif k == "concat":
        m = rng.randint(0, n)
        out = list(range(m)) + list(range(n - m))
    elif k == "string":
        out = [f"p{rng.randint(0, 3 * n)}" for _ in range(n)]
    elif k == "gaps":
        out = sorted(rng.sample(range(3 * n + 1), n))
        if rng.random() < 0.5:
            out.reverse()
    else:
        out = [7] * n
    return out


def gen_write(rng, tier, plain=False, shape=None):
    """plain: cells of at most 10 characters that every reader parses exactly (used by the re-write / remove_lines streams, where
    the same shape must give the same file size); shape: (name, cols, types, nrows) per block to copy"""
    nb = len(shape) if shape else rng.choice([1, 1, 1, 2, 2, 3, 4])
    blocks = []
    for b in range(nb):
        if shape:
            name, cols, types, nrows = shape[b]
        else:
            nrows, ncols = _sizes(rng, tier)
            if plain:
                nrows, ncols = min(nrows, 12), min(ncols, 8)
            if b == nb - 1 and rng.random() < 0.06:
                nrows = 0
            types = [rng.choice(["int", "float", "float", "text"]) for _ in range(ncols)]
            name, cols = rng.choice(NAMES), _labels(rng, ncols)
        data = []
        for t in types:
            if t == "int":
                data.append([(rng.randint(-99999, 999999) if plain else _int_value(rng)) for _ in range(nrows)])
            elif t == "float":
                data.append([f2b(_tame_float(rng) if plain else _float_value(rng)) for _ in range(nrows)])
            else:
                data.append([rng.choice(SHORT_TEXT) for _ in range(nrows)] if plain else _text_column(rng, nrows))
        blocks.append(dict(name=name, cols=list(cols), types=list(types), data=data))
    case = dict(kind="write", number_columns=rng.random() < 0.6, blocks=blocks)
    if rng.random() < 0.35:  # the `comments` argument of Starfile.write: per block None or a list of comment lines
        case["comments"] = [None if rng.random() < 0.3 else [rng.choice(COMMENTS) for _ in range(rng.choice([0, 1, 1, 2, 3]))] for _ in blocks]
    # G1: every keyword with a default is LEFT OUT of the call in about 30 % of the cases (the library's own default is exercised)
    omit = []
    if rng.random() < 0.3:
        omit.append("number_columns"); case["number_columns"] = True  # documented default (theorem signature_defaults_documented)
    if rng.random() < 0.3:
        omit.append("specifiers")  # documented default: every block is called `data`
    if "comments" not in case and rng.random() < 0.5:
        omit.append("comments")
    if omit:
        case["omit"] = omit
    if rng.random() < 0.15:
        case["tuple_args"] = True  # specifiers / comments as tuples
    _selection(rng, case, _eff_names(case))
    if plain:
        return case
    if rng.random() < 0.3:  # H3: non-default row labels (permuted, reversed, repeated, strings, gaps) on every table of the case
        case["index"] = [_index_labels(rng, len(b["data"][0]) if b["data"] else 0) for b in blocks]
    if rng.random() < 0.2:  # top-level entry point: the tables are read back through the constructor `Starfile(path)`
        case["ctor"] = True
    k = rng.random()
    if k < 0.012:  # class of open finding C02-K1: a text cell that is the reserved word
        b = rng.choice(blocks)
        tc = [j for j, t in enumerate(b["types"]) if t == "text" and b["data"][j]]
        if tc:
            j = rng.choice(tc)
            b["data"][j][rng.randrange(len(b["data"][j]))] = "loop_"
    elif k < 0.024:  # class of open finding C02-K2: finite float beyond 1.797e302
        b = rng.choice(blocks)
        fc = [j for j, t in enumerate(b["types"]) if t == "float" and b["data"][j]]
        if fc:
            j = rng.choice(fc)
            # 1.7976931348623157e302 is the smallest double whose product with 1e6 overflows (its predecessor ...155e302 still rounds fine)
            b["data"][j][rng.randrange(len(b["data"][j]))] = f2b(rng.choice([1e305, -1.7e308, 1.8e302, -2e303, 1.7976931348623157e302, -1.7976931348623157e302]))
    return case


def _eff_names(case):
    """the block names in effect: the given specifiers, or the documented default `data` when the keyword is left out"""
    return ["data"] * len(case["blocks"]) if "specifiers" in case.get("omit", []) else [b["name"] for b in case["blocks"]]


def _shape(case):
    return [(b["name"], b["cols"], b["types"], len(b["data"][0]) if b["data"] else 0) for b in case["blocks"]]


def gen_rewrite(rng, tier):
    """G2, cross-call state: two (or three) Starfile.write / Starfile.read rounds in ONE process on the SAME path. `same-shape`: the
    later tables differ in their values only (same names, labels, row count, all cells <= 10 characters -> files of identical
    byte length, written within the same second); `any`: an unrelated second list; `reuse-list`: the very same caller-owned list
    object is handed to Starfile.write again (other header style). Every read is judged against the tables of ITS write."""
    mode = rng.choice(["same-shape", "same-shape", "same-shape", "any", "reuse-list"])
    a = gen_write(rng, tier, plain=True)
    for k in ("data_id", "specifier"):
        a.pop(k, None)
    steps = [a]
    for _ in range(rng.choice([1, 1, 2])):
        if mode == "same-shape":
            b = gen_write(rng, tier, plain=True, shape=_shape(a))
            for k in ("number_columns", "comments", "omit"):
                b.pop(k, None)
                if k in a:
                    b[k] = copy.deepcopy(a[k])
        elif mode == "any":
            b = gen_write(rng, tier, plain=True)
        else:
            b = copy.deepcopy(a)
            b["number_columns"] = not a["number_columns"]
            b["omit"] = [o for o in a.get("omit", []) if o != "number_columns"]
        for k in ("data_id", "specifier"):
            b.pop(k, None)
        steps.append(b)
    if rng.random() < 0.5:  # every round is read back through the constructor Starfile(path): a cache behind it shows on the second round
        for st in steps:
            st["ctor"] = True
    return dict(kind="rewrite", mode=mode, steps=steps)


def gen_remove(rng, tier):
    """Starfile.remove_lines on a written file: the branch that feeds the specifiers and comments returned by Starfile.read back
    into Starfile.write (positions non-negative; a block other than the last keeps at least one row)"""
    base = gen_write(rng, tier, plain=True)
    for k in ("data_id", "specifier"):
        base.pop(k, None)
    names = _eff_names(base)
    k = rng.random()
    spec = None if k < 0.3 else (rng.choice(names) if k < 0.9 else "data_absent")
    bi = 0 if spec is None else (names.index(spec) if spec in names else None)
    idx = []
    if bi is not None:
        n = len(base["blocks"][bi]["data"][0]) if base["blocks"][bi]["data"] else 0
        last = bi == len(names) - 1
        m = rng.choice([0, 1, 1, 2, 3, n])
        pos = list(range(n))
        rng.shuffle(pos)
        idx = pos[:min(m, n if last else max(0, n - 1))]
        if rng.random() < 0.06:
            idx = idx + [n + rng.randint(0, 2)]  # beyond the last row: IndexError
        elif idx and rng.random() < 0.1:
            idx = idx + [idx[0]]  # a position listed twice
    case = dict(kind="remove", base=base, idx=idx, specifier=spec, output=rng.random() < 0.8)
    k = rng.random()
    if k < 0.3:
        case["idx_array"] = True  # positions handed over as a numpy integer array (e.g. from numpy.where)
    elif k < 0.45 and idx:
        case["idx_tuple"] = True  # ... or as a (non-empty) tuple
    if rng.random() < 0.7:  # G1: number_columns of remove_lines left out in 30 %
        case["number_columns2"] = rng.random() < 0.5
    return case


COMMENTS = ["made by cryoCAT", "version 30001", "", " ", "  padded  ", "\ttab\t", "# double", "loop_", "data_other", "_rlnFake #1", "1 2 3", "a # b", "x", "unit: A",
            "very long comment " * 6, "\x0cformfeed"]


def _selection(rng, case, names):
    """exercise Starfile.read(data_id=i) and get_frame_and_comments(path, specifier) on the same file"""
    nb = len(names)
    if rng.random() < 0.5:
        case["data_id"] = rng.randint(-nb - 1, nb)
    if rng.random() < 0.4:
        case["specifier"] = rng.choice(names + ["data_absent"]) if rng.random() < 0.85 else rng.choice(NAMES)


def _pad(rng, allow_empty=True):
    k = rng.random()
    if allow_empty and k < 0.55:
        return ""
    if k < 0.95:
        return rng.choice(WS_PAD)
    if k < 0.97:
        return rng.choice(["\x0c", " \x0b", "\x1c "])
    return rng.choice(UNI_SPACES) + rng.choice(["", " ", "\t"])  # the rest of the str.isspace set


def _skip_line(rng, comment_ok=True):
    k = rng.random()
    if k < 0.45 or not comment_ok:
        return _pad(rng)
    return _pad(rng) + "#" + rng.choice(["", " comment", " version 30001", "# double", " _rlnFake #1", " loop_", " data_x", "\tx y  z ", " 1 2 3"])


def _listed(fid):
    """is `fid` an open entry of known_findings.json? (a proposed finding's input class is generated only once it is listed, so that
    the check is green on the unchanged tree before and after the integrator adds the entry)"""
    try:
        import json
        data = json.load(open(os.path.join(os.path.dirname(os.path.dirname(os.path.dirname(os.path.abspath(__file__)))), "known_findings.json")))
        return any(f.get("id") == fid and f.get("status") == "open" for f in data.get("findings", []))
    except Exception:
        return False


_K5_LISTED = _listed("C02-K5")
UINT64_TOKENS = ["9223372036854775808", "18446744073709551615", "+9223372036854775808"]


def _read_token(rng, kind):
    if kind == "int":
        if rng.random() < 0.03:  # beyond 64 bits (either sign): pandas keeps them as Python ints
            return rng.choice(["18446744073709551616", "-9223372036854775809", "123456789012345678901234567890", "+36893488147419103232", "-18446744073709551616"])
        return rng.choice([str(rng.randint(-500, 5000)), "0", "+7", "0012", str(rng.randint(-10 ** 9, 10 ** 9))])
    if kind == "float":
        k = rng.random()
        if k < 0.5:
            return repr(round(rng.uniform(-400, 400), rng.randint(1, 6)))
        if k < 0.6:  # full-precision tokens: 17 significant digits in repr / exponent form, long fixed notation in 1e-5 .. 1e-3, 19 .. 30 fractional digits
            m = rng.random()
            if m < 0.4:
                return repr(rng.choice([-1, 1]) * rng.uniform(1, 10) * 10.0 ** rng.randint(-8, 22))
            if m < 0.7:
                return "%.*f" % (rng.randint(19, 22), rng.uniform(1e-5, 1e-3))
            return "%.*f" % (rng.randint(19, 30), rng.uniform(-400, 400))
        if k < 0.64:  # numbers for pandas.to_numeric and for the model (`isInfTok`)
            return rng.choice(INF_SPELLINGS)
        return rng.choice(["1.", ".5", "-0.0", "1e5", "1E-3", "2.5e+10", "-.25", "3.141593", "0.000000", "180.000000", "1e-05", "+0.5", "-12.e2"])
    if kind == "text":
        return _text_token(rng)
    return rng.choice(TEXT_AMBIG)


def gen_read(rng, tier):
    nb = rng.choice([1, 1, 2, 2, 3, 4])
    blocks = []
    for b in range(nb):
        nrows, ncols = _sizes(rng, tier)
        nrows = min(nrows, 60) if tier != "thorough" else nrows
        if b == nb - 1 and rng.random() < 0.08:
            nrows = 0
        kinds = [rng.choice(["int", "float", "float", "text", "mixed"]) for _ in range(ncols)]
        cols = _labels(rng, ncols)
        name = rng.choice(NAMES)
        cells = []
        for kd in kinds:
            if kd == "mixed":
                col = [_read_token(rng, rng.choice(["int", "float", "ambig", "text"])) for _ in range(nrows)]
                if nrows and not any(_sure_text(t) for t in col):
                    col[rng.randrange(nrows)] = "halfA"
            elif kd == "text":
                col = _text_column(rng, nrows)
            else:
                col = [_read_token(rng, kd) for _ in range(nrows)]
                if kd == "int" and nrows:
                    # the unsigned 64-bit range is decided per COLUMN: ~2 % of the integer columns hold such a token beside non-negative
                    # ones (a legitimate uint64 column), ~2 % beside a negative one (class of finding C02-K5, once it is listed)
                    k = rng.random()
                    if k < 0.04:
                        col = [t.lstrip("-") if INT_RE.match(t) and int(t) < 0 else t for t in col]
                        col[rng.randrange(nrows)] = rng.choice(UINT64_TOKENS)
                        if k < 0.02 and _K5_LISTED and nrows >= 2:
                            i = rng.choice([i for i, t in enumerate(col) if t not in UINT64_TOKENS] or [0])
                            if col[i] not in UINT64_TOKENS:
                                col[i] = str(-rng.randint(1, 5000))
            cells.append(col)
        rows = [[cells[j][i] for j in range(ncols)] for i in range(nrows)]
        style = rng.choice(["relion", "relion", "plain", "mixed"])
        labels = []
        for j, c in enumerate(cols):
            k = rng.random()
            numbered = style == "relion" or (style == "mixed" and k < 0.5)
            tail = ""
            if numbered:
                tail = rng.choice([" ", " ", "  ", "\t", ""]) + f"#{j + 1}" + _pad(rng)
            elif rng.random() < 0.1:
                tail = rng.choice([" ", "\t"]) + "# " + rng.choice(["free comment", "unit: A", "loop_", "_x"])
            else:
                tail = _pad(rng)
            labels.append(_pad(rng) + "_" + c + tail)
        row_lines = []
        sep_style = rng.choice(["tab", "pad10", "spaces", "wild"])
        for r in rows:
            parts = []
            for j, t in enumerate(r):
                if j:
                    parts.append({"tab": "\t", "pad10": " " * max(1, 10 - len(r[j - 1])) + "\t", "spaces": " " * rng.randint(1, 4), "wild": _pad(rng, False)}[sep_style])
                parts.append(t)
            row_lines.append((_pad(rng) if sep_style == "wild" else "") + "".join(parts) + (_pad(rng) if rng.random() < 0.5 else ""))
        # a block directly after the rows of the previous one (no blank / comment line between): permitted by the statement
        # ("may ... separate blocks"), rejected by the reader -> class of open finding C02-K4
        pre = [_skip_line(rng) for _ in range(rng.choice([0, 0, 1, 1, 2, 3]) if b == 0 else (0 if rng.random() < 0.02 else rng.choice([1, 1, 2, 3])))]
        mid = [_skip_line(rng, comment_ok=False) for _ in range(rng.choice([0, 1, 1, 2]))]
        post = [_skip_line(rng) for _ in range(rng.choice([0, 0, 0, 1, 2]))]
        blocks.append(dict(pre=pre, name_line=_pad(rng) + name + _pad(rng), mid=mid, loop_line=_pad(rng) + "loop_" + _pad(rng),
                           labels=labels, post=post, row_lines=row_lines, x=dict(name=name, cols=cols, rows=rows)))
    trailing = [_skip_line(rng) for _ in range(rng.choice([0, 0, 1, 2]))]
    final_nl = rng.random() < 0.7
    last = blocks[-1]
    if not last["row_lines"] and not last["post"] and not trailing and rng.random() < 0.6:
        final_nl = True  # else: the text ends on the last label line of an empty last block without final newline -> class C02-K3
    case = dict(kind="read", blocks=blocks, trailing=trailing, final_newline=final_nl, eol=rng.choice(["lf", "lf", "crlf"]))
    if rng.random() < 0.2:
        case["ctor"] = True
    _selection(rng, case, [b["x"]["name"] for b in blocks])
    return case


def raw_text(case):
    """the characters of the file as written to disk (CRLF line ends when the case says so)"""
    text = render_read(case)
    return text.replace("\n", "\r\n") if case.get("eol") == "crlf" else text


def render_read(case):
    if "text" in case:
        return case["text"]
    lines = []
    for b in case["blocks"]:
        lines += b["pre"] + [b["name_line"]] + b["mid"] + [b["loop_line"]] + b["labels"] + b["post"] + b["row_lines"]
    lines += case["trailing"]
    return "\n".join(lines) + ("\n" if case["final_newline"] else "")


DAMAGES = ["drop-loop", "ragged-short", "ragged-long", "row-comment", "blank-in-rows", "no-separator", "label-no-underscore", "name-extra-token", "loop-comment",
           "label-two-tokens", "empty", "comments-only", "no-name", "cut-in-labels", "loop-on-name-line", "row-in-labels", "double-loop", "property-in-row", "loop-in-row",
           "comment-in-rows"]


def gen_malformed(rng, tier):
    base = gen_read(rng, "search")
    text = render_read(base)
    lines = text.split("\n")
    dmg = rng.choice(DAMAGES)
    idx = lambda pred: [i for i, l in enumerate(lines) if pred(line_tokens(l))]
    loops = idx(lambda t: t[0] == ["loop_"])
    labels = idx(lambda t: len(t[0]) == 1 and t[0][0].startswith("_"))
    names = idx(lambda t: len(t[0]) == 1 and t[0][0].startswith("data_"))
    first_label_of = {}
    rows = [i for i, l in enumerate(lines) if line_tokens(l)[0] and i not in loops and i not in labels and i not in names]
    pick = lambda xs: rng.choice(xs) if xs else None
    if dmg == "drop-loop" and loops:
        del lines[pick(loops)]
    elif dmg == "ragged-short" and rows:
        i = pick(rows); t = lines[i].split(); lines[i] = " ".join(t[:-1]) if len(t) > 1 else ""
    elif dmg == "ragged-long" and rows:
        i = pick(rows); lines[i] = lines[i] + " extra"
    elif dmg == "row-comment" and rows:
        i = pick(rows); lines[i] = lines[i] + " # note"
    elif dmg == "blank-in-rows" and rows:
        lines.insert(pick(rows), "")
    elif dmg == "comment-in-rows" and rows:
        lines.insert(pick(rows), "# in rows")
    elif dmg == "no-separator" and len(names) > 1:
        i = names[1]
        while i > 0 and not line_tokens(lines[i - 1])[0]:
            del lines[i - 1]; i -= 1
    elif dmg == "label-no-underscore" and labels:
        i = pick(labels); lines[i] = lines[i].replace("_", "", 1)
    elif dmg == "name-extra-token" and names:
        i = pick(names); lines[i] = lines[i] + " more"
    elif dmg == "loop-comment" and loops:
        i = pick(loops); lines[i] = lines[i] + " # c"
    elif dmg == "label-two-tokens" and labels:
        i = pick(labels); lines[i] = lines[i].split("#")[0] + " 3"
    elif dmg == "empty":
        lines = rng.choice([[""], ["", ""], ["   "], [" \t", ""]])
    elif dmg == "comments-only":
        lines = ["# only", "", " # comments"] + ([""] if rng.random() < 0.5 else [])
    elif dmg == "no-name" and names:
        del lines[names[0]]
    elif dmg == "cut-in-labels" and labels:
        i = pick(labels); lines = lines[: i + 1]
    elif dmg == "loop-on-name-line" and names and loops:
        i = names[0]; j = [k for k in loops if k > i][0]
        lines[i] = lines[i] + " loop_"; del lines[j]
    elif dmg == "row-in-labels" and labels:
        lines.insert(pick(labels), "1 2")
    elif dmg == "double-loop" and loops:
        lines.insert(pick(loops), "loop_")
    elif dmg == "property-in-row" and rows:
        i = pick(rows); t = lines[i].split(); t[rng.randrange(len(t))] = "_prop"; lines[i] = " ".join(t)
    elif dmg == "loop-in-row" and rows:
        i = pick(rows); t = lines[i].split(); t[rng.randrange(len(t))] = "loop_"; lines[i] = " ".join(t)
    return dict(kind="malformed", damage=dmg, text="\n".join(lines), eol=base["eol"])


def corpus():
    """the hand-written cases of corpus/C02/*.json; a case marked `"only_if_listed": "<finding id>"` (the reproducer of a PROPOSED
    known finding) runs only once that finding is an open entry of known_findings.json"""
    import glob, json
    out = []
    root = os.path.join(os.path.dirname(os.path.dirname(os.path.dirname(os.path.abspath(__file__)))), "corpus", PROP)
    for p in sorted(glob.glob(os.path.join(root, "*.json"))):
        d = json.load(open(p))
        for c in (d if isinstance(d, list) else [d]):
            fid = c.get("only_if_listed")
            if fid is None or _listed(fid):
                out.append({k: v for k, v in c.items() if k != "only_if_listed"})
    return out


def generate(rng, tier, n):
    for i in range(n):
        k = rng.random()
        if k < 0.34:
            yield gen_write(rng, tier)
        elif k < 0.42:
            yield gen_rewrite(rng, tier)
        elif k < 0.49:
            yield gen_remove(rng, tier)
        elif k < 0.87:
            yield gen_read(rng, tier)
        else:
            yield gen_malformed(rng, tier)


# ------------------------------------------------------------------ implementation
def _frame_obs(df):
    import pandas as pd
    cols, kinds, data = [], [], []
    for j in range(df.shape[1]):
        s = df.iloc[:, j]
        cols.append(str(df.columns[j]))
        if len(s) and pd.api.types.is_bool_dtype(s.dtype):
            kinds.append("bool"); data.append([bool(v) for v in s])
        elif len(s) and pd.api.types.is_integer_dtype(s.dtype):
            kinds.append("int"); data.append([int(v) for v in s])
        elif len(s) and pd.api.types.is_float_dtype(s.dtype):
            kinds.append("float"); data.append([f2b(float(v)) for v in s])
        elif len(s) and s.dtype == object and all(type(v) is int for v in s):
            # integer tokens beyond 64 bits: pandas.to_numeric returns Python ints in an object column -- numbers all the same
            kinds.append("int"); data.append([int(v) for v in s])
        else:
            kinds.append("text"); data.append([v if isinstance(v, str) else f"<{type(v).__name__}>{v}" for v in s])
    return dict(cols=cols, kinds=kinds, nrows=int(df.shape[0]), data=data, dtypes=[str(df.iloc[:, j].dtype) for j in range(df.shape[1])])


def _read_obs(path, ctor=False):
    from cryocat.starfileio import Starfile
    try:
        if ctor:  # the constructor is the top-level entry point most callers use
            sf = Starfile(path)
            frames, specifiers, comments = sf.frames, sf.specifiers, sf.comments
        else:
            frames, specifiers, comments = Starfile.read(path)
    except IOError as e:
        # H1: WHICH refusal it is comes from where it was raised and with what (the raising function of cryocat/starfileio.py and
        # its first two arguments: the token queue and the expected token type), never from the wording of the message
        msg, kind, tb, last = str(e), "other", e.__traceback__, None
        while tb is not None:
            if "/cryocat/" in tb.tb_frame.f_code.co_filename:
                last = tb.tb_frame
            tb = tb.tb_next
        if last is not None:
            code, loc = last.f_code, last.f_locals
            args = [loc.get(n) for n in code.co_varnames[:code.co_argcount]]
            if code.co_name in ("check", "consume") and len(args) == 2 and isinstance(args[0], list) and hasattr(args[1], "name"):
                kind = f"expected:{args[1].name}:{'empty' if len(args[0]) == 0 else 'got'}"
            elif code.co_name == "read":
                kind = "trailing"
        del tb, last
        return dict(error=kind, message=msg[:200])
    except Exception as e:  # not an IOError of the parser: the reader crashed
        import traceback
        fr = [f for f in traceback.extract_tb(e.__traceback__) if "/cryocat/" in f.filename]
        where = f"{os.path.basename(fr[-1].filename)}:{fr[-1].lineno}" if fr else ""
        return dict(error="crash:" + type(e).__name__, message=f"{type(e).__name__}: {str(e)[:200]} @{where}", foreign=not fr)
    return dict(specifiers=[str(s) for s in specifiers], frames=[_frame_obs(f) for f in frames],
                comments=[[c if isinstance(c, str) else f"<{type(c).__name__}>" for c in cs] for cs in comments])


def _sel_obs(path, case):
    """Starfile.read(path, data_id=i) and Starfile.get_frame_and_comments(path, specifier) on the same file"""
    from cryocat.starfileio import Starfile
    out = {}
    if "data_id" in case:
        try:
            f, sp, cs = Starfile.read(path, data_id=case["data_id"])
            out["data_id"] = dict(name=str(sp), frame=_frame_obs(f), comments=list(cs))
        except IndexError:
            out["data_id"] = dict(error="IndexError")
        except IOError:
            out["data_id"] = dict(error="parse")
        except Exception as e:
            out["data_id"] = dict(error="crash:" + type(e).__name__)
    if "specifier" in case:
        try:
            f, cs = Starfile.get_frame_and_comments(path, case["specifier"])
            out["specifier"] = dict(frame=_frame_obs(f), comments=list(cs))
        except ValueError:
            out["specifier"] = dict(error="ValueError")
        except IOError:
            out["specifier"] = dict(error="parse")
        except Exception as e:
            out["specifier"] = dict(error="crash:" + type(e).__name__)
        try:
            frames, specifiers, _ = Starfile.read(path)
            out["specifier_id"] = Starfile.get_specifier_id(specifiers, case["specifier"])
        except Exception:
            out["specifier_id"] = "error"
    return out


def _frames_of(case):
    import numpy as np, pandas as pd
    frames = []
    for bi, b in enumerate(case["blocks"]):
        d = {}
        for c, t, col in zip(b["cols"], b["types"], b["data"]):
            if t == "int":
                d[c] = np.array(col, dtype=np.int64)
            elif t == "float":
                d[c] = np.array([b2f(x) for x in col], dtype=np.float64)
            else:
                d[c] = np.array(list(col), dtype=object) if case.get("object_dtype") else list(col)
        idx = (case.get("index") or [None] * len(case["blocks"]))[bi]
        frames.append(pd.DataFrame(d, columns=b["cols"]) if idx is None else pd.DataFrame(d, columns=b["cols"], index=list(idx)))
    return frames


def _same_frame(a, b):
    return list(a.columns) == list(b.columns) and [str(x) for x in a.dtypes] == [str(x) for x in b.dtypes] and a.shape == b.shape and bool(a.equals(b))


def _do_write(frames, path, case):
    """one call of Starfile.write with the keywords the case asks for (left-out keywords are really left out); returns what the
    call did to the caller-owned arguments: the DataFrame objects, the list holding them, the specifiers and comments lists"""
    import numpy as np
    from cryocat.starfileio import Starfile
    omit = case.get("omit", [])
    kw = {}
    specs = [b["name"] for b in case["blocks"]]
    coms = copy.deepcopy(case.get("comments"))
    if "specifiers" not in omit:
        kw["specifiers"] = specs
    if "comments" not in omit:
        kw["comments"] = coms
    if "number_columns" not in omit:
        kw["number_columns"] = case["number_columns"]
    if case.get("tuple_args"):  # H3: the per-block arguments handed over as tuples instead of lists
        kw = {k: (tuple(v) if isinstance(v, list) else v) for k, v in kw.items()}
    objs = list(frames)
    snap = [f.copy(deep=True) for f in frames]
    specs0, coms0 = list(specs), copy.deepcopy(coms)
    Starfile.write(frames, path, **kw)
    with np.errstate(all="ignore"):
        entries = "same-objects" if all(x is y for x, y in zip(frames, objs)) and len(frames) == len(objs) else \
            "rounded-copies" if len(frames) == len(objs) and all(_same_frame(x, y.round(PRECISION)) for x, y in zip(frames, snap)) else "other"
    return dict(tables_changed=[i for i, (o, c) in enumerate(zip(objs, snap)) if not _same_frame(o, c)], list_entries=entries,
                specifiers_changed=specs != specs0, comments_changed=coms != coms0)


def _write_round(case, path, frames=None):
    frames = _frames_of(case) if frames is None else frames
    args = _do_write(frames, path, case)
    text = open(path, "rb").read().decode("utf-8")
    return dict(text=text, read=_read_obs(path, bool(case.get("ctor"))), sel=_sel_obs(path, case), args=args), frames


def _returned_obs(ret):
    frames, specifiers, comments = ret
    return dict(specifiers=[str(x) for x in specifiers], frames=[_frame_obs(f) for f in frames], comments=[list(c) for c in comments])


def run_impl(case):
    import warnings
    from cryocat.starfileio import Starfile
    with tempfile.TemporaryDirectory(prefix="c02_") as td:
        p = os.path.join(td, "t.star")
        if case["kind"] == "write":
            return _write_round(case, p)[0]
        if case["kind"] == "rewrite":
            # the SAME path for every round, one process; `reuse-list`: the same list object goes into every Starfile.write
            out, frames = [], None
            for st in case["steps"]:
                o, fr = _write_round(st, p, frames if case["mode"] == "reuse-list" else None)
                frames = fr
                out.append(o)
            return dict(steps=out)
        if case["kind"] == "remove":
            obs, _ = _write_round(case["base"], p)
            q = os.path.join(td, "out.star")
            kw = {}
            if case["output"]:
                kw["output_file"] = q
            if case["specifier"] is not None:
                kw["data_specifier"] = case["specifier"]
            if "number_columns2" in case:
                kw["number_columns"] = case["number_columns2"]
            rem = {}
            try:
                with warnings.catch_warnings(record=True) as w:
                    warnings.simplefilter("always")
                    import numpy as np
                    pos = np.array(case["idx"], dtype=np.int64) if case.get("idx_array") else tuple(case["idx"]) if case.get("idx_tuple") and case["idx"] else list(case["idx"])  # H3: array-like argument
                    ret = Starfile.remove_lines(p, pos, **kw)
                rem["warned"] = any(issubclass(x.category, Warning) and "cryocat" in (x.filename or "") for x in w)  # by origin, never by wording
                rem["returned"] = None if ret is None else _returned_obs(ret)
                if os.path.exists(q):
                    rem["text"] = open(q, "rb").read().decode("utf-8")
                    rem["read"] = _read_obs(q)
            except IndexError as e:
                rem["error"] = "IndexError"
            except Exception as e:
                import traceback
                fr = [f for f in traceback.extract_tb(e.__traceback__) if "/cryocat/" in f.filename]
                rem["error"] = "crash:" + type(e).__name__
                rem["message"] = f"{type(e).__name__}: {str(e)[:200]} @{os.path.basename(fr[-1].filename)}:{fr[-1].lineno}" if fr else f"{type(e).__name__}: {str(e)[:200]}"
                rem["foreign"] = not fr
            rem["source_after"] = open(p, "rb").read().decode("utf-8") == obs["text"]  # remove_lines must not touch its input file
            obs["remove"] = rem
            return obs
        with open(p, "wb") as f:
            f.write(raw_text(case).encode("utf-8"))
        return dict(read=_read_obs(p, bool(case.get("ctor"))), sel=_sel_obs(p, case))


# ------------------------------------------------------------------ model requests
def _cell_text(t, v):
    import numpy as np
    if t == "int":
        return str(int(v))
    if t == "float":
        with np.errstate(all="ignore"):
            return str(float(np.round(np.float64(b2f(v)), PRECISION)))
    return v


def _typed_cell(t, v):
    """the cell as the Lean writer gets it: text as a string, an integer as an integer, a float as its sign, shortest digit
    string and decimal-point position after round(6) -- the digits come from numpy's Dragon4 (format_float_scientific,
    unique=True), not from Python's repr; the Lean `floatRepr` lays them out and the file is compared byte for byte"""
    import numpy as np
    if t == "int":
        return int(v)
    if t == "text":
        return v
    with np.errstate(all="ignore"):
        r = np.float64(np.round(np.float64(b2f(v)), PRECISION))
    if np.isnan(r):
        return ["nan"]
    if np.isinf(r):
        return ["inf", bool(r < 0)]
    mant, ex = np.format_float_scientific(r, unique=True, trim="-").split("e")
    neg = mant.startswith("-")
    return [neg, mant.lstrip("-").replace(".", ""), int(ex) + 1]


def _model_blocks(case):
    out = []
    for b in case["blocks"]:
        n = len(b["data"][0]) if b["data"] else 0
        cols = [[_typed_cell(t, v) for v in col] for t, col in zip(b["types"], b["data"])]
        blk = dict(cols=b["cols"], rows=[[cols[j][i] for j in range(len(cols))] for i in range(n)])
        if "specifiers" not in case.get("omit", []):
            blk["name"] = b["name"]  # no name = `specifiers` left out of the call: the driver uses the translated default
        out.append(blk)
    return out


def _sel_requests(case, text):
    reqs = []
    if "data_id" in case:
        reqs.append(dict(op="read", text=text, data_id=case["data_id"]))
    if "specifier" in case:
        reqs.append(dict(op="read", text=text, specifier=case["specifier"]))
    return reqs


def _print_request(case, op="print"):
    pr = dict(op=op, blocks=_model_blocks(case))
    if "number_columns" not in case.get("omit", []):
        pr["number_columns"] = case["number_columns"]  # left out = keyword left out of the call: the driver uses the translated default
    if case.get("comments") is not None:
        pr["comments"] = case["comments"]
    return pr


def _write_requests(case, obs):
    reqs = [_print_request(case)]
    if isinstance(obs, dict) and "text" in obs:
        reqs.append(dict(op="read", text=obs["text"]))
        reqs += _sel_requests(case, obs["text"])
        cells = _r6_cells(obs["text"], case["blocks"])
        if cells:  # the value clause on the file text, decided by the Lean checker in exact rational arithmetic
            reqs.append(dict(op="round6", cells=[[v, tok] for _, _, _, v, tok in cells]))
    return reqs


def requests(case, obs):
    if case["kind"] == "write":
        return _write_requests(case, obs)
    if case["kind"] == "rewrite":
        steps = obs.get("steps") if isinstance(obs, dict) and "steps" in obs else [None] * len(case["steps"])
        return [r for st, o in zip(case["steps"], steps) for r in _write_requests(st, o)]
    if case["kind"] == "remove":
        rq = _print_request(case["base"], op="remove_lines")
        rq["idx"] = list(case["idx"])
        if case["specifier"] is not None:
            rq["specifier"] = case["specifier"]
        if "number_columns2" in case:
            rq["number_columns2"] = case["number_columns2"]
        return _write_requests(case["base"], obs) + [rq]
    # the driver gets the characters of the file as they are on disk (CRLF included); the LF form goes along for the
    # CRLF-normalisation theorem's instance (model(raw) must equal model(lf))
    raw = raw_text(case)
    reqs = [dict(op="read", text=raw)] + _sel_requests(case, raw)
    if case.get("eol") == "crlf":
        reqs.append(dict(op="read", text=render_read(case)))
    return reqs


# ------------------------------------------------------------------ judgement
ULP_ROUND = 1.5   # numpy.round(v, 6) = rint(v * 1e6) / 1e6: the product costs up to one ulp of v (half an ulp of v*1e6), the quotient half an ulp
# pandas.to_numeric is NOT correctly rounded. Measured (pandas 3.0.6, 400 000 random 17-digit mantissas per band, repr of round(v, 6)):
# |to_numeric(repr(x)) - x| <= 1 ulp for |x| < 1e9, <= 2 ulp for 1e9 .. 1e47 and 1e60 .. 1e120, 3 ulp for a few mantissas per million in
# 1e47 .. 1e60 and above 1e120 (e.g. -1.8235254309850092e+47 -> ...086e+47). The bound used is the worst measured one plus one ulp
# of margin; the probe below draws only from the magnitudes the generator produces (random mantissas up to 1e40, the listed constants
# 3.3e100 / 1e300), where 2 ulp is the worst ever seen -- so the probe cannot flake on a mantissa the generator never writes.
ULP_PARSE = 4.0


WRITER_ULPS = 3   # = Lean `writerUlps`: product v*1e6 (<= 1 ulp of v), quotient (half an ulp of the result), shortest digits (within half an ulp of the result); the result may be in the next binade: 1 + 2*(1/2 + 1/2)
DEC_RE = re.compile(r"[+-]?(\d+\.?\d*|\.\d+)([eE][+-]?\d+)?\Z")


def _round6_exact(bits, tok):
    """the harness's own evaluation of the Lean `round6Cell` (exact rational arithmetic): the token is a decimal literal, has at most
    6 fractional digits and lies within 0.5e-6 + 3 ulp(v) of the written binary64 value v"""
    from fractions import Fraction
    v = b2f(bits)
    if not math.isfinite(v) or not DEC_RE.match(tok):
        return False
    d = Fraction(tok)
    return (d * 10 ** PRECISION).denominator == 1 and abs(d - Fraction(v)) <= Fraction(1, 2 * 10 ** PRECISION) + WRITER_ULPS * Fraction(math.ulp(v))


def _r6_cells(text, blocks):
    """the float cells of a written file as (block, column, row, bit pattern of the written value, token in the file), or None
    when the file is not laid out like the tables (reported by `_judge_file_text`)"""
    ind = indep_parse(text)
    if isinstance(ind, str) or len(ind) != len(blocks):
        return None
    out = []
    for bi, (fb, b) in enumerate(zip(ind, blocks)):
        n = len(b["data"][0]) if b["data"] else 0
        if fb["cols"] != b["cols"] or len(fb["rows"]) != n:
            return None
        for j, (t, col) in enumerate(zip(b["types"], b["data"])):
            if t == "float":
                out += [(bi, j, i, v, fb["rows"][i][j]) for i, v in enumerate(col)]
    return out


def _close_after_round(orig, got, parse_ulps):
    """`equal after rounding to 6 decimals`: |got - orig| <= half a unit of the 6th decimal, plus what the floating-point operations
    the code is entitled to cost: numpy.round's multiply and divide (ULP_ROUND) and, for a value that went through
    pandas.to_numeric, its conversion error (parse_ulps); float(token) used on the file text is correctly rounded (0)"""
    if math.isnan(got) or math.isinf(got):
        return False
    return abs(got - orig) <= 0.5 * 10 ** -PRECISION * (1 + 1e-9) + (ULP_ROUND + parse_ulps) * math.ulp(max(abs(orig), abs(got)))


def _inf_like(t):
    return t.lower().lstrip("+-") in ("inf", "infinity")


REL_PARSE, ABS_PARSE = 1e-12, 1e-15


def _same_number(a, b):
    """the value pandas.to_numeric assigns to a token of a READ text against float(token). The statement has no value clause for read
    texts ("numeric columns as numbers"), so a difference is a correspondence matter (kind corr), and the tolerance is what pandas
    really does (measured on pandas 3.0.6, 100 000 tokens per shape): not correctly rounded -- up to 3 ulp on 17-digit mantissas
    (ULP_PARSE) -- and its parser keeps only about 17 digit CHARACTERS counted from the first digit of the token, leading zeros of
    a fixed-notation fraction included: '0.0001430206016712772' comes back 6.3e-13 relative off, '0.00001005771772819408' 9.4e-12,
    '0.000000100192927498996' 1e-9, i.e. an ABSOLUTE error of up to 1e-16 for |x| < 1, while tokens of 40 digits above 1 are exact
    to 4e-16 relative. Allowed: ULP_PARSE ulp, or 1e-12 relative, or 1e-15 absolute, whichever is largest."""
    return a == b or (math.isfinite(a) and math.isfinite(b) and abs(a - b) <= max(ULP_PARSE * math.ulp(a), REL_PARSE * abs(a), ABS_PARSE))


def _cmp_frames_with_tokens(read, blocks, clause_prefix, kind):
    """implementation's frames vs. blocks of tokens (name, cols, rows, optional kinds): exact"""
    out = []
    if "error" in read:
        return [dict(kind=kind, clause=clause_prefix + "-rejects", detail=f"Starfile.read raised: {read.get('message', read['error'])}; expected blocks {[b['name'] for b in blocks]}")]
    if read["specifiers"] != [b["name"] for b in blocks]:
        return [dict(kind=kind, clause=clause_prefix + "-block-names", detail=f"read {read['specifiers']}, expected {[b['name'] for b in blocks]}")]
    for bi, (fr, b) in enumerate(zip(read["frames"], blocks)):
        if fr["cols"] != b["cols"]:
            out.append(dict(kind=kind, clause=clause_prefix + "-labels", detail=f"block {bi}: read {fr['cols']}, expected {b['cols']}")); continue
        if fr["nrows"] != len(b["rows"]):
            out.append(dict(kind=kind, clause=clause_prefix + "-row-count", detail=f"block {bi}: read {fr['nrows']} rows, expected {len(b['rows'])}")); continue
        for j, c in enumerate(b["cols"]):
            toks = [r[j] for r in b["rows"]]
            if not toks:
                continue
            numeric = all(is_num(t) for t in toks)  # decimal literals and [+-]inf / infinity in any case (model `isNumTok`)
            if "kinds" in b and b["kinds"][j] != numeric:
                out.append(dict(kind="corr", clause="model-typing", detail=f"block {bi} column {c}: model says numeric={b['kinds'][j]}, harness grammar says {numeric}"))
            k = fr["kinds"][j]
            if numeric:
                if k not in ("int", "float"):
                    out.append(dict(kind=kind, clause=clause_prefix + "-numeric-column-as-text", detail=f"block {bi} column {c}: tokens {toks[:4]} read as {k} ({fr.get('dtypes', ['?'] * (j + 1))[j]})",
                                    k5_class=bool(_k5_column(toks)))); continue  # the class of C02-K5 decided on the very column judged
                # G3: integer vs float typing -- a column of integer tokens [+-]?d+ is integer-typed, any other numeric column float
                # (model `isIntTok` / `blockInts`; the harness's own regex; the implementation's dtype): always a correspondence matter
                all_int = all(INT_RE.match(t) for t in toks)
                if "ints" in b and b["ints"][j] != all_int:
                    out.append(dict(kind="corr", clause="model-int-typing", detail=f"block {bi} column {c}: model says integer={b['ints'][j]}, harness regex says {all_int}"))
                if (k == "int") != all_int:
                    out.append(dict(kind="corr", clause=clause_prefix + "-int-vs-float-typing", detail=f"block {bi} column {c}: tokens {toks[:4]} (all integer tokens: {all_int}) read as {k} ({fr.get('dtypes', ['?'] * (j + 1))[j]})")); continue
                vals = fr["data"][j] if k == "int" else [b2f(x) for x in fr["data"][j]]
                for i, (t, v) in enumerate(zip(toks, vals)):
                    if not (k == "int" and not _inf_like(t) and int(t) == v) and not _same_number(float(t), float(v)):
                        # never `spec`: the statement fixes no value for the tokens of a read text (for written files the value clause is judged by _judge_frames)
                        out.append(dict(kind="corr", clause=clause_prefix + "-numeric-value", detail=f"block {bi} column {c} row {i}: token {t!r} read as {v!r} (float(token) = {float(t)!r})")); break
            else:
                if k != "text":
                    out.append(dict(kind=kind, clause=clause_prefix + "-text-column-as-number", detail=f"block {bi} column {c}: tokens {toks[:4]} read as {k}")); continue
                if fr["data"][j] != toks:
                    i = next(i for i, (a, t) in enumerate(zip(fr["data"][j], toks)) if a != t)
                    out.append(dict(kind=kind, clause=clause_prefix + "-text-value", detail=f"block {bi} column {c} row {i}: token {toks[i]!r} read as {fr['data'][j][i]!r}"))
    return out


def _raised(obs, spec_clause):
    """G4: an exception with no frame inside /cryocat/ (harness or third-party failure), or a failure of the environment's
    text encoding, is no spec finding"""
    msg = obs["error"] + " @" + obs.get("where", "")
    if not obs.get("where") or "UnicodeEncodeError" in obs["error"] or "UnicodeDecodeError" in obs["error"]:
        return [dict(kind="corr", clause="harness-or-library-raised", detail=msg)]
    return [dict(kind="spec", clause=spec_clause, detail=msg)]


def _judge_file_text(text, blocks, names, r6=None):
    """(S1) a written text, through the independent tokenizer, against the tables. `r6`: the answers of the Lean checker `round6Cell`
    for the float cells (in the order of `_r6_cells`): the value clause is then decided in exact rational arithmetic by the verified
    checker; without them (files written by remove_lines, re-runs inside classify) by the float tolerance of `_close_after_round`"""
    out = []
    cells = _r6_cells(text, blocks) if r6 is not None else None
    verdict = {}
    if cells is not None and isinstance(r6, list) and len(r6) == len(cells):
        for (bi, j, i, v, tok), ok in zip(cells, r6):
            verdict[(bi, j, i)] = ok
            if ok != _round6_exact(v, tok):
                out.append(dict(kind="corr", clause="round6-checker-vs-harness", detail=f"block {bi} column {blocks[bi]['cols'][j]} row {i}: value {b2f(v)!r} token {tok!r}: Lean round6Cell says {ok}, the harness's exact evaluation {not ok}"))
                break
    ind = indep_parse(text)
    if isinstance(ind, str):
        return [dict(kind="spec", clause="file-not-a-star-text", detail=f"independent tokenizer: {ind}")]
    if [b["name"] for b in ind] != names:
        return [dict(kind="spec", clause="file-block-names", detail=f"file has {[b['name'] for b in ind]}, written {names}")]
    for bi, (fb, b) in enumerate(zip(ind, blocks)):
        n = len(b["data"][0]) if b["data"] else 0
        if fb["cols"] != b["cols"]:
            out.append(dict(kind="spec", clause="file-labels", detail=f"block {bi}: file {fb['cols']}, table {b['cols']}")); continue
        if len(fb["rows"]) != n:
            out.append(dict(kind="spec", clause="file-row-count", detail=f"block {bi}: file {len(fb['rows'])}, table {n}")); continue
        nbad = 0
        for j, (t, col) in enumerate(zip(b["types"], b["data"])):
            for i, v in enumerate(col):
                tok = fb["rows"][i][j]
                try:
                    good = (tok == v) if t == "text" else (int(tok) == v) if t == "int" else verdict[(bi, j, i)] if (bi, j, i) in verdict else _close_after_round(b2f(v), float(tok), 0)
                except ValueError:
                    good = False
                if not good:  # every bad cell is reported (at most 40 per block): a defect beside a cell of a known finding must not hide behind it
                    nbad += 1
                    if nbad <= 40:
                        out.append(dict(kind="spec", clause="file-cell", detail=f"block {bi} column {b['cols'][j]} row {i}: table holds {v if t != 'float' else b2f(v)!r}, file holds {tok!r}"))
    return out


def _judge_frames(rd, blocks, names):
    """(S2) frames read back (or returned) against the tables: the statement itself, incl. the type of what comes back (G3)"""
    out = []
    if "error" in rd:
        if rd.get("foreign"):
            return [dict(kind="corr", clause="harness-or-library-raised", detail=str(rd.get("message")))]
        return [dict(kind="spec", clause="readback-raises", detail=f"Starfile.read of the written file raised: {rd.get('message')}")]
    if rd["specifiers"] != names:
        return [dict(kind="spec", clause="readback-block-names", detail=f"read {rd['specifiers']}, written {names}")]
    for bi, (fr, b) in enumerate(zip(rd["frames"], blocks)):
        n = len(b["data"][0]) if b["data"] else 0
        if fr["cols"] != b["cols"]:
            out.append(dict(kind="spec", clause="readback-labels", detail=f"block {bi}: read {fr['cols']}, written {b['cols']}")); continue
        if fr["nrows"] != n:
            out.append(dict(kind="spec", clause="readback-row-count", detail=f"block {bi}: read {fr['nrows']}, written {n}")); continue
        if n == 0:
            continue
        for j, (t, col) in enumerate(zip(b["types"], b["data"])):
            k, got, dt = fr["kinds"][j], fr["data"][j], fr.get("dtypes", ["?"] * (j + 1))[j]
            if t == "text":
                if k != "text" or got != col:
                    i = next((i for i, (a, v) in enumerate(zip(got, col)) if a != v), 0)
                    out.append(dict(kind="spec", clause="readback-text", detail=f"block {bi} column {b['cols'][j]} row {i}: written {col[i]!r}, read {got[i]!r} (column read as {k}, dtype {dt})")); continue
            else:
                if k not in ("int", "float"):
                    out.append(dict(kind="spec", clause="readback-number-as-text", detail=f"block {bi} column {b['cols'][j]}: numeric column read as {k} (dtype {dt}): {got[:3]}")); continue
                if t == "int" and k != "int":  # G3: an integer column must come back integer-typed
                    out.append(dict(kind="spec", clause="readback-integer-as-float", detail=f"block {bi} column {b['cols'][j]}: integer column read with dtype {dt}: {[b2f(x) for x in got[:3]]}")); continue
                if t == "float" and k != "float":
                    out.append(dict(kind="corr", clause="readback-float-as-integer", detail=f"block {bi} column {b['cols'][j]}: float column read with dtype {dt} (the model prints every float with a `.`/exponent)")); continue
                vals = got if k == "int" else [b2f(x) for x in got]
                orig = col if t == "int" else [b2f(x) for x in col]
                # every bad cell of every column is reported (at most 40 per column): a defect beside a cell of a known finding must not hide behind it
                for bad in [i for i, (a, v) in enumerate(zip(vals, orig)) if not ((a == v) if t == "int" else _close_after_round(v, float(a), ULP_PARSE))][:40]:
                    out.append(dict(kind="spec", clause="readback-number", detail=f"block {bi} column {b['cols'][j]} row {bad}: written {orig[bad]!r}, read {vals[bad]!r}"))
    return out


def _judge_args(args):
    """G2: what the call did to the caller-owned arguments. The tables themselves, the specifiers and the comments must be left
    alone; the list may hold the rounded copies afterwards (`frames[i] = f.round(float_precision)`, anchored as write:defaults-and-round).
    No clause of the statement speaks about the arguments, so these are correspondence findings; damage that matters to the statement
    shows as a spec finding of the next round of the `reuse-list` stream, which is judged against the original tables."""
    out = []
    if args.get("tables_changed"):
        out.append(dict(kind="corr", clause="write-edits-callers-table", detail=f"Starfile.write changed the caller's DataFrame object(s) {args['tables_changed']} in place"))
    if args.get("list_entries") == "other":
        out.append(dict(kind="corr", clause="write-edits-callers-list", detail="after Starfile.write the caller's list holds neither its tables nor their round(6) copies"))
    if args.get("specifiers_changed") or args.get("comments_changed"):
        out.append(dict(kind="corr", clause="write-edits-callers-specifiers-or-comments", detail=str(args)))
    return out


def _judge_write(case, obs, resps):
    out = []
    if "error" in obs:
        return _raised(obs, "write-raises")
    blocks, names = case["blocks"], _eff_names(case)
    given = "specifiers" not in case.get("omit", [])
    r6 = resps[-1].get("ok") if resps and isinstance(resps[-1], dict) and "ok" in resps[-1] else None
    if r6 is None and _r6_cells(obs["text"], blocks):
        out.append(dict(kind="corr", clause="round6-no-answer", detail=str(resps[-1])[:200] if resps else "no responses"))
    s1 = _judge_file_text(obs["text"], blocks, names, r6)   # (S1) the written text, through the independent tokenizer; float cells by the Lean checker
    rd = obs["read"]
    s2 = _judge_frames(rd, blocks, names)                # (S2) read back: the statement itself
    for f in s1 + s2:
        if not given and f["clause"] in ("file-block-names", "readback-block-names"):
            f = dict(f, kind="corr", detail=f["detail"] + " (no specifiers given: `data` is the documented default, not part of the statement)")
        out.append(f)
    out += _judge_args(obs.get("args", {}))
    # (C) correspondence with the Lean writer and reader
    pr = resps[0]
    if "error" in pr:
        out.append(dict(kind="corr", clause="model-print-error", detail=str(pr)))
    elif pr["text"] != obs["text"]:
        a, b = pr["text"], obs["text"]
        i = next((i for i, (x, y) in enumerate(zip(a, b)) if x != y), min(len(a), len(b)))
        out.append(dict(kind="corr", clause="file-vs-printStar", detail=f"first difference at offset {i}: file {b[max(0, i - 30):i + 30]!r}, model {a[max(0, i - 30):i + 30]!r}"))
    if len(resps) > 1:
        out += _judge_model_read(rd, resps[1])
        out += _judge_sel(case, obs, resps[2:])
    # the `comments` argument: every comment comes back stripped, in order, with its block (theorem written_comments_read_back);
    # that it does not disturb the tables is part of (S2) above
    if "error" not in rd and rd["specifiers"] == names and not any(t == "text" and "loop_" in col for b in blocks for t, col in zip(b["types"], b["data"])):
        want = [[c.strip() for c in (cs or [])] for cs in (case.get("comments") or [None] * len(blocks))]
        if rd.get("comments") != want:
            out.append(dict(kind="corr", clause="readback-comments", detail=f"written {case.get('comments')}, read {rd.get('comments')}"))
    return out


def _judge_rewrite(case, obs, resps):
    """every round on the same path is judged like a single write: the read of round k against the tables of round k"""
    if "error" in obs:
        return _raised(obs, "write-raises")
    out, k = [], 0
    for si, (st, o) in enumerate(zip(case["steps"], obs["steps"])):
        n = len(_write_requests(st, o))
        for f in _judge_write(st, o, resps[k:k + n]):
            if si:
                f = dict(f, clause=f"round{si + 1}-" + f["clause"], detail=f"round {si + 1} on the same path ({case['mode']}): " + f.get("detail", ""))
            out.append(f)
        k += n
    return out


def _removed(case):
    """the tables remove_lines must leave: block `bi` without the rows at the listed positions (None: nothing to do / error)"""
    base = case["base"]
    names = _eff_names(base)
    spec = case["specifier"]
    if spec is not None and spec not in names:
        return None, "not-found"
    bi = 0 if spec is None else names.index(spec)
    n = len(base["blocks"][bi]["data"][0]) if base["blocks"][bi]["data"] else 0
    if any(i >= n for i in case["idx"]):
        return None, "IndexError"
    blocks = copy.deepcopy(base["blocks"])
    drop = set(case["idx"])
    blocks[bi]["data"] = [[v for i, v in enumerate(col) if i not in drop] for col in blocks[bi]["data"]]
    return blocks, None


def _judge_remove(case, obs, resps):
    if "error" in obs:
        return _raised(obs, "write-raises")
    base = case["base"]
    n = len(_write_requests(base, obs))
    out = _judge_write(base, obs, resps[:n])
    rem, mo = obs.get("remove", {}), (resps[n] if len(resps) > n else {"error": "no-answer"})
    names = _eff_names(base)
    want, why = _removed(case)
    if not rem.get("source_after", True):
        out.append(dict(kind="corr", clause="remove_lines-changed-its-input-file", detail=""))
    if "error" in rem:
        if rem.get("foreign"):
            return out + [dict(kind="corr", clause="harness-or-library-raised", detail=str(rem.get("message")))]
        if rem["error"] != why or mo.get("error") != rem["error"]:
            out.append(dict(kind="corr", clause="remove_lines-outcome", detail=f"implementation {rem.get('message', rem['error'])}, expected {why}, model {mo.get('error', 'ok')}"))
        return out
    if why == "not-found":
        if not (rem.get("warned") and rem.get("returned") is None and "text" not in rem and mo.get("error") == "not-found"):
            out.append(dict(kind="corr", clause="remove_lines-absent-specifier", detail=f"implementation {rem}, model {mo}"))
        return out
    if why is not None:
        return out + [dict(kind="corr", clause="remove_lines-outcome", detail=f"implementation ok, expected {why}, model {mo.get('error', 'ok')}")]
    if "error" in obs["read"] or any(f["kind"] == "spec" for f in out):
        return out  # the file remove_lines started from is already wrong (reported above)
    if case["output"]:
        if "text" not in rem:
            return out + [dict(kind="corr", clause="remove_lines-wrote-nothing", detail=str(rem)[:300])]
        # G6: the file remove_lines wrote is a STAR text like any other -- that it is read into exactly what an independent tokenizer
        # finds in it is the statement (spec); WHICH rows it holds is the semantics of remove_lines, not a clause of C02 (corr)
        ind = indep_parse(rem["text"])
        if isinstance(ind, str):
            out.append(dict(kind="spec", clause="remove_lines-file-not-a-star-text", detail=f"independent tokenizer: {ind}"))
        else:
            out += _cmp_frames_with_tokens(rem["read"], ind, "remove_lines-read", "spec")
        out += [dict(f, kind="corr", clause="remove_lines-" + f["clause"]) for f in _judge_file_text(rem["text"], want, names) + _judge_frames(rem["read"], want, names)]
        if "error" in mo:
            out.append(dict(kind="corr", clause="remove_lines-model-error", detail=str(mo)))
        else:
            if mo["text"] != rem["text"]:
                a, b = mo["text"], rem["text"]
                i = next((i for i, (x, y) in enumerate(zip(a, b)) if x != y), min(len(a), len(b)))
                out.append(dict(kind="corr", clause="remove_lines-file-vs-model", detail=f"first difference at offset {i}: file {b[max(0, i - 30):i + 30]!r}, model {a[max(0, i - 30):i + 30]!r}"))
            out += [dict(f, clause="remove_lines-" + f["clause"]) for f in _judge_model_read(rem["read"], mo["read"])]
    else:
        if rem.get("returned") is None:
            return out + [dict(kind="corr", clause="remove_lines-returned-nothing", detail=str(rem)[:300])]
        out += [dict(f, kind="corr", clause="remove_lines-returned-" + f["clause"]) for f in _judge_frames(rem["returned"], want, names)]
        wantc = [[c.strip() for c in (cs or [])] for cs in (base.get("comments") or [None] * len(names))]
        if rem["returned"]["comments"] != wantc:
            out.append(dict(kind="corr", clause="remove_lines-returned-comments", detail=f"{rem['returned']['comments']} vs {wantc}"))
    return out


def _frame_matches_block(fr, mb):
    """a frame observation of the implementation vs. a block of the model (labels, row count, kinds, text cells)"""
    if fr["cols"] != mb["cols"] or fr["nrows"] != len(mb["rows"]):
        return False
    for j in range(len(mb["cols"])):
        numeric = bool(mb["rows"]) and mb["kinds"][j]
        if numeric and fr["kinds"][j] == "text" and _k5_column([r[j] for r in mb["rows"]]):
            continue  # class of finding C02-K5: reported (spec) by the full read of the same file, not a second time for the selection
        if numeric != (fr["kinds"][j] in ("int", "float")):
            return False
        if not numeric and fr["data"][j] != [r[j] for r in mb["rows"]]:
            return False
    return True


def _judge_sel(case, obs, resps):
    """Starfile.read(data_id=i) / get_frame_and_comments / get_specifier_id vs. the Lean `readSel` / `getFrameAndComments`, and vs. the
    implementation's own full read (data_id=i is the i-th block; the specifier selects the first block of that name)"""
    out, sel, rd, k = [], obs.get("sel", {}), obs.get("read", {}), 0
    merr = lambda r: "parse" if r.get("error", "").startswith(("expected:", "trailing")) else r.get("error")
    for key in ("data_id", "specifier"):
        if key not in case:
            continue
        if k >= len(resps) or key not in sel:
            out.append(dict(kind="corr", clause=key + "-no-answer", detail=f"{sel} / {len(resps)} responses")); k += 1; continue
        im, mo = sel[key], resps[k]; k += 1
        if "error" in im or "error" in mo:
            if im.get("error") != merr(mo):
                out.append(dict(kind="corr", clause=key + "-outcome", detail=f"{key}={case[key]!r}: implementation {im.get('error', 'ok')}, model {mo.get('error', 'ok')}"))
            continue
        mb = mo["block"]
        if not _frame_matches_block(im["frame"], mb) or im["comments"] != mb["comments"] or (key == "data_id" and im["name"] != mb["name"]):
            out.append(dict(kind="corr", clause=key + "-block", detail=f"{key}={case[key]!r}: implementation {im.get('name')} {im['frame']['cols']} {im['comments']}, model {mb['name']} {mb['cols']} {mb['comments']}"))
        if "error" not in rd:  # against the full read of the same file
            n = len(rd["frames"])
            if key == "data_id":
                i = case[key] if case[key] >= 0 else n + case[key]
                good = 0 <= i < n and im["frame"] == rd["frames"][i] and im["name"] == rd["specifiers"][i] and im["comments"] == rd["comments"][i]
            else:
                i = rd["specifiers"].index(case[key]) if case[key] in rd["specifiers"] else None
                good = i is not None and im["frame"] == rd["frames"][i] and im["comments"] == rd["comments"][i] and sel.get("specifier_id") == i
            if not good:
                out.append(dict(kind="corr", clause=key + "-vs-full-read", detail=f"{key}={case[key]!r} does not return block {i} of the full read"))
    if "specifier" in case and "error" not in rd:
        want = rd["specifiers"].index(case["specifier"]) if case["specifier"] in rd["specifiers"] else None
        if sel.get("specifier_id") != want:
            out.append(dict(kind="corr", clause="get_specifier_id", detail=f"{case['specifier']!r} in {rd['specifiers']}: got {sel.get('specifier_id')}, first index {want}"))
    return out


def _judge_model_read(rd, mr):
    """implementation's read vs. the Lean readStar of the same text"""
    if "error" in mr:
        if "error" not in rd:
            return [dict(kind="corr", clause="model-rejects-impl-accepts", detail=f"model {mr['error']}, implementation read {rd['specifiers']}")]
        if rd["error"] != mr["error"] and rd["error"] != "other":  # `other`: an IOError whose wording the harness does not know (rewording is harmless)
            return [dict(kind="corr", clause="error-kind", detail=f"model {mr['error']}, implementation {rd['error']}: {rd.get('message')}")]
        return []
    if "error" in rd:
        return [dict(kind="corr", clause="impl-rejects-model-accepts", detail=f"implementation {rd.get('message')}, model read {[b['name'] for b in mr['blocks']]}")]
    out = _cmp_frames_with_tokens(rd, mr["blocks"], "read-vs-model", "corr")
    if "comments" in rd and rd["comments"] != [b.get("comments") for b in mr["blocks"]]:
        out.append(dict(kind="corr", clause="comments-vs-model", detail=f"implementation {rd['comments']}, model {[b.get('comments') for b in mr['blocks']]}"))
    return out


def judge(case, obs, resps):
    if case["kind"] == "write":
        return _judge_write(case, obs, resps)
    if case["kind"] == "rewrite":
        return _judge_rewrite(case, obs, resps)
    if case["kind"] == "remove":
        return _judge_remove(case, obs, resps)
    if "error" in obs:
        f = _raised(obs, "read-crashes")
        return f if case["kind"] == "read" else [dict(x, kind="corr") for x in f]
    rd, mr = obs["read"], resps[0]
    out = []
    if rd.get("foreign"):
        return [dict(kind="corr", clause="harness-or-library-raised", detail=str(rd.get("message")))]
    text = render_read(case)
    ind = indep_parse(text)
    if case["kind"] == "read":
        expect = [b["x"] for b in case["blocks"]]
        if ind != expect:
            out.append(dict(kind="corr", clause="oracle-disagrees-with-generator", detail=f"independent tokenizer: {str(ind)[:300]}"))
        out += _cmp_frames_with_tokens(rd, expect, "read", "spec")
        if ("error" in mr or [dict(name=b["name"], cols=b["cols"], rows=b["rows"]) for b in mr["blocks"]] != expect) and not layout_class(text):
            out.append(dict(kind="corr", clause="model-vs-independent-tokenizer", detail=f"model: {str(mr)[:300]}"))
    elif not isinstance(ind, str) and ind:
        # a damaged text the independent tokenizer still finds to be a STAR text of the statement (e.g. the separating blank line
        # removed, the text cut after a label): judged like any other text. A text it calls malformed is outside the quantifier --
        # accept/reject and the error kind are then compared with the model only (e.g. a short last row is dropped silently by both)
        out += _cmp_frames_with_tokens(rd, ind, "read", "spec")
    out += _judge_model_read(rd, mr)
    nsel = ("data_id" in case) + ("specifier" in case)
    out += _judge_sel(case, obs, resps[1:1 + nsel])
    if case.get("eol") == "crlf":  # instance of theorem crlf_normalisation: the model on the CRLF characters = the model on the LF form
        if len(resps) < 2 + nsel or resps[1 + nsel] != mr:
            out.append(dict(kind="corr", clause="model-crlf-vs-lf", detail=f"model on CRLF text {str(mr)[:200]}, on LF text {str(resps[-1])[:200]}"))
    return out


# ------------------------------------------------------------------ evidence
def _bucket(n, edges):
    for e in edges:
        if n <= e:
            return f"<={e}"
    return f">{edges[-1]}"


def nontrivial(case, obs):
    import numpy as np
    if case["kind"] == "rewrite":
        return "error" not in obs and any(st["blocks"] != case["steps"][0]["blocks"] for st in case["steps"][1:]) or case["mode"] == "reuse-list"
    if case["kind"] == "remove":
        return "error" not in obs and bool(case["idx"])
    if case["kind"] == "write":
        if "error" in obs:
            return False
        if len(case["blocks"]) >= 2:
            return True
        for b in case["blocks"]:
            has_text = any(t == "text" for t in b["types"])
            changed = any(t == "float" and any(float(np.round(b2f(x), PRECISION)) != b2f(x) for x in col) for t, col in zip(b["types"], b["data"]))
            if has_text and changed:
                return True
        return False
    if case["kind"] == "read":
        text = render_read(case)
        return any(l.lstrip().startswith("#") for l in text.split("\n")) and re.search(r"\S[ \t]{2,}\S|\S\t \S|\S \t\S", text) is not None
    return "error" in obs.get("read", {})


def stats(case, obs, resps):
    k = case["kind"]
    d = {"stream": k}
    if k == "rewrite":
        d["rewrite.mode"] = case["mode"]
        d["rewrite.rounds"] = len(case["steps"])
        if "steps" in obs:
            sizes = [len(o["text"].encode("utf-8")) for o in obs["steps"]]
            d["rewrite.same-byte-length-different-content"] = any(a == b and x["text"] != y["text"] for a, b, x, y in zip(sizes, sizes[1:], obs["steps"], obs["steps"][1:]))
            d["rewrite.callers-list-after-write"] = [o.get("args", {}).get("list_entries") for o in obs["steps"]]
        return d
    if k == "remove":
        d["remove.specifier"] = "default(block 0)" if case["specifier"] is None else ("absent" if case["specifier"] not in _eff_names(case["base"]) else "given")
        d["remove.rows-removed"] = _bucket(len(set(case["idx"])), [0, 1, 3, 10])
        d["remove.output_file"] = case["output"]
        d["remove.positions-as"] = "numpy array" if case.get("idx_array") else "tuple" if case.get("idx_tuple") and case["idx"] else "list"
        d["remove.number_columns"] = case.get("number_columns2", "left out")
        d["remove.outcome"] = obs.get("remove", {}).get("error", "warned" if obs.get("remove", {}).get("warned") else "ok") if "error" not in obs else "write-raised"
        d["remove.comments-fed-back"] = "none" if case["base"].get("comments") is None else "some"
        return d
    if k == "write":
        d["write.keywords-left-out"] = case.get("omit", []) or ["none"]
        d["write.specifiers/comments-as"] = "tuples" if case.get("tuple_args") else "lists"
        d["write.blocks"] = len(case["blocks"])
        d["write.row-labels"] = "default RangeIndex" if case.get("index") is None else ["sorted-unique" if list(i) == sorted(set(i)) else ("repeated" if len(set(i)) < len(i) else "unsorted") for i in case["index"] if i is not None]
        d["write.read-through"] = "Starfile(path)" if case.get("ctor") else "Starfile.read(path)"
        d["write.rows"] = [_bucket(len(b["data"][0]) if b["data"] else 0, [0, 1, 10, 60, 200]) for b in case["blocks"]]
        d["write.cols"] = [_bucket(len(b["cols"]), [1, 4, 10, 30]) for b in case["blocks"]]
        d["write.coltypes"] = [t for b in case["blocks"] for t in b["types"]]
        d["write.header"] = ["plain(stopgap)" if "stopgap" in nm else ("numbered" if case["number_columns"] else "plain(option)") for nm in _eff_names(case)]
        if "error" not in obs and "read" in obs and "frames" in obs["read"]:
            d["write.dtypes-read-back"] = [f"{t}->{dt}" for b, fr in zip(case["blocks"], obs["read"]["frames"]) if fr["nrows"] for t, dt in zip(b["types"], fr.get("dtypes", []))]
        d["write.readback"] = obs.get("read", {}).get("error", "ok") if "error" not in obs else "write-raised"
        d["write.comments-arg"] = "none" if case.get("comments") is None else [("None" if c is None else f"{len(c)} lines") for c in case["comments"]]
        d["write.float-cell-form"] = [c[0] if c[0] in ("nan", "inf") else ("exponent" if c[2] > 16 or c[2] < -3 else "fixed")
                                      for b in _model_blocks(case)[:1] for r in b["rows"][:3] for c in r if isinstance(c, list)]
        r6 = resps[-1].get("ok") if resps and isinstance(resps[-1], dict) and "ok" in resps[-1] else None
        d["write.value-clause(round6Cell, float cells)"] = "no float cell / file not laid out" if r6 is None else ("all meet the clause" if all(x is True for x in r6) else "some rejected")
        d["write.float-cells-checked-exactly"] = _bucket(len(r6 or []), [0, 10, 100, 1000])
        d["write.longest-text-cell"] = _bucket(max([len(str(v)) for b in case["blocks"] for t, col in zip(b["types"], b["data"]) if t == "text" for v in col] or [0]), [10, 47, 64, 128, 300])
        d["write.long-cell(>10)"] = any(len(str(v)) > 10 for b in case["blocks"] for t, col in zip(b["types"], b["data"]) if t == "text" for v in col)
    else:
        text = render_read(case)
        d[k + ".outcome(model)"] = resps[0].get("error", "ok") if resps else "?"
        d[k + ".outcome(impl)"] = obs.get("read", {}).get("error", "ok") if "error" not in obs else "crash"
        d[k + ".eol"] = case.get("eol", "lf")
        d[k + ".layout-class(statement-permits,reader-rejects)"] = sorted(layout_class(text)) or ["-"]
        d[k + ".non-ascii"] = any(ord(c) > 127 for c in text)
        if k == "malformed":
            ind = indep_parse(text)
            d["malformed.independent-tokenizer"] = "malformed" if isinstance(ind, str) else "still a STAR text of the statement"
            d["malformed.accepted-by-reader-though-malformed"] = isinstance(ind, str) and "error" not in obs.get("read", {"error": 1})
        if k == "read":
            d["read.blocks"] = len(case["blocks"])
            d["read.final-newline"] = case["final_newline"]
            d["read.rows"] = [_bucket(len(b["row_lines"]), [0, 1, 10, 60, 200]) for b in case["blocks"]]
            d["read.cols"] = [_bucket(len(b["labels"]), [1, 4, 10, 30]) for b in case["blocks"]]
            d["read.comment-lines"] = _bucket(sum(1 for l in text.split("\n") if l.lstrip().startswith("#")), [0, 1, 3, 10])
            d["read.blank-lines"] = _bucket(sum(1 for l in text.split("\n") if not l.strip()), [0, 1, 3, 10])
            d["read.tabs"] = "\t" in text
            if resps and "blocks" in resps[0]:
                d["read.column-kind(model)"] = ["numeric" if x else "text" for b in resps[0]["blocks"] if b["rows"] for x in b["kinds"]]
        else:
            d["malformed.damage"] = case.get("damage", "?")
    sel = obs.get("sel", {}) if isinstance(obs, dict) else {}
    if "data_id" in case:
        n = len(case["blocks"])
        d["sel.data_id"] = ("in-range" if -n <= case["data_id"] < n else "out-of-range") + ("(neg)" if case["data_id"] < 0 else "") + ":" + sel.get("data_id", {}).get("error", "ok")
    if "specifier" in case:
        names = _eff_names(case) if case["kind"] == "write" else [b["x"]["name"] for b in case["blocks"]]
        d["sel.specifier"] = ("absent" if case["specifier"] not in names else "unique" if names.count(case["specifier"]) == 1 else "duplicated") + ":" + sel.get("specifier", {}).get("error", "ok")
    if isinstance(obs, dict) and "comments" in obs.get("read", {}):
        d["read.comments-per-block"] = [_bucket(len(c), [0, 1, 3, 10]) for c in obs["read"]["comments"]]
    return d


def sample_view(case):
    if case["kind"] == "rewrite":
        return dict(kind="rewrite", mode=case["mode"], rounds=[sample_view(st) for st in case["steps"]])
    if case["kind"] == "remove":
        return dict(kind="remove", idx=case["idx"], specifier=case["specifier"], output=case["output"], number_columns2=case.get("number_columns2", "left out"), base=sample_view(case["base"]))
    if case["kind"] == "write":
        return dict(kind="write", number_columns=case["number_columns"], left_out=case.get("omit", []), row_labels=[(i[:8] if i is not None else None) for i in case["index"]] if case.get("index") else "default", ctor=bool(case.get("ctor")), comments=case.get("comments"), data_id=case.get("data_id"), specifier=case.get("specifier"),
                    blocks=[dict(name=b["name"], cols=b["cols"][:6], types=b["types"][:6], n_rows=len(b["data"][0]) if b["data"] else 0,
                                 first_row=[(b2f(c[0]) if t == "float" else c[0]) for t, c in list(zip(b["types"], b["data"]))[:6] if c]) for b in case["blocks"]])
    return dict(kind=case["kind"], damage=case.get("damage"), eol=case.get("eol"), data_id=case.get("data_id"), specifier=case.get("specifier"), text=render_read(case)[:600])


# ------------------------------------------------------------------ shrinking
def _without(case, *keys):
    return {k: v for k, v in case.items() if k not in keys}


def shrink(case):
    if case["kind"] == "rewrite":
        if len(case["steps"]) > 2:
            yield dict(case, steps=case["steps"][:2])
            yield dict(case, steps=[case["steps"][0], case["steps"][2]])
        if case["mode"] == "same-shape":  # keep the shapes equal: drop the same block / rows / column from every round
            sts = case["steps"]
            nb = len(sts[0]["blocks"])
            if nb > 1:
                for i in range(nb):
                    yield dict(case, steps=[dict(st, blocks=st["blocks"][:i] + st["blocks"][i + 1:], **({"comments": st["comments"][:i] + st["comments"][i + 1:]} if st.get("comments") else {})) for st in sts])
            for bi in range(nb):
                b0 = sts[0]["blocks"][bi]
                n = len(b0["data"][0]) if b0["data"] else 0
                cut = lambda f: dict(case, steps=[dict(st, blocks=st["blocks"][:bi] + [f(st["blocks"][bi])] + st["blocks"][bi + 1:]) for st in sts])
                if n > 1:
                    yield cut(lambda b: dict(b, data=[c[:n // 2] for c in b["data"]]))
                    yield cut(lambda b: dict(b, data=[c[n // 2:] for c in b["data"]]))
                if len(b0["cols"]) > 1:
                    for j in range(len(b0["cols"])):
                        yield cut(lambda b, j=j: dict(b, cols=b["cols"][:j] + b["cols"][j + 1:], types=b["types"][:j] + b["types"][j + 1:], data=b["data"][:j] + b["data"][j + 1:]))
            if any(st.get("comments") for st in sts):
                yield dict(case, steps=[_without(st, "comments") for st in sts])
        return
    if case["kind"] == "remove":
        for c2 in shrink(case["base"]):
            if len(c2["blocks"]) == len(case["base"]["blocks"]) and [len(b["data"][0]) if b["data"] else 0 for b in c2["blocks"]] == [len(b["data"][0]) if b["data"] else 0 for b in case["base"]["blocks"]]:
                yield dict(case, base=c2)
        if len(case["idx"]) > 1:
            yield dict(case, idx=case["idx"][:1])
        if "number_columns2" in case:
            yield _without(case, "number_columns2")
        return
    for key in ("data_id", "specifier", "comments", "index", "ctor", "tuple_args"):
        if case.get(key) is not None and key in case:
            yield _without(case, key)
    if case["kind"] == "write":
        bs = case["blocks"]
        ix = case.get("index")
        if ix is not None:  # default labels on one table at a time
            for i in range(len(bs)):
                if ix[i] is not None:
                    yield dict(case, index=ix[:i] + [None] + ix[i + 1:])
        if case.get("omit"):
            for o in case["omit"]:
                yield dict(case, omit=[x for x in case["omit"] if x != o])
        if len(bs) > 1:
            for i in range(len(bs)):
                c2 = dict(case, blocks=bs[:i] + bs[i + 1:])
                if case.get("comments") is not None:
                    c2["comments"] = case["comments"][:i] + case["comments"][i + 1:]
                if ix is not None:
                    c2["index"] = ix[:i] + ix[i + 1:]
                yield c2
        if case.get("comments") is not None:
            for i, cs in enumerate(case["comments"]):
                if cs:
                    yield dict(case, comments=case["comments"][:i] + [cs[1:]] + case["comments"][i + 1:])
        for bi, b in enumerate(bs):
            n = len(b["data"][0]) if b["data"] else 0
            rep = lambda nb: dict(case, blocks=bs[:bi] + [nb] + bs[bi + 1:])

            def rows_kept(keep, bi=bi, b=b):
                c2 = dict(case, blocks=bs[:bi] + [dict(b, data=[[c[i] for i in keep] for c in b["data"]])] + bs[bi + 1:])
                if ix is not None and ix[bi] is not None:
                    c2["index"] = ix[:bi] + [[ix[bi][i] for i in keep]] + ix[bi + 1:]
                return c2
            if n > 1:
                for lo, hi in ((0, n // 2), (n // 2, n), (0, 1), (n - 1, n)):
                    yield rows_kept(list(range(lo, hi)))
                if n <= 12:
                    for i in range(n):
                        yield rows_kept([k for k in range(n) if k != i])
            if len(b["cols"]) > 1:
                for j in range(len(b["cols"])):
                    yield rep(dict(b, cols=b["cols"][:j] + b["cols"][j + 1:], types=b["types"][:j] + b["types"][j + 1:], data=b["data"][:j] + b["data"][j + 1:]))
            for j, (t, col) in enumerate(zip(b["types"], b["data"])):
                simple = {"int": [i + 1 for i in range(n)], "float": [f2b(i + 0.5) for i in range(n)], "text": ["t%d" % i for i in range(n)]}[t]
                if col != simple:
                    yield rep(dict(b, data=b["data"][:j] + [simple] + b["data"][j + 1:]))
            if b["name"] not in ("data_", "data_stopgap_motl"):
                yield rep(dict(b, name="data_stopgap_motl" if "stopgap" in b["name"] else "data_"))
    elif case["kind"] == "read":
        bs = case["blocks"]
        if len(bs) > 1:
            for i in range(len(bs)):
                nb = copy.deepcopy(bs[:i] + bs[i + 1:])
                yield dict(case, blocks=nb)
        for bi, b in enumerate(bs):
            rep = lambda nb: dict(case, blocks=bs[:bi] + [nb] + bs[bi + 1:])
            n = len(b["row_lines"])
            if n > 1:
                for lo, hi in ((0, n // 2), (n // 2, n), (0, 1)):
                    yield rep(dict(b, row_lines=b["row_lines"][lo:hi], x=dict(b["x"], rows=b["x"]["rows"][lo:hi])))
            for key in ("mid", "post") + (("pre",) if bi == 0 or len(b["pre"]) > 1 else ()):
                if b[key]:
                    yield rep(dict(b, **{key: b[key][1:]}))
            if n:
                plain = [" ".join(r) for r in b["x"]["rows"]]
                if plain != b["row_lines"]:
                    yield rep(dict(b, row_lines=plain))
        if case["trailing"]:
            yield dict(case, trailing=case["trailing"][1:])
        if case.get("eol") == "crlf":
            yield dict(case, eol="lf")
    else:
        lines = case["text"].split("\n")
        if len(lines) > 1:
            for i in range(len(lines)):
                yield dict(case, text="\n".join(lines[:i] + lines[i + 1:]))
        if case.get("eol") == "crlf":
            yield dict(case, eol="lf")


# ------------------------------------------------------------------ open known findings
def _k5_column(toks):
    """class of the proposed finding C02-K5: a numeric column holding an integer token of the unsigned 64-bit range 2^63 .. 2^64-1
    together with a negative integer token: pandas.to_numeric gives up on the int64 / uint64 conflict and silently returns the strings"""
    ints = [int(t) for t in toks if INT_RE.match(t)]
    return bool(toks) and all(is_num(t) for t in toks) and any(2 ** 63 <= n < 2 ** 64 for n in ints) and any(n < 0 for n in ints)


def classify(case, obs, finding):
    if case["kind"] in ("read", "malformed") and finding["clause"] in ("read-numeric-column-as-text", "read-vs-model-numeric-column-as-text"):
        # C02-K5 (both the statement's verdict and the disagreement with the statement-faithful model on the same column)
        if finding.get("k5_class"):
            return "C02-K5"  # decided by the judge on the full token list of the column it compared (also for damaged texts whose
            # surviving blocks the reader, the model and the reference tokenizer still agree on: sweep seed 412)
        m = re.match(r"block (\d+) column (.*?): tokens ", finding.get("detail", ""))
        ind = indep_parse(render_read(case))
        if m and not isinstance(ind, str) and int(m.group(1)) < len(ind):
            b = ind[int(m.group(1))]
            j = next((j for j, c in enumerate(b["cols"]) if c == m.group(2)), None)
            if j is not None and _k5_column([r[j] for r in b["rows"]]):
                return "C02-K5"
        return None
    if finding.get("kind") != "spec":
        return None
    if case["kind"] in ("read", "malformed"):
        # C02-K3 / C02-K4: layouts the statement permits and the reader rejects (theorem statement_layout_wider_than_reader)
        if finding["clause"] != "read-rejects":
            return None
        cls = layout_class(render_read(case))
        err = obs.get("read", {}).get("error")
        # (`other` = an IOError of the parser whose wording the harness does not know: rewording a message is harmless)
        if "K3" in cls and err in ("expected:PROPERTY:empty", "other"):
            return "C02-K3"  # the text ends on the last label line of an empty last block, no final newline: Token.check raises on the exhausted queue
        if "K4" in cls and err in ("trailing", "expected:LOOP:got", "expected:NEWLINE:got", "other"):
            return "C02-K4"  # a block directly after the rows of the previous one: its name is consumed as a cell
        return None
    if case["kind"] != "write":
        return None
    cells = [(t, v) for b in case["blocks"] for t, col in zip(b["types"], b["data"]) for v in col]
    has_loop = any(t == "text" and v == "loop_" for t, v in cells)
    # C02-K1: a text cell equal to the reserved word `loop_` is written verbatim and tokenised as the LOOP keyword on reading.
    # Exact rule: the case holds such a cell, the failure is one a LOOP token in a row can cause, AND the very same case with
    # every `loop_` cell replaced by the harmless word `l00p_` meets the statement (so a defect elsewhere in the case -- another
    # block, another cell -- is not hidden behind the known finding: it still fails after the replacement and stays unlisted)
    if has_loop and finding["clause"] in ("file-not-a-star-text", "file-row-count", "readback-raises", "readback-row-count", "readback-block-names") and "error" not in obs:
        healed = copy.deepcopy(case)
        for b in healed["blocks"]:
            b["data"] = [[("l00p_" if t == "text" and v == "loop_" else v) for v in col] for t, col in zip(b["types"], b["data"])]
        try:
            o2 = run_impl(healed)
            spec2 = [f for f in _judge_file_text(o2["text"], healed["blocks"], _eff_names(healed)) + _judge_frames(o2["read"], healed["blocks"], _eff_names(healed)) if f["kind"] == "spec"]
            if "specifiers" in healed.get("omit", []):
                spec2 = [f for f in spec2 if f["clause"] not in ("file-block-names", "readback-block-names")]
        except Exception:
            return None
        return None if spec2 else "C02-K1"
    # C02-K2: a finite float cell whose product with 1e6 overflows binary64 (|v| >= 1.7976931348623157e302) is written as inf/-inf.
    # Exact rule: the finding names a float cell of the case (block, column, row) that is such a value and the file / frame holds inf there
    m = re.match(r"block (\d+) column (.*) row (\d+): ", finding.get("detail", ""))
    if m and finding["clause"] in ("file-cell", "readback-number"):
        b = case["blocks"][int(m.group(1))]
        j = next((j for j, c in enumerate(b["cols"]) if c == m.group(2)), None)
        i = int(m.group(3))
        if j is not None and b["types"][j] == "float" and i < len(b["data"][j]):
            v = b2f(b["data"][j][i])
            if math.isfinite(v) and math.isinf(abs(v) * 1e6) and re.search(r"file holds '-?inf'|read -?inf\Z", finding["detail"]):
                return "C02-K2"
    return None


# ------------------------------------------------------------------ probes of recorded assumptions
def probes(rng):
    import numpy as np, pandas as pd
    out = []
    vals = [_float_value(rng) for _ in range(3000)]
    with np.errstate(all="ignore"):
        r = [float(np.round(np.float64(v), PRECISION)) for v in vals]
    bad = [v for v in r if float(str(v)) != v or float(repr(v)) != v]
    out.append(dict(name="float(str(x)) == x on 3000 rounded values", ok=not bad, detail=str(bad[:3])))
    ints = [_int_value(rng) for _ in range(1000)]
    out.append(dict(name="int(str(n)) == n", ok=all(int(str(n)) == n for n in ints), detail=""))
    df = pd.DataFrame({"v": np.array(vals, dtype=np.float64)})
    with np.errstate(all="ignore"):
        same = df.round(PRECISION)["v"].tolist() == r
    out.append(dict(name="DataFrame.round(6) == numpy.round(v, 6) cell by cell", ok=bool(same), detail=""))
    toks = sorted(set(TEXT_AMBIG + TEXT_SURE + INF_SPELLINGS + ["-nan", "+nan", "nAn", "infinit", "in", "infinityy", "i", "-", "+inf+", "--inf"]
                      + [_read_token(rng, k) for k in ("int", "float", "text") for _ in range(200)]))
    wrong = []
    for t in toks:
        try:
            conv = pd.to_numeric(pd.Series([t], dtype=object))
            numeric = pd.api.types.is_numeric_dtype(conv.dtype) or (conv.dtype == object and all(type(v) is int for v in conv))  # beyond 64 bits: Python ints
        except (ValueError, TypeError):
            numeric = False
        if numeric != is_num(t):
            wrong.append(t)
    out.append(dict(name="pandas.to_numeric accepts exactly the model grammar (decimal literals, [+-]inf/infinity in any case; not nan) on the token pool", ok=not wrong, detail=str(wrong[:5])))
    # the WHOLE str.isspace set (all 1 114 112 code points, the line feed aside) against the model's isWs, as run by the driver
    ws = [n for n in range(0x110000) if chr(n).isspace() and n != 10]
    try:
        mws = core.run_driver([dict(prop=PROP, op="ws")])[0].get("ws")
    except Exception as e:
        mws = f"driver: {e}"
    out.append(dict(name="str.isspace() over all code points = model isWs (theorem isWs_is_str_isspace)", ok=mws == ws, detail=f"python {[hex(n) for n in ws]} model {mws if isinstance(mws, str) else [hex(n) for n in mws]}"[:600]))
    out.append(dict(name="str.split() splits exactly at str.isspace characters (independent tokenizer = statement's `whitespace`)",
                    ok=all(("a" + chr(n) + "b").split() == (["a", "b"] if chr(n).isspace() else ["a" + chr(n) + "b"]) for n in list(range(0x3100)) + [0xfeff, 0x1f600]), detail=""))
    # G3: integer vs float typing of pandas.to_numeric = the model's isIntTok on number tokens ([+-]?d+ up to 64 bits -> integer dtype)
    wrong = []
    for t in [t for t in toks if is_num(t)] + ["-0", "+0", "007", "9223372036854775807", "-9223372036854775808", "9223372036854775808", "18446744073709551615", "18446744073709551616", "-9223372036854775809"]:
        conv = pd.to_numeric(pd.Series([t, t], dtype=object))
        if (pd.api.types.is_integer_dtype(conv.dtype) or (conv.dtype == object and all(type(v) is int for v in conv))) != (INT_RE.match(t) is not None):
            wrong.append((t, str(conv.dtype)))
    out.append(dict(name="pandas.to_numeric gives an integer dtype (int64 / uint64, beyond 64 bits Python ints) exactly for columns of [+-]?d+ tokens (model isIntTok)", ok=not wrong, detail=str(wrong[:5])))
    # remove_lines stream: a written cell that is read and written again prints the same characters
    tame = [_tame_float(rng) for _ in range(2000)]
    with np.errstate(all="ignore"):
        again = [str(float(np.round(np.float64(pd.to_numeric(pd.Series([str(v), "0.5"], dtype=object))[0]), PRECISION))) == str(v) and len(str(v)) <= 10 for v in tame]
    out.append(dict(name="tame floats: str(round(to_numeric(str(v)), 6)) == str(v), at most 10 characters", ok=all(again), detail=str([v for v, a in zip(tame, again) if not a][:5])))
    # tolerance of the numeric clause: numpy.round within ULP_ROUND ulp + 0.5e-6 of v, to_numeric within ULP_PARSE ulp of float(token)
    # magnitudes: exactly those of the generator (`_float_value`: random mantissas up to 1e40, plus its listed constants, which are in `vals`)
    big = [rng.choice([-1, 1]) * rng.uniform(1, 10) * 10.0 ** rng.randint(-8, 40) for _ in range(4000)] + vals
    with np.errstate(all="ignore"):
        rb = [float(np.round(np.float64(v), PRECISION)) for v in big]
    far = [(v, r_) for v, r_ in zip(big, rb) if math.isfinite(r_) and not _close_after_round(v, r_, 0)]
    out.append(dict(name="numpy.round(v, 6) within 0.5e-6 + 1.5 ulp of v (7000 values, 1e-8 .. 1e40 and the generator's constants)", ok=not far, detail=str(far[:3])))
    conv = pd.to_numeric(pd.Series([repr(x) for x in rb if math.isfinite(x)], dtype=object)).tolist()
    far = [(x, c) for x, c in zip([x for x in rb if math.isfinite(x)], conv) if abs(c - x) > ULP_PARSE * math.ulp(x)]
    out.append(dict(name="pandas.to_numeric(repr(x)) within 4 ulp of x (7000 values of the generator's magnitudes; worst measured: 2 ulp there, 3 ulp at 1e47..1e60)", ok=not far, detail=str(far[:3])))
    return out


LEVEL_TEXT = ("Lean 4 theorems about an executable model of Token.tokenize / parse_specifier / parse_columns / parse_rows / Starfile.read (incl. comment lists and "
              "data_id) / get_specifier_id / get_frame_and_comments / remove_lines / Starfile.write (incl. the comments argument, the signature defaults, str(int) and the layout of repr(float)) "
              "over character lists, for texts and tables of any size: tokenizeLine_spec + line_tokens + text_tokens (characters -> tokens of any line/text), isWs_is_str_isspace (white space = the whole str.isspace set), "
              "read_any_layout + read_any_layout_comments (every text of the layout grammar is read into exactly its blocks, labels, row tokens and comments), statement_layout_wider_than_reader "
              "(Doc.Ok = the statement's layout class + two constraints) + reader_rejects_outside_sepOk + reader_accepts_iff_separated (within the statement's layout class the reader accepts a text IFF it is separated: every text of the classes of the open findings C02-K3 / C02-K4 is rejected, any number of blocks), "
              "star_roundtrip / typed_roundtrip / default_specifiers_roundtrip (readStar (printStar tables) = tables for any number of blocks, both header styles), written_text_is_laid_out, "
              "numeric_grammar (the column-typing recogniser = the declarative number grammar), writer_cells_numeric + written_column_typing (a written column comes back "
              "numeric iff it was written from numbers), writer_cells_integer + written_int_column_typing (integer-typed iff written from integers), crlf_normalisation (CRLF text = LF text for the reader), comments_never_change_tables, "
              "written_comments_keep_tables, written_comments_read_back, data_id_selects, written_block_by_data_id, specifier_id_first, get_frame_and_comments_spec, remove_lines_rows + remove_lines_roundtrip + "
              "remove_lines_is_dropAt + remove_lines_reads_back (the executed removeLines = dropAt on the blocks read, every outcome), the VALUE clause on the read side in exact rational arithmetic: decimal_token_value "
              "(decValue = the value of the literal for every token of the grammar, defined exactly on isDecTok), written_cell_value (str(int) denotes the integer; the cell repr lays out from any digit string and "
              "decimal-point position denotes digits*10^(decpt-len), whichever form), round6Ok_iff (the checker run on every written float cell decides Round6Spec), written_value_meets_clause, round6Cell_documented "
              "(float_precision read from the source), the witnesses loop_cell_breaks_roundtrip (open finding C02-K1), inf_cell_never_meets_clause (C02-K2), uint64_with_negative_is_numeric (proposed C02-K5), "
              "nan_cell_reads_as_text, short_last_row_dropped and empty_block_not_last_breaks; the model is tied to the source by 46 "
              "(49 since round 7: whole-body dumps of Starfile.write, Starfile.__init__ and Token.__init__ -- writer_body_documented, constructors_documented) "
              "regenerated literals/write-order/signature/whole-body anchors insensitive to renamed locals, added type annotations and reworded messages (tokenizer_literals_documented, tokenizer_body_documented, "
              "writer_literals_documented, writer_rows_documented, comments_and_selection_documented, signature_defaults_documented, parser_documented, remove_lines_documented); the cell format spec "
              "(fill, alignment, width) and float_precision are READ by the model (padCell, round6Cell) "
              "and by an exact differential run: file text byte for byte vs the Lean writer fed with typed cells (integers, Dragon4 digit strings, texts) and comments, "
              "Starfile.read on the raw (CRLF) characters vs readStarC vs an independent line tokenizer, integer/float/text dtypes, comments, data_id / specifier selections, repeated rounds on one path, remove_lines, incl. the parser's error "
              "kind on damaged texts")
LEVEL_NOTE = ("trusted: Lean kernel; translator anchors; harness line tokenizer; the digit string of a float (numpy.round + shortest round-trip digits) is outside the proofs but what the "
              "statement asks of it is not: the token found in the real file is parsed exactly and checked against the written double by the verified checker round6Cell (IEEE-754 layout of "
              "the bit pattern = definition bitsValue, cross-checked with Python's Fraction on every cell); the value pandas.to_numeric assigns to a token stays in Python (|read - written| "
              "<= 0.5e-6 + 5.5 ulp, assumption 4, probed); which tokens are numbers, how numbers are printed and what a printed number denotes is inside the model")
TECHNIQUE = "Lean 4 proof (list induction over characters, tokens, lines and blocks; generative layout grammar) + regenerated literals + exact differential correspondence"
DESIGN_REF = "DESIGN.md section 4, C02"
