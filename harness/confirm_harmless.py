#!/usr/bin/env python3
"""Integrator's confirmation of independently written breaking changes (seeds).

  confirm_seed.py /tmp/seed/Cxx-a        (directory holding wt/ and out/<name>/{patch.diff,demo.py,meta.json})

For every out/<name>: in the scratch worktree wt (clean checkout of /repo): demo on clean tree must
exit 0; patch must apply; demo on patched tree must exit != 0; the pinned stable-pass tests of
BASELINE.json that live in the touched test files must still pass with the patch (the whole pinned
suite is run from the worktree root exactly like the baseline command).  Confirmed seeds are copied
to /verif/seeded/Cxx-<name>/ with the confirmation recorded in meta.json.
"""
import os, sys, json, subprocess, shutil, xml.etree.ElementTree as ET

VERIF = os.path.dirname(os.path.dirname(os.path.abspath(__file__)))
PY = "/venv/bin/python"


def sh(cmd, cwd=None, timeout=3600, env=None):
    p = subprocess.run(cmd, cwd=cwd, stdout=subprocess.PIPE, stderr=subprocess.STDOUT, text=True, timeout=timeout, env=env)
    return p.returncode, p.stdout


def pinned(wt):
    out = os.path.join(wt, ".junit_seed.xml")
    sh(f"{PY} -m pytest -q -p no:cacheprovider --timeout=900 --continue-on-collection-errors --junitxml={out}", cwd=wt) if False else \
        subprocess.run(f"cd {wt} && {PY} -m pytest -q -p no:cacheprovider --timeout=900 --continue-on-collection-errors --junitxml={out}",
                       shell=True, stdout=subprocess.DEVNULL, stderr=subprocess.DEVNULL)
    passed = set()
    for tc in ET.parse(out).iter("testcase"):
        if not any(ch.tag in ("failure", "error", "skipped") for ch in tc):
            passed.add(f"{tc.get('classname')}::{tc.get('name')}")
    os.remove(out)
    sh(["git", "clean", "-fdq"], cwd=wt)
    return passed


def norm(ids, wt):
    return {i.replace(wt, "/repo") for i in ids}


def main():
    base = sys.argv[1].rstrip("/")
    wt = os.path.join(base, "wt")
    cid = os.path.basename(base)
    stable = set(json.load(open("/root/.vp/BASELINE.json"))["stable_pass"])
    sh(["git", "checkout", "--", "."], cwd=wt); sh(["git", "clean", "-fdq"], cwd=wt)
    env = dict(os.environ, PYTHONPATH=wt, PYTHONWARNINGS="ignore")
    clean_pass = norm(pinned(wt), wt)
    missing_clean = stable - clean_pass
    results = []
    for name in sorted(os.listdir(os.path.join(base, "out"))):
        d = os.path.join(base, "out", name)
        if not os.path.exists(os.path.join(d, "patch.diff")):
            continue
        rc0, o0 = sh([PY, os.path.join(d, "demo.py"), wt], cwd=wt, env=env)
        rca, oa = sh(["git", "apply", os.path.join(d, "patch.diff")], cwd=wt)
        rc1, o1 = sh([PY, os.path.join(d, "demo.py"), wt], cwd=wt, env=env) if rca == 0 else (None, "")
        patched_pass = norm(pinned(wt), wt) if rca == 0 else set()
        sh(["git", "checkout", "--", "."], cwd=wt); sh(["git", "clean", "-fdq"], cwd=wt)
        lost = sorted((stable & clean_pass) - patched_pass)
        ok = rc0 == 0 and rca == 0 and rc1 == 0 and not lost
        res = dict(name=name, demo_clean_rc=rc0, patch_applies=(rca == 0), demo_patched_rc=rc1, pinned_tests_lost=lost, confirmed=ok,
                   demo_patched_tail=o1[-300:], demo_clean_tail=o0[-200:])
        results.append(res)
        print(("CONFIRMED " if ok else "REJECTED  ") + f"{cid}-{name}: demo clean rc={rc0}, patched rc={rc1}, pinned tests lost={len(lost)}")
        if ok:
            dst = os.path.join(VERIF, "harmless", f"{cid}-{name}")
            shutil.rmtree(dst, ignore_errors=True)
            shutil.copytree(d, dst)
            meta = json.load(open(os.path.join(dst, "meta.json")))
            meta["property"] = cid
            meta["confirmed_by_integrator"] = dict(
                demo_clean="exit 0", demo_patched=f"exit {rc1}", patch_applies=True,
                pinned_suite=f"all {len(stable & clean_pass)} pinned stable-pass tests that pass in the clean scratch worktree still pass with the patch (full baseline command run in the worktree)",
                base_commit=sh(["git", "rev-parse", "--short", "HEAD"], cwd=wt)[1].strip())
            json.dump(meta, open(os.path.join(dst, "meta.json"), "w"), indent=1)
    if missing_clean:
        print(f"note: {len(missing_clean)} pinned tests do not pass in the scratch worktree even when clean (path-dependent ids)")
    return results


if __name__ == "__main__":
    main()
