#!/venv/bin/python
"""Developer test (not a registered check): behaviour-preserving / statement-preserving edits written by independent
sub-agents (harmless/<Cxx-name>/patch.diff, demo.py PASSes on both trees, pinned tests unchanged) are applied to a
scratch worktree and the property's quick check is run from a scratch copy of /verif.
Outcomes:  quiet      exit 0
           T-break    exit 1 with `no-failing-input-found` (a translator obligation / correspondence no longer checks: the
                      documented outcome for an edit the translator cannot follow)
           FALSE-ALARM exit 1 with a spec VIOLATION (a concrete "failing input" claimed on code where the property holds):
                      a defect of the machinery, to be corrected
  refactest.py [--jobs N] [--only C07,C08]
Writes harmless_report.json."""
import os, sys, json, glob, re, subprocess, shutil, argparse, time
from concurrent.futures import ThreadPoolExecutor
VERIF = os.path.dirname(os.path.dirname(os.path.abspath(__file__)))
ROOT = "/tmp/refactest"
PY = "/venv/bin/python"


def sh(cmd, **kw):
    return subprocess.run(cmd, stdout=subprocess.PIPE, stderr=subprocess.STDOUT, text=True, **kw)


def run_job(args):
    slot, job = args
    base = os.path.join(ROOT, f"slot{slot}"); vcopy = os.path.join(base, "verif"); wt = os.path.join(base, "repo")
    sh(["git", "-C", "/repo", "worktree", "remove", "--force", wt]); shutil.rmtree(wt, ignore_errors=True)
    r = sh(["git", "-C", "/repo", "worktree", "add", "--detach", wt, "HEAD"])
    if r.returncode != 0:
        return dict(job, rc=None, outcome="error", error=r.stdout[-300:])
    try:
        r = sh(["git", "-C", wt, "apply", job["patch"]])
        if r.returncode != 0:
            return dict(job, rc=None, outcome="error", error="patch does not apply: " + r.stdout[-300:])
        env = dict(os.environ, CRYOCAT_REPO=wt, VERIF_SEED=os.environ.get("VERIF_SEED", "20260927"))
        t0 = time.time()
        r = sh([PY, "-W", "ignore", os.path.join(vcopy, "harness", "vcheck.py"), job["prop"], "--tier", "quick"], env=env, cwd=vcopy, timeout=3600)
        vio = [l for l in r.stdout.splitlines() if l.startswith("VIOLATION")]
        detail = [l for l in r.stdout.splitlines() if "finding, clause" in l or l.startswith("[vcheck] broken:")]
        if r.returncode == 0:
            outcome = "quiet"
        elif r.returncode == 1 and vio and all("no-failing-input-found" in l for l in vio):
            outcome = "T-break"
        elif r.returncode == 1:
            outcome = "FALSE-ALARM"
        else:
            outcome = "error"
        return dict(job, rc=r.returncode, outcome=outcome, wall_s=round(time.time() - t0, 1), detail=[d[:400] for d in detail[:4]],
                    tail=r.stdout[-500:] if outcome == "error" else "")
    finally:
        sh(["git", "-C", "/repo", "worktree", "remove", "--force", wt]); shutil.rmtree(wt, ignore_errors=True)


def main():
    ap = argparse.ArgumentParser(); ap.add_argument("--jobs", type=int, default=4); ap.add_argument("--only", default="")
    a = ap.parse_args()
    only = {x.strip().upper() for x in a.only.split(",") if x.strip()}
    jobs = []
    for d in sorted(glob.glob(os.path.join(VERIF, "harmless", "*"))):
        pd = os.path.join(d, "patch.diff")
        if os.path.exists(pd):
            meta = json.load(open(os.path.join(d, "meta.json")))
            if not only or meta["property"] in only:
                jobs.append(dict(name=os.path.basename(d), prop=meta["property"], kind=meta.get("kind", "?"), patch=pd))
    os.makedirs(ROOT, exist_ok=True)
    n = max(1, min(a.jobs, len(jobs)))
    for s in range(n):
        base = os.path.join(ROOT, f"slot{s}"); shutil.rmtree(base, ignore_errors=True); os.makedirs(base)
        sh(["cp", "-a", VERIF, os.path.join(base, "verif")])
    buckets = [[] for _ in range(n)]
    for i, j in enumerate(jobs):
        buckets[i % n].append(j)
    with ThreadPoolExecutor(n) as ex:
        results = [r for rs in ex.map(lambda s: [run_job((s, j)) for j in buckets[s]], range(n)) for r in rs]
    shutil.rmtree(ROOT, ignore_errors=True); sh(["git", "-C", "/repo", "worktree", "prune"])
    results.sort(key=lambda r: (r["prop"], r["name"]))
    for r in results:
        r.pop("patch", None)
        print(f"{r['outcome']:11s} {r['prop']} {r['kind']} {r['name']:50s} rc={r.get('rc')} {(r.get('detail') or [''])[0][:160]} {r.get('error','')}")
    rp = os.path.join(VERIF, "harmless_report.json")
    merged = {}
    if os.path.exists(rp):
        merged = {x["name"]: x for x in json.load(open(rp))}
    for r in results:
        merged[r["name"]] = r
    json.dump(sorted(merged.values(), key=lambda r: (r["prop"], r["name"])), open(rp, "w"), indent=1)
    from collections import Counter
    print(Counter(r["outcome"] for r in results))


if __name__ == "__main__":
    main()
