#!/usr/bin/env python3
"""Re-bases catalogued patches (mutants/*.patch, seeded/*/patch.diff) whose context no longer matches /repo HEAD
because a later fix: commit touched neighbouring lines. Only context is relaxed (git apply -C1 / -C0 --recount);
the changed lines themselves must still match, otherwise the patch is reported and left alone."""
import os, sys, glob, json, subprocess
VERIF = os.path.dirname(os.path.dirname(os.path.abspath(__file__)))
wt = "/tmp/rebase_wt"
def sh(*a, **k): return subprocess.run(a, stdout=subprocess.PIPE, stderr=subprocess.STDOUT, text=True, **k)
sh("git", "-C", "/repo", "worktree", "remove", "--force", wt)
sh("git", "-C", "/repo", "worktree", "add", "--detach", wt, "HEAD")
head = sh("git", "-C", wt, "rev-parse", "--short", "HEAD").stdout.strip()
files = sorted(glob.glob(os.path.join(VERIF, "mutants", "*.patch"))) + sorted(glob.glob(os.path.join(VERIF, "seeded", "*", "patch.diff")))
n_ok = n_re = 0; bad = []
for f in files:
    if sh("git", "-C", wt, "apply", "--check", f).returncode == 0:
        n_ok += 1; continue
    done = False
    for opts in (["-C1", "--recount"], ["-C0", "--recount", "--unidiff-zero"]):
        sh("git", "-C", wt, "checkout", "--", ".")
        if sh("git", "-C", wt, "apply", *opts, f).returncode == 0:
            d = sh("git", "-C", wt, "diff").stdout
            if d.strip():
                if f.endswith("patch.diff"):
                    orig = f.replace("patch.diff", "patch.orig.diff")
                    if not os.path.exists(orig):
                        os.rename(f, orig)
                    mp = os.path.join(os.path.dirname(f), "meta.json")
                    m = json.load(open(mp)); m["rebased_by_integrator"] = f"context re-based onto /repo {head} (git apply {' '.join(opts)}); the changed lines are the seeder's (original in patch.orig.diff)"
                    json.dump(m, open(mp, "w"), indent=1)
                open(f, "w").write(d); n_re += 1; done = True
            break
    sh("git", "-C", wt, "checkout", "--", ".")
    if not done:
        bad.append(os.path.relpath(f, VERIF))
sh("git", "-C", "/repo", "worktree", "remove", "--force", wt)
print(f"{n_ok} apply as they are, {n_re} re-based, {len(bad)} cannot be re-based: {bad}")
