#!/venv/bin/python
"""Entry point of every registered check.

  vcheck.py Cxx [--tier quick|thorough]     run the check of one property
  vcheck.py replay <file>                   re-run a stored replay against the real code and the model
  vcheck.py setup                           translate every property and build the whole Lean project
  vcheck.py list                            properties that have a check module

exit 0: property held on everything explored (KNOWN-FINDING lines may be printed)
exit 1: `VIOLATION property=<id> replay=<path>[ no-failing-input-found]`
exit 2: infrastructure trouble (never a VIOLATION line)
"""
import re, os, sys, json, time, argparse, importlib, traceback, hashlib, glob, random

HERE = os.path.dirname(os.path.abspath(__file__))
sys.path.insert(0, HERE)
import core
import warnings
warnings.filterwarnings("ignore", category=SyntaxWarning)
from core import VERIF, LEAN, REPO

TIERS = ("quick", "thorough")


def log(msg):
    print(f"[vcheck] {msg}", file=sys.stderr, flush=True)


def load_module(cid):
    return importlib.import_module(f"props.{cid.lower()}")


def all_props():
    return sorted(os.path.basename(p)[:-3].upper() for p in glob.glob(os.path.join(HERE, "props", "c[0-9]*.py")))


class InfrastructureError(Exception):
    pass


def known_findings():
    path = os.path.join(VERIF, "known_findings.json")
    if not os.path.exists(path):
        raise InfrastructureError("known_findings.json is missing: open findings cannot be told from new violations")
    data = json.load(open(path))
    return {f["id"]: f for f in data.get("findings", []) if f.get("status") == "open"}


def case_key(mod, case):
    if hasattr(mod, "key"):
        return mod.key(case)
    return hashlib.sha1(json.dumps(case, sort_keys=True, default=str).encode()).hexdigest()


def run_impl_safe(args):
    mod_name, case = args
    mod = importlib.import_module(mod_name)
    try:
        return mod.run_impl(case)
    except Exception as e:  # the implementation raised: an observation like any other
        tb = traceback.extract_tb(e.__traceback__)
        where = ""
        for fr in reversed(tb):
            if "/cryocat/" in fr.filename:
                where = f"{os.path.basename(fr.filename)}:{fr.lineno}"
                break
        return {"error": f"{type(e).__name__}: {str(e)[:300]}", "where": where}


def evaluate(mod, cases, parallel=False, quiet=False):
    """impl + model + judgement for a list of cases -> list of records"""
    t0 = time.time()
    if parallel and len(cases) > 32:
        import multiprocessing as mp
        ctx = mp.get_context("fork")
        with ctx.Pool(min(16, os.cpu_count() or 1)) as pool:
            obs = pool.map(run_impl_safe, [(mod.__name__, c) for c in cases], chunksize=max(1, len(cases) // 64))
    else:
        obs = [run_impl_safe((mod.__name__, c)) for c in cases]
    t1 = time.time()
    reqs, spans = [], []
    req_errors = {}
    for ci, (c, o) in enumerate(zip(cases, obs)):
        try:
            r = mod.requests(c, o)
        except Exception as e:  # the observation cannot even be encoded for the model (e.g. NaN where a number must be)
            req_errors[ci] = f"{type(e).__name__}: {e}"
            r = []
        for q in r:
            q.setdefault("prop", mod.PROP)
        spans.append((len(reqs), len(reqs) + len(r)))
        reqs.extend(r)
    resps = core.run_driver(reqs)
    t2 = time.time()
    recs = []
    for ci, (c, o, (a, b)) in enumerate(zip(cases, obs, spans)):
        rs = resps[a:b]
        if ci in req_errors:
            recs.append(dict(case=c, obs=o, resps=rs, findings=[dict(kind="corr", clause="observation-not-encodable",
                        detail=f"requests() failed on the implementation's observation: {req_errors[ci]}")]))
            continue
        try:
            findings = mod.judge(c, o, rs)
        except Exception as e:
            findings = [dict(kind="corr", clause="judge-crashed", detail=f"{type(e).__name__}: {e}\n{traceback.format_exc()[-800:]}")]
        recs.append(dict(case=c, obs=o, resps=rs, findings=findings))
    if not quiet:
        log(f"evaluated {len(cases)} cases: impl {t1-t0:.1f}s, model {t2-t1:.1f}s ({len(reqs)} driver requests)")
    return recs


def still_fails(mod, case, kind, clause):
    rec = evaluate(mod, [case], quiet=True)[0]
    return any(f["kind"] == kind and f["clause"] == clause for f in rec["findings"]), rec


def shrink(mod, rec, finding, budget=200):
    if not hasattr(mod, "shrink"):
        return rec
    best = rec
    steps = 0
    improved = True
    while improved and steps < budget:
        improved = False
        for cand in mod.shrink(best["case"]):
            steps += 1
            if steps > budget:
                break
            try:
                bad, r = still_fails(mod, cand, finding["kind"], finding["clause"])
            except Exception:
                continue
            if bad:
                best = r
                improved = True
                break
    return best


def write_replay(cid, seed, n, payload):
    os.makedirs(os.path.join(VERIF, "replays"), exist_ok=True)
    path = os.path.join(VERIF, "replays", f"{cid}-{seed}-{n}.json")
    with open(path, "w") as f:
        json.dump(payload, f, indent=1, default=str)
    return path


def view(mod, case):
    if hasattr(mod, "sample_view"):
        return mod.sample_view(case)
    s = json.dumps(case, default=str)
    return case if len(s) < 1500 else {"abbreviated": s[:1500] + "..."}


def report_broken(broken):
    """console diagnostics: which obligation failed first-hand (anchors, probes, the theorems the build names) and
    how many theorems are merely not checked because their file does not build"""
    not_checked = [o for o in broken if o.get("kind") == "theorem" and o.get("detail") == "Props file does not build"]
    for o in broken:
        if o in not_checked:
            continue
        if o.get("failed"):
            errs = re.findall(r"error: [^\n]*(?:\n(?!\S*(?:error|warning|info|✖|⚠|ℹ|✔)).*){0,12}", o.get("detail", ""))
            log(f"broken: {o['name']}: failing declarations {o['failed']}")
            for e in errs[:4]:
                log("    " + e[:1200].replace("\n", "\n    "))
        else:
            log(f"broken: {o['name']}: {o.get('detail','')[:800]}")
    if not_checked:
        log(f"{len(not_checked)} theorem(s) of the same file are not checked in this run because the file does not build")


def check(cid, tier, seed):
    t_start = time.time()
    mod = load_module(cid)
    core.use_repo()
    evidence_path = os.path.join(VERIF, "evidence", f"{cid}.json")
    # ---- A translate -------------------------------------------------------------------------
    src = core.Source(REPO)
    try:
        gen_text = mod.translate(src)
    except Exception as e:
        src.anchors.append(dict(name="translate", ok=False, value=None, detail=f"{type(e).__name__}: {e}"))
        gen_text = None
    anchors = src.anchors
    anchors.extend(src.binding_anchors())  # every function the translator looked up is bound once, with its documented decorators
    # tables of the properties whose Lean files this property imports are regenerated from the same tree,
    # so that no stale Gen file of another check's run can influence (or break) this build
    dep_gen = {}
    for dep in core.dependency_props(cid):
        try:
            dsrc = core.Source(REPO)
            dep_gen[dep] = load_module(dep).translate(dsrc)
            for a in dsrc.anchors + dsrc.binding_anchors():
                if not a["ok"]:
                    anchors.append(dict(name=f"{dep}:{a['name']}", ok=False, value=None, detail="anchor of a property this one builds on: " + str(a.get("detail", ""))))
        except Exception as e:
            anchors.append(dict(name=f"{dep}:translate", ok=False, value=None, detail=f"{type(e).__name__}: {e}"))
    # ---- B build + audit ---------------------------------------------------------------------
    try:
        ba = core.build_and_audit(cid, gen_text, log, tier, dep_gen)
    except Exception as e:
        log(f"infrastructure failure in build: {e}")
        return 2
    obligations = [dict(name="anchor:" + a["name"], kind="anchor", ok=a["ok"], detail=a.get("detail", "")) for a in anchors] + ba["obligations"]
    broken = [o for o in obligations if not o["ok"]]
    if not ba["driver_ok"]:
        log("driver does not build:\n" + next(o["detail"] for o in obligations if o["name"] == "build:driver"))
        # without a driver no correspondence is possible; the translator output may have broken the model
    # ---- C correspondence --------------------------------------------------------------------
    rng = random.Random(seed)
    corpus = mod.corpus() if hasattr(mod, "corpus") else load_corpus(cid)
    n_gen = mod.COUNT[tier]
    cases = list(corpus) + list(mod.generate(rng, tier, n_gen))
    parallel = getattr(mod, "PARALLEL", False) and tier == "thorough"
    try:
        recs = evaluate(mod, cases, parallel) if ba["driver_ok"] else []
    except Exception as e:
        log(f"infrastructure failure in correspondence: {type(e).__name__}: {e}\n{traceback.format_exc()}")
        return 2
    probes = mod.probes(rng) if hasattr(mod, "probes") else []
    try:
        probes = list(probes) + src.live_object_anchors()  # the objects Python binds run the anchored definitions
    except RuntimeError as e:
        log(f"infrastructure failure: {e}")
        return 2
    for p in probes:
        obligations.append(dict(name="probe:" + p["name"], kind="probe", ok=p["ok"], detail=p.get("detail", "")))
    broken = [o for o in obligations if not o["ok"]]
    try:
        kf = known_findings()
    except InfrastructureError as e:
        log(f"infrastructure failure: {e}")
        return 2

    def classify_all(records):
        """(hits of open known findings, unlisted findings) of the records"""
        hits, unl = {}, []
        for r in records:
            for f in r["findings"]:
                fid = mod.classify(r["case"], r["obs"], f) if hasattr(mod, "classify") else None
                if fid is not None and fid in kf and kf[fid]["property"] == cid:
                    hits.setdefault(fid, []).append((r, f))
                else:
                    unl.append((r, f))
        return hits, unl

    bad = [r for r in recs if r["findings"]]
    kf_hits, unlisted = classify_all(bad)
    # ---- E search when something broke but no failing input is known yet ---------------------
    # (only findings that are NOT open known findings count as "a failing input is known": a listed finding that
    #  shows up on every run must not switch the search off)
    searched = 0
    if (broken or unlisted) and not any(f["kind"] == "spec" for _, f in unlisted) and ba["driver_ok"]:
        log(f"broken obligations: {[o['name'] for o in broken]}; unlisted disagreements: {len(unlisted)} -> searching for a failing input")
        extra = []
        if hasattr(mod, "search_cases"):
            extra += list(mod.search_cases(rng, broken, anchors))
        extra += list(mod.generate(rng, "search", mod.COUNT.get("search", 10 * mod.COUNT["quick"])))
        searched = len(extra)
        recs2 = evaluate(mod, extra, getattr(mod, "PARALLEL", False))
        recs += recs2
        bad = [r for r in recs if r["findings"]]
        kf_hits, unlisted = classify_all(bad)
    # ---- evidence ----------------------------------------------------------------------------
    keys = set()
    nontrivial = set()
    hist = {}
    for r in recs:
        k = case_key(mod, r["case"])
        keys.add(k)
        try:
            if mod.nontrivial(r["case"], r["obs"]):
                nontrivial.add(k)
        except Exception:
            pass
        if hasattr(mod, "stats"):
            try:
                for hk, hv in mod.stats(r["case"], r["obs"], r["resps"]).items():
                    d = hist.setdefault(hk, {})
                    for v in (hv if isinstance(hv, list) else [hv]):
                        d[str(v)] = d.get(str(v), 0) + 1
            except Exception:
                pass
    n_viol = len({case_key(mod, r["case"]) for r, f in unlisted}) + (1 if (broken and not unlisted) else 0)
    samples = [view(mod, r["case"]) for r in recs[len(corpus):len(corpus) + 3]] or [view(mod, r["case"]) for r in recs[:3]]
    thm_obl = [o for o in obligations if o["kind"] == "theorem"]
    ev = {
        "property_id": cid, "tier": tier, "seed": seed, "level": "proof",
        "coverage": {
            "obligations": len(obligations), "discharged": len([o for o in obligations if o["ok"]]),
            "checker_cmd": f"cd lean && lake build CryoCat.Props.{cid} driver && lake env lean CryoCat/Audit/{cid}.lean  (Lean 4.33.0 kernel; run by harness/vcheck.py {cid})",
            "trusted_base": getattr(mod, "TRUSTED", []) + [
                "Lean 4.33.0 kernel and lake", "axioms allowed: propext, Quot.sound, Classical.choice (audited by #print axioms on every run)",
                "harness/core.py translator support + props/%s.py translate()/judge()" % cid.lower(), "Driver.lean line protocol (executes the same defs the theorems are about)"],
            "theorems": [dict(name=o["name"], ok=o["ok"], axioms=o.get("axioms")) for o in thm_obl],
            "obligation_list": [dict(name=o["name"], kind=o["kind"], ok=o["ok"]) for o in obligations],
            "broken": [dict(name=o["name"], detail=o.get("detail", "")[:500]) for o in broken],
            "anchors": anchors,
            "evaluations": len(recs), "distinct_nontrivial": len(nontrivial), "distinct": len(keys),
            "corpus_cases": len(corpus), "search_cases": searched,
            "rule": getattr(mod, "RULE", ""),
            "samples": samples,
            "histograms": hist,
            "disagreements": len(bad),
            "known_finding_hits": {k: len(v) for k, v in kf_hits.items()},
            "explanation": "level 'proof': the theorems listed are about the Lean model; the model is tied to /repo by the translator anchors (regenerated Gen/%s.lean) and by the correspondence run counted in evaluations (real cryoCAT vs. driver)" % cid,
            "exhaustive": bool(getattr(mod, "EXHAUSTIVE", {}).get(tier, False)),
        },
        "assumptions": getattr(mod, "ASSUMPTIONS", []),
        "wall_s": 0.0, "violations": n_viol,
    }
    # ---- D/E outcome -------------------------------------------------------------------------
    for fid, hits in sorted(kf_hits.items()):
        print(f"KNOWN-FINDING: property={cid} {fid}: {kf[fid]['what']} ({len(hits)} matching case(s) this run)")
    rc = 0
    if unlisted:
        # prefer a spec finding; shrink; replay
        unl_spec = [(r, f) for r, f in unlisted if f["kind"] == "spec"]
        r, f = (unl_spec or unlisted)[0]
        r = shrink(mod, r, f)
        f2 = next((g for g in r["findings"] if g["kind"] == f["kind"] and g["clause"] == f["clause"]), f)
        payload = dict(property=cid, seed=seed, tier=tier, kind=f2["kind"], clause=f2["clause"], detail=f2.get("detail", ""),
                       case=r["case"], impl_obs=r["obs"], model_resps=r["resps"],
                       broken_obligations=[dict(name=o["name"], detail=o.get("detail", "")[:1500]) for o in broken],
                       replay_cmd=f"/venv/bin/python harness/vcheck.py replay <this file>")
        path = write_replay(cid, seed, 0, payload)
        if unl_spec:
            print(f"VIOLATION property={cid} replay={path}")
        else:
            payload["note"] = "implementation and model disagree (correspondence broken) but no clause of the property was seen failing"
            json.dump(payload, open(path, "w"), indent=1, default=str)
            print(f"VIOLATION property={cid} replay={path} no-failing-input-found")
        log(f"{f2['kind']} finding, clause {f2['clause']}: {f2.get('detail','')[:600]}")
        report_broken(broken)
        rc = 1
    elif broken:
        payload = dict(property=cid, seed=seed, tier=tier, kind="obligation", clause="broken-obligation",
                       broken_obligations=[dict(name=o["name"], detail=o.get("detail", "")[:3000], failed=o.get("failed")) for o in broken],
                       note=f"these proof obligations / translator anchors / probes no longer check; {len(recs)} cases (incl. {searched} search cases) showed no failing input")
        path = write_replay(cid, seed, 0, payload)
        print(f"VIOLATION property={cid} replay={path} no-failing-input-found")
        report_broken(broken)
        rc = 1
    ev["wall_s"] = round(time.time() - t_start, 2)
    os.makedirs(os.path.dirname(evidence_path), exist_ok=True)
    with open(evidence_path, "w") as fh:
        json.dump(ev, fh, indent=1, default=str)
    log(f"{cid} {tier} seed={seed}: {len(recs)} cases, {len(nontrivial)} distinct non-trivial, obligations {ev['coverage']['discharged']}/{ev['coverage']['obligations']}, rc={rc}, {ev['wall_s']}s")
    return rc


def load_corpus(cid):
    out = []
    for p in sorted(glob.glob(os.path.join(VERIF, "corpus", cid, "*.json"))):
        d = json.load(open(p))
        out.extend(d if isinstance(d, list) else [d])
    return out


def replay(path):
    payload = json.load(open(path))
    cid = payload["property"]
    mod = load_module(cid)
    core.use_repo()
    if "case" not in payload:
        print(f"replay names broken obligations only: {[o['name'] for o in payload.get('broken_obligations', [])]}")
        src = core.Source(REPO)
        gen_text = mod.translate(src)
        ba = core.build_and_audit(cid, gen_text, log)
        broken = [o for o in ba["obligations"] if not o["ok"]] + [a for a in src.anchors if not a["ok"]]
        for o in broken:
            print("still broken:", o["name"])
        return 1 if broken else 0
    with core.Lock():
        core.sh(["lake", "build", "driver"], cwd=LEAN)
    rec = evaluate(mod, [payload["case"]])[0]
    print(json.dumps(dict(impl_obs=rec["obs"], model_resps=rec["resps"], findings=rec["findings"]), indent=1, default=str)[:6000])
    return 1 if rec["findings"] else 0


def setup():
    core.use_repo()
    for cid in all_props():
        mod = load_module(cid)
        src = core.Source(REPO)
        try:
            txt = mod.translate(src)
        except Exception as e:
            log(f"{cid}: translate failed: {e}")
            continue
        core.write_if_changed(os.path.join(LEAN, "CryoCat", "Gen", f"{cid}.lean"), txt)
        names = core.theorem_names(cid)
        core.write_if_changed(os.path.join(LEAN, "CryoCat", "Audit", f"{cid}.lean"),
                              f"import CryoCat.Props.{cid}\n" + "".join(f"#print axioms {n}\n" for n in names))
    with core.Lock():
        core.regen_roots()
        rc, out = core.sh(["lake", "build"], cwd=LEAN)
    print(out[-3000:])
    return 0 if rc == 0 else 2


def main():
    ap = argparse.ArgumentParser()
    ap.add_argument("what")
    ap.add_argument("path", nargs="?")
    ap.add_argument("--tier", default=os.environ.get("VERIF_TIER", "quick"))
    a = ap.parse_args()
    seed = int(os.environ.get("VERIF_SEED", "20260927"))
    if a.what == "setup":
        sys.exit(setup())
    if a.what == "list":
        print(" ".join(all_props())); sys.exit(0)
    if a.what == "replay":
        sys.exit(replay(a.path))
    tier = a.tier if a.tier in TIERS else "quick"
    try:
        rc = check(a.what.upper(), tier, seed)
    except SystemExit:
        raise
    except Exception as e:
        log(f"infrastructure failure: {type(e).__name__}: {e}\n{traceback.format_exc()}")
        rc = 2
    sys.exit(rc)


if __name__ == "__main__":
    main()
