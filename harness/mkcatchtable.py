#!/usr/bin/env python3
"""Renders selftest_report.json as the markdown catch table of DESIGN.md (between the markers
<!-- CATCH-TABLE-BEGIN --> and <!-- CATCH-TABLE-END -->)."""
import json, os, re
VERIF = os.path.dirname(os.path.dirname(os.path.abspath(__file__)))
rep = json.load(open(os.path.join(VERIF, "selftest_report.json")))
props = sorted({r["prop"] for r in rep})


def how(r):
    c = r.get("clause", "")
    lines = " ".join(r.get("lines", []))
    t = "T" if "broken=" in c or c.startswith("obligation") else ""
    kind = c.split(";")[0]
    if kind.startswith("spec:"):
        return ("T+C" if t else "C"), "failing input: `" + kind[5:][:70] + "`"
    if kind.startswith("corr:"):
        return ("T+C(corr)" if t else "C(corr)"), "no-failing-input-found (`" + kind[5:][:50] + "`)"
    if kind.startswith("obligation"):
        return "T", "no-failing-input-found (broken obligation)"
    return "?", c[:60]


out = []
out.append("Legend: **T** = a regenerated table/anchor no longer satisfies its theorem (proof obligation broken); **C** = the correspondence run found a concrete input on which the real code violates a clause (replay written, shrunk); "
           "**C(corr)** = implementation and model differ but no clause of the statement fails (reported with `no-failing-input-found`). All rows are quick-tier runs with the default seed on a scratch worktree (`harness/selftest.py`).\n")
tot = {}
for p in props:
    rows = [r for r in rep if r["prop"] == p and r["kind"] != "clean"]
    clean = [r for r in rep if r["prop"] == p and r["kind"] == "clean"]
    out.append(f"\n**{p}** — clean tree: " + (", ".join("exit %s" % r.get("rc") for r in clean) or "n/a"))
    out.append("\n| change | source | exit | caught by | replay |\n|---|---|---|---|---|")
    for r in sorted(rows, key=lambda r: (r["kind"], r["name"])):
        if r["kind"] == "revert" and r.get("rc") is None and "revert failed" in r.get("error", ""):
            # a later fix: commit rewrote the same lines, so `git revert` of the earlier one conflicts; its re-based revert is kept as a mutant
            out.append(f"| {r['name']} ({r.get('what','')[:60]}) | revert of fix: | n/a | superseded | a later fix rewrote the same lines; the re-based revert is among the builder mutants of {p} |")
            continue
        by, what = how(r) if r.get("rc") == 1 else ("MISSED" if r.get("rc") == 0 else "error", r.get("error", ""))
        src = {"mutant": "builder mutant", "seeded": "independent seed", "revert": "revert of fix:"}[r["kind"]]
        name = r["name"] + (f" ({r.get('what','')[:60]})" if r["kind"] == "revert" else "")
        out.append(f"| {name} | {src} | {r.get('rc')} | {by} | {what} |")
        tot.setdefault(r["kind"], [0, 0])
        tot[r["kind"]][0] += 1
        tot[r["kind"]][1] += 1 if r.get("rc") == 1 else 0
summary = "; ".join(f"{k}: {v[1]}/{v[0]} exit 1" for k, v in sorted(tot.items()))
n_clean = [r for r in rep if r["kind"] == "clean"]
text = f"Totals — {summary}; clean tree: {sum(1 for r in n_clean if r.get('rc') == 0)}/{len(n_clean)} exit 0.\n\n" + "\n".join(out) + "\n"
path = os.path.join(VERIF, "DESIGN.md")
s = open(path).read()
b, e = "<!-- CATCH-TABLE-BEGIN -->", "<!-- CATCH-TABLE-END -->"
if b in s:
    s = s[: s.index(b) + len(b)] + "\n" + text + s[s.index(e):]
    open(path, "w").write(s)
    print("DESIGN.md updated:", summary)
else:
    print(text[:3000])
