#!/usr/bin/env python3
"""Runs the pinned baseline command on /repo and reports stable-pass tests that no longer pass."""
import json, subprocess, sys, os, xml.etree.ElementTree as ET, tempfile
b = json.load(open('/root/.vp/BASELINE.json'))
out = os.path.join(tempfile.gettempdir(), "cryocat_baseline_junit.xml")
subprocess.run(f"cd /repo && /venv/bin/python -m pytest -ra -q -p no:cacheprovider --timeout=900 --continue-on-collection-errors --junitxml={out}", shell=True, stdout=subprocess.DEVNULL, stderr=subprocess.DEVNULL)
passed = set()
for tc in ET.parse(out).iter('testcase'):
    if not any(ch.tag in ('failure', 'error', 'skipped') for ch in tc):
        passed.add(f"{tc.get('classname')}::{tc.get('name')}")
missing = sorted(set(b['stable_pass']) - passed)
print(f"stable_pass={len(b['stable_pass'])} passed_now={len(passed)} missing={len(missing)}")
for m in missing: print("  MISSING", m)
for f in ("band.em", "tests/test_data/wedgeutils_data/wedge_mask.em"):
    p = os.path.join("/repo", f)
    if os.path.exists(p) and subprocess.run(["git", "-C", "/repo", "ls-files", "--error-unmatch", f], capture_output=True).returncode != 0:
        os.remove(p)
sys.exit(1 if missing else 0)
