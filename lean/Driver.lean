import CryoCat.Drv.Proto
import CryoCat.Drv.C01
open Lean CryoCat.Drv

def dispatch (j : Json) : Json :=
  match getStr? j "prop" with
  | some "ping" => Json.mkObj [("ok", Json.bool true)]
  | some "C01" => C01.handle j
  | _ => err "bad-op"

partial def loop (hin hout : IO.FS.Stream) : IO Unit := do
  let line ← hin.getLine
  if line.isEmpty then return ()
  let out := match Json.parse line with
    | .ok j => dispatch j
    | .error _ => err "bad-json"
  hout.putStrLn out.compress
  loop hin hout

def main : IO Unit := do
  loop (← IO.getStdin) (← IO.getStdout)
