import CryoCat.Drv.Proto
