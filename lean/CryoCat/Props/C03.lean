import CryoCat.Lemmas.C03
import CryoCat.Lemmas.C03_Ids
import CryoCat.Lemmas.C03_Fmt
import CryoCat.Lemmas.C03_Euler
/-! C03 — RELION ↔ cryoCAT conversion preserves each particle's pose and identity: property theorems
about `Model/C03` (the definitions the driver executes), translator obligations about `Gen/C03`. -/
namespace CryoCat.C03
open CryoCat
variable {α : Type}

/-! ### translator obligations: what the source says today is the documented convention -/

theorem anchors_ok : Gen.C03.anchorsOk = true := by decide

/-- `convert_angles_to_relion`: `from_euler("ZXZ", [phi, theta, psi])`, `as_euler("ZYZ")`,
rot = −a, tilt = b, psi = −c -/
theorem export_call_documented :
    Gen.C03.exportAngleSource = ["phi", "theta", "psi"] ∧ Gen.C03.exportFromSeq = ['Z', 'X', 'Z'] ∧
    Gen.C03.exportToSeq = ['Z', 'Y', 'Z'] ∧
    Gen.C03.exportSlots = [("rlnAngleRot", true, 0), ("rlnAngleTilt", false, 1), ("rlnAnglePsi", true, 2)] := by
  decide

/-- `convert_angles_from_relion`: `from_euler("ZYZ", [rot, tilt, psi])`, `as_euler("zxz")`,
phi = −e₂, theta = −e₁, psi = −e₀ -/
theorem import_call_documented :
    Gen.C03.importAngleSource = ["rlnAngleRot", "rlnAngleTilt", "rlnAnglePsi"] ∧
    Gen.C03.importFromSeq = ['Z', 'Y', 'Z'] ∧ Gen.C03.importToSeq = ['z', 'x', 'z'] ∧
    Gen.C03.importSlots = [("phi", true, 2), ("theta", true, 1), ("psi", true, 0)] := by
  decide

/-- the signature defaults the adapters rely on when a keyword is omitted: export version 3.1 (`default_version`, and the
`self.version = 3.1` fallback of `create_relion_df`), `pixel_size = 1.0` / `binning = 1.0` / `write_optics = False` /
`relion_version = 3.1` for the converters, `write_optics = True` for `write_out`, empty name formats, no original entries -/
theorem defaults_documented :
    Gen.C03.defaults =
      ["RelionMotl.default_version=3.1",
       "RelionMotl.__init__(input_motl=None,version=None,pixel_size=None,binning=None,optics_data=None)",
       "RelionMotl.create_relion_df(tomo_format='',subtomo_format='',use_original_entries=False,keep_all_entries=False,version=None,add_object_id=False,add_subunit_id=False,binning=None,pixel_size=None,adapt_object_attr=False)",
       "RelionMotl.write_out(write_optics=True,tomo_format='',subtomo_format='',use_original_entries=False,keep_all_entries=False,version=None,add_object_id=False,add_subunit_id=False,binning=None,pixel_size=None,optics_data=None)",
       "emmotl2relion(output_motl_path=None,tomo_format='',subtomo_format='',relion_version=3.1,pixel_size=1.0,binning=1.0,flip_handedness=False,tomo_dim=None,write_optics=False,optics_data=None,add_object_id=False,add_subunit_id=False)",
       "relion2emmotl(output_motl_path=None,relion_version=None,pixel_size=None,binning=None,update_coordinates=False,flip_handedness=False,tomo_dim=None)",
       "stopgap2relion(output_motl_path=None,tomo_format='',subtomo_format='',relion_version=3.1,pixel_size=1.0,binning=1.0,flip_handedness=False,tomo_dim=None,write_optics=False,optics_data=None,add_object_id=False,add_subunit_id=False)",
       "relion2stopgap(output_motl_path=None,update_coordinates=False,reset_index=False)",
       "RelionMotl.prepare_particles_data(tomo_format='',subtomo_format='',version=None,pixel_size=None)",
       "RelionMotl.prepare_optics_data(use_original_entries=True,optics_data=None,version=None)",
       "RelionMotl.create_final_output(optics_df=None,version=None)"] ∧
    Gen.C03.exportVersionFallback = 31 := ⟨rfl, rfl⟩

/-- `set_pixel_size` takes the `rlnPixelSize` column as it is — one pixel size per row (not its first entry) -/
theorem pixel_size_per_row_documented : Gen.C03.pixelSizeFromColumn = "self.relion_df['rlnPixelSize'].values" := by decide

/-- the bodies of the 28 functions the conversion goes through (incl. the factory `Motl.load`) (docstrings, comments, type annotations and the text of
exception / warning / log messages dropped; locals renamed by binding occurrence, discards merged — so a rename, a type
hint or a reworded message changes nothing) are the reviewed ones: branches no generated input reaches (multi-group
optics, numeric name cells, …) cannot change unnoticed. This is an equality of digests, not a statement about behaviour;
the normalised bodies are in the evidence (`body:<function>`) and a changed body fails there naming the statement. -/
theorem bodies_documented :
    Gen.C03.bodyDigests =
      [("RelionMotl.set_pixel_size", "cd53bdb29134c160a510"),
       ("RelionMotl.set_version", "35d3dc0cf51e83c4ca7e"),
       ("RelionMotl.get_version_from_file", "f32c676e1d521b4f3601"),
       ("RelionMotl.convert_angles_from_relion", "51d6b0352c0f1037b8a6"),
       ("RelionMotl.convert_angles_to_relion", "c180a7a0cfb16f91e1a1"),
       ("RelionMotl.convert_shifts", "4fda4c3f584c6a1c9544"),
       ("RelionMotl.parse_tomo_id", "9509a7885857b17f53dd"),
       ("RelionMotl.parse_subtomo_id", "46907eb095160cf307f7"),
       ("RelionMotl.convert_to_motl", "640bcfd8a6893abe3549"),
       ("RelionMotl.adapt_original_entries", "0ca7eb237685fa5b3211"),
       ("Motl.get_coordinates", "e3cb48df81065e87cb32"),
       ("Motl.get_angles", "f4be21b1166c0c9e5f82"),
       ("emmotl2relion", "1c34729ae8e6fe45e675"),
       ("relion2emmotl", "3a72b6332ec5e518e532"),
       ("stopgap2relion", "1756133e4ec8e86ade22"),
       ("relion2stopgap", "0950b80545c99734e1a9"),
       ("RelionMotl.__init__", "864eeb9d483c83a319f3"),
       ("RelionMotl.read_in", "2fc8cefe336ae15a138c"),
       ("RelionMotl.set_version_specific_names", "5b8f37e5f907f7c4c889"),
       ("RelionMotl.get_version_specific_names", "4db2210005d40ecac885"),
       ("RelionMotl.create_particles_data", "956514c4140fe33faeee"),
       ("RelionMotl.prepare_optics_data", "45829e896a26adb534b6"),
       ("RelionMotl.prepare_particles_data", "d9ce4e58767c007dd61c"),
       ("RelionMotl.create_final_output", "0dff659bac8eece3fdc6"),
       ("RelionMotl.create_relion_df", "66126693ca6c8b3baa27"),
       ("RelionMotl.write_out", "bbdd6b2a8ddc0e93ce9b"),
       ("Motl.assign_column", "869bcbd14a2ecc04d20d"),
       ("Motl.load", "0da0dd47b8eb310b03c0")] := rfl

/-- **nothing is copied from the particle table into a RELION frame as a pandas Series** (which would be aligned on the row
labels and pair a particle with the name / id of another row as soon as the labels are not 0..n−1 — after `remove_feature`,
a sort, or when the RELION table handed in was filtered): every `relion_df[...] = … self.df[...] …` of
`prepare_particles_data`, `create_relion_df` and `convert_to_motl` takes an array (`.values` / `.to_numpy()`). The model is
positional (row i of the particle list ↦ row i of the RELION table), so this is what ties it to the code on such lists. -/
theorem filled_by_position_documented :
    Gen.C03.filledByPosition =
      [("prepare_particles_data:tomo_name", true), ("prepare_particles_data:tomo_id", true),
       ("prepare_particles_data:subtomo_name", true), ("prepare_particles_data:tomo_id", true),
       ("prepare_particles_data:subtomo_id", true), ("create_relion_df:rlnClassNumber", true),
       ("create_relion_df:ccObjectName", true), ("create_relion_df:ccSubunitName", true),
       ("convert_to_motl:ccSubtomoID", true)] := by decide

/-- the `version` keyword of `write_out` reaches every stage of the export — the columns (`create_relion_df` →
`prepare_particles_data`), the optics table and the block layout (`create_final_output`) — so the version the model is
run with is the version of the whole file, whichever way the caller gave it -/
theorem version_forwarded_documented :
    Gen.C03.versionForwarded =
      [("write_out->create_relion_df", "version"), ("write_out->prepare_optics_data", "version"),
       ("write_out->create_final_output", "version"), ("create_relion_df->prepare_particles_data", "version")] := by decide

/-! ### orientation -/
section ring
variable [CommRing α]

/-- **Export angles.** Whatever triple scipy's `as_euler("ZYZ")` returns for the matrix it was given
(only its post-condition is assumed), the model does not fail and the exported (rot, tilt, psi), read as RELION's
intrinsic ZYZ rotation, is exactly the transpose of the particle's zxz rotation matrix — for every orientation
(gimbal lock and non-canonical angles included: nothing is assumed about the angles at all). -/
theorem export_is_transpose (asEuler : M3 α → Ang3 α) (ang : Ang3 α)
    (hpost : ∀ F, exportFed ang = some F → eulerMat Gen.C03.exportToSeq (asEuler F) = some F) :
    ∃ r, exportAngles asEuler ang = some r ∧ relionMat r = (particleMat ang).transpose := by
  have hp := hpost _ (exportFed_eq ang)
  have h2 : Gen.C03.exportToSeq = ['Z', 'Y', 'Z'] := rfl
  rw [h2, eulerMat_ZYZ] at hp
  have hp' := Option.some.inj hp
  refine ⟨_, exportAngles_eq asEuler ang, ?_⟩
  rw [relionMat_eq, particleMat_eq]
  simp only [Ang.neg]
  rw [ZYZ_neg_outer, hp', Qy_ZXZ]

/-- **Export angles give the inverse rotation** (the statement of the property): for angles with
`c² + s² = 1`, RELION's rotation times the particle's rotation is the identity, on both sides. -/
theorem export_is_inverse (asEuler : M3 α → Ang3 α) (ang : Ang3 α) (hu : ang.Unit)
    (hpost : ∀ F, exportFed ang = some F → eulerMat Gen.C03.exportToSeq (asEuler F) = some F) :
    ∃ r, exportAngles asEuler ang = some r ∧
      relionMat r * particleMat ang = M3.one ∧ particleMat ang * relionMat r = M3.one := by
  obtain ⟨r, hr, ht⟩ := export_is_transpose asEuler ang hpost
  obtain ⟨ha, hb, hc⟩ := hu
  refine ⟨r, hr, ?_⟩
  rw [ht, particleMat_eq]
  exact ⟨zxz_orth _ _ _ _ _ _ ha hb hc, zxz_mul_transpose _ _ _ _ _ _ ha hb hc⟩

/-- **Import angles.** From the post-condition of `as_euler("zxz")` alone, the model does not fail and the stored
(phi, theta, psi) describe exactly the transpose of RELION's ZYZ rotation matrix. -/
theorem import_is_transpose (asEuler : M3 α → Ang3 α) (rln : Ang3 α)
    (hpost : ∀ F, importFed rln = some F → eulerMat Gen.C03.importToSeq (asEuler F) = some F) :
    ∃ q, importAngles asEuler rln = some q ∧ particleMat q = (relionMat rln).transpose := by
  have hp := hpost _ (importFed_eq rln)
  have h2 : Gen.C03.importToSeq = ['z', 'x', 'z'] := rfl
  rw [h2, eulerMat_zxz] at hp
  have hp' := Option.some.inj hp
  refine ⟨_, importAngles_eq asEuler rln, ?_⟩
  rw [particleMat_eq]
  simp only [Ang.neg]
  rw [← zxz_transpose, hp']

/-- **Import angles give the inverse rotation.** -/
theorem import_is_inverse (asEuler : M3 α → Ang3 α) (rln : Ang3 α) (hu : rln.Unit)
    (hpost : ∀ F, importFed rln = some F → eulerMat Gen.C03.importToSeq (asEuler F) = some F) :
    ∃ q, importAngles asEuler rln = some q ∧
      particleMat q * relionMat rln = M3.one ∧ relionMat rln * particleMat q = M3.one := by
  obtain ⟨q, hq, ht⟩ := import_is_transpose asEuler rln hpost
  obtain ⟨ha, hb, hc⟩ := hu
  refine ⟨q, hq, ?_⟩
  rw [ht, relionMat_eq]
  exact ⟨ZYZ_orth _ _ _ _ _ _ ha hb hc, ZYZ_mul_transpose _ _ _ _ _ _ ha hb hc⟩

/-- **Export followed by import returns the same orientation** (as a rotation matrix, exactly), for
any two Euler-angle extractors that meet their post-conditions. -/
theorem export_import_orientation (asE1 asE2 : M3 α → Ang3 α) (ang : Ang3 α)
    (h1 : ∀ F, exportFed ang = some F → eulerMat Gen.C03.exportToSeq (asE1 F) = some F)
    (h2 : ∀ r F, exportAngles asE1 ang = some r → importFed r = some F → eulerMat Gen.C03.importToSeq (asE2 F) = some F) :
    ∃ r q, exportAngles asE1 ang = some r ∧ importAngles asE2 r = some q ∧ particleMat q = particleMat ang := by
  obtain ⟨r, hr, hrt⟩ := export_is_transpose asE1 ang h1
  obtain ⟨q, hq, hqt⟩ := import_is_transpose asE2 r (fun F hF => h2 r F hr hF)
  exact ⟨r, q, hr, hq, by rw [hqt, hrt, M3.transpose_transpose]⟩

end ring

/-! ### position, shifts, versions -/

/-- the three column lists of `RelionMotl` are the documented RELION 3.0 / 3.1 / 4.0 tables -/
theorem columns_documented :
    Gen.C03.columnsV30 = ["rlnMicrographName", "rlnCoordinateX", "rlnCoordinateY", "rlnCoordinateZ", "rlnAngleRot",
      "rlnAngleTilt", "rlnAnglePsi", "rlnImageName", "rlnPixelSize", "rlnRandomSubset", "rlnOriginX", "rlnOriginY",
      "rlnOriginZ", "rlnClassNumber"] ∧
    Gen.C03.columnsV31 = ["rlnMicrographName", "rlnCoordinateX", "rlnCoordinateY", "rlnCoordinateZ", "rlnAngleRot",
      "rlnAngleTilt", "rlnAnglePsi", "rlnImageName", "rlnPixelSize", "rlnOpticsGroup", "rlnGroupNumber",
      "rlnOriginXAngst", "rlnOriginYAngst", "rlnOriginZAngst", "rlnClassNumber", "rlnRandomSubset"] ∧
    Gen.C03.columnsV4 = ["rlnCoordinateX", "rlnCoordinateY", "rlnCoordinateZ", "rlnAngleRot", "rlnAngleTilt",
      "rlnAnglePsi", "rlnTomoName", "rlnTomoParticleName", "rlnRandomSubset", "rlnOpticsGroup", "rlnOriginXAngst",
      "rlnOriginYAngst", "rlnOriginZAngst", "rlnGroupNumber", "rlnClassNumber"] := by
  decide

/-- coordinates, class and shift columns are paired as documented, in both directions -/
theorem column_pairs_documented :
    Gen.C03.coordColumns = ["rlnCoordinateX", "rlnCoordinateY", "rlnCoordinateZ"] ∧
    Gen.C03.coordTerms = [["x", "y", "z"], ["shift_x", "shift_y", "shift_z"]] ∧
    Gen.C03.importCoordPairs = [("x", "rlnCoordinateX"), ("y", "rlnCoordinateY"), ("z", "rlnCoordinateZ")] ∧
    Gen.C03.shiftFields = ["shift_x", "shift_y", "shift_z"] ∧
    Gen.C03.classPair = ("class", "rlnClassNumber") := by
  decide

/-- version dispatch of `get_version_specific_names`: ≤ 3.0 → pixel origins, `data_`; 3.1 → Ångström origins,
`data_particles`, micrograph/image names; everything above → Ångström origins, `data_particles`, tomo names.
For every version number (in tenths), not only the three tested ones. -/
theorem version_names (v : Nat) :
    versionNames v = some
      (if v ≤ 30 then ⟨"rlnMicrographName", "rlnImageName", ["rlnOriginX", "rlnOriginY", "rlnOriginZ"], "data_"⟩
       else if v = 31 then ⟨"rlnMicrographName", "rlnImageName", ["rlnOriginXAngst", "rlnOriginYAngst", "rlnOriginZAngst"], "data_particles"⟩
       else ⟨"rlnTomoName", "rlnTomoParticleName", ["rlnOriginXAngst", "rlnOriginYAngst", "rlnOriginZAngst"], "data_particles"⟩) := by
  simp only [versionNames, Gen.C03.nameBranches, versionNamesIn, cmpVer]
  by_cases h1 : v ≤ 30
  · simp [h1]
  · by_cases h2 : v = 31
    · simp [h2]
    · simp [h1, h2]

/-- the file-version detection table of `get_version_from_file` -/
theorem file_versions_documented :
    Gen.C03.fileVersions = [("data_", 30), ("data_particles+tomo", 40), ("data_particles", 31)] := by decide

/-- the half-set renumbering loop of `parse_subtomo_id` is, statement for statement, the loop that `renumber` /
`renumberStep` model (normalised source text; any edit of the loop breaks this obligation) -/
theorem renumber_loop_documented :
    Gen.C03.renumberSkeleton =
      ["'rlnRandomSubset'inrelion_df.columnsandrelion_df['rlnRandomSubset'].isin([1,2]).all()",
       "halfset_num=relion_df['rlnRandomSubset'].values%2", "c=1ifhalfset_num[0]==1else2", "subtomo_id_num=[c]",
       "foriinrange(1,self.df.shape[0]):;ifc%2==1andhalfset_num[i]==1or(c%2==0andhalfset_num[i]==0):;c+=2;else:;c+=1;subtomo_id_num.append(c)",
       "self.df['subtomo_id']=subtomo_id_num"] := by rfl

/-- where the numbers sit in a name: first number = tomogram, second = subtomogram (≤ 3.1), whole last
component = subtomogram (≥ 4.0); half-set table: even → 2, odd → 1; export writes zero origins and adds
the shift to the position; import negates the origin and divides it by the pixel size from 3.1 on -/
theorem scalar_anchors_documented :
    Gen.C03.tomoNumberIndex = 0 ∧ Gen.C03.subtomoNumberIndex = 1 ∧ Gen.C03.subtomoWholeCmp = ">=" ∧
    Gen.C03.subtomoWholeThr = 40 ∧ Gen.C03.halfsetByParity = [(0, 2), (1, 1)] ∧ Gen.C03.exportOriginZero = true ∧
    Gen.C03.coordOp = "+" ∧ Gen.C03.shiftNegated = true ∧ Gen.C03.shiftScaleCmp = ">=" ∧
    Gen.C03.shiftScaleThr = 31 ∧ Gen.C03.shiftScaleOp = "/" := by decide

/-- the version test of `convert_shifts` never fails and is `version ≥ 3.1` -/
theorem origin_in_angstrom_total (v : Nat) : originInAngstrom v = some (decide (31 ≤ v)) := by
  simp [originInAngstrom, cmpVer, Gen.C03.shiftScaleCmp, Gen.C03.shiftScaleThr]

/-- origins are in Ångström exactly for version ≥ 3.1 -/
theorem origin_in_angstrom_iff (v : Nat) : originInAngstrom v = some true ↔ 31 ≤ v := by
  simp [origin_in_angstrom_total]

/-- `set_version` column sniffing: the rules of the source are the documented ones -/
theorem sniff_documented :
    Gen.C03.versionSniff = [([["rlnTomoName", "rlnTomoParticleName"]], 40),
      ([["rlnMicrographName"], ["rlnOriginXAngst"]], 31), ([["rlnMicrographName"], ["rlnOriginX"]], 30)] ∧
    Gen.C03.versionSniffDefault = 31 := by decide

/-- **version detection from column names**: a table with a tomo-name or tomo-particle-name column is 4.0;
otherwise micrograph name + Ångström origins is 3.1, micrograph name + pixel origins is 3.0; anything else 3.1 -/
theorem sniff_version (cols : List String) :
    sniffVersion cols =
      if cols.contains "rlnTomoName" || cols.contains "rlnTomoParticleName" then 40
      else if cols.contains "rlnMicrographName" && cols.contains "rlnOriginXAngst" then 31
      else if cols.contains "rlnMicrographName" && cols.contains "rlnOriginX" then 30
      else 31 := by
  simp only [sniffVersion, Gen.C03.versionSniff, sniffVersionIn, Gen.C03.versionSniffDefault, List.all_cons, List.all_nil,
    List.any_cons, List.any_nil, Bool.or_false, Bool.and_true]

/-- the detected version agrees with the names each version uses: tables carrying the tomo / subtomo name column and
the origin columns of version 3.0, 3.1, 4.0 (`version_names`) are detected as that version -/
theorem sniff_matches_names (cols : List String) :
    (cols.contains "rlnTomoParticleName" = true → sniffVersion cols = 40) ∧
    (cols.contains "rlnTomoName" = false → cols.contains "rlnTomoParticleName" = false → cols.contains "rlnMicrographName" = true →
      cols.contains "rlnOriginXAngst" = true → sniffVersion cols = 31) ∧
    (cols.contains "rlnTomoName" = false → cols.contains "rlnTomoParticleName" = false → cols.contains "rlnMicrographName" = true →
      cols.contains "rlnOriginXAngst" = false → cols.contains "rlnOriginX" = true → sniffVersion cols = 30) := by
  rw [sniff_version]
  refine ⟨fun h => ?_, fun h1 h2 h3 h4 => ?_, fun h1 h2 h3 h4 h5 => ?_⟩ <;> simp_all

section field
variable [_root_.Field α]

/-- **Export position**: the model does not fail, rlnCoordinate is the complete position x + shift, the origin shift is zero -/
theorem export_coord (asEuler : M3 α → Ang3 α) (p : Pose α) :
    ∃ r, exportPose asEuler p = some r ∧ r.cx = p.x + p.sx ∧ r.cy = p.y + p.sy ∧ r.cz = p.z + p.sz ∧
      r.ox = 0 ∧ r.oy = 0 ∧ r.oz = 0 := by
  simp [exportPose, exportCoord, exportOrigin, Gen.C03.coordOp, Gen.C03.exportOriginZero, exportAngles_eq]

/-- **Import shift**, RELION 3.0 (pixels): shift = −origin -/
theorem import_shift_pixels (v : Nat) (hv : v ≤ 30) (px o : α) : importShift v px o = some (-o) := by
  have : originInAngstrom v = some false := by
    rw [origin_in_angstrom_total]; simp; omega
  simp [importShift, this, Gen.C03.shiftNegated]

/-- **Import shift**, RELION ≥ 3.1 (Ångström): shift = −origin / pixel size, i.e. shift · px = −origin -/
theorem import_shift_angstrom (v : Nat) (hv : 31 ≤ v) (px o : α) (hpx : px ≠ 0) :
    importShift v px o = some (-o / px) ∧ -o / px * px = -o := by
  have : originInAngstrom v = some true := (origin_in_angstrom_iff v).2 hv
  exact ⟨by simp [importShift, this, Gen.C03.shiftNegated, Gen.C03.shiftScaleOp], div_mul_cancel₀ _ hpx⟩

/-- the shift conversion never fails (every version number, every pixel size) -/
theorem import_shift_total (v : Nat) (px o : α) :
    importShift v px o = some (if 31 ≤ v then -o / px else -o) := by
  by_cases h : 31 ≤ v
  · have : originInAngstrom v = some true := (origin_in_angstrom_iff v).2 h
    simp [importShift, this, Gen.C03.shiftNegated, Gen.C03.shiftScaleOp, h]
  · have : originInAngstrom v = some false := by rw [origin_in_angstrom_total]; simp; omega
    simp [importShift, this, Gen.C03.shiftNegated, h]

/-- **Import position**: the model does not fail; x, y, z are the RELION coordinates and each shift is the converted
origin of the same axis, with the pixel size of THIS row -/
theorem import_coord (asEuler : M3 α → Ang3 α) (v : Nat) (px : α) (r : RPose α) :
    ∃ q, importPose asEuler v px r = some q ∧ q.x = r.cx ∧ q.y = r.cy ∧ q.z = r.cz ∧
      some q.sx = importShift v px r.ox ∧ some q.sy = importShift v px r.oy ∧ some q.sz = importShift v px r.oz := by
  simp [importPose, import_shift_total, importAngles_eq]

/-- **Export followed by import returns every particle to the same position and orientation** —
exactly, in exact arithmetic, for every version and every pixel size (the exported origin is 0, so even a
zero pixel size is harmless), for any Euler-angle extractors meeting their post-conditions. -/
theorem export_import_pose (asE1 asE2 : M3 α → Ang3 α) (v : Nat) (px : α) (p : Pose α)
    (h1 : ∀ F, exportFed p.ang = some F → eulerMat Gen.C03.exportToSeq (asE1 F) = some F)
    (h2 : ∀ r F, exportAngles asE1 p.ang = some r → importFed r = some F → eulerMat Gen.C03.importToSeq (asE2 F) = some F) :
    ∃ r q, exportPose asE1 p = some r ∧ importPose asE2 v px r = some q ∧
      q.position = p.position ∧ q.rotation = p.rotation := by
  obtain ⟨ra, qa, hra, hqa, hrot⟩ := export_import_orientation asE1 asE2 p.ang h1 h2
  have hs : importShift v px (0 : α) = some 0 := by
    rw [import_shift_total]; split <;> simp
  refine ⟨{ cx := p.x + p.sx, cy := p.y + p.sy, cz := p.z + p.sz, ox := 0, oy := 0, oz := 0, ang := ra },
    { x := p.x + p.sx, y := p.y + p.sy, z := p.z + p.sz, sx := 0, sy := 0, sz := 0, ang := qa }, ?_, ?_, ?_, ?_⟩
  · simp [exportPose, exportCoord, exportOrigin, Gen.C03.coordOp, Gen.C03.exportOriginZero, hra]
  · simp [importPose, hs, hqa]
  · simp [Pose.position]
  · exact hrot

end field

/-! ### identity: half-sets, renumbering, numbers in generated names -/

/-- **half-set 1 ⇔ odd, half-set 2 ⇔ even subtomogram number** (export) -/
theorem halfset_parity (id : Nat) :
    (halfsetOf id = 1 ↔ id % 2 = 1) ∧ (halfsetOf id = 2 ↔ id % 2 = 0) := by
  rcases Nat.mod_two_eq_zero_or_one id with h | h <;>
    simp [halfsetOf, Gen.C03.halfsetByParity, h, List.lookup]

/-- **half-set renumbering on import**, for every half-set column: one new id per particle, starting at
1 or 2, strictly increasing in row order (hence unique), at most 2·n, and id odd ⇔ half-set odd. -/
theorem renumber_spec (hs : List Nat) :
    (renumber hs).length = hs.length ∧ (renumber hs).map (· % 2) = hs.map (· % 2) ∧
    (renumber hs).Pairwise (· < ·) ∧ (∀ i ∈ renumber hs, 1 ≤ i ∧ i ≤ 2 * hs.length) := by
  cases hs with
  | nil => simp [renumber]
  | cons h t =>
    have hc : (if h % 2 = 1 then 1 else 2) % 2 = h % 2 := by
      rcases Nat.mod_two_eq_zero_or_one h with hh | hh <;> simp [hh]
    refine ⟨by simp [renumber, renumberFrom_length], ?_, ?_, ?_⟩
    · simp only [renumber, List.map_cons, renumberFrom_parity, hc]
    · simp only [renumber, List.pairwise_cons]
      exact ⟨renumberFrom_gt _ t, renumberFrom_pairwise _ t⟩
    · intro i hi
      simp only [renumber, List.mem_cons] at hi
      rcases hi with rfl | hi
      · simp only [List.length_cons]; split <;> omega
      · have h1 := renumberFrom_gt _ t i hi
        have h2 := renumberFrom_le _ t i hi
        simp only [List.length_cons]
        split at h1 <;> split at h2 <;> omega

/-- re-exporting the renumbered ids reproduces the half-set column (values 1 / 2) -/
theorem renumber_halfset (hs : List Nat) (h12 : ∀ h ∈ hs, h = 1 ∨ h = 2) : (renumber hs).map halfsetOf = hs := by
  have hp := (renumber_spec hs).2.1
  have hl := (renumber_spec hs).1
  apply List.ext_getElem (by simpa using hl)
  intro i h1 h2
  have hi : i < hs.length := h2
  have hi' : i < (renumber hs).length := by omega
  have e : (renumber hs)[i] % 2 = hs[i] % 2 := by
    have := congrArg (fun l => l[i]?) hp
    simpa [hi, hi'] using this
  rw [List.getElem_map]
  rcases h12 _ (List.getElem_mem hi) with h | h
  · rw [h] at e ⊢; exact (halfset_parity _).1.2 (by omega)
  · rw [h] at e ⊢; exact (halfset_parity _).2.2 (by omega)

/-- **half-sets on import**: whenever the half-set column holds only 1s and 2s (one value or both, any
number of particles ≥ 0), the imported subtomo ids are strictly increasing (unique) and exporting them again
reproduces the half-set column: half-set 1 ⇔ odd, half-set 2 ⇔ even. -/
theorem import_ids_halfset (parsed hs : List Nat) (h12 : ∀ h ∈ hs, h = 1 ∨ h = 2) :
    (importSubtomoIds parsed (some hs)).map halfsetOf = hs ∧ (importSubtomoIds parsed (some hs)).Pairwise (· < ·) := by
  have hall : hs.all (fun h => h == 1 || h == 2) = true := by
    rw [List.all_eq_true]; intro h hh
    rcases h12 h hh with rfl | rfl <;> rfl
  simp only [importSubtomoIds, hall, if_true]
  exact ⟨renumber_halfset hs h12, (renumber_spec hs).2.2.1⟩

/-- **zero padding does not change the number**: `int(str(n).zfill(k)) = n` -/
theorem zfill_parse (k n : Nat) : Nat.ofDigitChars 10 (zfill k (Nat.toDigits 10 n)) 0 = n :=
  decode_zfill_toDigits k n

/-- **tomogram and subtomogram numbers survive in RELION ≤ 3.1 names.** Any generated name of the documented
shape `dir/ pre <tomo, padded> mid <subtomo, padded> suf` (no digit in `pre`, a non-empty digit-free
separator `mid`, `suf` empty or starting with a non-digit, no slash after `dir/`) is parsed back to
exactly (tomo, subtomo), for every padding width and every pair of numbers. -/
theorem names_parse_v3 (dir pre mid suf : List Char) (kx ky tomo sub v : Nat) (hv : v < 40)
    (hpre : ∀ c ∈ pre, c.isDigit = false) (hmid : Sep mid)
    (hsuf : suf = [] ∨ ∃ c t, suf = c :: t ∧ c.isDigit = false)
    (hslash : ∀ c ∈ pre ++ mid ++ suf, c ≠ '/') :
    let name := dir ++ '/' :: (pre ++ zfill kx (Nat.toDigits 10 tomo) ++ mid ++ zfill ky (Nat.toDigits 10 sub) ++ suf)
    parseTomo name = some tomo ∧ parseSub v name = some sub := by
  intro name
  have hdig : ∀ k n, ∀ c ∈ zfill k (Nat.toDigits 10 n), c ≠ '/' := by
    intro k n c hc e
    have := zfill_allDigits k _ (toDigits_allDigits n) c hc
    rw [e] at this; exact absurd this (by decide)
  have hlc : lastComponent name
      = pre ++ zfill kx (Nat.toDigits 10 tomo) ++ mid ++ zfill ky (Nat.toDigits 10 sub) ++ suf := by
    apply lastComponent_dir
    intro c hc
    simp only [List.mem_append] at hc hslash
    rcases hc with (((hc | hc) | hc) | hc) | hc
    · exact hslash c (Or.inl (Or.inl hc))
    · exact hdig _ _ c hc
    · exact hslash c (Or.inl (Or.inr hc))
    · exact hdig _ _ c hc
    · exact hslash c (Or.inr hc)
  obtain ⟨more, hn⟩ := numbers_two pre (zfill kx (Nat.toDigits 10 tomo)) mid (zfill ky (Nat.toDigits 10 sub)) suf hpre
    (zfill_ne_nil _ _ Nat.toDigits_ne_nil) (zfill_allDigits _ _ (toDigits_allDigits _)) hmid
    (zfill_ne_nil _ _ Nat.toDigits_ne_nil) (zfill_allDigits _ _ (toDigits_allDigits _)) hsuf
  rw [decode_zfill_toDigits, decode_zfill_toDigits] at hn
  have hcmp : cmpVer Gen.C03.subtomoWholeCmp v Gen.C03.subtomoWholeThr = some false := by
    simp [cmpVer, Gen.C03.subtomoWholeCmp, Gen.C03.subtomoWholeThr]; omega
  constructor
  · show (numbers (lastComponent name))[Gen.C03.tomoNumberIndex]? = some tomo
    rw [hlc, hn]; rfl
  · unfold parseSub
    rw [if_neg (not_numeric_of_slash dir _)]
    simp only [hlc, hcmp]
    rw [hn]; rfl

/-- **generated RELION ≤ 3.1 names carry both numbers.** For every subtomogram format of the documented shape
`dir/ pre $x…x mid $y…y suf` (any paddings kx, ky ≥ 1; no other `$` and no slash after `dir/`; no digit in `pre`; a
non-empty digit-free separator `mid` not starting with `x`; `suf` empty or starting with neither a digit nor `y`),
`prepare_particles_data` produces a name from which `parse_tomo_id` / `parse_subtomo_id` read back exactly
(tomo, subtomo) — for all numbers, including numbers wider than the padding. -/
theorem names_generated_v3 (dir pre mid suf : List Char) (kx ky tomo sub v : Nat) (hv : v < 40) (hkx : 0 < kx) (hky : 0 < ky)
    (hpre : ∀ c ∈ pre, c.isDigit = false) (hmid : Sep mid) (hmidx : NotHead 'x' mid)
    (hsuf : suf = [] ∨ ∃ c t, suf = c :: t ∧ c.isDigit = false) (hsufy : NotHead 'y' suf)
    (hslash : ∀ c ∈ pre ++ mid ++ suf, c ≠ '/') (hdollar : ∀ c ∈ dir ++ pre ++ mid ++ suf, c ≠ '$') :
    ∃ name, subName (dir ++ '/' :: (pre ++ '$' :: (List.replicate kx 'x' ++ (mid ++ '$' :: (List.replicate ky 'y' ++ suf))))) tomo sub
        = some name ∧ parseTomo name = some tomo ∧ parseSub v name = some sub := by
  have hd : ∀ l : List Char, (∀ c ∈ l, c ∈ dir ++ pre ++ mid ++ suf) → ∀ c ∈ l, c ≠ '$' := fun l hl c hc => hdollar c (hl c hc)
  have hdig : ∀ k n, ∀ c ∈ zfill k (Nat.toDigits 10 n), c ≠ '$' := by
    intro k n c hc e
    have := zfill_allDigits k _ (toDigits_allDigits n) c hc
    rw [e] at this; exact absurd this (by decide)
  have hD : ∀ c ∈ dir ++ '/' :: pre, c ≠ '$' := by
    intro c hc
    simp only [List.mem_append, List.mem_cons] at hc
    rcases hc with hc | rfl | hc
    · exact hdollar c (by simp [hc])
    · decide
    · exact hdollar c (by simp [hc])
  have hmidD : ∀ c ∈ mid, c ≠ '$' := fun c hc => hdollar c (by simp [hc])
  have hsufD : ∀ c ∈ suf, c ≠ '$' := fun c hc => hdollar c (by simp [hc])
  -- the `$y…` pass
  have e1 : dir ++ '/' :: (pre ++ '$' :: (List.replicate kx 'x' ++ (mid ++ '$' :: (List.replicate ky 'y' ++ suf))))
      = ((dir ++ '/' :: pre) ++ '$' :: (List.replicate kx 'x' ++ mid)) ++ '$' :: (List.replicate ky 'y' ++ suf) := by
    simp [List.append_assoc]
  have p1 := fillFormat_shape 'y' (by decide) ky hky ((dir ++ '/' :: pre) ++ '$' :: (List.replicate kx 'x' ++ mid)) suf sub
    (longestSeq_other 'x' 'y' (by decide) (by decide) (by decide) kx hkx _ mid hD (longestSeq_noDollar _ _ hmidD))
    (longestSeq_noDollar _ _ hsufD) hsufy
  -- the `$x…` pass on the result
  have e2 : ((dir ++ '/' :: pre) ++ '$' :: (List.replicate kx 'x' ++ mid)) ++ zfill ky (Nat.toDigits 10 sub) ++ suf
      = (dir ++ '/' :: pre) ++ '$' :: (List.replicate kx 'x' ++ (mid ++ zfill ky (Nat.toDigits 10 sub) ++ suf)) := by
    simp [List.append_assoc]
  have hR : ∀ c ∈ mid ++ zfill ky (Nat.toDigits 10 sub) ++ suf, c ≠ '$' := by
    intro c hc
    simp only [List.mem_append] at hc
    rcases hc with (hc | hc) | hc
    · exact hmidD c hc
    · exact hdig _ _ c hc
    · exact hsufD c hc
  have hRx : NotHead 'x' (mid ++ zfill ky (Nat.toDigits 10 sub) ++ suf) := by
    rcases hmidx with hm | ⟨h, t, hm, hne⟩
    · exact absurd hm hmid.1
    · exact Or.inr ⟨h, t ++ zfill ky (Nat.toDigits 10 sub) ++ suf, by simp [hm], hne⟩
  have p2 := fillFormat_shape 'x' (by decide) kx hkx (dir ++ '/' :: pre) (mid ++ zfill ky (Nat.toDigits 10 sub) ++ suf) tomo
    (longestSeq_noDollar _ _ hD) (longestSeq_noDollar _ _ hR) hRx
  have hne : dir ++ '/' :: (pre ++ '$' :: (List.replicate kx 'x' ++ (mid ++ '$' :: (List.replicate ky 'y' ++ suf)))) ≠ [] := by simp
  refine ⟨dir ++ '/' :: (pre ++ zfill kx (Nat.toDigits 10 tomo) ++ mid ++ zfill ky (Nat.toDigits 10 sub) ++ suf), ?_,
    names_parse_v3 dir pre mid suf kx ky tomo sub v hv hpre hmid hsuf hslash⟩
  unfold subName
  rw [if_neg hne, e1, p1]
  simp only [e2, p2, Option.getD_some]
  simp [List.append_assoc]

/-- **numbers survive in RELION 4.0 names**: `pre <tomo, padded>` (e.g. `TS_007`) gives the tomogram number and
`anything/<subtomo, padded>` the subtomogram number. -/
theorem names_parse_v4 (dir pre : List Char) (kx ky tomo sub v : Nat) (hv : 40 ≤ v)
    (hpre : ∀ c ∈ pre, c.isDigit = false) (hslash : ∀ c ∈ pre, c ≠ '/') :
    parseTomo (pre ++ zfill kx (Nat.toDigits 10 tomo)) = some tomo ∧
    parseSub v (dir ++ '/' :: zfill ky (Nat.toDigits 10 sub)) = some sub := by
  have hdig : ∀ k n, ∀ c ∈ zfill k (Nat.toDigits 10 n), c ≠ '/' := by
    intro k n c hc e
    have := zfill_allDigits k _ (toDigits_allDigits n) c hc
    rw [e] at this; exact absurd this (by decide)
  constructor
  · have hlc : lastComponent (pre ++ zfill kx (Nat.toDigits 10 tomo)) = pre ++ zfill kx (Nat.toDigits 10 tomo) := by
      apply lastComponent_plain
      intro c hc
      rcases List.mem_append.1 hc with hc | hc
      · exact hslash c hc
      · exact hdig _ _ c hc
    obtain ⟨more, hn⟩ := numbers_one pre (zfill kx (Nat.toDigits 10 tomo)) [] hpre
      (zfill_ne_nil _ _ Nat.toDigits_ne_nil) (zfill_allDigits _ _ (toDigits_allDigits _)) (Or.inl rfl)
    rw [decode_zfill_toDigits, List.append_nil] at hn
    simp [parseTomo, hlc, hn, Gen.C03.tomoNumberIndex]
  · have hlc : lastComponent (dir ++ '/' :: zfill ky (Nat.toDigits 10 sub)) = zfill ky (Nat.toDigits 10 sub) :=
      lastComponent_dir _ _ (hdig _ _)
    have hcmp : cmpVer Gen.C03.subtomoWholeCmp v Gen.C03.subtomoWholeThr = some true := by
      simp [cmpVer, Gen.C03.subtomoWholeCmp, Gen.C03.subtomoWholeThr]; omega
    have hall : (zfill ky (Nat.toDigits 10 sub)).all Char.isDigit = true :=
      List.all_eq_true.2 (zfill_allDigits _ _ (toDigits_allDigits _))
    unfold parseSub
    rw [if_neg (not_numeric_of_slash dir _)]
    simp [hlc, hcmp, hall, zfill_ne_nil _ _ Nat.toDigits_ne_nil, decode_zfill_toDigits]

/-- **generated RELION 4.0 names carry the numbers**: tomogram format `pre $x…x` (e.g. `TS_$xxx`) and subtomogram
format `dir/$y…y` (no `$` in `dir`) are filled and read back exactly. -/
theorem names_generated_v4 (dir pre : List Char) (kx ky tomo sub v : Nat) (hv : 40 ≤ v) (hkx : 0 < kx) (hky : 0 < ky)
    (hpre : ∀ c ∈ pre, c.isDigit = false) (hslash : ∀ c ∈ pre, c ≠ '/') (hdollar : ∀ c ∈ dir ++ pre, c ≠ '$') :
    (∃ n1, tomoName (pre ++ '$' :: List.replicate kx 'x') tomo = some n1 ∧ parseTomo n1 = some tomo) ∧
    (∃ n2, subName (dir ++ '/' :: '$' :: List.replicate ky 'y') tomo sub = some n2 ∧ parseSub v n2 = some sub) := by
  have hp := names_parse_v4 dir pre kx ky tomo sub v hv hpre hslash
  have hdig : ∀ k n, ∀ c ∈ zfill k (Nat.toDigits 10 n), c ≠ '$' := by
    intro k n c hc e
    have := zfill_allDigits k _ (toDigits_allDigits n) c hc
    rw [e] at this; exact absurd this (by decide)
  constructor
  · refine ⟨pre ++ zfill kx (Nat.toDigits 10 tomo), ?_, hp.1⟩
    have := fillFormat_shape 'x' (by decide) kx hkx pre [] tomo
      (longestSeq_noDollar _ _ (fun c hc => hdollar c (by simp [hc]))) rfl (Or.inl rfl)
    simp only [List.append_nil] at this
    unfold tomoName
    rw [if_neg (by simp), this]
  · refine ⟨dir ++ '/' :: zfill ky (Nat.toDigits 10 sub), ?_, hp.2⟩
    have hD : ∀ c ∈ dir ++ ['/'], c ≠ '$' := by
      intro c hc
      simp only [List.mem_append, List.mem_singleton] at hc
      rcases hc with hc | rfl
      · exact hdollar c (by simp [hc])
      · decide
    have p1 := fillFormat_shape 'y' (by decide) ky hky (dir ++ ['/']) [] sub (longestSeq_noDollar _ _ hD) rfl (Or.inl rfl)
    simp only [List.append_nil, List.append_assoc, List.singleton_append] at p1
    have hS : ∀ c ∈ dir ++ '/' :: zfill ky (Nat.toDigits 10 sub), c ≠ '$' := by
      intro c hc
      simp only [List.mem_append, List.mem_cons] at hc
      rcases hc with hc | rfl | hc
      · exact hdollar c (by simp [hc])
      · decide
      · exact hdig _ _ c hc
    have p2 : fillFormat (dir ++ '/' :: zfill ky (Nat.toDigits 10 sub)) 'x' tomo = none := by
      unfold fillFormat
      simp [longestSeq_noDollar _ _ hS]
    unfold subName
    rw [if_neg (by simp), p1]
    simp only [p2, Option.getD_none]

/-- **generated RELION ≤ 3.1 tomogram names carry the tomogram number, with a directory and a suffix**: for every
tomogram format `dir/ pre $x…x suf` (the documented `/path/to/tomo/$xxxx.rec`, `…/TS_$xxx_2.5.mrc`; any padding ≥ 1; no
`$` elsewhere; `pre` digit-free; no slash after `dir/`; `suf` empty or starting with neither a digit nor `x`),
`prepare_particles_data` produces `dir/ pre <tomo, padded> suf` and `parse_tomo_id` reads back exactly `tomo`. (Formats
that repeat the `$x…x` sequence in the directory part, like `/p/$xxxx/$xxxx_$yy.mrc`, are NOT covered by a theorem: they are
compared string for string with the model in the correspondence run only.) -/
theorem tomo_name_generated_v3 (dir pre suf : List Char) (kx tomo : Nat) (hkx : 0 < kx)
    (hpre : ∀ c ∈ pre, c.isDigit = false) (hsuf : suf = [] ∨ ∃ c t, suf = c :: t ∧ c.isDigit = false)
    (hsufx : NotHead 'x' suf) (hslash : ∀ c ∈ pre ++ suf, c ≠ '/') (hdollar : ∀ c ∈ dir ++ pre ++ suf, c ≠ '$') :
    ∃ name, tomoName (dir ++ '/' :: (pre ++ '$' :: (List.replicate kx 'x' ++ suf))) tomo = some name ∧
      name = dir ++ '/' :: (pre ++ zfill kx (Nat.toDigits 10 tomo) ++ suf) ∧ parseTomo name = some tomo := by
  have hD : ∀ c ∈ dir ++ '/' :: pre, c ≠ '$' := by
    intro c hc
    simp only [List.mem_append, List.mem_cons] at hc
    rcases hc with hc | rfl | hc
    · exact hdollar c (by simp [hc])
    · decide
    · exact hdollar c (by simp [hc])
  have hS : ∀ c ∈ suf, c ≠ '$' := fun c hc => hdollar c (by simp [hc])
  have e1 : dir ++ '/' :: (pre ++ '$' :: (List.replicate kx 'x' ++ suf))
      = (dir ++ '/' :: pre) ++ '$' :: (List.replicate kx 'x' ++ suf) := by simp [List.append_assoc]
  have p1 := fillFormat_shape 'x' (by decide) kx hkx (dir ++ '/' :: pre) suf tomo
    (longestSeq_noDollar _ _ hD) (longestSeq_noDollar _ _ hS) hsufx
  have e2 : (dir ++ '/' :: pre) ++ zfill kx (Nat.toDigits 10 tomo) ++ suf
      = dir ++ '/' :: (pre ++ zfill kx (Nat.toDigits 10 tomo) ++ suf) := by simp [List.append_assoc]
  refine ⟨dir ++ '/' :: (pre ++ zfill kx (Nat.toDigits 10 tomo) ++ suf), ?_, rfl, ?_⟩
  · unfold tomoName
    rw [if_neg (by simp), e1, p1, e2]
  · have hdig : ∀ c ∈ zfill kx (Nat.toDigits 10 tomo), c ≠ '/' := by
      intro c hc e
      have := zfill_allDigits kx _ (toDigits_allDigits tomo) c hc
      rw [e] at this; exact absurd this (by decide)
    have hlc : lastComponent (dir ++ '/' :: (pre ++ zfill kx (Nat.toDigits 10 tomo) ++ suf))
        = pre ++ zfill kx (Nat.toDigits 10 tomo) ++ suf := by
      apply lastComponent_dir
      intro c hc
      simp only [List.mem_append] at hc hslash
      rcases hc with (hc | hc) | hc
      · exact hslash c (Or.inl hc)
      · exact hdig c hc
      · exact hslash c (Or.inr hc)
    obtain ⟨more, hn⟩ := numbers_one pre (zfill kx (Nat.toDigits 10 tomo)) suf hpre
      (zfill_ne_nil _ _ Nat.toDigits_ne_nil) (zfill_allDigits _ _ (toDigits_allDigits _)) hsuf
    rw [decode_zfill_toDigits] at hn
    show (numbers (lastComponent (dir ++ '/' :: (pre ++ zfill kx (Nat.toDigits 10 tomo) ++ suf))))[Gen.C03.tomoNumberIndex]? = some tomo
    rw [hlc, hn]; rfl

/-! ### fallback tomogram number, class, geom3, uniqueness of ids -/

/-- `parse_tomo_id`, `elif` branch (no tomogram-name column): for version ≤ 3.1 the last path component of the
subtomogram name (`rsplit("/", 1)[-1]`), otherwise what precedes its last slash (`[0]`); first number of it -/
theorem tomo_fallback_documented :
    Gen.C03.tomoFallbackCmp = "<=" ∧ Gen.C03.tomoFallbackThr = 31 ∧ Gen.C03.tomoFallbackPositions = (-1, 0) ∧
    Gen.C03.tomoFallbackIndex = 0 := by decide

/-- for version ≤ 3.1 the fallback reads a subtomogram name exactly as `parse_tomo_id` reads a tomogram name -/
theorem tomo_fallback_le31 (v : Nat) (hv : v ≤ 31) (name : List Char) : parseTomoFallback v name = parseTomo name := by
  have hc : cmpVer Gen.C03.tomoFallbackCmp v Gen.C03.tomoFallbackThr = some true := by
    simp [cmpVer, Gen.C03.tomoFallbackCmp, Gen.C03.tomoFallbackThr, hv]
  simp [parseTomoFallback, hc, Gen.C03.tomoFallbackPositions, componentAt, parseTomo, Gen.C03.tomoFallbackIndex,
    Gen.C03.tomoNumberIndex]

/-- **the tomogram number survives without a tomogram-name column, RELION ≤ 3.1**: it is read back from the
subtomogram name `dir/ pre <tomo, padded> mid <subtomo, padded> suf` (hypotheses as in `names_parse_v3`) -/
theorem names_parse_fallback_v3 (dir pre mid suf : List Char) (kx ky tomo sub v : Nat) (hv : v ≤ 31)
    (hpre : ∀ c ∈ pre, c.isDigit = false) (hmid : Sep mid)
    (hsuf : suf = [] ∨ ∃ c t, suf = c :: t ∧ c.isDigit = false)
    (hslash : ∀ c ∈ pre ++ mid ++ suf, c ≠ '/') :
    let name := dir ++ '/' :: (pre ++ zfill kx (Nat.toDigits 10 tomo) ++ mid ++ zfill ky (Nat.toDigits 10 sub) ++ suf)
    importTomo v ⟨none, name, 0⟩ = some tomo ∧ parseSub v name = some sub := by
  intro name
  have h := names_parse_v3 dir pre mid suf kx ky tomo sub v (by omega) hpre hmid hsuf hslash
  exact ⟨by simpa only [importTomo, tomo_fallback_le31 v hv] using h.1, h.2⟩

/-- **the tomogram number survives without a tomogram-name column, RELION 4.0**: from `pre <tomo, padded>/<subtomo, padded>`
(e.g. `TS_007/0012`; `pre` digit-free, slashes allowed) the part before the last slash gives the tomogram number and
the part after it the subtomogram number -/
theorem names_parse_fallback_v4 (pre : List Char) (kx ky tomo sub v : Nat) (hv : 40 ≤ v)
    (hpre : ∀ c ∈ pre, c.isDigit = false) :
    let name := (pre ++ zfill kx (Nat.toDigits 10 tomo)) ++ '/' :: zfill ky (Nat.toDigits 10 sub)
    importTomo v ⟨none, name, 0⟩ = some tomo ∧ parseSub v name = some sub := by
  intro name
  have hdig : ∀ k n, ∀ c ∈ zfill k (Nat.toDigits 10 n), c ≠ '/' := by
    intro k n c hc e
    have := zfill_allDigits k _ (toDigits_allDigits n) c hc
    rw [e] at this; exact absurd this (by decide)
  have hv' : ¬ v ≤ 31 := by omega
  have hc : cmpVer Gen.C03.tomoFallbackCmp v Gen.C03.tomoFallbackThr = some false := by
    simp [cmpVer, Gen.C03.tomoFallbackCmp, Gen.C03.tomoFallbackThr, hv']
  obtain ⟨more, hn⟩ := numbers_one pre (zfill kx (Nat.toDigits 10 tomo)) [] hpre
    (zfill_ne_nil _ _ Nat.toDigits_ne_nil) (zfill_allDigits _ _ (toDigits_allDigits _)) (Or.inl rfl)
  rw [decode_zfill_toDigits, List.append_nil] at hn
  constructor
  · have hb := beforeLastSlash_dir (pre ++ zfill kx (Nat.toDigits 10 tomo)) (zfill ky (Nat.toDigits 10 sub)) (hdig ky sub)
    have hcomp : componentAt (0 : Int) name = some (pre ++ zfill kx (Nat.toDigits 10 tomo)) := by
      simp only [componentAt, name]; rw [if_neg (by decide), if_pos trivial, hb]
    have hpos : (if false = true then Gen.C03.tomoFallbackPositions.1 else Gen.C03.tomoFallbackPositions.2) = (0 : Int) := by decide
    simp only [importTomo, parseTomoFallback, hc, hpos, hcomp, hn]
    rfl
  · exact (names_parse_v4 (pre ++ zfill kx (Nat.toDigits 10 tomo)) [] kx ky tomo sub v hv (by simp) (by simp)).2

/-- **after import the subtomogram ids are pairwise distinct**, whatever was parsed and whatever the half-set column
holds: parsed numbers when distinct, 1..n when they repeat, strictly increasing when renumbered by half-set -/
theorem import_ids_nodup (parsed : List Nat) (hs : Option (List Nat)) : (importSubtomoIds parsed hs).Nodup := by
  have hbase : (if parsed.Nodup then parsed else List.range' 1 parsed.length).Nodup := by
    split
    · assumption
    · exact List.nodup_range' 1
  unfold importSubtomoIds
  cases hs with
  | none => exact hbase
  | some l =>
    simp only
    split
    · exact nodup_of_pairwise_lt _ (renumber_spec l).2.2.1
    · exact hbase

/-- without a half-set column: distinct parsed numbers are kept as they are -/
theorem import_ids_kept (parsed : List Nat) (h : parsed.Nodup) : importSubtomoIds parsed none = parsed := by
  simp [importSubtomoIds, h]

/-- **identity columns after import**, whenever the model does not fail (every name can be parsed): `geom3` holds the
number parsed from each subtomogram name (also when `subtomo_id` is renumbered), `tomo_id` the parsed tomogram number
(either branch), **the class column is the RELION class column unchanged**, `subtomo_id` is `importSubtomoIds` of the
parsed numbers and is duplicate-free; all four columns have one entry per row -/
theorem import_identity (v : Nat) (rows : List RIdent) (hs : Option (List Nat)) (c : IdentCols)
    (h : importIdents v rows hs = some c) :
    c.geom3.map some = rows.map (fun r => parseSub v r.subName) ∧
    c.tomo.map some = rows.map (importTomo v) ∧
    c.cls = rows.map (·.cls) ∧
    c.sub = importSubtomoIds c.geom3 hs ∧ c.sub.Nodup ∧
    c.geom3.length = rows.length ∧ c.tomo.length = rows.length ∧ c.cls.length = rows.length := by
  unfold importIdents importGeom3 at h
  split at h
  · rename_i g ts hg ht
    have e := Option.some.inj h
    subst e
    have h1 := allSome_eq_some _ _ hg
    have h2 := allSome_eq_some _ _ ht
    refine ⟨h1, h2, rfl, rfl, import_ids_nodup _ _, ?_, ?_, by simp⟩
    · simpa using congrArg List.length h1
    · simpa using congrArg List.length h2
  · exact absurd h (by simp)

/-- **geom3 = the subtomogram number** whenever each name is one that `parse_subtomo_id` reads back as the number
`num r` (established for the documented name shapes by `names_parse_v3`, `names_parse_v4`, `names_generated_v3/v4`) -/
theorem import_geom3_numbers (v : Nat) (rows : List RIdent) (hs : Option (List Nat)) (c : IdentCols) (num : RIdent → Nat)
    (h : importIdents v rows hs = some c) (hn : ∀ r ∈ rows, parseSub v r.subName = some (num r)) :
    c.geom3 = rows.map num := by
  have h1 := (import_identity v rows hs c h).1
  have h2 : rows.map (fun r => parseSub v r.subName) = (rows.map num).map some := by
    rw [List.map_map]; exact List.map_congr_left hn
  rw [h2] at h1
  exact map_some_inj _ _ h1

/-- **class and half-set on export**: the class number is written unchanged, the half-set is the parity of the
subtomogram number, and the names are the `$`-format expansions -/
theorem export_identity (tf sf : List Char) (tomo sub cls : Nat) (r : RIdent) (hset : Nat)
    (h : exportIdent tf sf tomo sub cls = some (r, hset)) :
    r.cls = cls ∧ hset = halfsetOf sub ∧ r.tomoName = tomoName tf tomo ∧ some r.subName = subName sf tomo sub := by
  unfold exportIdent at h
  split at h
  · rename_i t s ht hsn
    have e := Option.some.inj h
    simp only [Prod.mk.injEq] at e
    obtain ⟨rfl, rfl⟩ := e
    exact ⟨rfl, rfl, ht.symm, hsn.symm⟩
  · exact absurd h (by simp)

/-- **the class survives export followed by import** (as do the numbers, by the `names_*` theorems) -/
theorem class_survives (tf sf : List Char) (ps : List (Nat × Nat × Nat)) (v : Nat) (hs : Option (List Nat))
    (rs : List (RIdent × Nat)) (c : IdentCols)
    (he : allSome (ps.map fun (t, s, k) => exportIdent tf sf t s k) = some rs)
    (hi : importIdents v (rs.map (·.1)) hs = some c) :
    c.cls = ps.map (fun (_, _, k) => k) := by
  have h1 := (import_identity v _ hs c hi).2.2.1
  have h2 := allSome_eq_some _ _ he
  rw [h1, List.map_map]
  have h3 : ∀ (l : List (Nat × Nat × Nat)) (r : List (RIdent × Nat)),
      r.map some = l.map (fun (t, s, k) => exportIdent tf sf t s k) → r.map ((·.cls) ∘ (·.1)) = l.map (fun (_, _, k) => k) := by
    intro l
    induction l with
    | nil => intro r hr; simp at hr; subst hr; rfl
    | cons p t ih =>
      intro r hr
      cases r with
      | nil => simp at hr
      | cons q r' =>
        obtain ⟨pt, psub, pk⟩ := p
        obtain ⟨qr, qh⟩ := q
        simp only [List.map_cons, List.cons.injEq] at hr ⊢
        exact ⟨(export_identity tf sf pt psub pk qr qh hr.1.symm).1, ih r' hr.2⟩
  exact h3 ps rs h2

/-! ### the Euler service as a global contract, and its instance over ℝ

The theorems above take scipy's `as_euler` as a parameter and assume its post-condition only for the matrix of the
particle at hand. `EulerOK seq asE` is the same post-condition stated once, as a library contract: for every proper
rotation matrix the returned triple consists of points of the unit circle and reproduces the matrix in the sequence
`seq`. Under this contract nothing else is assumed of the extractor, and over ℝ the contract is met by the explicit
extractors `zyzR` / `zxzR` of `Lemmas/C03_Euler` (square roots only, gimbal lock included), so the `…_real` theorems
below have NO hypothesis about the Euler service left. They do not say that scipy IS `zyzR`/`zxzR`: for scipy the
contract stays an assumption, checked on every generated particle. -/

/-- the contract of `Rotation.as_euler(seq)` on proper rotations -/
def EulerOK [CommRing α] (seq : List Char) (asE : M3 α → Ang3 α) : Prop :=
  ∀ F : M3 α, IsRot F → (asE F).Unit ∧ eulerMat seq (asE F) = some F

section contract
variable [CommRing α]

/-- **export under the contract**: for unit (phi, theta, psi) the exported (rot, tilt, psi) are unit angles and RELION's
rotation is the two-sided inverse of the particle's rotation -/
theorem export_is_inverse_of_contract (asE : M3 α → Ang3 α) (hE : EulerOK Gen.C03.exportToSeq asE) (ang : Ang3 α)
    (hu : ang.Unit) :
    ∃ r, exportAngles asE ang = some r ∧ r.Unit ∧
      relionMat r * particleMat ang = M3.one ∧ particleMat ang * relionMat r = M3.one := by
  obtain ⟨F, hF, hR⟩ := exportFed_isRot ang hu
  have hpost : ∀ F', exportFed ang = some F' → eulerMat Gen.C03.exportToSeq (asE F') = some F' := by
    intro F' h'
    have : F' = F := Option.some.inj (h'.symm.trans hF)
    subst this
    exact (hE _ hR).2
  obtain ⟨r, hr, h1, h2⟩ := export_is_inverse asE ang hu hpost
  refine ⟨r, hr, ?_, h1, h2⟩
  have e := exportAngles_eq asE ang
  rw [hr] at e
  have e' := Option.some.inj e
  have hFe : F = ZXZ ang.a.c ang.a.s ang.b.c ang.b.s ang.c.c ang.c.s := Option.some.inj (hF.symm.trans (exportFed_eq ang))
  obtain ⟨ua, ub, uc⟩ := (hE _ hR).1
  rw [e', ← hFe]
  exact ⟨Ang.neg_unit _ ua, ub, Ang.neg_unit _ uc⟩

/-- **import under the contract**: for unit RELION angles the stored (phi, theta, psi) are unit angles and the particle's
rotation is the two-sided inverse of RELION's -/
theorem import_is_inverse_of_contract (asE : M3 α → Ang3 α) (hE : EulerOK Gen.C03.importToSeq asE) (rln : Ang3 α)
    (hu : rln.Unit) :
    ∃ q, importAngles asE rln = some q ∧ q.Unit ∧
      particleMat q * relionMat rln = M3.one ∧ relionMat rln * particleMat q = M3.one := by
  obtain ⟨F, hF, hR⟩ := importFed_isRot rln hu
  have hpost : ∀ F', importFed rln = some F' → eulerMat Gen.C03.importToSeq (asE F') = some F' := by
    intro F' h'
    have : F' = F := Option.some.inj (h'.symm.trans hF)
    subst this
    exact (hE _ hR).2
  obtain ⟨q, hq, h1, h2⟩ := import_is_inverse asE rln hu hpost
  refine ⟨q, hq, ?_, h1, h2⟩
  have e := importAngles_eq asE rln
  rw [hq] at e
  have e' := Option.some.inj e
  have hFe : F = relionMat rln := Option.some.inj (hF.symm.trans (importFed_eq rln))
  obtain ⟨ua, ub, uc⟩ := (hE _ hR).1
  rw [e', ← hFe]
  exact ⟨Ang.neg_unit _ uc, Ang.neg_unit _ ub, Ang.neg_unit _ ua⟩

end contract

/-- **export followed by import under the contract** (any field, every version, every pixel size): every particle with
unit angles returns to the same position and the same rotation matrix, and the intermediate RELION row carries the
inverse rotation, zero origins and the complete position -/
theorem export_import_pose_of_contract [_root_.Field α] (asE1 asE2 : M3 α → Ang3 α)
    (h1 : EulerOK Gen.C03.exportToSeq asE1) (h2 : EulerOK Gen.C03.importToSeq asE2) (v : Nat) (px : α) (p : Pose α)
    (hu : p.ang.Unit) :
    ∃ r q, exportPose asE1 p = some r ∧ importPose asE2 v px r = some q ∧
      q.position = p.position ∧ q.rotation = p.rotation ∧ q.ang.Unit ∧
      r.rotation * p.rotation = M3.one ∧ r.cx = p.x + p.sx ∧ r.cy = p.y + p.sy ∧ r.cz = p.z + p.sz ∧
      r.ox = 0 ∧ r.oy = 0 ∧ r.oz = 0 := by
  obtain ⟨ra, hra, hrau, hinv, _⟩ := export_is_inverse_of_contract asE1 h1 p.ang hu
  obtain ⟨qa, hqa, hqau, _, _⟩ := import_is_inverse_of_contract asE2 h2 ra hrau
  have hp1 : ∀ F, exportFed p.ang = some F → eulerMat Gen.C03.exportToSeq (asE1 F) = some F := by
    intro F hF
    obtain ⟨F0, hF0, hR⟩ := exportFed_isRot p.ang hu
    have : F = F0 := Option.some.inj (hF.symm.trans hF0)
    subst this; exact (h1 _ hR).2
  have hp2 : ∀ r F, exportAngles asE1 p.ang = some r → importFed r = some F → eulerMat Gen.C03.importToSeq (asE2 F) = some F := by
    intro r F hr hF
    have : r = ra := Option.some.inj (hr.symm.trans hra)
    subst this
    obtain ⟨F0, hF0, hR⟩ := importFed_isRot r hrau
    have : F = F0 := Option.some.inj (hF.symm.trans hF0)
    subst this; exact (h2 _ hR).2
  obtain ⟨r, q, hr, hq, hpos, hrot⟩ := export_import_pose asE1 asE2 v px p hp1 hp2
  obtain ⟨r', hr', c1, c2, c3, o1, o2, o3⟩ := export_coord asE1 p
  have er : r' = r := Option.some.inj (hr'.symm.trans hr)
  subst er
  have hrang : r'.ang = ra := by
    have := hr'
    simp only [exportPose, exportCoord, exportOrigin, Gen.C03.coordOp, Gen.C03.exportOriginZero, hra] at this
    have := Option.some.inj this
    rw [← this]
  have hqang : q.ang = qa := by
    have := hq
    simp only [importPose, import_shift_total, hrang, hqa] at this
    have := Option.some.inj this
    rw [← this]
  refine ⟨r', q, hr, hq, hpos, hrot, by rw [hqang]; exact hqau, ?_, c1, c2, c3, o1, o2, o3⟩
  show relionMat r'.ang * particleMat p.ang = M3.one
  rw [hrang]; exact hinv

section real

/-- **the contract is met over ℝ**, for both sequences the code uses, by explicit extractors (non-vacuity of `EulerOK`,
and of every `hpost` hypothesis above, for all rotations at once) -/
theorem eulerOK_real : EulerOK Gen.C03.exportToSeq zyzR ∧ EulerOK Gen.C03.importToSeq zxzR :=
  ⟨fun F hF => ⟨(zyzR_post F hF).1, (zyzR_post F hF).2.2⟩, fun F hF => ⟨(zxzR_post F hF).1, (zxzR_post F hF).2.2⟩⟩

/-- **export over ℝ, no assumption on the Euler service**: every particle with unit (phi, theta, psi) is exported with
unit RELION angles whose ZYZ rotation is the inverse of the particle's zxz rotation -/
theorem export_is_inverse_real (ang : Ang3 ℝ) (hu : ang.Unit) :
    ∃ r, exportAngles zyzR ang = some r ∧ r.Unit ∧
      relionMat r * particleMat ang = M3.one ∧ particleMat ang * relionMat r = M3.one :=
  export_is_inverse_of_contract zyzR eulerOK_real.1 ang hu

/-- **import over ℝ, no assumption on the Euler service** -/
theorem import_is_inverse_real (rln : Ang3 ℝ) (hu : rln.Unit) :
    ∃ q, importAngles zxzR rln = some q ∧ q.Unit ∧
      particleMat q * relionMat rln = M3.one ∧ relionMat rln * particleMat q = M3.one :=
  import_is_inverse_of_contract zxzR eulerOK_real.2 rln hu

/-- **export followed by import over ℝ returns every particle to the same position and orientation** — every version
number, every pixel size (also 0: the exported origin is 0), every position and shift, every orientation given by unit
angles; no hypothesis about the Euler service -/
theorem export_import_pose_real (v : Nat) (px : ℝ) (p : Pose ℝ) (hu : p.ang.Unit) :
    ∃ r q, exportPose zyzR p = some r ∧ importPose zxzR v px r = some q ∧
      q.position = p.position ∧ q.rotation = p.rotation ∧ q.ang.Unit ∧
      r.rotation * p.rotation = M3.one ∧ r.cx = p.x + p.sx ∧ r.cy = p.y + p.sy ∧ r.cz = p.z + p.sz ∧
      r.ox = 0 ∧ r.oy = 0 ∧ r.oz = 0 :=
  export_import_pose_of_contract zyzR zxzR eulerOK_real.1 eulerOK_real.2 v px p hu

/-- **the same in degrees, hypothesis-free**: for ALL real (phi, theta, psi) in degrees — any range, gimbal lock
included — and all positions, shifts, versions and pixel sizes there are RELION angles (rot, tilt, psi) in degrees and
re-imported angles (phi', theta', psi') in degrees such that the export row is the model's export of the particle, its
ZYZ rotation is the inverse of the particle's zxz rotation, and the re-imported particle has the same position and
the same rotation matrix -/
theorem export_import_pose_degrees (v : Nat) (px x y z sx sy sz phi theta psi : ℝ) :
    ∃ (rot tilt rpsi phi' theta' psi' : ℝ) (r : RPose ℝ) (q : Pose ℝ),
      exportPose zyzR ⟨x, y, z, sx, sy, sz, ang3R phi theta psi⟩ = some r ∧ r.ang = ang3R rot tilt rpsi ∧
      relionMat (ang3R rot tilt rpsi) * particleMat (ang3R phi theta psi) = M3.one ∧
      importPose zxzR v px r = some q ∧ q.ang = ang3R phi' theta' psi' ∧
      q.position = ⟨x + sx, y + sy, z + sz⟩ ∧ particleMat (ang3R phi' theta' psi') = particleMat (ang3R phi theta psi) := by
  obtain ⟨r, q, hr, hq, hpos, hrot, hqu, hinv, _⟩ :=
    export_import_pose_real v px ⟨x, y, z, sx, sy, sz, ang3R phi theta psi⟩ (ang3R_unit phi theta psi)
  obtain ⟨ra, hra, hrau, _⟩ := export_is_inverse_real (ang3R phi theta psi) (ang3R_unit phi theta psi)
  have hrang : r.ang = ra := by
    have := hr
    simp only [exportPose, exportCoord, exportOrigin, Gen.C03.coordOp, Gen.C03.exportOriginZero, hra] at this
    have := Option.some.inj this
    rw [← this]
  obtain ⟨rot, tilt, rpsi, e1⟩ := ang3R_surj r.ang (by rw [hrang]; exact hrau)
  obtain ⟨a, b, c, e2⟩ := ang3R_surj q.ang hqu
  refine ⟨rot, tilt, rpsi, a, b, c, r, q, hr, e1.symm, ?_, hq, e2.symm, hpos, ?_⟩
  · rw [e1]; exact hinv
  · rw [e2]; exact hrot

end real

/-! ### non-vacuity: every hypothesis above is met by concrete inputs -/

/-- a quarter turn: cos 0, sin 1; the scipy post-condition is met by an explicit extractor on this input
(the extractor is constant, so `∀ F, exportFed ang = some F → …` holds for it) -/
example : (⟨⟨0, 1⟩, ⟨0, 1⟩, ⟨1, 0⟩⟩ : Ang3 Int).Unit := by simp [Ang3.Unit, Ang.Unit]
example : let ang : Ang3 Int := ⟨⟨0, 1⟩, ⟨0, 1⟩, ⟨1, 0⟩⟩     -- phi = 90°, theta = 90°, psi = 0°
    let asE : M3 Int → Ang3 Int := fun _ => ⟨⟨1, 0⟩, ⟨0, 1⟩, ⟨0, 1⟩⟩   -- ZYZ(0°, 90°, 90°)
    (exportFed ang).isSome = true ∧ eulerMat Gen.C03.exportToSeq (asE M3.one) = exportFed ang ∧
    (exportAngles asE ang).map (fun r => relionMat r * particleMat ang) = some M3.one := by decide
/-- gimbal lock (theta = 0): phi = 90°, psi = 90° -/
example : let ang : Ang3 Int := ⟨⟨0, 1⟩, ⟨1, 0⟩, ⟨0, 1⟩⟩
    let asE : M3 Int → Ang3 Int := fun _ => ⟨⟨-1, 0⟩, ⟨1, 0⟩, ⟨1, 0⟩⟩   -- ZYZ(180°, 0°, 0°)
    (exportFed ang).isSome = true ∧ eulerMat Gen.C03.exportToSeq (asE M3.one) = exportFed ang ∧
    (exportAngles asE ang).map (fun r => relionMat r * particleMat ang) = some M3.one := by decide
example : let rln : Ang3 Int := ⟨⟨1, 0⟩, ⟨0, 1⟩, ⟨0, 1⟩⟩
    let asE : M3 Int → Ang3 Int := fun _ => ⟨⟨1, 0⟩, ⟨0, 1⟩, ⟨0, 1⟩⟩   -- zxz(0°, 90°, 90°)
    (importFed rln).isSome = true ∧ eulerMat Gen.C03.importToSeq (asE M3.one) = importFed rln ∧
    (importAngles asE rln).map (fun q => particleMat q * relionMat rln) = some M3.one := by decide
/-- the model fails (instead of defaulting) on what scipy / numpy reject -/
example : eulerMat ['Z', 'x', 'Z'] (⟨⟨1, 0⟩, ⟨1, 0⟩, ⟨1, 0⟩⟩ : Ang3 Int) = none ∧
    eulerMat ['Z', 'Q', 'Z'] (⟨⟨1, 0⟩, ⟨1, 0⟩, ⟨1, 0⟩⟩ : Ang3 Int) = none ∧
    eulerMat ['Z', 'Y'] (⟨⟨1, 0⟩, ⟨1, 0⟩, ⟨1, 0⟩⟩ : Ang3 Int) = none ∧
    applySlots [("a", true, 0), ("b", false, 3), ("c", true, 2)] (⟨⟨1, 0⟩, ⟨1, 0⟩, ⟨1, 0⟩⟩ : Ang3 Int) = none ∧
    applySlots [("a", true, 0)] (⟨⟨1, 0⟩, ⟨1, 0⟩, ⟨1, 0⟩⟩ : Ang3 Int) = none ∧ cmpVer "!=" 31 31 = none := by decide
example : 31 ≤ 40 ∧ (2 : Rat) ≠ 0 := ⟨by decide, by decide⟩
example : renumber [2, 2, 1, 2, 1, 1] = [2, 4, 5, 6, 7, 9] := by decide
example : importSubtomoIds [7, 7, 9] none = [1, 2, 3] ∧ importSubtomoIds [4, 5, 6] (some [2, 1, 1]) = [2, 3, 5] ∧
    importSubtomoIds [4, 5, 6] (some [2, 2, 2]) = [2, 4, 6] := by decide
example : importIdents 31 [⟨none, "/d/TS_007_0012_2.5A.mrc".toList, 3⟩, ⟨none, "/d/TS_009_0012_2.5A.mrc".toList, 1⟩] (some [2, 2])
    = some ⟨[7, 9], [2, 4], [12, 12], [3, 1]⟩ ∧
    importIdents 40 [⟨none, "TS_007/0012".toList, 3⟩, ⟨some "TS_011".toList, "x9/y/13".toList, 1⟩] none
    = some ⟨[7, 11], [12, 13], [12, 13], [3, 1]⟩ ∧
    importIdents 31 [⟨none, "nonumber".toList, 3⟩] none = none := by decide
example : sniffVersion ["rlnCoordinateX", "rlnTomoParticleName"] = 40 ∧ sniffVersion ["rlnMicrographName", "rlnOriginX"] = 30 ∧
    sniffVersion ["rlnImageName", "rlnOriginX"] = 31 := by decide
example : Sep ['_'] := ⟨by decide, by decide⟩
example : NotHead 'x' ['_'] ∧ NotHead 'y' ['_', '2', '.', '5', 'A'] :=
  ⟨Or.inr ⟨'_', [], rfl, by decide⟩, Or.inr ⟨'_', _, rfl, by decide⟩⟩
example : tomoName "/path/to/tomo/TS_$xxxx.rec".toList 5 = some "/path/to/tomo/TS_0005.rec".toList ∧
    parseTomo "/path/to/tomo/TS_0005.rec".toList = some 5 ∧ NotHead 'x' ".rec".toList := by
  refine ⟨by decide, by decide, Or.inr ⟨'.', _, rfl, by decide⟩⟩
example : subName "/p/$xxx_$yyyy_2.5A.mrc".toList 12 8 = some "/p/012_0008_2.5A.mrc".toList ∧
    parseTomo "/p/012_0008_2.5A.mrc".toList = some 12 ∧ parseSub 31 "/p/012_0008_2.5A.mrc".toList = some 8 ∧
    subName "TS_$xx/$y".toList 5 123 = some "TS_05/123".toList ∧ parseSub 40 "TS_05/123".toList = some 123 ∧
    tomoName "/d/$xxxx/$xxxx_$xx.rec".toList 7 = some "/d/0007/0007_$xx.rec".toList := by decide

end CryoCat.C03
