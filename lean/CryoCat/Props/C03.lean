import CryoCat.Lemmas.C03
import CryoCat.Lemmas.C03_Ids
import CryoCat.Lemmas.C03_Fmt
/-! C03 — RELION ↔ cryoCAT conversion preserves each particle's pose and identity: property theorems
about `Model/C03` (the definitions the driver executes), translator obligations about `Gen/C03`. -/
namespace CryoCat.C03
open CryoCat
variable {α : Type}

/-! ### translator obligations: what the source says today is the documented convention -/

theorem anchors_ok : Gen.C03.anchorsOk = true := by decide

/-- `convert_angles_to_relion`: `from_euler("ZXZ", [phi, theta, psi])`, `as_euler("ZYZ")`,
rot = −a, tilt = b, psi = −c -/
theorem export_call_documented :
    Gen.C03.exportAngleSource = ["phi", "theta", "psi"] ∧ Gen.C03.exportFromSeq = ['Z', 'X', 'Z'] ∧
    Gen.C03.exportToSeq = ['Z', 'Y', 'Z'] ∧
    Gen.C03.exportSlots = [("rlnAngleRot", true, 0), ("rlnAngleTilt", false, 1), ("rlnAnglePsi", true, 2)] := by
  decide

/-- `convert_angles_from_relion`: `from_euler("ZYZ", [rot, tilt, psi])`, `as_euler("zxz")`,
phi = −e₂, theta = −e₁, psi = −e₀ -/
theorem import_call_documented :
    Gen.C03.importAngleSource = ["rlnAngleRot", "rlnAngleTilt", "rlnAnglePsi"] ∧
    Gen.C03.importFromSeq = ['Z', 'Y', 'Z'] ∧ Gen.C03.importToSeq = ['z', 'x', 'z'] ∧
    Gen.C03.importSlots = [("phi", true, 2), ("theta", true, 1), ("psi", true, 0)] := by
  decide

/-! ### orientation -/
section ring
variable [CommRing α]

/-- **Export angles.** Whatever triple scipy's `as_euler("ZYZ")` returns for the matrix it was given
(only its post-condition is assumed), the exported (rot, tilt, psi), read as RELION's intrinsic ZYZ rotation,
is exactly the transpose of the particle's zxz rotation matrix — for every orientation (gimbal lock and
non-canonical angles included: nothing is assumed about the angles at all). -/
theorem export_is_transpose (asEuler : M3 α → Ang3 α) (ang : Ang3 α)
    (hpost : eulerMat Gen.C03.exportToSeq (asEuler (exportFed ang)) = exportFed ang) :
    relionMat (exportAngles asEuler ang) = (particleMat ang).transpose := by
  have h1 : exportFed ang = eulerMat ['Z', 'X', 'Z'] ang := rfl
  have h2 : Gen.C03.exportToSeq = ['Z', 'Y', 'Z'] := rfl
  rw [h2, h1, eulerMat_ZYZ, eulerMat_ZXZ] at hpost
  have h3 : exportAngles asEuler ang
      = ⟨(asEuler (eulerMat ['Z', 'X', 'Z'] ang)).a.neg, (asEuler (eulerMat ['Z', 'X', 'Z'] ang)).b,
         (asEuler (eulerMat ['Z', 'X', 'Z'] ang)).c.neg⟩ := rfl
  rw [h3, relionMat_eq, particleMat_eq]
  simp only [Ang.neg, eulerMat_ZXZ]
  rw [ZYZ_neg_outer, hpost, Qy_ZXZ]

/-- **Export angles give the inverse rotation** (the statement of the property): for angles with
`c² + s² = 1`, RELION's rotation times the particle's rotation is the identity, on both sides. -/
theorem export_is_inverse (asEuler : M3 α → Ang3 α) (ang : Ang3 α) (hu : ang.Unit)
    (hpost : eulerMat Gen.C03.exportToSeq (asEuler (exportFed ang)) = exportFed ang) :
    relionMat (exportAngles asEuler ang) * particleMat ang = M3.one ∧
    particleMat ang * relionMat (exportAngles asEuler ang) = M3.one := by
  obtain ⟨ha, hb, hc⟩ := hu
  rw [export_is_transpose asEuler ang hpost, particleMat_eq]
  exact ⟨zxz_orth _ _ _ _ _ _ ha hb hc, zxz_mul_transpose _ _ _ _ _ _ ha hb hc⟩

/-- **Import angles.** From the post-condition of `as_euler("zxz")` alone, the stored (phi, theta, psi)
describe exactly the transpose of RELION's ZYZ rotation matrix. -/
theorem import_is_transpose (asEuler : M3 α → Ang3 α) (rln : Ang3 α)
    (hpost : eulerMat Gen.C03.importToSeq (asEuler (importFed rln)) = importFed rln) :
    particleMat (importAngles asEuler rln) = (relionMat rln).transpose := by
  have h1 : importFed rln = eulerMat ['Z', 'Y', 'Z'] rln := rfl
  have h2 : Gen.C03.importToSeq = ['z', 'x', 'z'] := rfl
  rw [h2, h1, eulerMat_zxz] at hpost
  have h3 : importAngles asEuler rln
      = ⟨(asEuler (eulerMat ['Z', 'Y', 'Z'] rln)).c.neg, (asEuler (eulerMat ['Z', 'Y', 'Z'] rln)).b.neg,
         (asEuler (eulerMat ['Z', 'Y', 'Z'] rln)).a.neg⟩ := rfl
  rw [h3, particleMat_eq, relionMat]
  simp only [Ang.neg]
  rw [← zxz_transpose, hpost]

/-- **Import angles give the inverse rotation.** -/
theorem import_is_inverse (asEuler : M3 α → Ang3 α) (rln : Ang3 α) (hu : rln.Unit)
    (hpost : eulerMat Gen.C03.importToSeq (asEuler (importFed rln)) = importFed rln) :
    particleMat (importAngles asEuler rln) * relionMat rln = M3.one ∧
    relionMat rln * particleMat (importAngles asEuler rln) = M3.one := by
  obtain ⟨ha, hb, hc⟩ := hu
  rw [import_is_transpose asEuler rln hpost, relionMat_eq]
  exact ⟨ZYZ_orth _ _ _ _ _ _ ha hb hc, ZYZ_mul_transpose _ _ _ _ _ _ ha hb hc⟩

/-- **Export followed by import returns the same orientation** (as a rotation matrix, exactly), for
any two Euler-angle extractors that meet their post-conditions. -/
theorem export_import_orientation (asE1 asE2 : M3 α → Ang3 α) (ang : Ang3 α)
    (h1 : eulerMat Gen.C03.exportToSeq (asE1 (exportFed ang)) = exportFed ang)
    (h2 : eulerMat Gen.C03.importToSeq (asE2 (importFed (exportAngles asE1 ang))) = importFed (exportAngles asE1 ang)) :
    particleMat (importAngles asE2 (exportAngles asE1 ang)) = particleMat ang := by
  rw [import_is_transpose asE2 _ h2, export_is_transpose asE1 ang h1, M3.transpose_transpose]

end ring

/-! ### position, shifts, versions -/

/-- the three column lists of `RelionMotl` are the documented RELION 3.0 / 3.1 / 4.0 tables -/
theorem columns_documented :
    Gen.C03.columnsV30 = ["rlnMicrographName", "rlnCoordinateX", "rlnCoordinateY", "rlnCoordinateZ", "rlnAngleRot",
      "rlnAngleTilt", "rlnAnglePsi", "rlnImageName", "rlnPixelSize", "rlnRandomSubset", "rlnOriginX", "rlnOriginY",
      "rlnOriginZ", "rlnClassNumber"] ∧
    Gen.C03.columnsV31 = ["rlnMicrographName", "rlnCoordinateX", "rlnCoordinateY", "rlnCoordinateZ", "rlnAngleRot",
      "rlnAngleTilt", "rlnAnglePsi", "rlnImageName", "rlnPixelSize", "rlnOpticsGroup", "rlnGroupNumber",
      "rlnOriginXAngst", "rlnOriginYAngst", "rlnOriginZAngst", "rlnClassNumber", "rlnRandomSubset"] ∧
    Gen.C03.columnsV4 = ["rlnCoordinateX", "rlnCoordinateY", "rlnCoordinateZ", "rlnAngleRot", "rlnAngleTilt",
      "rlnAnglePsi", "rlnTomoName", "rlnTomoParticleName", "rlnRandomSubset", "rlnOpticsGroup", "rlnOriginXAngst",
      "rlnOriginYAngst", "rlnOriginZAngst", "rlnGroupNumber", "rlnClassNumber"] := by
  decide

/-- coordinates, class and shift columns are paired as documented, in both directions -/
theorem column_pairs_documented :
    Gen.C03.coordColumns = ["rlnCoordinateX", "rlnCoordinateY", "rlnCoordinateZ"] ∧
    Gen.C03.coordTerms = [["x", "y", "z"], ["shift_x", "shift_y", "shift_z"]] ∧
    Gen.C03.importCoordPairs = [("x", "rlnCoordinateX"), ("y", "rlnCoordinateY"), ("z", "rlnCoordinateZ")] ∧
    Gen.C03.shiftFields = ["shift_x", "shift_y", "shift_z"] ∧
    Gen.C03.classPair = ("class", "rlnClassNumber") := by
  decide

/-- version dispatch of `get_version_specific_names`: ≤ 3.0 → pixel origins, `data_`; 3.1 → Ångström origins,
`data_particles`, micrograph/image names; everything above → Ångström origins, `data_particles`, tomo names.
For every version number (in tenths), not only the three tested ones. -/
theorem version_names (v : Nat) :
    versionNames v = some
      (if v ≤ 30 then ⟨"rlnMicrographName", "rlnImageName", ["rlnOriginX", "rlnOriginY", "rlnOriginZ"], "data_"⟩
       else if v = 31 then ⟨"rlnMicrographName", "rlnImageName", ["rlnOriginXAngst", "rlnOriginYAngst", "rlnOriginZAngst"], "data_particles"⟩
       else ⟨"rlnTomoName", "rlnTomoParticleName", ["rlnOriginXAngst", "rlnOriginYAngst", "rlnOriginZAngst"], "data_particles"⟩) := by
  simp only [versionNames, Gen.C03.nameBranches, versionNamesIn, cmpVer]
  by_cases h1 : v ≤ 30
  · simp [h1]
  · by_cases h2 : v = 31
    · simp [h2]
    · simp [h1, h2]

/-- the file-version detection table of `get_version_from_file` -/
theorem file_versions_documented :
    Gen.C03.fileVersions = [("data_", 30), ("data_particles+tomo", 40), ("data_particles", 31)] := by decide

/-- the half-set renumbering loop of `parse_subtomo_id` is, statement for statement, the loop that `renumber` /
`renumberStep` model (normalised source text; any edit of the loop breaks this obligation) -/
theorem renumber_loop_documented :
    Gen.C03.renumberSkeleton =
      ["'rlnRandomSubset'inrelion_df.columnsandrelion_df['rlnRandomSubset'].isin([1,2]).all()",
       "halfset_num=relion_df['rlnRandomSubset'].values%2", "c=1ifhalfset_num[0]==1else2", "subtomo_id_num=[c]",
       "foriinrange(1,self.df.shape[0]):;ifc%2==1andhalfset_num[i]==1or(c%2==0andhalfset_num[i]==0):;c+=2;else:;c+=1;subtomo_id_num.append(c)",
       "self.df['subtomo_id']=subtomo_id_num"] := by rfl

/-- where the numbers sit in a name: first number = tomogram, second = subtomogram (≤ 3.1), whole last
component = subtomogram (≥ 4.0); half-set table: even → 2, odd → 1; export writes zero origins and adds
the shift to the position; import negates the origin and divides it by the pixel size from 3.1 on -/
theorem scalar_anchors_documented :
    Gen.C03.tomoNumberIndex = 0 ∧ Gen.C03.subtomoNumberIndex = 1 ∧ Gen.C03.subtomoWholeCmp = ">=" ∧
    Gen.C03.subtomoWholeThr = 40 ∧ Gen.C03.halfsetByParity = [(0, 2), (1, 1)] ∧ Gen.C03.exportOriginZero = true ∧
    Gen.C03.coordAdds = true ∧ Gen.C03.shiftNegated = true ∧ Gen.C03.shiftScaleCmp = ">=" ∧
    Gen.C03.shiftScaleThr = 31 ∧ Gen.C03.shiftScaleDivides = true := by decide

/-- origins are in Ångström exactly for version ≥ 3.1 -/
theorem origin_in_angstrom_iff (v : Nat) : originInAngstrom v = true ↔ 31 ≤ v := by
  simp [originInAngstrom, cmpVer, Gen.C03.shiftScaleCmp, Gen.C03.shiftScaleThr]

section field
variable [Field α]

/-- **Export position**: rlnCoordinate is the complete position x + shift, the origin shift is zero -/
theorem export_coord (asEuler : M3 α → Ang3 α) (p : Pose α) :
    (exportPose asEuler p).cx = p.x + p.sx ∧ (exportPose asEuler p).cy = p.y + p.sy ∧
    (exportPose asEuler p).cz = p.z + p.sz ∧
    (exportPose asEuler p).ox = 0 ∧ (exportPose asEuler p).oy = 0 ∧ (exportPose asEuler p).oz = 0 := by
  simp [exportPose, exportCoord, exportOrigin, Gen.C03.coordAdds, Gen.C03.exportOriginZero]

/-- **Import shift**, RELION 3.0 (pixels): shift = −origin -/
theorem import_shift_pixels (v : Nat) (hv : v ≤ 30) (px o : α) : importShift v px o = -o := by
  have : originInAngstrom v = false := by
    rw [← Bool.not_eq_true, origin_in_angstrom_iff]; omega
  simp [importShift, this, Gen.C03.shiftNegated]

/-- **Import shift**, RELION ≥ 3.1 (Ångström): shift = −origin / pixel size, i.e. shift · px = −origin -/
theorem import_shift_angstrom (v : Nat) (hv : 31 ≤ v) (px o : α) (hpx : px ≠ 0) :
    importShift v px o = -o / px ∧ importShift v px o * px = -o := by
  have : originInAngstrom v = true := (origin_in_angstrom_iff v).2 hv
  have h : importShift v px o = -o / px := by
    simp [importShift, this, Gen.C03.shiftNegated, Gen.C03.shiftScaleDivides]
  exact ⟨h, by rw [h, div_mul_cancel₀ _ hpx]⟩

/-- **Import position**: x, y, z are the RELION coordinates -/
theorem import_coord (asEuler : M3 α → Ang3 α) (v : Nat) (px : α) (r : RPose α) :
    (importPose asEuler v px r).x = r.cx ∧ (importPose asEuler v px r).y = r.cy ∧ (importPose asEuler v px r).z = r.cz :=
  ⟨rfl, rfl, rfl⟩

/-- **Export followed by import returns every particle to the same position and orientation** —
exactly, in exact arithmetic, for every version and every pixel size (the exported origin is 0, so even a
zero pixel size is harmless), for any Euler-angle extractors meeting their post-conditions. -/
theorem export_import_pose (asE1 asE2 : M3 α → Ang3 α) (v : Nat) (px : α) (p : Pose α)
    (h1 : eulerMat Gen.C03.exportToSeq (asE1 (exportFed p.ang)) = exportFed p.ang)
    (h2 : eulerMat Gen.C03.importToSeq (asE2 (importFed (exportAngles asE1 p.ang))) = importFed (exportAngles asE1 p.ang)) :
    (importPose asE2 v px (exportPose asE1 p)).position = p.position ∧
    (importPose asE2 v px (exportPose asE1 p)).rotation = p.rotation := by
  constructor
  · have hs : importShift v px (0 : α) = 0 := by
      unfold importShift; simp
    simp [importPose, exportPose, Pose.position, exportCoord, exportOrigin, Gen.C03.coordAdds,
      Gen.C03.exportOriginZero, hs]
  · exact export_import_orientation asE1 asE2 p.ang h1 h2

end field

/-! ### identity: half-sets, renumbering, numbers in generated names -/

/-- **half-set 1 ⇔ odd, half-set 2 ⇔ even subtomogram number** (export) -/
theorem halfset_parity (id : Nat) :
    (halfsetOf id = 1 ↔ id % 2 = 1) ∧ (halfsetOf id = 2 ↔ id % 2 = 0) := by
  rcases Nat.mod_two_eq_zero_or_one id with h | h <;>
    simp [halfsetOf, Gen.C03.halfsetByParity, h, List.lookup]

/-- **half-set renumbering on import**, for every half-set column: one new id per particle, starting at
1 or 2, strictly increasing in row order (hence unique), at most 2·n, and id odd ⇔ half-set odd. -/
theorem renumber_spec (hs : List Nat) :
    (renumber hs).length = hs.length ∧ (renumber hs).map (· % 2) = hs.map (· % 2) ∧
    (renumber hs).Pairwise (· < ·) ∧ (∀ i ∈ renumber hs, 1 ≤ i ∧ i ≤ 2 * hs.length) := by
  cases hs with
  | nil => simp [renumber]
  | cons h t =>
    have hc : (if h % 2 = 1 then 1 else 2) % 2 = h % 2 := by
      rcases Nat.mod_two_eq_zero_or_one h with hh | hh <;> simp [hh]
    refine ⟨by simp [renumber, renumberFrom_length], ?_, ?_, ?_⟩
    · simp only [renumber, List.map_cons, renumberFrom_parity, hc]
    · simp only [renumber, List.pairwise_cons]
      exact ⟨renumberFrom_gt _ t, renumberFrom_pairwise _ t⟩
    · intro i hi
      simp only [renumber, List.mem_cons] at hi
      rcases hi with rfl | hi
      · simp only [List.length_cons]; split <;> omega
      · have h1 := renumberFrom_gt _ t i hi
        have h2 := renumberFrom_le _ t i hi
        simp only [List.length_cons]
        split at h1 <;> split at h2 <;> omega

/-- re-exporting the renumbered ids reproduces the half-set column (values 1 / 2) -/
theorem renumber_halfset (hs : List Nat) (h12 : ∀ h ∈ hs, h = 1 ∨ h = 2) : (renumber hs).map halfsetOf = hs := by
  have hp := (renumber_spec hs).2.1
  have hl := (renumber_spec hs).1
  apply List.ext_getElem (by simpa using hl)
  intro i h1 h2
  have hi : i < hs.length := h2
  have hi' : i < (renumber hs).length := by omega
  have e : (renumber hs)[i] % 2 = hs[i] % 2 := by
    have := congrArg (fun l => l[i]?) hp
    simpa [hi, hi'] using this
  rw [List.getElem_map]
  rcases h12 _ (List.getElem_mem hi) with h | h
  · rw [h] at e ⊢; exact (halfset_parity _).1.2 (by omega)
  · rw [h] at e ⊢; exact (halfset_parity _).2.2 (by omega)

/-- **half-sets on import**: whenever the half-set column holds only 1s and 2s (one value or both, any
number of particles ≥ 0), the imported subtomo ids are strictly increasing (unique) and exporting them again
reproduces the half-set column: half-set 1 ⇔ odd, half-set 2 ⇔ even. -/
theorem import_ids_halfset (parsed hs : List Nat) (h12 : ∀ h ∈ hs, h = 1 ∨ h = 2) :
    (importSubtomoIds parsed (some hs)).map halfsetOf = hs ∧ (importSubtomoIds parsed (some hs)).Pairwise (· < ·) := by
  have hall : hs.all (fun h => h == 1 || h == 2) = true := by
    rw [List.all_eq_true]; intro h hh
    rcases h12 h hh with rfl | rfl <;> rfl
  simp only [importSubtomoIds, hall, if_true]
  exact ⟨renumber_halfset hs h12, (renumber_spec hs).2.2.1⟩

/-- **zero padding does not change the number**: `int(str(n).zfill(k)) = n` -/
theorem zfill_parse (k n : Nat) : Nat.ofDigitChars 10 (zfill k (Nat.toDigits 10 n)) 0 = n :=
  decode_zfill_toDigits k n

/-- **tomogram and subtomogram numbers survive in RELION ≤ 3.1 names.** Any generated name of the documented
shape `dir/ pre <tomo, padded> mid <subtomo, padded> suf` (no digit in `pre`, a non-empty digit-free
separator `mid`, `suf` empty or starting with a non-digit, no slash after `dir/`) is parsed back to
exactly (tomo, subtomo), for every padding width and every pair of numbers. -/
theorem names_parse_v3 (dir pre mid suf : List Char) (kx ky tomo sub v : Nat) (hv : v < 40)
    (hpre : ∀ c ∈ pre, c.isDigit = false) (hmid : Sep mid)
    (hsuf : suf = [] ∨ ∃ c t, suf = c :: t ∧ c.isDigit = false)
    (hslash : ∀ c ∈ pre ++ mid ++ suf, c ≠ '/') :
    let name := dir ++ '/' :: (pre ++ zfill kx (Nat.toDigits 10 tomo) ++ mid ++ zfill ky (Nat.toDigits 10 sub) ++ suf)
    parseTomo name = some tomo ∧ parseSub v name = some sub := by
  intro name
  have hdig : ∀ k n, ∀ c ∈ zfill k (Nat.toDigits 10 n), c ≠ '/' := by
    intro k n c hc e
    have := zfill_allDigits k _ (toDigits_allDigits n) c hc
    rw [e] at this; exact absurd this (by decide)
  have hlc : lastComponent name
      = pre ++ zfill kx (Nat.toDigits 10 tomo) ++ mid ++ zfill ky (Nat.toDigits 10 sub) ++ suf := by
    apply lastComponent_dir
    intro c hc
    simp only [List.mem_append] at hc hslash
    rcases hc with (((hc | hc) | hc) | hc) | hc
    · exact hslash c (Or.inl (Or.inl hc))
    · exact hdig _ _ c hc
    · exact hslash c (Or.inl (Or.inr hc))
    · exact hdig _ _ c hc
    · exact hslash c (Or.inr hc)
  obtain ⟨more, hn⟩ := numbers_two pre (zfill kx (Nat.toDigits 10 tomo)) mid (zfill ky (Nat.toDigits 10 sub)) suf hpre
    (zfill_ne_nil _ _ Nat.toDigits_ne_nil) (zfill_allDigits _ _ (toDigits_allDigits _)) hmid
    (zfill_ne_nil _ _ Nat.toDigits_ne_nil) (zfill_allDigits _ _ (toDigits_allDigits _)) hsuf
  rw [decode_zfill_toDigits, decode_zfill_toDigits] at hn
  have hcmp : cmpVer Gen.C03.subtomoWholeCmp v Gen.C03.subtomoWholeThr = false := by
    simp [cmpVer, Gen.C03.subtomoWholeCmp, Gen.C03.subtomoWholeThr]; omega
  constructor
  · show (numbers (lastComponent name))[Gen.C03.tomoNumberIndex]? = some tomo
    rw [hlc, hn]; rfl
  · unfold parseSub
    rw [if_neg (not_numeric_of_slash dir _)]
    simp only [hlc, hcmp, Bool.false_eq_true, if_false]
    rw [hn]; rfl

/-- **generated RELION ≤ 3.1 names carry both numbers.** For every subtomogram format of the documented shape
`dir/ pre $x…x mid $y…y suf` (any paddings kx, ky ≥ 1; no other `$` and no slash after `dir/`; no digit in `pre`; a
non-empty digit-free separator `mid` not starting with `x`; `suf` empty or starting with neither a digit nor `y`),
`prepare_particles_data` produces a name from which `parse_tomo_id` / `parse_subtomo_id` read back exactly
(tomo, subtomo) — for all numbers, including numbers wider than the padding. -/
theorem names_generated_v3 (dir pre mid suf : List Char) (kx ky tomo sub v : Nat) (hv : v < 40) (hkx : 0 < kx) (hky : 0 < ky)
    (hpre : ∀ c ∈ pre, c.isDigit = false) (hmid : Sep mid) (hmidx : NotHead 'x' mid)
    (hsuf : suf = [] ∨ ∃ c t, suf = c :: t ∧ c.isDigit = false) (hsufy : NotHead 'y' suf)
    (hslash : ∀ c ∈ pre ++ mid ++ suf, c ≠ '/') (hdollar : ∀ c ∈ dir ++ pre ++ mid ++ suf, c ≠ '$') :
    ∃ name, subName (dir ++ '/' :: (pre ++ '$' :: (List.replicate kx 'x' ++ (mid ++ '$' :: (List.replicate ky 'y' ++ suf))))) tomo sub
        = some name ∧ parseTomo name = some tomo ∧ parseSub v name = some sub := by
  have hd : ∀ l : List Char, (∀ c ∈ l, c ∈ dir ++ pre ++ mid ++ suf) → ∀ c ∈ l, c ≠ '$' := fun l hl c hc => hdollar c (hl c hc)
  have hdig : ∀ k n, ∀ c ∈ zfill k (Nat.toDigits 10 n), c ≠ '$' := by
    intro k n c hc e
    have := zfill_allDigits k _ (toDigits_allDigits n) c hc
    rw [e] at this; exact absurd this (by decide)
  have hD : ∀ c ∈ dir ++ '/' :: pre, c ≠ '$' := by
    intro c hc
    simp only [List.mem_append, List.mem_cons] at hc
    rcases hc with hc | rfl | hc
    · exact hdollar c (by simp [hc])
    · decide
    · exact hdollar c (by simp [hc])
  have hmidD : ∀ c ∈ mid, c ≠ '$' := fun c hc => hdollar c (by simp [hc])
  have hsufD : ∀ c ∈ suf, c ≠ '$' := fun c hc => hdollar c (by simp [hc])
  -- the `$y…` pass
  have e1 : dir ++ '/' :: (pre ++ '$' :: (List.replicate kx 'x' ++ (mid ++ '$' :: (List.replicate ky 'y' ++ suf))))
      = ((dir ++ '/' :: pre) ++ '$' :: (List.replicate kx 'x' ++ mid)) ++ '$' :: (List.replicate ky 'y' ++ suf) := by
    simp [List.append_assoc]
  have p1 := fillFormat_shape 'y' (by decide) ky hky ((dir ++ '/' :: pre) ++ '$' :: (List.replicate kx 'x' ++ mid)) suf sub
    (longestSeq_other 'x' 'y' (by decide) (by decide) (by decide) kx hkx _ mid hD (longestSeq_noDollar _ _ hmidD))
    (longestSeq_noDollar _ _ hsufD) hsufy
  -- the `$x…` pass on the result
  have e2 : ((dir ++ '/' :: pre) ++ '$' :: (List.replicate kx 'x' ++ mid)) ++ zfill ky (Nat.toDigits 10 sub) ++ suf
      = (dir ++ '/' :: pre) ++ '$' :: (List.replicate kx 'x' ++ (mid ++ zfill ky (Nat.toDigits 10 sub) ++ suf)) := by
    simp [List.append_assoc]
  have hR : ∀ c ∈ mid ++ zfill ky (Nat.toDigits 10 sub) ++ suf, c ≠ '$' := by
    intro c hc
    simp only [List.mem_append] at hc
    rcases hc with (hc | hc) | hc
    · exact hmidD c hc
    · exact hdig _ _ c hc
    · exact hsufD c hc
  have hRx : NotHead 'x' (mid ++ zfill ky (Nat.toDigits 10 sub) ++ suf) := by
    rcases hmidx with hm | ⟨h, t, hm, hne⟩
    · exact absurd hm hmid.1
    · exact Or.inr ⟨h, t ++ zfill ky (Nat.toDigits 10 sub) ++ suf, by simp [hm], hne⟩
  have p2 := fillFormat_shape 'x' (by decide) kx hkx (dir ++ '/' :: pre) (mid ++ zfill ky (Nat.toDigits 10 sub) ++ suf) tomo
    (longestSeq_noDollar _ _ hD) (longestSeq_noDollar _ _ hR) hRx
  have hne : dir ++ '/' :: (pre ++ '$' :: (List.replicate kx 'x' ++ (mid ++ '$' :: (List.replicate ky 'y' ++ suf)))) ≠ [] := by simp
  refine ⟨dir ++ '/' :: (pre ++ zfill kx (Nat.toDigits 10 tomo) ++ mid ++ zfill ky (Nat.toDigits 10 sub) ++ suf), ?_,
    names_parse_v3 dir pre mid suf kx ky tomo sub v hv hpre hmid hsuf hslash⟩
  unfold subName
  rw [if_neg hne, e1, p1]
  simp only [e2, p2, Option.getD_some]
  simp [List.append_assoc]

/-- **numbers survive in RELION 4.0 names**: `pre <tomo, padded>` (e.g. `TS_007`) gives the tomogram number and
`anything/<subtomo, padded>` the subtomogram number. -/
theorem names_parse_v4 (dir pre : List Char) (kx ky tomo sub v : Nat) (hv : 40 ≤ v)
    (hpre : ∀ c ∈ pre, c.isDigit = false) (hslash : ∀ c ∈ pre, c ≠ '/') :
    parseTomo (pre ++ zfill kx (Nat.toDigits 10 tomo)) = some tomo ∧
    parseSub v (dir ++ '/' :: zfill ky (Nat.toDigits 10 sub)) = some sub := by
  have hdig : ∀ k n, ∀ c ∈ zfill k (Nat.toDigits 10 n), c ≠ '/' := by
    intro k n c hc e
    have := zfill_allDigits k _ (toDigits_allDigits n) c hc
    rw [e] at this; exact absurd this (by decide)
  constructor
  · have hlc : lastComponent (pre ++ zfill kx (Nat.toDigits 10 tomo)) = pre ++ zfill kx (Nat.toDigits 10 tomo) := by
      apply lastComponent_plain
      intro c hc
      rcases List.mem_append.1 hc with hc | hc
      · exact hslash c hc
      · exact hdig _ _ c hc
    obtain ⟨more, hn⟩ := numbers_one pre (zfill kx (Nat.toDigits 10 tomo)) [] hpre
      (zfill_ne_nil _ _ Nat.toDigits_ne_nil) (zfill_allDigits _ _ (toDigits_allDigits _)) (Or.inl rfl)
    rw [decode_zfill_toDigits, List.append_nil] at hn
    simp [parseTomo, hlc, hn, Gen.C03.tomoNumberIndex]
  · have hlc : lastComponent (dir ++ '/' :: zfill ky (Nat.toDigits 10 sub)) = zfill ky (Nat.toDigits 10 sub) :=
      lastComponent_dir _ _ (hdig _ _)
    have hcmp : cmpVer Gen.C03.subtomoWholeCmp v Gen.C03.subtomoWholeThr = true := by
      simp [cmpVer, Gen.C03.subtomoWholeCmp, Gen.C03.subtomoWholeThr]; omega
    have hall : (zfill ky (Nat.toDigits 10 sub)).all Char.isDigit = true :=
      List.all_eq_true.2 (zfill_allDigits _ _ (toDigits_allDigits _))
    unfold parseSub
    rw [if_neg (not_numeric_of_slash dir _)]
    simp [hlc, hcmp, hall, zfill_ne_nil _ _ Nat.toDigits_ne_nil, decode_zfill_toDigits]

/-- **generated RELION 4.0 names carry the numbers**: tomogram format `pre $x…x` (e.g. `TS_$xxx`) and subtomogram
format `dir/$y…y` (no `$` in `dir`) are filled and read back exactly. -/
theorem names_generated_v4 (dir pre : List Char) (kx ky tomo sub v : Nat) (hv : 40 ≤ v) (hkx : 0 < kx) (hky : 0 < ky)
    (hpre : ∀ c ∈ pre, c.isDigit = false) (hslash : ∀ c ∈ pre, c ≠ '/') (hdollar : ∀ c ∈ dir ++ pre, c ≠ '$') :
    (∃ n1, tomoName (pre ++ '$' :: List.replicate kx 'x') tomo = some n1 ∧ parseTomo n1 = some tomo) ∧
    (∃ n2, subName (dir ++ '/' :: '$' :: List.replicate ky 'y') tomo sub = some n2 ∧ parseSub v n2 = some sub) := by
  have hp := names_parse_v4 dir pre kx ky tomo sub v hv hpre hslash
  have hdig : ∀ k n, ∀ c ∈ zfill k (Nat.toDigits 10 n), c ≠ '$' := by
    intro k n c hc e
    have := zfill_allDigits k _ (toDigits_allDigits n) c hc
    rw [e] at this; exact absurd this (by decide)
  constructor
  · refine ⟨pre ++ zfill kx (Nat.toDigits 10 tomo), ?_, hp.1⟩
    have := fillFormat_shape 'x' (by decide) kx hkx pre [] tomo
      (longestSeq_noDollar _ _ (fun c hc => hdollar c (by simp [hc]))) rfl (Or.inl rfl)
    simp only [List.append_nil] at this
    unfold tomoName
    rw [if_neg (by simp), this]
  · refine ⟨dir ++ '/' :: zfill ky (Nat.toDigits 10 sub), ?_, hp.2⟩
    have hD : ∀ c ∈ dir ++ ['/'], c ≠ '$' := by
      intro c hc
      simp only [List.mem_append, List.mem_singleton] at hc
      rcases hc with hc | rfl
      · exact hdollar c (by simp [hc])
      · decide
    have p1 := fillFormat_shape 'y' (by decide) ky hky (dir ++ ['/']) [] sub (longestSeq_noDollar _ _ hD) rfl (Or.inl rfl)
    simp only [List.append_nil, List.append_assoc, List.singleton_append] at p1
    have hS : ∀ c ∈ dir ++ '/' :: zfill ky (Nat.toDigits 10 sub), c ≠ '$' := by
      intro c hc
      simp only [List.mem_append, List.mem_cons] at hc
      rcases hc with hc | rfl | hc
      · exact hdollar c (by simp [hc])
      · decide
      · exact hdig _ _ c hc
    have p2 : fillFormat (dir ++ '/' :: zfill ky (Nat.toDigits 10 sub)) 'x' tomo = none := by
      unfold fillFormat
      simp [longestSeq_noDollar _ _ hS]
    unfold subName
    rw [if_neg (by simp), p1]
    simp only [p2, Option.getD_none]

/-! ### non-vacuity: every hypothesis above is met by concrete inputs -/

/-- a quarter turn: cos 0, sin 1; the scipy post-condition is met by an explicit extractor on this input -/
example : (⟨⟨0, 1⟩, ⟨0, 1⟩, ⟨1, 0⟩⟩ : Ang3 Int).Unit := by simp [Ang3.Unit, Ang.Unit]
example : let ang : Ang3 Int := ⟨⟨0, 1⟩, ⟨0, 1⟩, ⟨1, 0⟩⟩     -- phi = 90°, theta = 90°, psi = 0°
    let asE : M3 Int → Ang3 Int := fun _ => ⟨⟨1, 0⟩, ⟨0, 1⟩, ⟨0, 1⟩⟩   -- ZYZ(0°, 90°, 90°)
    eulerMat Gen.C03.exportToSeq (asE (exportFed ang)) = exportFed ang ∧
    relionMat (exportAngles asE ang) * particleMat ang = M3.one := by decide
/-- gimbal lock (theta = 0): phi = 90°, psi = 90° -/
example : let ang : Ang3 Int := ⟨⟨0, 1⟩, ⟨1, 0⟩, ⟨0, 1⟩⟩
    let asE : M3 Int → Ang3 Int := fun _ => ⟨⟨-1, 0⟩, ⟨1, 0⟩, ⟨1, 0⟩⟩   -- ZYZ(180°, 0°, 0°)
    eulerMat Gen.C03.exportToSeq (asE (exportFed ang)) = exportFed ang ∧
    relionMat (exportAngles asE ang) * particleMat ang = M3.one := by decide
example : let rln : Ang3 Int := ⟨⟨1, 0⟩, ⟨0, 1⟩, ⟨0, 1⟩⟩
    let asE : M3 Int → Ang3 Int := fun _ => ⟨⟨1, 0⟩, ⟨0, 1⟩, ⟨0, 1⟩⟩   -- zxz(0°, 90°, 90°)
    eulerMat Gen.C03.importToSeq (asE (importFed rln)) = importFed rln ∧
    particleMat (importAngles asE rln) * relionMat rln = M3.one := by decide
example : 31 ≤ 40 ∧ (2 : Rat) ≠ 0 := ⟨by decide, by decide⟩
example : renumber [2, 2, 1, 2, 1, 1] = [2, 4, 5, 6, 7, 9] := by decide
example : importSubtomoIds [7, 7, 9] none = [1, 2, 3] ∧ importSubtomoIds [4, 5, 6] (some [2, 1, 1]) = [2, 3, 5] ∧
    importSubtomoIds [4, 5, 6] (some [2, 2, 2]) = [2, 4, 6] := by decide
example : Sep ['_'] := ⟨by decide, by decide⟩
example : NotHead 'x' ['_'] ∧ NotHead 'y' ['_', '2', '.', '5', 'A'] :=
  ⟨Or.inr ⟨'_', [], rfl, by decide⟩, Or.inr ⟨'_', _, rfl, by decide⟩⟩
example : subName "/p/$xxx_$yyyy_2.5A.mrc".toList 12 8 = some "/p/012_0008_2.5A.mrc".toList ∧
    parseTomo "/p/012_0008_2.5A.mrc".toList = some 12 ∧ parseSub 31 "/p/012_0008_2.5A.mrc".toList = some 8 ∧
    subName "TS_$xx/$y".toList 5 123 = some "TS_05/123".toList ∧ parseSub 40 "TS_05/123".toList = some 123 ∧
    tomoName "/d/$xxxx/$xxxx_$xx.rec".toList 7 = some "/d/0007/0007_$xx.rec".toList := by decide

end CryoCat.C03
