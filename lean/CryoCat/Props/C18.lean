import CryoCat.Lemmas.C18
import CryoCat.Lemmas.C18_Angle
import CryoCat.Lemmas.C18_Euler
import Mathlib.Algebra.Order.Ring.Defs
/-! C18 — nearest-neighbour analysis equals brute force and is invariant under rigid motion.
Only property theorems and non-vacuity examples; helper lemmas live in `Lemmas/C18.lean`.

The model (`Model/C18.lean`, executed by the driver at `Float`) is `nnStats`: for every common
tomogram (ascending), every rank `i < min k #candidates`, every query of the first list in list order,
one row built by `mkRow` from the query and its `i`-th nearest candidate (`knnIdx`: candidates sorted by
squared distance of complete positions, first `k`). The theorems hold over every commutative ring with a
linear order (no compatibility between the two is needed; only `distances_ascending` asks for an ordered ring, and the
theorems of the last section are over ℝ), for all lists, all `k`, all pixel sizes. -/
namespace CryoCat.C18
variable {α : Type}

/-! ### translator obligations: the expressions the model transcribes are the ones in the source today -/

theorem anchors_ok : Gen.C18.anchorsOk = true := by decide

/-- complete position = `[x,y,z] + [shift_x,shift_y,shift_z]`; angles are read as `[phi, theta, psi]` -/
theorem coordinates_documented :
    Gen.C18.coordColumns = ["x", "y", "z"] ∧ Gen.C18.shiftColumns = ["shift_x", "shift_y", "shift_z"] ∧
    Gen.C18.angleColumns = ["phi", "theta", "psi"] :=
  ⟨rfl, rfl, rfl⟩

/-- both functions loop over the common tomogram numbers and restrict BOTH lists to the tomogram; the tree
works on complete positions (`get_coordinates`) -/
theorem tomogram_subsets_documented :
    Gen.C18.subsetsDistances = "np.intersect1d(features_a,features_nn,assume_unique=True);motl_a.get_motl_subset(f,feature_id=feature);motl_nn.get_motl_subset(f,feature_id=feature)" ∧
    Gen.C18.subsetsRotations = "np.intersect1d(features_a,features_nn,assume_unique=True);motl_a.get_motl_subset(f,feature_id=feature);motl_nn.get_motl_subset(f,feature_id=feature)" ∧
    Gen.C18.treeCoordinates = "fm_a.get_coordinates();fm_nn.get_coordinates()" :=
  ⟨rfl, rfl, rfl⟩

/-- the tree is built on the second list, queried with the first, for `min(k, #candidates)` neighbours -/
theorem knn_query_documented :
    Gen.C18.nnCountExpr = "min(nn_number,coord_nn.shape[0])" ∧ Gen.C18.treeExpr = "sn.KDTree(coord_nn)" ∧
    Gen.C18.queryExpr = "kdt_nn.query(coord_a,k=nn_count)" :=
  ⟨rfl, rfl, rfl⟩

/-- the inverse orientation is `from_euler("zxz", -[psi, theta, phi])` of the QUERY particle, in both functions -/
theorem inverse_angles_documented :
    Gen.C18.invAnglesDistances = "-fm_a.df[['psi','theta','phi']].values" ∧
    Gen.C18.invAnglesRotations = "-fm_a.get_feature(['psi','theta','phi'])" ∧
    Gen.C18.invColumnsDistances = ["psi", "theta", "phi"] ∧ Gen.C18.invColumnsRotations = ["psi", "theta", "phi"] :=
  ⟨rfl, rfl, rfl, rfl⟩

/-- **column access inside the model.** The model's orientation is `from_euler("zxz", ·)` of the columns `get_angles` reads
(the regenerated `Gen.C18.angleColumns`), and the model's inverse orientation is `from_euler("zxz", ·)` of the NEGATED columns
that the two functions read today (the regenerated `Gen.C18.invColumnsDistances` / `invColumnsRotations`): reordering either
column list in the source changes the left-hand sides, not the model, and the equation stops holding. -/
theorem orientation_from_columns [CommRing α] (p : Pt α) :
    fromEuler (getFeature Gen.C18.angleColumns p) = some (rot p) ∧
    fromEuler ((getFeature Gen.C18.invColumnsDistances p).map Ang.neg) = some (rotInv p) ∧
    fromEuler ((getFeature Gen.C18.invColumnsRotations p).map Ang.neg) = some (rotInv p) :=
  ⟨rfl, rfl, rfl⟩

/-- `get_motl_subset(f, feature_id="tomo_id")` with ONE requested value — the only way `nnana` calls it — is the model's
`subset`: the particles of that tomogram in list order; for any list of values a particle is in the result iff it is in the
list and its tomogram is among the values -/
theorem motl_subset_is_filter (t : Int) (vals : List Int) (l : List (Pt α)) (p : Pt α) :
    motlSubset [t] l = subset t l ∧ (p ∈ motlSubset vals l ↔ p ∈ l ∧ p.tomo ∈ vals) :=
  ⟨motlSubset_single t l, mem_motlSubset vals l p⟩

/-- every Euler conversion in the two functions is extrinsic `"zxz"` in degrees -/
theorem euler_convention_documented :
    Gen.C18.eulerCallsDistances = ["zxz:deg", "zxz:deg", "zxz:deg"] ∧
    Gen.C18.eulerCallsRotations = ["zxz:deg", "zxz:deg", "zxz:deg"] ∧
    Gen.C18.rotationsExpr = "srot.from_euler('zxz',angles=angles_a,degrees=True);srot.from_euler('zxz',angles=angles,degrees=True);srot.from_euler('zxz',angles=angles_nn_sel,degrees=True)" :=
  ⟨rfl, rfl, rfl⟩

/-- offset = neighbour − query (both scaled by the pixel size), distance = tree distance × pixel size,
frame offset = inverse orientation applied to the offset, subtomogram numbers taken at the neighbour /
query index, relative orientation = inverse(query) * neighbour -/
theorem row_expressions_documented :
    Gen.C18.offsetExpr = "coord_nn[nn_idx[:,i],:]-coord_a[idx,:]" ∧
    Gen.C18.distanceExpr = "dist[:,i]*pixel_size" ∧
    Gen.C18.frameOffsetExpr = "rot.apply(c_coord)" ∧
    Gen.C18.angularExpr = "geom.compare_rotations(rotations,rotations_nn,rotation_type=rotation_type)" ∧
    Gen.C18.subtomoNnExpr = "subtomos_nn[nn_idx[:,i]];fm_nn.df['subtomo_id'].to_numpy()" ∧
    Gen.C18.subtomoAExpr = "subtomos_a[idx];fm_a.df['subtomo_id'].to_numpy()" ∧
    Gen.C18.pixelScalingExpr = "fm_nn.get_coordinates()*pixel_size;fm_a.get_coordinates()*pixel_size" ∧
    Gen.C18.relativeExpr = "rot_to_zero*rot_nn;srot.from_euler('zxz',angles=angles_ref_to_zero[idx,:],degrees=True);srot.from_euler('zxz',angles=angles_nn[idx_nn[:,i],:],degrees=True)" :=
  ⟨rfl, rfl, rfl, rfl, rfl, rfl, rfl, rfl⟩

/-- the 16 numeric columns of the table, their order in the `hstack`, and the defaults -/
theorem stats_columns_documented :
    Gen.C18.statsColumns = ["distance", "coord_x", "coord_y", "coord_z", "coord_rx", "coord_ry", "coord_rz",
      "angular_distance", "rot_x", "rot_y", "rot_z", "phi", "theta", "psi", "subtomo_idx", "subtomo_nn_idx"] ∧
    Gen.C18.statsDefaults = ["tomo_id", "angular_distance"] ∧
    Gen.C18.statsHstack = "(nn_dist.reshape((nn_dist.shape[0],1)),centered_coord,rotated_coord,ang_dst.reshape((nn_dist.shape[0],1)),coord_rot,angles,subtomo_idx.reshape((nn_dist.shape[0],1)),subtomo_idx_nn.reshape((nn_dist.shape[0],1)))" :=
  ⟨rfl, rfl, rfl⟩

/-- angular distance = `degrees(2·arccos(min(|q₁·q₂|, 1)))` (the dot product IS clamped to ≤ 1: without the clamp a
pair of identical orientations gives NaN in binary64), selected by
`rotation_type == 'angular_distance'`; `rot_x,y,z` is the relative rotation applied to the z axis -/
theorem angular_formula_documented :
    Gen.C18.angularFormula = "np.degrees(2*np.arccos(np.abs(np.sum(q1*q2,axis=1))))" ∧
    Gen.C18.angularDotClamp = "clamped" ∧
    Gen.C18.compareBranch = "angular_distance(angles1,angles2,c_symmetry=c_symmetry)[0];rotation_type=='angular_distance';returndist_degrees" ∧
    Gen.C18.zAxisExpr = "np.array([0.0,0.0,radius]);np.array(rotations.apply(starting_point),ndmin=2)" :=
  ⟨rfl, rfl, rfl, rfl⟩

/-! ### signature defaults (the statement's call `get_nn_stats(a, b, nn_number=k, pixel_size=px)` relies on them) and whole bodies -/

/-- the defaults of `get_nn_stats` — tomograms are told apart by `tomo_id`, the angle reported is the angular
distance, one neighbour, pixel size 1 — and of the functions it calls; `get_nn_stats` hands every one of its
arguments on BY KEYWORD to the right parameter, asks `visualize_rotations` for no plot (unit radius by default) -/
theorem defaults_documented :
    Gen.C18.sigStats = ["pixel_size=1.0", "feature_id='tomo_id'", "nn_number=1", "rotation_type='angular_distance'"] ∧
    Gen.C18.sigDistances = ["pixel_size=1.0", "nn_number=1", "feature='tomo_id'", "rotation_type='angular_distance'"] ∧
    Gen.C18.sigRotations = ["nn_number=1", "feature='tomo_id'", "type_id='geom1'"] ∧
    Gen.C18.sigIndices = ["nn_number=1"] ∧
    Gen.C18.sigGeom = ["c_symmetry=1;rotation_type='all'", "convention='zxz';degrees=True;c_symmetry=1", "plot_rotations=True;color_map=None;marker_size=20;alpha=1.0;radius=1.0"] ∧
    Gen.C18.innerCalls = ["get_nn_distances(motl_a,motl_nn,nn_number=nn_number,pixel_size=pixel_size,feature=feature_id,rotation_type=rotation_type)", "get_nn_rotations(motl_a,motl_nn,feature=feature_id,nn_number=nn_number)", "geom.visualize_rotations(nn_rotations,plot_rotations=False)", "get_feature_nn_indices(fm_a,fm_nn,nn_number);get_feature_nn_indices(fm_a,fm_nn,nn_number)"] :=
  ⟨rfl, rfl, rfl, rfl, rfl, rfl⟩

/-- the whole body of `get_feature_nn_indices` (local variables renamed by binding order to the documented names) -/
theorem body_indices_documented : Gen.C18.bodyIndices = [
  "def get_feature_nn_indices(fm_a,fm_nn,nn_number=1)",
  ".coord_a=fm_a.get_coordinates()",
  ".coord_nn=fm_nn.get_coordinates()",
  ".nn_count=min(nn_number,coord_nn.shape[0])",
  ".kdt_nn=sn.KDTree(coord_nn)",
  ".nn_dist,nn_idx=kdt_nn.query(coord_a,k=nn_count)",
  ".ordered_idx=np.arange(0,nn_idx.shape[0],1)",
  ".return(ordered_idx,nn_idx.reshape((nn_idx.shape[0],nn_count)),nn_dist.reshape((nn_idx.shape[0],nn_count)),nn_count)"] := rfl

/-- the whole body of `get_nn_distances`, including the `isinstance(·, str)` branches no case executes and the
empty-result path taken when the two lists share no tomogram (`k1_model_returns_empty`). Annotations are dropped,
message texts are written `<msg>`, every spelling of `len(X) == 0` is written that way, locals are renamed by binding
occurrence and never-read locals are written `_` — none of these can change behaviour. -/
theorem body_distances_documented : Gen.C18.bodyDistances = [
  "def get_nn_distances(motl_a,motl_nn,pixel_size=1.0,nn_number=1,feature='tomo_id',rotation_type='angular_distance')",
  ".if isinstance(motl_a,str)",
  "..motl_a=cryomotl.Motl(motl_path=motl_a)",
  ".if isinstance(motl_nn,str)",
  "..motl_nn=cryomotl.Motl(motl_path=motl_nn)",
  ".features_a=np.unique(motl_a.df.loc[:,feature].values)",
  ".features_nn=np.unique(motl_nn.df.loc[:,feature].values)",
  ".features=np.intersect1d(features_a,features_nn,assume_unique=True)",
  ".centered_coord=[]",
  ".nn_dist=[]",
  ".angular_distances=[]",
  ".rotated_coord=[]",
  ".subtomo_idx=[]",
  ".subtomo_idx_nn=[]",
  ".for f in features",
  "..fm_a=motl_a.get_motl_subset(f,feature_id=feature)",
  "..fm_nn=motl_nn.get_motl_subset(f,feature_id=feature)",
  "..idx,nn_idx,dist,nn_count=get_feature_nn_indices(fm_a,fm_nn,nn_number)",
  "..if len(idx)==0",
  "...continue",
  "..coord_nn=fm_nn.get_coordinates()*pixel_size",
  "..coord_a=fm_a.get_coordinates()*pixel_size",
  "..angles_a=fm_a.get_angles()",
  "..angles_a=angles_a[idx,:]",
  "..angles_nn=fm_nn.get_angles()",
  "..rotations=srot.from_euler('zxz',angles=angles_a,degrees=True)",
  "..angles=-fm_a.df[['psi','theta','phi']].values",
  "..angles=angles[idx,:]",
  "..rot=srot.from_euler('zxz',angles=angles,degrees=True)",
  "..subtomos_nn=fm_nn.df['subtomo_id'].to_numpy()",
  "..subtomos_a=fm_a.df['subtomo_id'].to_numpy()",
  "..for i in range(nn_count)",
  "...c_coord=coord_nn[nn_idx[:,i],:]-coord_a[idx,:]",
  "...centered_coord.append(c_coord)",
  "...nn_dist.append(dist[:,i]*pixel_size)",
  "...angles_nn_sel=angles_nn[nn_idx[:,i],:]",
  "...rotations_nn=srot.from_euler('zxz',angles=angles_nn_sel,degrees=True)",
  "...angular_distances.append(geom.compare_rotations(rotations,rotations_nn,rotation_type=rotation_type))",
  "...rotated_coord.append(rot.apply(c_coord))",
  "...subtomo_idx_nn.append(subtomos_nn[nn_idx[:,i]])",
  "...subtomo_idx.append(subtomos_a[idx])",
  ".if len(nn_dist)==0",
  "..return(np.empty((0,3)),np.empty((0,3)),np.empty(0),np.empty(0),np.empty(0),np.empty(0))",
  ".return(np.vstack(centered_coord),np.vstack(rotated_coord),np.concatenate(nn_dist),np.concatenate(angular_distances),np.concatenate(subtomo_idx),np.concatenate(subtomo_idx_nn))"] := rfl

/-- the whole body of `get_nn_rotations` -/
theorem body_rotations_documented : Gen.C18.bodyRotations = [
  "def get_nn_rotations(motl_a,motl_nn,nn_number=1,feature='tomo_id',type_id='geom1')",
  ".if isinstance(motl_a,str)",
  "..motl_a=cryomotl.Motl(motl_path=motl_a)",
  ".if isinstance(motl_nn,str)",
  "..motl_nn=cryomotl.Motl(motl_path=motl_nn)",
  ".features_a=np.unique(motl_a.df.loc[:,feature].values)",
  ".features_nn=np.unique(motl_nn.df.loc[:,feature].values)",
  ".features=np.intersect1d(features_a,features_nn,assume_unique=True)",
  ".nn_rotations=[]",
  ".for f in features",
  "..fm_a=motl_a.get_motl_subset(f,feature_id=feature)",
  "..fm_nn=motl_nn.get_motl_subset(f,feature_id=feature)",
  "..idx,idx_nn,_,nn_count=get_feature_nn_indices(fm_a,fm_nn,nn_number)",
  "..angles_nn=fm_nn.get_angles()",
  "..angles_ref_to_zero=-fm_a.get_feature(['psi','theta','phi'])",
  "..rot_to_zero=srot.from_euler('zxz',angles=angles_ref_to_zero[idx,:],degrees=True)",
  "..for i in range(nn_count)",
  "...rot_nn=srot.from_euler('zxz',angles=angles_nn[idx_nn[:,i],:],degrees=True)",
  "...nn_rotations.append(rot_to_zero*rot_nn)",
  ".if len(nn_rotations)==0",
  "..return(np.empty((0,3)),np.empty((0,3)))",
  ".nn_rotations=srot.concatenate(nn_rotations)",
  ".points_on_sphere=geom.visualize_rotations(nn_rotations,plot_rotations=False)",
  ".angles=nn_rotations.as_euler('zxz',degrees=True)",
  ".return(points_on_sphere,angles)"] := rfl

/-- the whole body of `get_nn_stats` -/
theorem body_stats_documented : Gen.C18.bodyStats = [
  "def get_nn_stats(motl_a,motl_nn,pixel_size=1.0,feature_id='tomo_id',nn_number=1,rotation_type='angular_distance')",
  ".centered_coord,rotated_coord,nn_dist,ang_dst,subtomo_idx,subtomo_idx_nn=get_nn_distances(motl_a,motl_nn,nn_number=nn_number,pixel_size=pixel_size,feature=feature_id,rotation_type=rotation_type)",
  ".coord_rot,angles=get_nn_rotations(motl_a,motl_nn,feature=feature_id,nn_number=nn_number)",
  ".nn_stats=pd.DataFrame(np.hstack((nn_dist.reshape((nn_dist.shape[0],1)),centered_coord,rotated_coord,ang_dst.reshape((nn_dist.shape[0],1)),coord_rot,angles,subtomo_idx.reshape((nn_dist.shape[0],1)),subtomo_idx_nn.reshape((nn_dist.shape[0],1)))),columns=['distance','coord_x','coord_y','coord_z','coord_rx','coord_ry','coord_rz','angular_distance','rot_x','rot_y','rot_z','phi','theta','psi','subtomo_idx','subtomo_nn_idx'])",
  ".nn_stats['type']='nn'",
  ".returnnn_stats"] := rfl

/-- the whole bodies of `geom.angular_distance` (with the `c_symmetry > 1` branch no case executes) and
`geom.compare_rotations` (with the other `rotation_type` branches) -/
theorem body_geom_documented :
    Gen.C18.bodyAngular = [
  "def angular_distance(input_rot1,input_rot2,convention='zxz',degrees=True,c_symmetry=1)",
  ".if isinstance(input_rot1,np.ndarray)",
  "..rot1=srot.from_euler(convention,input_rot1,degrees=degrees)",
  ".else",
  "..rot1=input_rot1",
  ".if isinstance(input_rot2,np.ndarray)",
  "..rot2=srot.from_euler(convention,input_rot2,degrees=degrees)",
  ".else",
  "..rot2=input_rot2",
  ".if c_symmetry>1",
  "..angles1=rot1.as_euler(convention,degrees=degrees)",
  "..angles2=rot2.as_euler(convention,degrees=degrees)",
  "..sym_div=360.0/c_symmetry",
  "..angles1[:,0]=np.mod(angles1[:,0],sym_div)",
  "..angles2[:,0]=np.mod(angles2[:,0],sym_div)",
  "..rot1=srot.from_euler(convention,angles1,degrees=degrees)",
  "..rot2=srot.from_euler(convention,angles2,degrees=degrees)",
  ".q1=np.array(rot1.as_quat(),ndmin=2)",
  ".q2=np.array(rot2.as_quat(),ndmin=2)",
  ".if q1.shape!=q2.shape",
  "..print('<msg>')",
  "..return",
  ".angle=np.degrees(2*np.arccos(np.minimum(np.abs(np.sum(q1*q2,axis=1)),1.0)))",
  ".angle=angle.astype(float)",
  ".dist=1-np.power(np.sum(q1*q2,1),2)",
  ".dist[dist<1e-07]=0",
  ".return(angle,dist)"] ∧
    Gen.C18.bodyCompare = [
  "def compare_rotations(angles1,angles2,c_symmetry=1,rotation_type='all')",
  ".dist_degrees=angular_distance(angles1,angles2,c_symmetry=c_symmetry)[0]",
  ".dist_degrees_normals,dist_degrees_inplane=cone_inplane_distance(angles1,angles2,c_symmetry=c_symmetry)",
  ".if rotation_type=='all'",
  "..return(dist_degrees,dist_degrees_normals,dist_degrees_inplane)",
  ".else",
  "..if rotation_type=='angular_distance'",
  "...returndist_degrees",
  "..else",
  "...if rotation_type=='cone_distance'",
  "....returndist_degrees_normals",
  "...else",
  "....if rotation_type=='in_plane_distance'",
  ".....returndist_degrees_inplane",
  "....else",
  ".....raiseUserInputError('<msg>')"] :=
  ⟨rfl, rfl⟩

/-- the whole bodies of the helpers the analysis goes through: `geom.visualize_rotations` (image of the z axis, no plot),
`Motl.get_motl_subset` (the rows of one tomogram, list order, positions from 0), `Motl.get_feature` (column access),
`Motl.get_coordinates` (complete positions), `Motl.get_angles` -/
theorem body_helpers_documented :
    Gen.C18.bodyVisualize = [
  "def visualize_rotations(rotations,plot_rotations=True,color_map=None,marker_size=20,alpha=1.0,radius=1.0)",
  ".starting_point=np.array([0.0,0.0,radius])",
  ".new_points=np.array(rotations.apply(starting_point),ndmin=2)",
  ".if plot_rotations",
  "..fig=plt.figure()",
  "..ax=fig.add_subplot(projection='3d')",
  "..if color_mapisNone",
  "...ax.scatter(new_points[:,0],new_points[:,1],new_points[:,2],s=marker_size,alpha=alpha)",
  "..else",
  "...ax.scatter(new_points[:,0],new_points[:,1],new_points[:,2],s=marker_size,alpha=alpha,c=color_map)",
  "..ax.set_xlim3d(-radius,radius)",
  "..ax.set_ylim3d(-radius,radius)",
  "..ax.set_zlim3d(-radius,radius)",
  ".returnnew_points"] ∧
    Gen.C18.bodySubset = [
  "def get_motl_subset(self,feature_values,feature_id='tomo_id',return_df=False,reset_index=True)",
  ".feature_values=np.atleast_1d(np.asarray(feature_values))",
  ".new_df=Motl.create_empty_motl_df()",
  ".for i in feature_values",
  "..df_i=self.df.loc[self.df[feature_id]==i].copy()",
  "..new_df=pd.concat([new_df,df_i])",
  ".if reset_index",
  "..new_df=new_df.reset_index(drop=True)",
  ".if return_df",
  "..returnnew_df",
  ".else",
  "..returnMotl(motl_df=new_df)"] ∧
    Gen.C18.bodyFeature = [
  "def get_feature(self,feature_id)",
  ".if isinstance(feature_id,str)",
  "..feature_id=[feature_id]",
  ".missing_columns=set(feature_id)-set(self.df.columns)",
  ".if missing_columns",
  "..raiseUserInputError('<msg>')",
  ".returnself.df[feature_id].values"] ∧
    Gen.C18.bodyCoordinates = [
  "def get_coordinates(self,tomo_number=None)",
  ".if tomo_numberisNone",
  "..coord=self.df.loc[:,['x','y','z']].values+self.df.loc[:,['shift_x','shift_y','shift_z']].values",
  ".else",
  "..coord=self.df.loc[self.df.loc[:,'tomo_id']==tomo_number,['x','y','z']].values+self.df.loc[self.df.loc[:,'tomo_id']==tomo_number,['shift_x','shift_y','shift_z']].values",
  ".returncoord"] ∧
    Gen.C18.bodyAngles = [
  "def get_angles(self,tomo_number=None)",
  ".if tomo_numberisNone",
  "..angles=self.df.loc[:,['phi','theta','psi']].values",
  ".else",
  "..angles=self.df.loc[self.df.loc[:,'tomo_id']==tomo_number,['phi','theta','psi']].values",
  ".returnnp.atleast_2d(angles)"] :=
  ⟨rfl, rfl, rfl, rfl, rfl⟩

/-! ### the k reported neighbours are the k closest, in ascending order -/

/-- **kNN = brute force.** For every number of candidates `n`, every `k` and every key function, the
model's answer consists of `min k n` distinct candidate indices, ascending in the key, and no candidate
that is left out has a smaller key than one that is reported. -/
theorem knn_spec [LinearOrder α] (k n : Nat) (key : Nat → α) : KnnSpec k n key (knnIdx k n key) :=
  knnIdx_spec' k n key

/-- **Without distance ties the answer is unique**: whatever list meets `KnnSpec` is the model's list. -/
theorem knn_unique [LinearOrder α] (k n : Nat) (key : Nat → α) (out : List Nat) (hties : NoTies n key)
    (h : KnnSpec k n key out) : out = knnIdx k n key :=
  knn_unique' hties h (knnIdx_spec' k n key)

/-- **Verified checker** (run by the driver on the neighbour lists the real code reports): it answers
`true` exactly on the lists that meet `KnnSpec`. -/
theorem checkKnn_iff [LinearOrder α] (k n : Nat) (key : Nat → α) (out : List Nat) :
    checkKnn k n key out = true ↔ KnnSpec k n key out :=
  ⟨checkKnn_sound' k n key out, checkKnn_complete' k n key out⟩

/-- **The checker as the driver runs it**: on exact integers (`checkKnnInt`, core `Int` order — every complete position is
decoded from its double to its exact dyadic value and all are scaled by one common power of two), so `checkKnn_iff` applies to
the driver's verdict literally, with no floating-point comparison in between. -/
theorem checkKnnInt_iff (k n : Nat) (key : Nat → Int) (out : List Nat) :
    checkKnnInt k n key out = true ↔ KnnSpec k n key out := by
  unfold checkKnnInt
  exact checkKnn_iff k n key out

/-- scaling all positions by a common factor `c ≠ 0` (the driver's `2^(-emin)`) multiplies every squared distance by `c²`:
over an ordered field with `c ≠ 0` no comparison of keys changes -/
theorem keys_scale [CommRing α] (c : α) (q n : Pt α) (q' n' : Pt α)
    (hq : pos q' = V3.smul c (pos q)) (hn : pos n' = V3.smul c (pos n)) : d2 q' n' = c * c * d2 q n := by
  unfold d2
  rw [hq, hn, smul_sub_smul, normSq_smul]

/-- the sort key of a candidate is the squared Euclidean distance of the COMPLETE positions
(`x+shift_x, …`) of candidate and query -/
theorem key_is_squared_distance [CommRing α] (q : Pt α) (cn : List (Pt α)) (j : Nat) (n : Pt α)
    (h : cn[j]? = some n) :
    keyOf q cn j = V3.normSq ((n.base + n.shift) - (q.base + q.shift)) := by
  have : cn.getD j q = n := by rw [List.getD_eq_getElem?_getD, h]; rfl
  simp only [keyOf, this, d2, pos]

/-! ### the table: which rows there are and what they contain -/

/-- the tomograms that are analysed are exactly the common ones, each once, ascending -/
theorem features_spec (ta tn : List Int) :
    (∀ t, t ∈ features ta tn ↔ t ∈ ta ∧ t ∈ tn) ∧ (features ta tn).Pairwise (· < ·) :=
  ⟨fun t => mem_features' t ta tn, pairwise_foldr_insU _⟩

/-- **Soundness of every row.** Each row of the table reports a query `q` of the first list and a particle
`n` of the second list IN THE SAME TOMOGRAM; `n` is the candidate at position `rank` of a list that meets
`KnnSpec` (the `min k #candidates` closest, ascending); the row carries both subtomogram numbers, the
Euclidean distance of the complete positions times the pixel size, the offset in the query's own frame
(transposed = inverse orientation applied to the offset), the relative orientation `R_qᵀ·R_n` and the
angle of that relative orientation. -/
theorem nnStats_sound [CommRing α] [LinearOrder α] (S : Num α) (px : α) (k : Nat) (a nn : List (Pt α))
    (r : Row α) (h : r ∈ nnStats S px k a nn) : ∃ q n, RowOf S px k a nn r q n := by
  obtain ⟨tm, _, _, hr⟩ := (mem_nnStats S px k a nn r).1 h
  obtain ⟨i, hi, q, hq, rfl⟩ := (mem_tomoRows S px k a nn tm r).1 hr
  exact ⟨q, _, rowOf_mkRow S px k a nn tm i q hq hi⟩

/-- **Completeness.** Every particle of the first list whose tomogram also occurs in the second list gets a
row for every rank below `min k #candidates`. -/
theorem nnStats_complete [CommRing α] [LinearOrder α] (S : Num α) (px : α) (k : Nat) (a nn : List (Pt α))
    (q : Pt α) (hq : q ∈ a) (hn : ∃ p ∈ nn, p.tomo = q.tomo) (i : Nat)
    (hi : i < min k (subset q.tomo nn).length) :
    ∃ r ∈ nnStats S px k a nn, r.tomo = q.tomo ∧ r.rank = i ∧ ∃ n, RowOf S px k a nn r q n := by
  have hqs : q ∈ subset q.tomo a := (mem_subset _ _ _).2 ⟨hq, rfl⟩
  refine ⟨_, (mem_nnStats S px k a nn _).2 ⟨q.tomo, ⟨q, hq, rfl⟩, hn,
    (mem_tomoRows S px k a nn q.tomo _).2 ⟨i, hi, q, hqs, rfl⟩⟩, rfl, rfl, _,
    rowOf_mkRow S px k a nn q.tomo i q hqs hi⟩

/-- rows come tomogram by tomogram (ascending), inside a tomogram rank by rank -/
theorem nnStats_order [CommRing α] [LinearOrder α] (S : Num α) (px : α) (k : Nat) (a nn : List (Pt α)) :
    (nnStats S px k a nn).Pairwise (fun r r' => r.tomo < r'.tomo ∨ (r.tomo = r'.tomo ∧ r.rank ≤ r'.rank)) := by
  unfold nnStats
  rw [List.pairwise_flatMap]
  refine ⟨?_, ?_⟩
  · intro tm _
    unfold tomoRows
    rw [List.pairwise_flatMap]
    refine ⟨?_, ?_⟩
    · intro i _
      simp only [List.map_map]
      rw [List.pairwise_map]
      exact List.pairwise_of_forall (fun _ _ => Or.inr ⟨rfl, Nat.le_refl _⟩)
    · refine (List.pairwise_lt_range).imp ?_
      intro i j hij x hx y hy
      simp only [List.map_map, List.mem_map, Function.comp] at hx hy
      obtain ⟨_, _, rfl⟩ := hx
      obtain ⟨_, _, rfl⟩ := hy
      exact Or.inr ⟨rfl, Nat.le_of_lt hij⟩
  · refine (pairwise_foldr_insU _).imp ?_
    intro t t' htt x hx y hy
    obtain ⟨_, _, _, _, rfl⟩ := (mem_tomoRows S px k a nn t x).1 hx
    obtain ⟨_, _, _, _, rfl⟩ := (mem_tomoRows S px k a nn t' y).1 hy
    exact Or.inl htt

/-- inside one rank block the queries appear in the order of the first list: the query subtomogram numbers of
the rows of a tomogram are the tomogram's query numbers, repeated once per rank -/
theorem tomoRows_queries_in_list_order [CommRing α] [LinearOrder α] (S : Num α) (px : α) (k : Nat)
    (a nn : List (Pt α)) (tm : Int) :
    (tomoRows S px k a nn tm).map (·.sub)
      = (List.range (min k (subset tm nn).length)).flatMap (fun _ => (subset tm a).map (·.sub)) := by
  unfold tomoRows
  simp only [List.map_flatMap, List.map_map]
  rfl

/-- **Ascending distances.** If the square-root service is monotone and the pixel size is not negative, the
distances reported for one query increase (weakly) with the rank. -/
theorem distances_ascending [CommRing α] [LinearOrder α] [IsOrderedRing α] (S : Num α) (px : α) (k : Nat)
    (q : Pt α) (cn : List (Pt α)) (hmono : ∀ x y, x ≤ y → S.sqrt x ≤ S.sqrt y) (hpx : 0 ≤ px) :
    (neighbours k q cn).Pairwise (fun i j => S.sqrt (keyOf q cn i) * px ≤ S.sqrt (keyOf q cn j) * px) :=
  (knnIdx_spec' k cn.length (keyOf q cn)).sorted.imp
    (fun h => mul_le_mul_of_nonneg_right (hmono _ _ h) hpx)

/-- number of rows of one tomogram: (number of queries) × min(k, number of candidates) -/
theorem tomoRows_length [CommRing α] [LinearOrder α] (S : Num α) (px : α) (k : Nat) (a nn : List (Pt α)) (tm : Int) :
    (tomoRows S px k a nn tm).length = min k (subset tm nn).length * (subset tm a).length := by
  unfold tomoRows
  simp only [List.length_flatMap, List.length_map, List.map_const', List.sum_replicate_nat, List.length_range]

/-- The squared length of the reported offset is `px²` times the row's squared distance `d2` (a fact about vectors; first
conjunct). The second conjunct only UNFOLDS `mkRow` (`rfl`): that the reported distance is `sqrt(d2)·px` is how the model is
written, not a proved clause. What ties the statement's "distance = Euclidean distance of complete positions times the pixel
size" to the source is (i) the anchor `dist[:,i]*pixel_size` (`row_expressions_documented`), (ii) the recorded assumption that
the KD-tree returns Euclidean distances of the coordinates it was built on, checked on every run, and (iii) over ℝ
`realNum_distance` (the reported distance squared is `px²·‖pos n − pos q‖²`). -/
theorem offset_length [CommRing α] (S : Num α) (px : α) (tm : Int) (i j : Nat) (q n : Pt α) :
    V3.normSq (mkRow S px tm i q j n).offset = px * px * (mkRow S px tm i q j n).d2 ∧
    (mkRow S px tm i q j n).dist = S.sqrt (mkRow S px tm i q j n).d2 * px := by
  refine ⟨?_, rfl⟩
  simp only [mkRow, smul_sub_smul, normSq_smul, d2]

/-- **Distance = Euclidean distance of the complete positions × pixel size**, for every square-root service that is exact
on the squared distance at hand (`sqrt(d)·sqrt(d) = d`; the real square root is, `realNum_distance`): the reported distance
squared is `px²·‖(n.base + n.shift) − (q.base + q.shift)‖²`. -/
theorem distance_is_scaled_euclid [CommRing α] (S : Num α) (px : α) (tm : Int) (i j : Nat) (q n : Pt α)
    (hs : S.sqrt (d2 q n) * S.sqrt (d2 q n) = d2 q n) :
    (mkRow S px tm i q j n).dist * (mkRow S px tm i q j n).dist
      = px * px * V3.normSq ((n.base + n.shift) - (q.base + q.shift)) := by
  have e : d2 q n = V3.normSq ((n.base + n.shift) - (q.base + q.shift)) := rfl
  simp only [mkRow]
  rw [← e]
  linear_combination (px * px) * hs

/-! ### the inverse orientation -/

/-- the code's `from_euler("zxz", -[psi, theta, phi])` is the transpose of the orientation (any numbers) and,
for genuine angles, its two-sided inverse -/
theorem inverse_orientation [CommRing α] (p : Pt α) :
    rotInv p = (rot p).transpose ∧ (p.WF → rotInv p * rot p = M3.one ∧ rot p * rotInv p = M3.one) :=
  ⟨rotInv_eq_transpose p, fun h => ⟨rotInv_mul_rot' p h, rot_mul_rotInv' p h⟩⟩

/-- the particle-frame offset has the length of the offset, and the relative orientation is a rotation matrix -/
theorem frame_offset_isometric [CommRing α] (S : Num α) (px : α) (tm : Int) (i j : Nat) (q n : Pt α)
    (hq : q.WF) (hn : n.WF) :
    V3.normSq (mkRow S px tm i q j n).frame = V3.normSq (mkRow S px tm i q j n).offset ∧
    (mkRow S px tm i q j n).rel.Orth :=
  ⟨(rotInv_orth' q hq).normSq_apply _, (rotInv_orth' q hq).mul (rot_orth' n hn)⟩

/-! ### rigid motion -/

/-- **One pair under a rigid motion.** For orthogonal `Q` (`QᵀQ = 1`) and any translation: the squared
distance, the particle-frame offset and the relative orientation of a (query, neighbour) pair are unchanged;
the tomogram-frame offset co-rotates. -/
theorem pair_rigid [CommRing α] {Q : M3 α} {t : V3 α} {q q' n n' : Pt α} (px : α) (hQ : Q.Orth)
    (hq : Moved Q t q q') (hn : Moved Q t n n') :
    d2 q' n' = d2 q n ∧
    (rotInv q').apply (V3.smul px (pos n') - V3.smul px (pos q'))
      = (rotInv q).apply (V3.smul px (pos n) - V3.smul px (pos q)) ∧
    rotInv q' * rot n' = rotInv q * rot n ∧
    V3.smul px (pos n') - V3.smul px (pos q') = Q.apply (V3.smul px (pos n) - V3.smul px (pos q)) := by
  refine ⟨hq.d2_eq hQ hn, ?_, hq.rel_eq hQ hn, hq.offset_eq px hn⟩
  rw [hq.offset_eq px hn, hq.frame_eq hQ]

/-- **The whole table under a rigid motion.** Move both lists by the same `(Q, t)` (`Q` orthogonal; every
particle keeps its identifiers, its complete position becomes `Q·pos + t`, its orientation `Q·R`, described
by whatever Euler angles). Then the table is the same table — same rows in the same order, same neighbours,
distances, particle-frame offsets, angular distances, relative orientations, subtomogram numbers — except
that each tomogram-frame offset is rotated by `Q`. No hypothesis on ties, sizes, `k` or the pixel size. The hypothesis
`Forall₂ (Moved Q t)` is satisfiable for every pair of lists and every PROPER rotation, and for no reflection
(`moved_exists_iff_proper`); `nnStats_rigid_real` states the invariance with the moved lists constructed. -/
theorem nnStats_rigid [CommRing α] [LinearOrder α] (S : Num α) (px : α) (k : Nat) {Q : M3 α} {t : V3 α}
    {a a' nn nn' : List (Pt α)} (hQ : Q.Orth)
    (ha : List.Forall₂ (Moved Q t) a a') (hn : List.Forall₂ (Moved Q t) nn nn') :
    nnStats S px k a' nn' = (nnStats S px k a nn).map (Row.turn Q) :=
  nnStats_moved S px k hQ ha hn

/-- **The hypothesis of `nnStats_rigid` can be met for every input, and only by proper rotations.** Over ℝ: for every
list of well-formed particles (Euler angles on the unit circle), every proper rotation `Q` (`Q.Orth ∧ det Q = 1`) and every
translation `t` a moved copy `l'` with `Forall₂ (Moved Q t) l l'` EXISTS (zxz Euler angles of `Q·R_p` exist for every
particle, `exists_moved`); and whenever `Moved Q t p p'` holds — over any commutative ring — `det Q = 1`: `Q.Orth` in
`nnStats_rigid` admits reflections only formally, no particle has an image under one. -/
theorem moved_exists_iff_proper (Q : M3 ℝ) (t : V3 ℝ) (hQ : Q.Orth) (p : Pt ℝ) (hp : p.WF) :
    (∃ p', Moved Q t p p') ↔ Q.det = 1 :=
  ⟨fun ⟨_, h⟩ => h.det_eq_one, fun hd => exists_moved Q t p hp ⟨hQ, hd⟩⟩

/-- **Rigid-motion invariance with the moved lists constructed** (ℝ): for all lists of well-formed particles, every
proper rotation `Q`, every translation `t`, every `k`, pixel size and services there ARE moved copies `a'`, `nn'` of the
two lists, and the table of the moved copies is the table of the originals with the tomogram-frame offsets rotated by
`Q` — `nnStats_rigid` with its hypothesis discharged instead of assumed. -/
theorem nnStats_rigid_real (S : Num ℝ) (px : ℝ) (k : Nat) (Q : M3 ℝ) (t : V3 ℝ) (hQ : IsRot Q)
    (a nn : List (Pt ℝ)) (ha : ∀ p ∈ a, p.WF) (hn : ∀ p ∈ nn, p.WF) :
    ∃ a' nn', List.Forall₂ (Moved Q t) a a' ∧ List.Forall₂ (Moved Q t) nn nn' ∧
      nnStats S px k a' nn' = (nnStats S px k a nn).map (Row.turn Q) := by
  obtain ⟨a', ha'⟩ := exists_moved_list Q t hQ a ha
  obtain ⟨nn', hn'⟩ := exists_moved_list Q t hQ nn hn
  exact ⟨a', nn', ha', hn', nnStats_moved S px k hQ.1 ha' hn'⟩

/-- Reading aid for `nnStats_rigid` (thirteen `rfl`: `Row.turn` is a record update of the field `offset`): what
`Row.turn` leaves alone is everything but the tomogram-frame offset. Not a clause of the statement by itself — the clause is
`nnStats_rigid`, whose right-hand side this lemma lets one read field by field. -/
theorem turn_keeps [CommRing α] (Q : M3 α) (r : Row α) :
    (r.turn Q).tomo = r.tomo ∧ (r.turn Q).rank = r.rank ∧ (r.turn Q).sub = r.sub ∧ (r.turn Q).subNn = r.subNn ∧
    (r.turn Q).nnIdx = r.nnIdx ∧ (r.turn Q).d2 = r.d2 ∧ (r.turn Q).dist = r.dist ∧ (r.turn Q).frame = r.frame ∧
    (r.turn Q).rel = r.rel ∧ (r.turn Q).tr = r.tr ∧ (r.turn Q).skewSq = r.skewSq ∧ (r.turn Q).ang = r.ang ∧
    (r.turn Q).offset = Q.apply r.offset :=
  ⟨rfl, rfl, rfl, rfl, rfl, rfl, rfl, rfl, rfl, rfl, rfl, rfl, rfl⟩

/-- **The reported neighbour order is invariant under rigid motion when distances are pairwise distinct** — for ANY
neighbour search, not only the model's. Let `out` be what some search reports for query `q` among the candidates `cn`, and
`out'` what some (possibly different) search reports after both were moved by the same `(Q, t)`. If both answers are
correct (`KnnSpec`: the `min k n` closest, ascending) and no two candidates are equally far from `q`, then `out' = out`:
the same candidate positions in the same order. (With ties a correct search may legitimately answer differently; the
model's own deterministic answer is invariant even then, `nnStats_rigid`.) -/
theorem neighbour_order_rigid [CommRing α] [LinearOrder α] {Q : M3 α} {t : V3 α} (k : Nat) {q q' : Pt α}
    {cn cn' : List (Pt α)} (hQ : Q.Orth) (hq : Moved Q t q q') (hc : List.Forall₂ (Moved Q t) cn cn')
    (out out' : List Nat) (hties : NoTies cn.length (keyOf q cn))
    (h : KnnSpec k cn.length (keyOf q cn) out) (h' : KnnSpec k cn'.length (keyOf q' cn') out') :
    out' = out ∧ NoTies cn'.length (keyOf q' cn') := by
  rw [keyOf_moved hQ hq hc, ← hc.length_eq] at h' ⊢
  exact ⟨knn_unique' hties h' h, hties⟩

/-- **Any correct neighbour search gives the model's table.** If the search `nb` (the KD-tree) answers every query of a
common tomogram with a list meeting `KnnSpec` and no query has two candidates at the same distance, the table assembled
from ITS answers is the model's table `nnStats` — so everything proved about `nnStats` holds for it. This is the exact
content of the recorded assumption "KD-tree = brute force": only `KnnSpec` of the tree's answers is needed, and that is
what the verified checker `checkKnn` decides on every run. -/
theorem nnStatsWith_eq [CommRing α] [LinearOrder α] (nb : Pt α → List (Pt α) → List Nat) (S : Num α) (px : α) (k : Nat)
    (a nn : List (Pt α)) (h : CorrectSearch nb k a nn) : nnStatsWith nb S px k a nn = nnStats S px k a nn :=
  nnStatsWith_eq' nb S px k a nn h

/-- **Rigid-motion invariance for any two correct neighbour searches** (`k` neighbours, any `k`): the table built from the
answers of `nb` on the original lists and the table built from the answers of `nb'` on the moved lists are the same table
up to the co-rotation of the tomogram-frame offsets, provided both searches are correct and distances are pairwise distinct
on both sides. -/
theorem nnStats_rigid_any_search [CommRing α] [LinearOrder α] (nb nb' : Pt α → List (Pt α) → List Nat) (S : Num α) (px : α)
    (k : Nat) {Q : M3 α} {t : V3 α} {a a' nn nn' : List (Pt α)} (hQ : Q.Orth)
    (ha : List.Forall₂ (Moved Q t) a a') (hn : List.Forall₂ (Moved Q t) nn nn')
    (h : CorrectSearch nb k a nn) (h' : CorrectSearch nb' k a' nn') :
    nnStatsWith nb' S px k a' nn' = (nnStatsWith nb S px k a nn).map (Row.turn Q) := by
  rw [nnStatsWith_eq nb' S px k a' nn' h', nnStatsWith_eq nb S px k a nn h]
  exact nnStats_moved S px k hQ ha hn

/-- **Lists that share no tomogram give the empty table** (the documented "work only with the intersection"). This is what
the model answers on the class of the formerly open finding C18-K1; the witness of the defect was on the IMPLEMENTATION side
(`ValueError: need at least one array to concatenate` from `np.vstack([])`, replayed by the harness on the unrepaired
source), the model never raised. With C18-fix-1 the source has the empty-result path (`body_distances_documented`,
`body_rotations_documented`) and the harness compares the real empty table with this one. -/
theorem k1_model_returns_empty [CommRing α] [LinearOrder α] (S : Num α) (px : α) (k : Nat) (a nn : List (Pt α))
    (h : ∀ p ∈ a, ∀ p' ∈ nn, p.tomo ≠ p'.tomo) : nnStats S px k a nn = [] := by
  unfold nnStats
  rw [features_nil_of_disjoint]
  · rfl
  · intro tm hta htn
    obtain ⟨p, hp, rfl⟩ := List.mem_map.1 hta
    obtain ⟨p', hp', e⟩ := List.mem_map.1 htn
    exact h p hp p' hp' e.symm

/-! ### the angular distance IS the rotation angle of the relative orientation (over ℝ, through C06)

In the theorems above the angle is whatever the service `S.ang` returns. Here the service is the real
counterpart `realNum` of the driver's (`atan2(√skewSq/2, (trace−1)/2)` in degrees), and the value is tied to
C06: `angDist_is_rotation_angle`, `trace_rel` — imported from `Lemmas/C06_Export.lean`, which carries none of C06's
translator obligations, so an edit of a `geom.py` function C18 does not use cannot stop this file from building. -/

/-- **One row.** For a query and a neighbour whose Euler angles are real numbers, the row's angular distance
(i) is the angle in `[0°, 180°]` whose cosine is `(trace − 1)/2` of the relative orientation `R_qᵀ·R_n` reported in
the same row — the rotation angle of the relative orientation — and (ii) is the quaternion form
`degrees(2·arccos(min(|q₁·q₂|, 1)))` that `geom.angular_distance` evaluates on the quaternions of the two
orientations (C06's model `angDist` of that function). -/
theorem angular_distance_is_rotation_angle (at2 : ℝ → ℝ → ℝ) (px : ℝ) (tm : Int) (i j : Nat) (q n : Pt ℝ)
    (φq θq ψq φn θn ψn : ℝ) (hq : q.HasAngles φq θq ψq) (hn : n.HasAngles φn θn ψn) :
    (mkRow realNum px tm i q j n).rel = (rot q).transpose * rot n ∧
    (mkRow realNum px tm i q j n).ang
      = deg (Real.arccos ((trace ((rot q).transpose * rot n) - 1) / 2)) ∧
    (mkRow realNum px tm i q j n).ang
      = C06.angDist (C06.realLibm at2) (quatOf φq θq ψq) (quatOf φn θn ψn) ∧
    0 ≤ (mkRow realNum px tm i q j n).ang ∧ (mkRow realNum px tm i q j n).ang ≤ 180 := by
  obtain ⟨uq, mq⟩ := hq.quat
  obtain ⟨un, mn⟩ := hn.quat
  have hrel : (mkRow realNum px tm i q j n).rel = (rot q).transpose * rot n := by
    simp only [mkRow, rotInv_eq_transpose]
  have hang : (mkRow realNum px tm i q j n).ang
      = realNum.ang (trace ((rot q).transpose * rot n)) (skewSq ((rot q).transpose * rot n)) := by
    simp only [mkRow, rotInv_eq_transpose]
  have hquat := realNum_ang_quat at2 _ _ uq un
  rw [mq, mn] at hquat
  refine ⟨hrel, ?_, ?_, ?_⟩
  · rw [hang, ← mq, ← mn]; exact realNum_ang_rel _ _ uq un
  · rw [hang]; exact hquat
  · rw [hang, hquat]; exact C06.Export.angDist_range at2 _ _

/-- **Every row of the table.** When every particle's Euler angles are real numbers, each row of the table
computed with the real services is the report about a query `q` and a same-tomogram particle `n` (`RowOf`, as in
`nnStats_sound`) and its angular distance is the rotation angle of `R_qᵀ·R_n`; it equals
`degrees(2·arccos(min(|p·p'|, 1)))` for ANY unit quaternions `p`, `p'` of the two orientations (either sign, as
scipy may return). -/
theorem nnStats_angular_real (at2 : ℝ → ℝ → ℝ) (px : ℝ) (k : Nat) (a nn : List (Pt ℝ))
    (ha : ∀ p ∈ a, ∃ φ θ ψ, p.HasAngles φ θ ψ) (hn : ∀ p ∈ nn, ∃ φ θ ψ, p.HasAngles φ θ ψ)
    (r : Row ℝ) (h : r ∈ nnStats realNum px k a nn) :
    ∃ q n, RowOf realNum px k a nn r q n ∧
      r.ang = deg (Real.arccos ((trace ((rot q).transpose * rot n) - 1) / 2)) ∧
      ∀ p p' : C06.Q4 ℝ, C06.qnormSq p = 1 → C06.qnormSq p' = 1 → C06.toM3 p = rot q → C06.toM3 p' = rot n →
        r.ang = C06.angDist (C06.realLibm at2) p p' := by
  obtain ⟨q, n, ro⟩ := nnStats_sound realNum px k a nn r h
  obtain ⟨φq, θq, ψq, hq⟩ := ha q ro.q_mem
  obtain ⟨φn, θn, ψn, hnn⟩ := hn n ro.n_mem
  obtain ⟨uq, mq⟩ := hq.quat
  obtain ⟨un, mn⟩ := hnn.quat
  have hang : r.ang = realNum.ang (trace ((rot q).transpose * rot n)) (skewSq ((rot q).transpose * rot n)) := by
    rw [ro.ang, ro.rel]
  refine ⟨q, n, ro, ?_, ?_⟩
  · rw [hang, ← mq, ← mn]; exact realNum_ang_rel _ _ uq un
  · intro p p' hp hp' ep ep'
    rw [hang, ← ep, ← ep']; exact realNum_ang_quat at2 p p' hp hp'

/-- the real square root is the square-root service the distance clause needs: monotone, and the reported
distance squared is `px²` times the squared distance of the complete positions -/
theorem realNum_distance (px : ℝ) (tm : Int) (i j : Nat) (q n : Pt ℝ) :
    (mkRow realNum px tm i q j n).dist * (mkRow realNum px tm i q j n).dist
      = px * px * V3.normSq ((n.base + n.shift) - (q.base + q.shift)) ∧
    (∀ x y : ℝ, x ≤ y → realNum.sqrt x ≤ realNum.sqrt y) := by
  refine ⟨?_, fun x y h => Real.sqrt_le_sqrt h⟩
  have h0 : 0 ≤ V3.normSq ((n.base + n.shift) - (q.base + q.shift)) := by
    simp only [V3.normSq, V3.dot]; nlinarith [mul_self_nonneg ((n.base + n.shift) - (q.base + q.shift)).x,
      mul_self_nonneg ((n.base + n.shift) - (q.base + q.shift)).y, mul_self_nonneg ((n.base + n.shift) - (q.base + q.shift)).z]
  simp only [mkRow, realNum, d2, pos]
  have := Real.mul_self_sqrt h0
  linear_combination (px * px) * this

/-! ### non-vacuity: the hypotheses above are satisfiable by non-trivial inputs -/

/-- a quarter turn about z is orthogonal -/
example : (rz (0 : Int) 1).Orth := rz_orth 0 1 (by decide)

/-- a particle with non-zero shift and a non-trivial orientation (phi = 90°, theta = 180°), and its image under
the quarter turn about z followed by a translation: the image has psi = 90° -/
example : Moved (rz (0 : Int) 1) ⟨5, 6, 7⟩
    { tomo := 3, sub := 11, base := ⟨1, 2, 3⟩, shift := ⟨1, 0, -1⟩, phi := ⟨0, 1⟩, theta := ⟨-1, 0⟩, psi := ⟨1, 0⟩ }
    { tomo := 3, sub := 11, base := ⟨3, 7, 10⟩, shift := ⟨0, 1, -1⟩, phi := ⟨0, 1⟩, theta := ⟨-1, 0⟩, psi := ⟨0, 1⟩ } :=
  { tomo := rfl, sub := rfl, pos := by decide, rot := by decide,
    wf := ⟨by unfold Ang.Unit; decide, by unfold Ang.Unit; decide, by unfold Ang.Unit; decide⟩,
    wf' := ⟨by unfold Ang.Unit; decide, by unfold Ang.Unit; decide, by unfold Ang.Unit; decide⟩ }

/-- a particle over ℝ whose Euler angles are real numbers (1, 2, 3 radians), with a non-zero shift: the hypothesis
of `angular_distance_is_rotation_angle` / `nnStats_angular_real` -/
noncomputable example : ∃ p : Pt ℝ, p.HasAngles 1 2 3 ∧ p.shift = ⟨1, 0, -1⟩ :=
  ⟨{ tomo := 3, sub := 11, base := ⟨1, 2, 3⟩, shift := ⟨1, 0, -1⟩, phi := angOf 1, theta := angOf 2, psi := angOf 3 },
    ⟨rfl, rfl, rfl⟩, rfl⟩

/-- two lists without a common tomogram (hypothesis of `k1_model_returns_empty`) -/
example : ∀ p ∈ [({ tomo := 1, sub := 1, base := ⟨0, 0, 0⟩, shift := ⟨0, 0, 0⟩, phi := ⟨1, 0⟩, theta := ⟨1, 0⟩, psi := ⟨1, 0⟩ } : Pt Int)],
    ∀ p' ∈ [({ tomo := 2, sub := 1, base := ⟨0, 0, 0⟩, shift := ⟨0, 0, 0⟩, phi := ⟨1, 0⟩, theta := ⟨1, 0⟩, psi := ⟨1, 0⟩ } : Pt Int)],
    p.tomo ≠ p'.tomo := by
  intro p hp p' hp'
  simp only [List.mem_singleton] at hp hp'
  subst hp; subst hp'
  decide

/-- the model's own search is a correct search when there are no ties (hypothesis of `nnStatsWith_eq` /
`nnStats_rigid_any_search`): two queries and three candidates on a line, all distances distinct -/
example : CorrectSearch (α := Int) (neighbours 2) 2
    [{ tomo := 1, sub := 1, base := ⟨0, 0, 0⟩, shift := ⟨0, 0, 0⟩, phi := ⟨1, 0⟩, theta := ⟨1, 0⟩, psi := ⟨1, 0⟩ }]
    [{ tomo := 1, sub := 7, base := ⟨1, 0, 0⟩, shift := ⟨0, 0, 0⟩, phi := ⟨1, 0⟩, theta := ⟨1, 0⟩, psi := ⟨1, 0⟩ },
     { tomo := 1, sub := 8, base := ⟨3, 0, 0⟩, shift := ⟨0, 0, 0⟩, phi := ⟨1, 0⟩, theta := ⟨1, 0⟩, psi := ⟨1, 0⟩ },
     { tomo := 1, sub := 9, base := ⟨-2, 0, 0⟩, shift := ⟨0, 0, 0⟩, phi := ⟨1, 0⟩, theta := ⟨1, 0⟩, psi := ⟨1, 0⟩ }] := by
  intro tm q hq
  refine ⟨knnIdx_spec' _ _ _, ?_⟩
  by_cases htm : tm = 1
  · subst htm
    have hq' : q = { tomo := 1, sub := 1, base := ⟨0, 0, 0⟩, shift := ⟨0, 0, 0⟩, phi := ⟨1, 0⟩, theta := ⟨1, 0⟩, psi := ⟨1, 0⟩ } := by
      simpa [subset] using hq
    subst hq'
    intro i j hi hj
    have hi' : i < 3 := hi
    have hj' : j < 3 := hj
    interval_cases i <;> interval_cases j <;> decide
  · have : subset tm
        [({ tomo := 1, sub := 1, base := ⟨0, 0, 0⟩, shift := ⟨0, 0, 0⟩, phi := ⟨1, 0⟩, theta := ⟨1, 0⟩, psi := ⟨1, 0⟩ } : Pt Int)] = [] := by
      simp [subset, Ne.symm htm]
    rw [this] at hq
    exact absurd hq (List.not_mem_nil)

/-- an exact square root of a squared distance (hypothesis of `distance_is_scaled_euclid`): positions 3-4-0 apart, root 5 -/
example : (5 : Int) * 5 = d2 (α := Int)
    { tomo := 1, sub := 1, base := ⟨0, 0, 0⟩, shift := ⟨1, 0, 0⟩, phi := ⟨1, 0⟩, theta := ⟨1, 0⟩, psi := ⟨1, 0⟩ }
    { tomo := 1, sub := 2, base := ⟨3, 4, 0⟩, shift := ⟨1, 0, 0⟩, phi := ⟨1, 0⟩, theta := ⟨1, 0⟩, psi := ⟨1, 0⟩ } := by decide

/-- a proper rotation over ℝ that is no axis permutation (hypothesis of `nnStats_rigid_real`): the turn about z with
cos = 3/5, sin = 4/5 -/
example : IsRot (rz (3 / 5 : ℝ) (4 / 5)) :=
  ⟨rz_orth _ _ (by norm_num), by rw [det_rz]; norm_num⟩

/-- distinct keys exist -/
example : NoTies 4 (fun i => (3 * i : Int)) := by
  intro i j _ _ h
  simp only at h
  omega

/-- a list meeting `KnnSpec` with something left out (k = 2 of 3 candidates with keys 5, 1, 3) -/
example : checkKnn 2 3 (fun i => [5, 1, 3].getD i (0 : Int)) [1, 2] = true := by decide

end CryoCat.C18
