import CryoCat.Lemmas.C10
import CryoCat.Lemmas.C10_Round
import CryoCat.Lemmas.C10_Real
/-! C10 — cyclic symmetry expansion places subunits on the symmetry orbit.
Property theorems about `CryoCat.C10.expand` (the definition the driver executes), for every `n`, every
particle list, every offset `s`, over any field (orbit algebra, bookkeeping), any ordered field with a floor
service (integrality, |shift| ≤ 1/2) and over ℝ with the true cosine/sine (the step angle is 360/n degrees). -/
namespace CryoCat.C10

/-! ### translator obligations: what the source says today is the documented convention -/

theorem anchors_ok : Gen.C10.anchorsOk = true := by decide

/-- `inplane_step = 360 / nfold`, `n_subunits = nfold`, `phi_k = k * inplane_step` stored as the FIRST zxz angle -/
theorem step_documented :
    Gen.C10.fullTurnDeg = 360 ∧ Gen.C10.stepExpr = "360/nfold" ∧ Gen.C10.nSubunitsExpr = "nfold" ∧
    Gen.C10.phiExpr = "np.arange(n_subunits)*inplane_step" ∧ Gen.C10.phiSlot = 0 := by decide

/-- parent recorded in geom5 (from subtomo_id), subunit index in geom2, parents ordered by subtomo_id,
new ids into subtomo_id, parent orientation read from (phi, theta, psi) -/
theorem fields_documented :
    parentSrcF = .subtomo_id ∧ parentDstF = .geom5 ∧ indexDstF = .geom2 ∧ sortKeyF = .subtomo_id ∧
    idDstF = .subtomo_id ∧ angleF 0 = .phi ∧ angleF 1 = .theta ∧ angleF 2 = .psi := by decide

/-- the symmetry argument: a string gives `nfold` = its last run of digits and is cyclic when it starts with c/C;
a number (Python or numpy, int or float) is cyclic with `nfold = int(symmetry)`; cyclic is `s_type = 1` -/
theorem symmetry_argument_documented :
    Gen.C10.strNfoldExpr = "int(re.findall('\\\\d+',symmetry)[-1])" ∧
    Gen.C10.cyclicPrefixTest = "symmetry.lower().startswith('c')" ∧
    Gen.C10.numericTypes = ["int", "float", "np.integer", "np.floating"] ∧
    Gen.C10.numericNfoldExpr = "int(symmetry)" ∧ Gen.C10.cyclicTypeCode = 1 := by decide

/-- subunit indices `arange(1, n_subunits+1)`, new ids `arange(1, len+1)` -/
theorem numbering_documented :
    Gen.C10.indexStart = 1 ∧ Gen.C10.indexStopExpr = "n_subunits+1" ∧
    Gen.C10.idStart = 1 ∧ Gen.C10.idStopExpr = "len(new_motl_df)+1" := by decide

/-- every Euler conversion is extrinsic "zxz" in degrees; the new rotation is `rotations * from_euler(new_angles)`
(parent on the left) -/
theorem euler_convention_documented :
    Gen.C10.eulerSeqs = ["zxz", "zxz", "zxz"] ∧ Gen.C10.eulerDegrees = [true, true, true] ∧
    Gen.C10.parentAngles = ["phi", "theta", "psi"] ∧
    Gen.C10.composeLeft = "rotations" ∧ Gen.C10.composeRight = "rot.from_euler" := by decide

/-- the shift added is `rotations.apply(center_shift)` with `center_shift` the polar form of `Rz(phi_k) s` -/
theorem shift_expression_documented :
    Gen.C10.shiftFields = ["shift_x", "shift_y", "shift_z"] ∧
    Gen.C10.shiftRhs = "new_motl_df.loc[:,['shift_x','shift_y','shift_z']]+rotations.apply(center_shift)" ∧
    Gen.C10.rhoExpr = "np.sqrt(starting_vector[0]**2+starting_vector[1]**2)" ∧
    Gen.C10.theExpr = "np.arctan2(starting_vector[1],starting_vector[0])" ∧
    Gen.C10.repTheExpr = "np.full((n_subunits,),the)+np.deg2rad(phi_angles)" ∧
    Gen.C10.repZExpr = "np.full((n_subunits,),starting_vector[2])" ∧
    Gen.C10.polarExprs = ["rot_rho*np.cos(rep_the)", "rot_rho*np.sin(rep_the)", "rep_z"] := by decide

/-- `update_coordinates` runs on the result and rounds the complete position half-up, keeping the rest as shift -/
theorem rounding_documented :
    Gen.C10.callsUpdate = true ∧ Gen.C10.roundingModes = ["ROUND_HALF_UP", "ROUND_HALF_UP", "ROUND_HALF_UP"] ∧
    Gen.C10.shiftedExprs = ["row['x']+row['shift_x']", "row['y']+row['shift_y']", "row['z']+row['shift_z']"] ∧
    Gen.C10.restExprs = ["shifted_x-new_row['x']", "shifted_y-new_row['y']", "shifted_z-new_row['z']"] := by decide

/-! ### counting, parents, identifiers (any field, any decidable comparisons — no order axioms needed) -/
section counting
variable {α : Type} [_root_.Field α] [LT α] [DecidableLT α] [LE α] [DecidableLE α]

private theorem length_flatMap_const {β γ : Type} (f : β → List γ) (n : Nat) (h : ∀ a, (f a).length = n) (l : List β) :
    (l.flatMap f).length = n * l.length := by
  induction l with
  | nil => simp
  | cons a l ih => simp [List.flatMap_cons, h, ih, Nat.mul_succ, Nat.add_comm]

private theorem expandCore_length (sv : Svc α) (n : Nat) (s : V3 α) (l : List (Particle α)) :
    (expandCore sv n s l).length = n * l.length := by
  unfold expandCore
  rw [length_flatMap_const _ n (by intro a; simp)]
  unfold sortParents
  rw [(List.mergeSort_perm _ _).length_eq]

/-- **n particles per input particle**, for every `n` (in particular every `n` not dividing 360) -/
theorem subunit_count (sv : Svc α) (n : Nat) (s : V3 α) (l : List (Particle α)) :
    (expand sv n s l).length = n * l.length := by
  unfold expand; rw [renum_length, expandCore_length]

/-- before renumbering, the output is — up to order — exactly one subunit per (parent, k) with `k < n` -/
theorem expandCore_perm (sv : Svc α) (n : Nat) (s : V3 α) (l : List (Particle α)) :
    (expandCore sv n s l).Perm (l.flatMap (fun P => (List.range n).map (subunit sv n s P))) := by
  unfold expandCore sortParents
  exact List.Perm.flatMap_right _ (List.mergeSort_perm _ _)

/-- the final renumbering gives the `j`-th output (0-based) the subtomogram number `j+1` and changes nothing else -/
theorem expand_getElem (sv : Svc α) (n : Nat) (s : V3 α) (l : List (Particle α)) (j : Nat)
    (h : j < (expandCore sv n s l).length) :
    (expand sv n s l)[j]'(by unfold expand; rw [renum_length]; exact h)
      = ((expandCore sv n s l)[j]).setId (((j + 1 : Nat) : α)) := by
  unfold expand
  rw [renum_getElem 0 _ j h]
  have : Gen.C10.idStart = 1 := by decide
  rw [this, Nat.zero_add]

/-- every output is the `k`-th subunit (`k < n`) of some input particle, renumbered -/
theorem expand_sound (sv : Svc α) (n : Nat) (s : V3 α) (l : List (Particle α)) (u : SubU α)
    (hu : u ∈ expand sv n s l) :
    ∃ P ∈ l, ∃ k, k < n ∧ ∃ j, j < n * l.length ∧ u = (subunit sv n s P k).setId (((j + 1 : Nat) : α)) := by
  obtain ⟨j, hj, rfl⟩ := List.getElem_of_mem hu
  have hj' : j < (expandCore sv n s l).length := by
    unfold expand at hj; rwa [renum_length] at hj
  rw [expand_getElem sv n s l j hj']
  have hm : (expandCore sv n s l)[j] ∈ l.flatMap (fun P => (List.range n).map (subunit sv n s P)) :=
    (expandCore_perm sv n s l).mem_iff.1 (List.getElem_mem hj')
  obtain ⟨P, hP, hk⟩ := List.mem_flatMap.1 hm
  obtain ⟨k, hk, e⟩ := List.mem_map.1 hk
  refine ⟨P, hP, k, List.mem_range.1 hk, j, ?_, ?_⟩
  · rwa [expandCore_length] at hj'
  · rw [e]

/-- every (input particle, `k < n`) pair occurs among the outputs -/
theorem expand_complete (sv : Svc α) (n : Nat) (s : V3 α) (l : List (Particle α)) (P : Particle α) (hP : P ∈ l)
    (k : Nat) (hk : k < n) :
    ∃ j, j < n * l.length ∧ (subunit sv n s P k).setId (((j + 1 : Nat) : α)) ∈ expand sv n s l := by
  have hm : subunit sv n s P k ∈ expandCore sv n s l :=
    (expandCore_perm sv n s l).mem_iff.2 (List.mem_flatMap.2 ⟨P, hP, List.mem_map.2 ⟨k, List.mem_range.2 hk, rfl⟩⟩)
  obtain ⟨j, hj, e⟩ := List.getElem_of_mem hm
  refine ⟨j, by rwa [expandCore_length] at hj, ?_⟩
  rw [← e, ← expand_getElem sv n s l j hj]
  exact List.getElem_mem _

private theorem setId_id (u : SubU α) (v : α) : (u.setId v).p.subtomo_id = v := by
  have : idDstF = .subtomo_id := by decide
  simp [SubU.setId, this, Particle.set]

private theorem renum_ids (i : Nat) (us : List (SubU α)) :
    (renum i us).map (fun u => u.p.subtomo_id) = (List.range us.length).map (fun j => (((i + j + 1 : Nat)) : α)) := by
  have h1 : Gen.C10.idStart = 1 := by decide
  induction us generalizing i with
  | nil => rfl
  | cons u us ih =>
    simp only [renum, List.map_cons, List.length_cons, List.range_succ_eq_map, List.map_map, setId_id, h1, ih (i + 1)]
    congr 1
    apply List.map_congr_left
    intro j _
    simp only [Function.comp, Nat.succ_eq_add_one]
    congr 1; omega

/-- **unique subtomogram numbers**: the outputs are numbered 1, 2, …, n·N in order -/
theorem expand_ids (sv : Svc α) (n : Nat) (s : V3 α) (l : List (Particle α)) :
    (expand sv n s l).map (fun u => u.p.subtomo_id) = (List.range (n * l.length)).map (fun j => (((j + 1 : Nat)) : α)) := by
  unfold expand
  rw [renum_ids, expandCore_length]
  simp

theorem expand_ids_nodup [CharZero α] (sv : Svc α) (n : Nat) (s : V3 α) (l : List (Particle α)) :
    ((expand sv n s l).map (fun u => u.p.subtomo_id)).Nodup := by
  rw [expand_ids]
  refine (List.nodup_range).map_on ?_
  intro a _ b _ h
  have := Nat.cast_injective (R := α) h
  omega

end counting

/-! ### one subunit: bookkeeping, orientation, position, orbit (exact arithmetic over any field) -/
section orbit
variable {α : Type} [_root_.Field α] [LT α] [DecidableLT α]

/-- **records its parent (geom5) and subunit index 1..n (geom2)**; the renumbering sets subtomo_id only -/
theorem subunit_bookkeeping (sv : Svc α) (n : Nat) (s : V3 α) (P : Particle α) (k : Nat) (v : α) :
    ((subunit sv n s P k).setId v).p.geom5 = P.subtomo_id ∧
    ((subunit sv n s P k).setId v).p.geom2 = (((k + 1 : Nat)) : α) ∧
    ((subunit sv n s P k).setId v).p.subtomo_id = v := by
  obtain ⟨h1, h2, h3, _, h5, _⟩ := fields_documented
  have h6 : Gen.C10.indexStart = 1 := by decide
  simp [subunit, SubU.setId, h1, h2, h3, h5, h6, Particle.set, Particle.get]

theorem subunit_index_range (k n : Nat) (hk : k < n) : 1 ≤ k + 1 ∧ k + 1 ≤ n := by omega

/-- **carries the parent's other fields** -/
theorem subunit_other_fields (sv : Svc α) (n : Nat) (s : V3 α) (P : Particle α) (k : Nat) (v : α) (f : Field)
    (hf : f ∈ [Field.score, .geom1, .tomo_id, .object_id, .subtomo_mean, .geom3, .geom4, .cls]) :
    ((subunit sv n s P k).setId v).p.get f = P.get f := by
  obtain ⟨h1, h2, h3, _, h5, _⟩ := fields_documented
  simp only [List.mem_cons, List.not_mem_nil, or_false] at hf
  rcases hf with rfl | rfl | rfl | rfl | rfl | rfl | rfl | rfl <;>
    simp [subunit, SubU.setId, h1, h2, h3, h5, Particle.set, Particle.get]

/-- **orientation `R * Rz(k·a)`** with `a` the step angle, i.e. `R * Rz(a)^k` -/
theorem subunit_orientation (sv : Svc α) (n : Nat) (s : V3 α) (P : Particle α) (k : Nat) (v : α) :
    ((subunit sv n s P k).setId v).orient = orientOf sv P * (Ang.nsmul k (stepAng sv n)).rz ∧
    ((subunit sv n s P k).setId v).orient = orientOf sv P * mpow (stepAng sv n).rz k := by
  refine ⟨rfl, ?_⟩
  rw [← Ang.rz_nsmul]; rfl

/-- **complete position = centre + that orientation applied to `s`** (rounding moves nothing: what is rounded
off `x,y,z` stays in the shifts) -/
theorem subunit_position (sv : Svc α) (n : Nat) (s : V3 α) (P : Particle α) (k : Nat) (v : α) :
    pos ((subunit sv n s P k).setId v).p = pos P + ((subunit sv n s P k).setId v).orient.apply s := by
  obtain ⟨_, _, _, _, h5, _⟩ := fields_documented
  have ho : ((subunit sv n s P k).setId v).orient = orientOf sv P * (Ang.nsmul k (stepAng sv n)).rz := rfl
  rw [ho, M3.apply_mul]
  ext <;> simp [subunit, SubU.setId, h5, Particle.set, pos, V3.add_def, V3.add] <;> ring

/-- **all n subunits map back to the parent's centre** -/
theorem subunit_maps_back (sv : Svc α) (n : Nat) (s : V3 α) (P : Particle α) (k : Nat) (v : α) :
    pos ((subunit sv n s P k).setId v).p - ((subunit sv n s P k).setId v).orient.apply s = pos P := by
  rw [subunit_position]; exact V3.add_sub_cancel' _ _

/-- the parent's orientation is a rotation matrix once the trig service returns points of the unit circle -/
theorem orientOf_orth (sv : Svc α) (hU : ∀ x, (sv.trig x).IsUnit) (P : Particle α) : (orientOf sv P).Orth :=
  zxz_orth _ _ _ _ _ _ (hU _) (hU _) (hU _)

theorem orientOf_orth_right (sv : Svc α) (hU : ∀ x, (sv.trig x).IsUnit) (P : Particle α) :
    orientOf sv P * (orientOf sv P).transpose = M3.one :=
  zxz_orth_right _ _ _ _ _ _ (hU _) (hU _) (hU _)

/-- it is orthogonal and fixes the parent's z axis `R e_z` -/
theorem ownAxisRot_axis (sv : Svc α) (hU : ∀ x, (sv.trig x).IsUnit) (n : Nat) (P : Particle α) (j : Nat) :
    (ownAxisRot sv n P j).apply (orientOf sv P).col3 = (orientOf sv P).col3 ∧ (ownAxisRot sv n P j).Orth := by
  have hR := orientOf_orth sv hU P
  constructor
  · unfold ownAxisRot
    rw [col3_eq_apply_ez, conj_apply hR, Ang.rz_apply_ez]
  · unfold ownAxisRot
    exact (hR.mul (Ang.rz_orth (Ang.nsmul_isUnit (hU _) j))).mul (orth_transpose (orientOf_orth_right sv hU P))

/-- **the subunits are related by rotations about the parent's own z axis**: subunit `k+j` is subunit `k`
turned by `ownAxisRot j` about the parent's centre — orientation and complete position alike; every subunit
keeps the parent's z axis and its distance from the centre -/
theorem subunit_orbit (sv : Svc α) (hU : ∀ x, (sv.trig x).IsUnit) (n : Nat) (s : V3 α) (P : Particle α) (k j : Nat) (v w : α) :
    ((subunit sv n s P (j + k)).setId w).orient = ownAxisRot sv n P j * ((subunit sv n s P k).setId v).orient ∧
    pos ((subunit sv n s P (j + k)).setId w).p - pos P
      = (ownAxisRot sv n P j).apply (pos ((subunit sv n s P k).setId v).p - pos P) ∧
    ((subunit sv n s P k).setId v).orient.col3 = (orientOf sv P).col3 ∧
    V3.normSq (pos ((subunit sv n s P k).setId v).p - pos P) = V3.normSq s := by
  have hR := orientOf_orth sv hU P
  have ho : ∀ i x, ((subunit sv n s P i).setId x).orient = orientOf sv P * (Ang.nsmul i (stepAng sv n)).rz :=
    fun _ _ => rfl
  have hpos : ∀ i x, pos ((subunit sv n s P i).setId x).p - pos P
      = (orientOf sv P * (Ang.nsmul i (stepAng sv n)).rz).apply s := by
    intro i x; rw [subunit_position, ho, V3.add_sub_cancel_left']
  have hmul : orientOf sv P * (Ang.nsmul (j + k) (stepAng sv n)).rz
      = ownAxisRot sv n P j * (orientOf sv P * (Ang.nsmul k (stepAng sv n)).rz) := by
    unfold ownAxisRot
    rw [conj_mul hR, Ang.nsmul_add, Ang.rz_add]
  refine ⟨?_, ?_, ?_, ?_⟩
  · rw [ho, ho, hmul]
  · rw [hpos, hpos, hmul, M3.apply_mul]
  · rw [ho, col3_mul_rz]
  · rw [hpos]
    exact (hR.mul (Ang.rz_orth (Ang.nsmul_isUnit (hU _) k))).normSq_apply s

/-- **the orbit closes**: when `n` steps make a full turn, `Rz(a)^n = 1`, the own-axis rotation by `n` steps is
the identity and subunit `k+n` would coincide with subunit `k` — the n outputs are one full orbit of the
cyclic group generated by the own-axis rotation by one step -/
theorem orbit_closes (sv : Svc α) (hU : ∀ x, (sv.trig x).IsUnit) (n : Nat)
    (hclose : Ang.nsmul n (stepAng sv n) = Ang.zero) (s : V3 α) (P : Particle α) (k : Nat) (v : α) :
    mpow (stepAng sv n).rz n = M3.one ∧ ownAxisRot sv n P n = M3.one ∧
    ((subunit sv n s P (n + k)).setId v).orient = ((subunit sv n s P k).setId v).orient ∧
    pos ((subunit sv n s P (n + k)).setId v).p = pos ((subunit sv n s P k).setId v).p := by
  have h1 : mpow (stepAng sv n).rz n = M3.one := by rw [← Ang.rz_nsmul, hclose, Ang.rz_zero]
  have ho : ∀ i x, ((subunit sv n s P i).setId x).orient = orientOf sv P * (Ang.nsmul i (stepAng sv n)).rz :=
    fun _ _ => rfl
  have h3 : ((subunit sv n s P (n + k)).setId v).orient = ((subunit sv n s P k).setId v).orient := by
    rw [ho, ho, Ang.nsmul_add, hclose, Ang.zero_add]
  refine ⟨h1, ?_, h3, ?_⟩
  · unfold ownAxisRot
    rw [hclose, Ang.rz_zero, M3.mul_one']
    exact orientOf_orth_right sv hU P
  · rw [subunit_position, subunit_position, h3]

end orbit

/-! ### rounding (`update_coordinates`): any ordered field, any floor service meeting the floor specification -/
section rounding
variable {α : Type} [_root_.Field α] [LinearOrder α] [IsStrictOrderedRing α]

/-- **integer x, y, z** -/
theorem subunit_integer_xyz (sv : Svc α) (hf : FloorSpec sv.floor) (n : Nat) (s : V3 α) (P : Particle α) (k : Nat) (v : α) :
    IsInt ((subunit sv n s P k).setId v).p.x ∧ IsInt ((subunit sv n s P k).setId v).p.y ∧
    IsInt ((subunit sv n s P k).setId v).p.z := by
  obtain ⟨_, _, _, _, h5, _⟩ := fields_documented
  simp only [subunit, SubU.setId, h5, Particle.set]
  exact ⟨roundHalfUp_isInt hf _ _, roundHalfUp_isInt hf _ _, roundHalfUp_isInt hf _ _⟩

/-- **|shift| ≤ 0.5** -/
theorem subunit_shift_bound (sv : Svc α) (hf : FloorSpec sv.floor) (hh : sv.half + sv.half = 1)
    (n : Nat) (s : V3 α) (P : Particle α) (k : Nat) (v : α) :
    |((subunit sv n s P k).setId v).p.shift_x| ≤ 1 / 2 ∧ |((subunit sv n s P k).setId v).p.shift_y| ≤ 1 / 2 ∧
    |((subunit sv n s P k).setId v).p.shift_z| ≤ 1 / 2 := by
  obtain ⟨_, _, _, _, h5, _⟩ := fields_documented
  have hhalf : sv.half = 1 / 2 := by linarith
  simp only [subunit, SubU.setId, h5, Particle.set]
  rw [← hhalf]
  exact ⟨abs_sub_roundHalfUp hf hh _, abs_sub_roundHalfUp hf hh _, abs_sub_roundHalfUp hf hh _⟩

/-- **The property, for every output of `expand`** (every `n`, every list, every offset — also `s` on the axis):
each output is the `k`-th subunit (`k < n`) of an input particle `P`: orientation `R·Rz(a)^k`, complete position
`centre + orientation·s` (so it maps back to the centre), obtained from the parent's pose by the rotation
`R·Rz(k a)·Rᵀ` about the parent's own z axis, parent in geom5, index `k+1` in geom2, a subtomogram number in
`1..n·N`, the parent's other fields, integer `x,y,z`, `|shift| ≤ 1/2`. -/
theorem expand_spec (sv : Svc α) (hE : sv.Exact) (n : Nat) (s : V3 α) (l : List (Particle α)) (u : SubU α)
    (hu : u ∈ expand sv n s l) :
    ∃ P ∈ l, ∃ k, k < n ∧
      u.orient = orientOf sv P * mpow (stepAng sv n).rz k ∧
      pos u.p = pos P + u.orient.apply s ∧
      pos u.p - u.orient.apply s = pos P ∧
      u.orient = ownAxisRot sv n P k * orientOf sv P ∧
      pos u.p - pos P = (ownAxisRot sv n P k).apply ((orientOf sv P).apply s) ∧
      u.p.geom5 = P.subtomo_id ∧ u.p.geom2 = (((k + 1 : Nat)) : α) ∧
      (∃ j, j < n * l.length ∧ u.p.subtomo_id = (((j + 1 : Nat)) : α)) ∧
      (∀ f ∈ [Field.score, .geom1, .tomo_id, .object_id, .subtomo_mean, .geom3, .geom4, .cls], u.p.get f = P.get f) ∧
      IsInt u.p.x ∧ IsInt u.p.y ∧ IsInt u.p.z ∧
      |u.p.shift_x| ≤ 1 / 2 ∧ |u.p.shift_y| ≤ 1 / 2 ∧ |u.p.shift_z| ≤ 1 / 2 := by
  obtain ⟨P, hP, k, hk, j, hj, rfl⟩ := expand_sound sv n s l u hu
  obtain ⟨b1, b2, b3⟩ := subunit_bookkeeping sv n s P k (((j + 1 : Nat)) : α)
  have hR := orientOf_orth sv hE.unit P
  have horb : ((subunit sv n s P k).setId (((j + 1 : Nat)) : α)).orient = ownAxisRot sv n P k * orientOf sv P := by
    have ho : ((subunit sv n s P k).setId (((j + 1 : Nat)) : α)).orient
        = orientOf sv P * (Ang.nsmul k (stepAng sv n)).rz := rfl
    rw [ho]; unfold ownAxisRot
    unfold M3.Orth at hR
    rw [M3.mul_assoc', hR, M3.mul_one']
  refine ⟨P, hP, k, hk, (subunit_orientation sv n s P k _).2, subunit_position sv n s P k _,
    subunit_maps_back sv n s P k _, horb, ?_, b1, b2, ⟨j, hj, b3⟩,
    fun f hf => subunit_other_fields sv n s P k _ f hf,
    (subunit_integer_xyz sv hE.floor n s P k _).1, (subunit_integer_xyz sv hE.floor n s P k _).2.1,
    (subunit_integer_xyz sv hE.floor n s P k _).2.2,
    (subunit_shift_bound sv hE.floor hE.half n s P k _).1, (subunit_shift_bound sv hE.floor hE.half n s P k _).2.1,
    (subunit_shift_bound sv hE.floor hE.half n s P k _).2.2⟩
  rw [subunit_position, V3.add_sub_cancel_left', horb, M3.apply_mul]

end rounding

/-! ### over ℝ with the true cosine and sine: the step angle IS 360/n degrees -/
section real
open Real

theorem realSvc_exact : realSvc.Exact :=
  ⟨trigDeg_isUnit, floorSpec_floorRing, by norm_num [realSvc]⟩

/-- **orientation `R*Rz(360k/n)`** literally: the `k`-th subunit's orientation is the parent's times the rotation
about z by `k·360/n` degrees -/
theorem real_orientation (n : Nat) (s : V3 ℝ) (P : Particle ℝ) (k : Nat) (v : ℝ) :
    ((subunit realSvc n s P k).setId v).orient
      = orientOf realSvc P * rz (cos ((k : ℝ) * (360 / (n : ℝ)) * (π / 180))) (sin ((k : ℝ) * (360 / (n : ℝ)) * (π / 180))) := by
  have ho : ((subunit realSvc n s P k).setId v).orient = orientOf realSvc P * (Ang.nsmul k (stepAng realSvc n)).rz := rfl
  rw [ho, nsmul_stepAng_real]; rfl

/-- for every `n ≥ 1` the closing hypothesis of `orbit_closes` holds: `n` steps are a full turn -/
theorem real_orbit_closes (n : Nat) (hn : 1 ≤ n) : Ang.nsmul n (stepAng realSvc n) = Ang.zero :=
  nsmul_stepAng_close n hn

/-- the `n` subunits of one parent have `n` pairwise different orientations (so, off the axis, different places) -/
theorem real_subunits_distinct (n : Nat) (s : V3 ℝ) (P : Particle ℝ) (j k : Nat) (hjk : j < k) (hk : k < n) (v w : ℝ) :
    ((subunit realSvc n s P j).setId v).orient ≠ ((subunit realSvc n s P k).setId w).orient := by
  intro h
  have ho : ∀ i x, ((subunit realSvc n s P i).setId x).orient = orientOf realSvc P * (Ang.nsmul i (stepAng realSvc n)).rz :=
    fun _ _ => rfl
  rw [ho, ho] at h
  have hR := orientOf_orth realSvc realSvc_exact.unit P
  have h2 := congrArg (fun M => (orientOf realSvc P).transpose * M) h
  simp only [← M3.mul_assoc'] at h2
  unfold M3.Orth at hR
  rw [hR, M3.one_mul', M3.one_mul'] at h2
  have hc : (Ang.nsmul j (stepAng realSvc n)) = (Ang.nsmul k (stepAng realSvc n)) := by
    apply Ang.ext'
    · exact congrArg M3.a11 h2
    · exact congrArg M3.a21 h2
  have hkj : k = j + (k - j) := by omega
  rw [hkj, Ang.nsmul_add] at hc
  have hz := Ang.add_left_cancel (Ang.nsmul_isUnit (realSvc_exact.unit _) j) hc.symm
  exact nsmul_stepAng_ne_zero n (k - j) (by omega) (by omega) hz

end real

/-! ### regression witness D12: the code before repair 837c2ef -/

/-- `np.arange(0, 360, int(360/n))` has exactly `n` entries **iff `n` divides 360** — for every other `n`
(7, 11, 13, 14, 16, …) the as-is code raised -/
theorem asis_runs_iff (n : Nat) (hn : 1 ≤ n) : asisRuns n = true ↔ n ∣ 360 := by
  by_cases h : n < 361
  · have key : ∀ m : Fin 361, 1 ≤ m.val → (asisRuns m.val = true ↔ m.val ∣ 360) := by decide +kernel
    exact key ⟨n, h⟩ hn
  · have h0 : 360 / n = 0 := Nat.div_eq_of_lt (by omega)
    have hf : Gen.C10.fullTurnDeg = 360 := by decide
    constructor
    · intro hr
      simp [asisRuns, asisPhi, hf, h0] at hr
    · intro hd
      have := Nat.le_of_dvd (by omega) hd
      omega

theorem asis_raises_for_7 : asisRuns 7 = false := by decide

/-! ### non-vacuity: the hypotheses used above are satisfiable, the quantified sets are inhabited -/

/-- exact services over ℚ (a constant Pythagorean angle, the rational floor) -/
example : ∃ sv : Svc ℚ, sv.Exact :=
  ⟨{ trig := fun _ => ⟨3 / 5, 4 / 5⟩, floor := fun v => ((⌊v⌋ : ℤ) : ℚ), half := 1 / 2 },
   ⟨fun _ => by norm_num [Ang.IsUnit], floorSpec_floorRing, by norm_num⟩⟩
/-- … and over ℝ with the true trigonometry, for which the closing hypothesis holds for every n ≥ 1 -/
example : realSvc.Exact ∧ Ang.nsmul 7 (stepAng realSvc 7) = Ang.zero := ⟨realSvc_exact, real_orbit_closes 7 (by norm_num)⟩
/-- a quarter turn closes after 4 steps over ℚ -/
example : Ang.nsmul 4 (⟨0, 1⟩ : Ang ℚ) = Ang.zero := by
  apply Ang.ext' <;> norm_num [Ang.nsmul, Ang.add, Ang.zero]
/-- `expand` has members: two parents, 7-fold -/
example : (expand realSvc 7 ⟨1, 2, 3⟩ [default, default]).length = 14 := by rw [subunit_count]; rfl
example : asisRuns 8 = true ∧ asisRuns 7 = false ∧ asisRuns 64 = false := by decide

end CryoCat.C10
