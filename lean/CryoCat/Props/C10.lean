import CryoCat.Lemmas.C10
import CryoCat.Lemmas.C10_Round
import CryoCat.Lemmas.C10_Real
import CryoCat.Lemmas.C10_Parse
import CryoCat.Lemmas.C10_Int
import CryoCat.Lemmas.C10_Asis
import CryoCat.Lemmas.C10_Polar
import CryoCat.Lemmas.C10_PolarReal
/-! C10 — cyclic symmetry expansion places subunits on the symmetry orbit.
Property theorems about `CryoCat.C10.expand` (the Cartesian form of the statement; the driver executes `expandSymP` /
`expandP`, the code's polar arithmetic, tied to `expand` by `expandP_eq` — see the end of this comment), for every `n`, every
particle list (parent ids may repeat), every offset `s`, over any field (orbit algebra, bookkeeping), any ordered
field with a rounding service (integrality, |shift| ≤ 1/2) and over ℝ with the true cosine/sine (the step angle is
360/n degrees); the symmetry argument as a string (`'C7'`, `'c7'`, `'C 7'`, `'C07'`) or a number (`int()` = truncation
toward zero of its exact value). The theorems are stated with the Cartesian rotation `Rz(k·a)·s` of the statement; the
code's own arithmetic (polar form of the offset, `trig(k·360/n)`; `expandP`, what the driver executes) is proved equal to
it UNDER the identities `PolarExact` (polar coordinates of `(x, y)`, angle addition — identities that hold for the real
`sqrt` / `arg` / `cos` / `sin`: `realPolar_exact`), so the abstract `expandP_eq` only factors the algebra; its substance is
the hypothesis-free statement over ℝ with `arctan2 = Complex.arg` (`real_expandP_eq`, `real_expandP_spec`). -/
namespace CryoCat.C10

/-! ### ANCHORS — translator obligations: what the source says today is the documented convention.
One theorem per anchored item, all in this section and nowhere else, so that a changed source line breaks the theorem
NAMED after it (the build obligation lists the failing theorem names under `failed`); the Python side names the
broken `anchor:` too. Locals are alpha-renamed before extraction: renaming a local variable changes nothing here;
type annotations and the wording of messages are dropped; a product / sum with a provably numeric operand (literal or
`np.` call) is shown in canonical operand order (sorted text: `1+n_subunits`, `inplane_step*np.arange(n_subunits)`) —
IEEE `*`/`+` commute bit for bit — while `rotations*rot.from_euler(…)` (composition) stays as written. -/
section anchors

theorem anchors_ok : Gen.C10.anchorsOk = true := by decide

/-- `inplane_step = 360 / nfold`, `n_subunits = nfold`, `phi_k = k * inplane_step` stored as the FIRST zxz angle -/
theorem step_documented :
    Gen.C10.fullTurnDeg = 360 ∧ Gen.C10.stepExpr = "360/nfold" ∧ Gen.C10.nSubunitsExpr = "nfold" ∧
    Gen.C10.phiExpr = "inplane_step*np.arange(n_subunits)" ∧ Gen.C10.phiSlot = 0 := by decide

/-- parent recorded in geom5 (from subtomo_id), subunit index in geom2, parents ordered by subtomo_id,
new ids into subtomo_id, parent orientation read from (phi, theta, psi) -/
theorem fields_documented :
    parentSrcF = .subtomo_id ∧ parentDstF = .geom5 ∧ indexDstF = .geom2 ∧ sortKeyF = .subtomo_id ∧
    idDstF = .subtomo_id ∧ angleF 0 = .phi ∧ angleF 1 = .theta ∧ angleF 2 = .psi := by decide

/-- the symmetry argument: a string gives `nfold` = its last run of digits and is cyclic when it starts with c/C;
a number (Python or numpy, int or float) is cyclic with `nfold = int(symmetry)`; cyclic is `s_type = 1` -/
theorem symmetry_argument_documented :
    Gen.C10.strNfoldExpr = "int(re.findall('\\\\d+',symmetry)[-1])" ∧
    Gen.C10.cyclicPrefixTest = "symmetry.lower().startswith('c')" ∧
    Gen.C10.numericTypes = ["int", "float", "np.integer", "np.floating"] ∧
    Gen.C10.numericNfoldExpr = "int(symmetry)" ∧ Gen.C10.cyclicTypeCode = 1 := by decide

/-- subunit indices `arange(1, n_subunits+1)`, new ids `arange(1, len+1)` -/
theorem numbering_documented :
    Gen.C10.indexStart = 1 ∧ Gen.C10.indexStopExpr = "1+n_subunits" ∧
    Gen.C10.idStart = 1 ∧ Gen.C10.idStopExpr = "1+len(new_motl_df)" := by decide

/-- every Euler conversion is extrinsic "zxz" in degrees; the new rotation is `rotations * from_euler(new_angles)`
(parent on the left) -/
theorem euler_convention_documented :
    Gen.C10.eulerSeqs = ["zxz", "zxz", "zxz"] ∧ Gen.C10.eulerDegrees = [true, true, true] ∧
    Gen.C10.parentAngles = ["phi", "theta", "psi"] ∧
    Gen.C10.composeLeft = "rotations" ∧ Gen.C10.composeRight = "rot.from_euler" := by decide

/-- the shift added is `rotations.apply(center_shift)` with `center_shift` the polar form of `Rz(phi_k) s`; shifts and
Euler angles are assigned as WHOLE COLUMNS (`frame[[…]] = values`, D33: `.loc[:, […]] = ` wrote into the existing columns
and raised for integer-typed columns) -/
theorem shift_expression_documented :
    Gen.C10.shiftFields = ["shift_x", "shift_y", "shift_z"] ∧
    Gen.C10.angleFieldsOut = ["phi", "theta", "psi"] ∧
    Gen.C10.shiftRhs = "new_motl_df[['shift_x','shift_y','shift_z']].to_numpy()+rotations.apply(center_shift)" ∧
    Gen.C10.rhoExpr = "np.sqrt(starting_vector[0]**2+starting_vector[1]**2)" ∧
    Gen.C10.theExpr = "np.arctan2(starting_vector[1],starting_vector[0])" ∧
    Gen.C10.repTheExpr = "np.deg2rad(phi_angles)+np.full((n_subunits,),the)" ∧
    Gen.C10.repZExpr = "np.full((n_subunits,),starting_vector[2])" ∧
    Gen.C10.polarExprs = ["np.cos(rep_the)*rot_rho", "np.sin(rep_the)*rot_rho", "rep_z"] := by decide

/-- `update_coordinates` runs on the result and rounds the complete position half-up, keeping the rest as shift -/
theorem rounding_documented :
    Gen.C10.callsUpdate = true ∧ Gen.C10.roundingModes = ["ROUND_HALF_UP", "ROUND_HALF_UP", "ROUND_HALF_UP"] ∧
    Gen.C10.shiftedExprs = ["row['x']+row['shift_x']", "row['y']+row['shift_y']", "row['z']+row['shift_z']"] ∧
    Gen.C10.restExprs = ["shifted_x-new_row['x']", "shifted_y-new_row['y']", "shifted_z-new_row['z']"] := by decide


/-- since 7710334: `parent_order = np.argsort(self.df["subtomo_id"].to_numpy(), kind="stable")` (a STABLE sort by id)
and the expanded frame is `self.df.iloc[np.repeat(parent_order, n_subunits)].copy()` (n consecutive copies per
parent), assigned once — exactly `sortParents` + `flatMap` of the model -/
theorem parent_order_documented :
    Gen.C10.sortKey = "subtomo_id" ∧ Gen.C10.sortKind = "stable" ∧
    Gen.C10.expandExpr = "self.df.iloc[np.repeat(parent_order,n_subunits)].copy()" := by decide

/-- G1: neither function has an optional argument — there is no default value the statement could depend on -/
theorem signature_documented : Gen.C10.signature = ["self", "symmetry", "xyz_shift"] := by decide

/-- the WHOLE body of `split_in_asymmetric_subunits` (locals alpha-renamed, docstring and message wording dropped):
every statement, in order, with its nesting — so an added, removed, moved or guarded statement is seen also in
the branches no correspondence run executes (dihedral, the two non-raising `ValueError(...)` expressions) -/
theorem body_documented :
    Gen.C10.body = [
      "defsplit_in_asymmetric_subunits(self,symmetry,xyz_shift):",
      ">ifisinstance(symmetry,str):",
      ">>nfold=int(re.findall('\\\\d+',symmetry)[-1])",
      ">>ifsymmetry.lower().startswith('c'):",
      ">>>s_type=1",
      ">>elifsymmetry.lower().startswith('d'):",
      ">>>s_type=2",
      ">>else:",
      ">>>ValueError('<msg>')",
      ">elifisinstance(symmetry,(int,float,np.integer,np.floating)):",
      ">>s_type=1",
      ">>nfold=int(symmetry)",
      ">else:",
      ">>ValueError('<msg>')",
      ">inplane_step=360/nfold",
      ">ifs_type==1:",
      ">>n_subunits=nfold",
      ">>phi_angles=inplane_step*np.arange(n_subunits)",
      ">>new_angles=np.zeros((n_subunits,3))",
      ">>new_angles[:,0]=phi_angles",
      ">elifs_type==2:",
      ">>n_subunits=2*nfold",
      ">>in_plane_offset=int(inplane_step/2)",
      ">>new_angles=np.zeros((n_subunits,3))",
      ">>new_angles[0::2,0]=np.arange(0,360,int(inplane_step))",
      ">>new_angles[1::2,0]=np.arange(0+in_plane_offset,360+in_plane_offset,int(inplane_step))",
      ">>new_angles[1::2,1]=180",
      ">>phi_angles=new_angles[:,0].copy()",
      ">phi_angles=phi_angles.reshape(n_subunits)",
      ">starting_vector=np.array(xyz_shift)",
      ">rho=np.sqrt(starting_vector[0]**2+starting_vector[1]**2)",
      ">the=np.arctan2(starting_vector[1],starting_vector[0])",
      ">rot_rho=np.full((n_subunits,),rho)",
      ">rep_the=np.deg2rad(phi_angles)+np.full((n_subunits,),the)",
      ">rep_z=np.full((n_subunits,),starting_vector[2])",
      ">ifs_type==2:",
      ">>rep_z[1::2]*=-1",
      ">center_shift=np.zeros([rot_rho.shape[0],3])",
      ">center_shift[:,0]=np.cos(rep_the)*rot_rho",
      ">center_shift[:,1]=np.sin(rep_the)*rot_rho",
      ">center_shift[:,2]=rep_z",
      ">parent_order=np.argsort(self.df['subtomo_id'].to_numpy(),kind='stable')",
      ">new_motl_df=self.df.iloc[np.repeat(parent_order,n_subunits)].copy()",
      ">new_motl_df['geom5']=new_motl_df['subtomo_id']",
      ">new_motl_df['geom2']=np.tile(np.arange(1,1+n_subunits).reshape(n_subunits,1),(len(self.df),1))",
      ">euler_angles=new_motl_df[['phi','theta','psi']]",
      ">rotations=rot.from_euler(seq='zxz',angles=euler_angles,degrees=True)",
      ">center_shift=np.tile(center_shift,(len(self.df),1))",
      ">new_angles=np.tile(new_angles,(len(self.df),1))",
      ">new_motl_df[['shift_x','shift_y','shift_z']]=new_motl_df[['shift_x','shift_y','shift_z']].to_numpy()+rotations.apply(center_shift)",
      ">new_rotations=rotations*rot.from_euler(seq='zxz',angles=new_angles,degrees=True)",
      ">new_motl_df[['phi','theta','psi']]=new_rotations.as_euler(seq='zxz',degrees=True)",
      ">new_motl_df['subtomo_id']=np.arange(1,1+len(new_motl_df))",
      ">new_motl=Motl(new_motl_df)",
      ">new_motl.update_coordinates()",
      ">new_motl.df.reset_index(inplace=True,drop=True)",
      ">returnnew_motl"] := by decide +kernel

/-- the whole body of `update_coordinates` -/
theorem update_body_documented :
    Gen.C10.updBody = [
      "defupdate_coordinates(self):",
      ">defround_and_recenter(row):",
      ">>new_row=row.copy()",
      ">>shifted_x=row['x']+row['shift_x']",
      ">>shifted_y=row['y']+row['shift_y']",
      ">>shifted_z=row['z']+row['shift_z']",
      ">>new_row['x']=float(decimal.Decimal(float(shifted_x)).to_integral_value(rounding=decimal.ROUND_HALF_UP))",
      ">>new_row['y']=float(decimal.Decimal(float(shifted_y)).to_integral_value(rounding=decimal.ROUND_HALF_UP))",
      ">>new_row['z']=float(decimal.Decimal(float(shifted_z)).to_integral_value(rounding=decimal.ROUND_HALF_UP))",
      ">>new_row['shift_x']=shifted_x-new_row['x']",
      ">>new_row['shift_y']=shifted_y-new_row['y']",
      ">>new_row['shift_z']=shifted_z-new_row['z']",
      ">>returnnew_row",
      ">self.df=self.df.apply(round_and_recenter,axis=1)",
      ">warnings.warn('<msg>')"] := by decide +kernel

end anchors

/-! ### counting, parents, identifiers (any field, any decidable comparisons — no order axioms needed; parent ids
may repeat: nothing below assumes them unique) -/
section counting
variable {α : Type} [_root_.Field α] [LE α] [DecidableLE α]

private theorem length_flatMap_const {β γ : Type} (f : β → List γ) (n : Nat) (h : ∀ a, (f a).length = n) (l : List β) :
    (l.flatMap f).length = n * l.length := by
  induction l with
  | nil => simp
  | cons a l ih => simp [List.flatMap_cons, h, ih, Nat.mul_succ, Nat.add_comm]

private theorem expandCore_length (sv : Svc α) (n : Nat) (s : V3 α) (l : List (Particle α)) :
    (expandCore sv n s l).length = n * l.length := by
  unfold expandCore
  rw [length_flatMap_const _ n (by intro a; simp)]
  unfold sortParents
  rw [(List.mergeSort_perm _ _).length_eq]

/-- **n particles per input particle**, for every `n` (in particular every `n` not dividing 360) -/
theorem subunit_count (sv : Svc α) (n : Nat) (s : V3 α) (l : List (Particle α)) :
    (expand sv n s l).length = n * l.length := by
  unfold expand; rw [renum_length, expandCore_length]

/-- before renumbering, the output is — up to order — exactly one subunit per (parent, k) with `k < n` -/
theorem expandCore_perm (sv : Svc α) (n : Nat) (s : V3 α) (l : List (Particle α)) :
    (expandCore sv n s l).Perm (l.flatMap (fun P => (List.range n).map (subunit sv n s P))) := by
  unfold expandCore sortParents
  exact List.Perm.flatMap_right _ (List.mergeSort_perm _ _)

/-- the final renumbering gives the `j`-th output (0-based) the subtomogram number `j+1` and changes nothing else -/
theorem expand_getElem (sv : Svc α) (n : Nat) (s : V3 α) (l : List (Particle α)) (j : Nat)
    (h : j < (expandCore sv n s l).length) :
    (expand sv n s l)[j]'(by unfold expand; rw [renum_length]; exact h)
      = ((expandCore sv n s l)[j]).setId (((j + 1 : Nat) : α)) := by
  unfold expand
  rw [renum_getElem 0 _ j h]
  have : Gen.C10.idStart = 1 := by decide
  rw [this, Nat.zero_add]


/-- **each parent's n subunits stand together, in index order, parents in sorted order** — whatever the ids are
(unique, repeated within the list, the same in two tomograms): output number `n·i + k` (0-based, `k < n`) is the
`k`-th subunit of the `i`-th parent of the stably sorted list. This is what 7710334 restored in the code. -/
theorem expandCore_getElem? (sv : Svc α) (n : Nat) (s : V3 α) (l : List (Particle α)) (i k : Nat) (hk : k < n) :
    (expandCore sv n s l)[n * i + k]? = ((sortParents l)[i]?).map (fun P => subunit sv n s P k) := by
  unfold expandCore
  generalize sortParents l = ps
  induction ps generalizing i with
  | nil => simp
  | cons P ps ih =>
    rw [List.flatMap_cons]
    cases i with
    | zero =>
      have h1 : n * 0 + k < ((List.range n).map (subunit sv n s P)).length := by simpa using hk
      rw [List.getElem?_append_left h1]
      simp [List.getElem?_range hk]
    | succ i =>
      have h1 : ((List.range n).map (subunit sv n s P)).length ≤ n * (i + 1) + k := by
        simp only [List.length_map, List.length_range, Nat.mul_succ]; omega
      rw [List.getElem?_append_right h1]
      have h2 : n * (i + 1) + k - ((List.range n).map (subunit sv n s P)).length = n * i + k := by
        simp only [List.length_map, List.length_range, Nat.mul_succ]; omega
      rw [h2, ih]
      simp

/-- the renumbered output: number `n·i + k + 1` is subunit `k` of the `i`-th sorted parent -/
theorem expand_getElem? (sv : Svc α) (n : Nat) (s : V3 α) (l : List (Particle α)) (i k : Nat) (hk : k < n) :
    (expand sv n s l)[n * i + k]?
      = ((sortParents l)[i]?).map (fun P => (subunit sv n s P k).setId (((n * i + k + 1 : Nat)) : α)) := by
  by_cases h : n * i + k < (expandCore sv n s l).length
  · have hl : n * i + k < (expand sv n s l).length := by unfold expand; rw [renum_length]; exact h
    rw [List.getElem?_eq_getElem hl, expand_getElem sv n s l _ h]
    have := expandCore_getElem? sv n s l i k hk
    rw [List.getElem?_eq_getElem h] at this
    cases hP : (sortParents l)[i]? with
    | none => rw [hP] at this; simp at this
    | some P => rw [hP] at this; simp only [Option.map_some, Option.some.injEq] at this ⊢; rw [this]
  · have hl : ¬ n * i + k < (expand sv n s l).length := by unfold expand; rw [renum_length]; exact h
    have := expandCore_getElem? sv n s l i k hk
    rw [List.getElem?_eq_none (by omega)] at this
    rw [List.getElem?_eq_none (by omega)]
    cases hP : (sortParents l)[i]? with
    | none => rfl
    | some P => rw [hP] at this; simp at this

/-- every output is the `k`-th subunit (`k < n`) of some input particle, renumbered -/
theorem expand_sound (sv : Svc α) (n : Nat) (s : V3 α) (l : List (Particle α)) (u : SubU α)
    (hu : u ∈ expand sv n s l) :
    ∃ P ∈ l, ∃ k, k < n ∧ ∃ j, j < n * l.length ∧ u = (subunit sv n s P k).setId (((j + 1 : Nat) : α)) := by
  obtain ⟨j, hj, rfl⟩ := List.getElem_of_mem hu
  have hj' : j < (expandCore sv n s l).length := by
    unfold expand at hj; rwa [renum_length] at hj
  rw [expand_getElem sv n s l j hj']
  have hm : (expandCore sv n s l)[j] ∈ l.flatMap (fun P => (List.range n).map (subunit sv n s P)) :=
    (expandCore_perm sv n s l).mem_iff.1 (List.getElem_mem hj')
  obtain ⟨P, hP, hk⟩ := List.mem_flatMap.1 hm
  obtain ⟨k, hk, e⟩ := List.mem_map.1 hk
  refine ⟨P, hP, k, List.mem_range.1 hk, j, ?_, ?_⟩
  · rwa [expandCore_length] at hj'
  · rw [e]

/-- every (input particle, `k < n`) pair occurs among the outputs -/
theorem expand_complete (sv : Svc α) (n : Nat) (s : V3 α) (l : List (Particle α)) (P : Particle α) (hP : P ∈ l)
    (k : Nat) (hk : k < n) :
    ∃ j, j < n * l.length ∧ (subunit sv n s P k).setId (((j + 1 : Nat) : α)) ∈ expand sv n s l := by
  have hm : subunit sv n s P k ∈ expandCore sv n s l :=
    (expandCore_perm sv n s l).mem_iff.2 (List.mem_flatMap.2 ⟨P, hP, List.mem_map.2 ⟨k, List.mem_range.2 hk, rfl⟩⟩)
  obtain ⟨j, hj, e⟩ := List.getElem_of_mem hm
  refine ⟨j, by rwa [expandCore_length] at hj, ?_⟩
  rw [← e, ← expand_getElem sv n s l j hj]
  exact List.getElem_mem _

private theorem setId_id (u : SubU α) (v : α) : (u.setId v).p.subtomo_id = v := by
  have : idDstF = .subtomo_id := by decide
  simp [SubU.setId, this, Particle.set]

private theorem renum_ids (i : Nat) (us : List (SubU α)) :
    (renum i us).map (fun u => u.p.subtomo_id) = (List.range us.length).map (fun j => (((i + j + 1 : Nat)) : α)) := by
  have h1 : Gen.C10.idStart = 1 := by decide
  induction us generalizing i with
  | nil => rfl
  | cons u us ih =>
    simp only [renum, List.map_cons, List.length_cons, List.range_succ_eq_map, List.map_map, setId_id, h1, ih (i + 1)]
    congr 1
    apply List.map_congr_left
    intro j _
    simp only [Function.comp, Nat.succ_eq_add_one]
    congr 1; omega

/-- **unique subtomogram numbers**: the outputs are numbered 1, 2, …, n·N in order -/
theorem expand_ids (sv : Svc α) (n : Nat) (s : V3 α) (l : List (Particle α)) :
    (expand sv n s l).map (fun u => u.p.subtomo_id) = (List.range (n * l.length)).map (fun j => (((j + 1 : Nat)) : α)) := by
  unfold expand
  rw [renum_ids, expandCore_length]
  simp

theorem expand_ids_nodup [CharZero α] (sv : Svc α) (n : Nat) (s : V3 α) (l : List (Particle α)) :
    ((expand sv n s l).map (fun u => u.p.subtomo_id)).Nodup := by
  rw [expand_ids]
  refine (List.nodup_range).map_on ?_
  intro a _ b _ h
  have := Nat.cast_injective (R := α) h
  omega

end counting


/-! ### the parent order: `np.argsort(ids, kind="stable")` (ordered fields) -/
section order
variable {α : Type} [LinearOrder α]

private theorem le_trans' (a b c : Particle α) :
    decide (a.get sortKeyF ≤ b.get sortKeyF) = true → decide (b.get sortKeyF ≤ c.get sortKeyF) = true →
    decide (a.get sortKeyF ≤ c.get sortKeyF) = true := by
  simp only [decide_eq_true_eq]; exact le_trans
private theorem le_total' (a b : Particle α) :
    (decide (a.get sortKeyF ≤ b.get sortKeyF) || decide (b.get sortKeyF ≤ a.get sortKeyF)) = true := by
  simp only [Bool.or_eq_true, decide_eq_true_eq]; exact le_total _ _

/-- the parents come in ascending subtomo_id … -/
theorem sortParents_sorted (l : List (Particle α)) :
    (sortParents l).Pairwise (fun p q => p.subtomo_id ≤ q.subtomo_id) := by
  have hk : sortKeyF = .subtomo_id := by decide
  have := List.pairwise_mergeSort (le := fun p q : Particle α => decide (p.get sortKeyF ≤ q.get sortKeyF)) le_trans' le_total' l
  simp only [decide_eq_true_eq, hk, Particle.get] at this
  exact this

/-- … and **parents that share an id keep their row order** (the sort is stable): the rows with id `v`, in the
order of the input list, are a sublist of the sorted parents. With `expandCore_getElem?` this is the whole row
bookkeeping of the function for ARBITRARY ids -/
theorem sortParents_stable (l : List (Particle α)) (v : α) :
    (l.filter (fun p => decide (p.subtomo_id = v))).Sublist (sortParents l) := by
  have hk : sortKeyF = .subtomo_id := by decide
  unfold sortParents
  apply List.sublist_mergeSort le_trans' le_total'
  · rw [List.pairwise_filter]
    apply List.pairwise_of_forall
    intro p q hp hq
    simp only [decide_eq_true_eq] at hp hq
    simp only [decide_eq_true_eq, hk, Particle.get, hp, hq, le_refl]
  · exact List.filter_sublist

theorem sortParents_perm (l : List (Particle α)) : (sortParents l).Perm l := List.mergeSort_perm _ _

end order

/-! ### one subunit: bookkeeping, orientation, position, orbit (exact arithmetic over any field) -/
section orbit
variable {α : Type} [_root_.Field α]

/-- **records its parent (geom5) and subunit index 1..n (geom2)**; the renumbering sets subtomo_id only -/
theorem subunit_bookkeeping (sv : Svc α) (n : Nat) (s : V3 α) (P : Particle α) (k : Nat) (v : α) :
    ((subunit sv n s P k).setId v).p.geom5 = P.subtomo_id ∧
    ((subunit sv n s P k).setId v).p.geom2 = (((k + 1 : Nat)) : α) ∧
    ((subunit sv n s P k).setId v).p.subtomo_id = v := by
  obtain ⟨h1, h2, h3, _, h5, _⟩ := fields_documented
  have h6 : Gen.C10.indexStart = 1 := by decide
  simp [subunit, mkSub, SubU.setId, h1, h2, h3, h5, h6, Particle.set, Particle.get]

/-- arithmetic helper, NOT a clause by itself: the 1-based index of a 0-based `k < n` lies in `1..n` (the clause is
`expand_index_range` below, which says it of the recorded `geom2` of every output) -/
theorem subunit_index_range (k n : Nat) (hk : k < n) : 1 ≤ k + 1 ∧ k + 1 ≤ n := by omega

/-- **carries the parent's other fields** -/
theorem subunit_other_fields (sv : Svc α) (n : Nat) (s : V3 α) (P : Particle α) (k : Nat) (v : α) (f : Field)
    (hf : f ∈ [Field.score, .geom1, .tomo_id, .object_id, .subtomo_mean, .geom3, .geom4, .cls]) :
    ((subunit sv n s P k).setId v).p.get f = P.get f := by
  obtain ⟨h1, h2, h3, _, h5, _⟩ := fields_documented
  simp only [List.mem_cons, List.not_mem_nil, or_false] at hf
  rcases hf with rfl | rfl | rfl | rfl | rfl | rfl | rfl | rfl <;>
    simp [subunit, mkSub, SubU.setId, h1, h2, h3, h5, Particle.set, Particle.get]

/-- **orientation `R * Rz(a)^k`** with `a` the step angle (second conjunct: the `k`-fold angle sum of the model is
the `k`-th matrix power of the one-step rotation). The first conjunct only restates the model's definition
(`rfl`; kept as the anchor the other proofs rewrite with) — that the model's orientation is the CODE's is what
`expandP_eq` (code arithmetic = this model) and the differential run establish, and that the angle is `360k/n`
degrees is `real_orientation`. -/
theorem subunit_orientation (sv : Svc α) (n : Nat) (s : V3 α) (P : Particle α) (k : Nat) (v : α) :
    ((subunit sv n s P k).setId v).orient = orientOf sv P * (Ang.nsmul k (stepAng sv n)).rz ∧
    ((subunit sv n s P k).setId v).orient = orientOf sv P * mpow (stepAng sv n).rz k := by
  refine ⟨rfl, ?_⟩
  rw [← Ang.rz_nsmul]; rfl

/-- **complete position = centre + that orientation applied to `s`** (rounding moves nothing: what is rounded
off `x,y,z` stays in the shifts) -/
theorem subunit_position (sv : Svc α) (n : Nat) (s : V3 α) (P : Particle α) (k : Nat) (v : α) :
    pos ((subunit sv n s P k).setId v).p = pos P + ((subunit sv n s P k).setId v).orient.apply s := by
  obtain ⟨_, _, _, _, h5, _⟩ := fields_documented
  have ho : ((subunit sv n s P k).setId v).orient = orientOf sv P * (Ang.nsmul k (stepAng sv n)).rz := rfl
  rw [ho, M3.apply_mul]
  ext <;> simp [subunit, mkSub, SubU.setId, h5, Particle.set, pos, V3.add_def, V3.add] <;> ring

/-- **all n subunits map back to the parent's centre** -/
theorem subunit_maps_back (sv : Svc α) (n : Nat) (s : V3 α) (P : Particle α) (k : Nat) (v : α) :
    pos ((subunit sv n s P k).setId v).p - ((subunit sv n s P k).setId v).orient.apply s = pos P := by
  rw [subunit_position]; exact V3.add_sub_cancel' _ _

/-- the parent's orientation is a rotation matrix once the trig service returns points of the unit circle -/
theorem orientOf_orth (sv : Svc α) (hU : ∀ x, (sv.trig x).IsUnit) (P : Particle α) : (orientOf sv P).Orth :=
  zxz_orth _ _ _ _ _ _ (hU _) (hU _) (hU _)

theorem orientOf_orth_right (sv : Svc α) (hU : ∀ x, (sv.trig x).IsUnit) (P : Particle α) :
    orientOf sv P * (orientOf sv P).transpose = M3.one :=
  zxz_orth_right _ _ _ _ _ _ (hU _) (hU _) (hU _)

/-- it is orthogonal and fixes the parent's z axis `R e_z` -/
theorem ownAxisRot_axis (sv : Svc α) (hU : ∀ x, (sv.trig x).IsUnit) (n : Nat) (P : Particle α) (j : Nat) :
    (ownAxisRot sv n P j).apply (orientOf sv P).col3 = (orientOf sv P).col3 ∧ (ownAxisRot sv n P j).Orth := by
  have hR := orientOf_orth sv hU P
  constructor
  · unfold ownAxisRot
    rw [col3_eq_apply_ez, conj_apply hR, Ang.rz_apply_ez]
  · unfold ownAxisRot
    exact (hR.mul (Ang.rz_orth (Ang.nsmul_isUnit (hU _) j))).mul (orth_transpose (orientOf_orth_right sv hU P))

/-- **the subunits are related by rotations about the parent's own z axis**: subunit `k+j` is subunit `k`
turned by `ownAxisRot j` about the parent's centre — orientation and complete position alike; every subunit
keeps the parent's z axis and its distance from the centre -/
theorem subunit_orbit (sv : Svc α) (hU : ∀ x, (sv.trig x).IsUnit) (n : Nat) (s : V3 α) (P : Particle α) (k j : Nat) (v w : α) :
    ((subunit sv n s P (j + k)).setId w).orient = ownAxisRot sv n P j * ((subunit sv n s P k).setId v).orient ∧
    pos ((subunit sv n s P (j + k)).setId w).p - pos P
      = (ownAxisRot sv n P j).apply (pos ((subunit sv n s P k).setId v).p - pos P) ∧
    ((subunit sv n s P k).setId v).orient.col3 = (orientOf sv P).col3 ∧
    V3.normSq (pos ((subunit sv n s P k).setId v).p - pos P) = V3.normSq s := by
  have hR := orientOf_orth sv hU P
  have ho : ∀ i x, ((subunit sv n s P i).setId x).orient = orientOf sv P * (Ang.nsmul i (stepAng sv n)).rz :=
    fun _ _ => rfl
  have hpos : ∀ i x, pos ((subunit sv n s P i).setId x).p - pos P
      = (orientOf sv P * (Ang.nsmul i (stepAng sv n)).rz).apply s := by
    intro i x; rw [subunit_position, ho, V3.add_sub_cancel_left']
  have hmul : orientOf sv P * (Ang.nsmul (j + k) (stepAng sv n)).rz
      = ownAxisRot sv n P j * (orientOf sv P * (Ang.nsmul k (stepAng sv n)).rz) := by
    unfold ownAxisRot
    rw [conj_mul hR, Ang.nsmul_add, Ang.rz_add]
  refine ⟨?_, ?_, ?_, ?_⟩
  · rw [ho, ho, hmul]
  · rw [hpos, hpos, hmul, M3.apply_mul]
  · rw [ho, col3_mul_rz]
  · rw [hpos]
    exact (hR.mul (Ang.rz_orth (Ang.nsmul_isUnit (hU _) k))).normSq_apply s

/-- **the orbit closes**: when `n` steps make a full turn, `Rz(a)^n = 1`, the own-axis rotation by `n` steps is
the identity and subunit `k+n` would coincide with subunit `k` — the n outputs are one full orbit of the
cyclic group generated by the own-axis rotation by one step -/
theorem orbit_closes (sv : Svc α) (hU : ∀ x, (sv.trig x).IsUnit) (n : Nat)
    (hclose : Ang.nsmul n (stepAng sv n) = Ang.zero) (s : V3 α) (P : Particle α) (k : Nat) (v : α) :
    mpow (stepAng sv n).rz n = M3.one ∧ ownAxisRot sv n P n = M3.one ∧
    ((subunit sv n s P (n + k)).setId v).orient = ((subunit sv n s P k).setId v).orient ∧
    pos ((subunit sv n s P (n + k)).setId v).p = pos ((subunit sv n s P k).setId v).p := by
  have h1 : mpow (stepAng sv n).rz n = M3.one := by rw [← Ang.rz_nsmul, hclose, Ang.rz_zero]
  have ho : ∀ i x, ((subunit sv n s P i).setId x).orient = orientOf sv P * (Ang.nsmul i (stepAng sv n)).rz :=
    fun _ _ => rfl
  have h3 : ((subunit sv n s P (n + k)).setId v).orient = ((subunit sv n s P k).setId v).orient := by
    rw [ho, ho, Ang.nsmul_add, hclose, Ang.zero_add]
  refine ⟨h1, ?_, h3, ?_⟩
  · unfold ownAxisRot
    rw [hclose, Ang.rz_zero, M3.mul_one']
    exact orientOf_orth_right sv hU P
  · rw [subunit_position, subunit_position, h3]

end orbit

/-! ### rounding (`update_coordinates`): any ordered field, any rounding service that returns an integer within 1/2
(`RoundSpec`; the floor formula with any floor service is one: `roundSpec_of_floor`; the driver's exact rational
rounding is one: `ratRound_spec`) -/
section rounding
variable {α : Type} [_root_.Field α] [LinearOrder α] [IsStrictOrderedRing α]

/-- **integer x, y, z** -/
theorem subunit_integer_xyz (sv : Svc α) (hr : RoundSpec sv.round) (n : Nat) (s : V3 α) (P : Particle α) (k : Nat) (v : α) :
    IsInt ((subunit sv n s P k).setId v).p.x ∧ IsInt ((subunit sv n s P k).setId v).p.y ∧
    IsInt ((subunit sv n s P k).setId v).p.z := by
  obtain ⟨_, _, _, _, h5, _⟩ := fields_documented
  simp only [subunit, mkSub, SubU.setId, h5, Particle.set]
  exact ⟨(hr _).1, (hr _).1, (hr _).1⟩

/-- **|shift| ≤ 0.5** -/
theorem subunit_shift_bound (sv : Svc α) (hr : RoundSpec sv.round)
    (n : Nat) (s : V3 α) (P : Particle α) (k : Nat) (v : α) :
    |((subunit sv n s P k).setId v).p.shift_x| ≤ 1 / 2 ∧ |((subunit sv n s P k).setId v).p.shift_y| ≤ 1 / 2 ∧
    |((subunit sv n s P k).setId v).p.shift_z| ≤ 1 / 2 := by
  obtain ⟨_, _, _, _, h5, _⟩ := fields_documented
  simp only [subunit, mkSub, SubU.setId, h5, Particle.set]
  exact ⟨(hr _).2, (hr _).2, (hr _).2⟩

/-- **The property, for every output of `expand`** (every `n`, every list, every offset — also `s` on the axis):
each output is the `k`-th subunit (`k < n`) of an input particle `P`: orientation `R·Rz(a)^k`, complete position
`centre + orientation·s` (so it maps back to the centre), obtained from the parent's pose by the rotation
`R·Rz(k a)·Rᵀ` about the parent's own z axis, parent in geom5, index `k+1` in geom2, a subtomogram number in
`1..n·N`, the parent's other fields, integer `x,y,z`, `|shift| ≤ 1/2`. -/
theorem expand_spec (sv : Svc α) (hE : sv.Exact) (n : Nat) (s : V3 α) (l : List (Particle α)) (u : SubU α)
    (hu : u ∈ expand sv n s l) :
    ∃ P ∈ l, ∃ k, k < n ∧
      u.orient = orientOf sv P * mpow (stepAng sv n).rz k ∧
      pos u.p = pos P + u.orient.apply s ∧
      pos u.p - u.orient.apply s = pos P ∧
      u.orient = ownAxisRot sv n P k * orientOf sv P ∧
      pos u.p - pos P = (ownAxisRot sv n P k).apply ((orientOf sv P).apply s) ∧
      u.p.geom5 = P.subtomo_id ∧ u.p.geom2 = (((k + 1 : Nat)) : α) ∧
      (∃ j, j < n * l.length ∧ u.p.subtomo_id = (((j + 1 : Nat)) : α)) ∧
      (∀ f ∈ [Field.score, .geom1, .tomo_id, .object_id, .subtomo_mean, .geom3, .geom4, .cls], u.p.get f = P.get f) ∧
      IsInt u.p.x ∧ IsInt u.p.y ∧ IsInt u.p.z ∧
      |u.p.shift_x| ≤ 1 / 2 ∧ |u.p.shift_y| ≤ 1 / 2 ∧ |u.p.shift_z| ≤ 1 / 2 := by
  obtain ⟨P, hP, k, hk, j, hj, rfl⟩ := expand_sound sv n s l u hu
  obtain ⟨b1, b2, b3⟩ := subunit_bookkeeping sv n s P k (((j + 1 : Nat)) : α)
  have hR := orientOf_orth sv hE.unit P
  have horb : ((subunit sv n s P k).setId (((j + 1 : Nat)) : α)).orient = ownAxisRot sv n P k * orientOf sv P := by
    have ho : ((subunit sv n s P k).setId (((j + 1 : Nat)) : α)).orient
        = orientOf sv P * (Ang.nsmul k (stepAng sv n)).rz := rfl
    rw [ho]; unfold ownAxisRot
    unfold M3.Orth at hR
    rw [M3.mul_assoc', hR, M3.mul_one']
  refine ⟨P, hP, k, hk, (subunit_orientation sv n s P k _).2, subunit_position sv n s P k _,
    subunit_maps_back sv n s P k _, horb, ?_, b1, b2, ⟨j, hj, b3⟩,
    fun f hf => subunit_other_fields sv n s P k _ f hf,
    (subunit_integer_xyz sv hE.round n s P k _).1, (subunit_integer_xyz sv hE.round n s P k _).2.1,
    (subunit_integer_xyz sv hE.round n s P k _).2.2,
    (subunit_shift_bound sv hE.round n s P k _).1, (subunit_shift_bound sv hE.round n s P k _).2.1,
    (subunit_shift_bound sv hE.round n s P k _).2.2⟩
  rw [subunit_position, V3.add_sub_cancel_left', horb, M3.apply_mul]

/-- **subunit index 1..n (geom2)** of every output: the recorded index is `(j : α)` for a natural `j` with `1 ≤ j ≤ n` -/
theorem expand_index_range (sv : Svc α) (n : Nat) (s : V3 α) (l : List (Particle α)) (u : SubU α)
    (hu : u ∈ expand sv n s l) : ∃ j : Nat, 1 ≤ j ∧ j ≤ n ∧ u.p.geom2 = (j : α) := by
  obtain ⟨P, _, k, hk, j, _, rfl⟩ := expand_sound sv n s l u hu
  exact ⟨k + 1, (subunit_index_range k n hk).1, (subunit_index_range k n hk).2, (subunit_bookkeeping sv n s P k _).2.1⟩

end rounding

/-! ### over ℝ with the true cosine and sine: the step angle IS 360/n degrees -/
section real
open Real

theorem realSvc_exact : realSvc.Exact :=
  ⟨trigDeg_isUnit, roundSpec_of_floor floorSpec_floorRing (by norm_num)⟩

/-- **orientation `R*Rz(360k/n)`** literally: the `k`-th subunit's orientation is the parent's times the rotation
about z by `k·360/n` degrees -/
theorem real_orientation (n : Nat) (s : V3 ℝ) (P : Particle ℝ) (k : Nat) (v : ℝ) :
    ((subunit realSvc n s P k).setId v).orient
      = orientOf realSvc P * rz (cos ((k : ℝ) * (360 / (n : ℝ)) * (π / 180))) (sin ((k : ℝ) * (360 / (n : ℝ)) * (π / 180))) := by
  have ho : ((subunit realSvc n s P k).setId v).orient = orientOf realSvc P * (Ang.nsmul k (stepAng realSvc n)).rz := rfl
  rw [ho, nsmul_stepAng_real]; rfl

/-- for every `n ≥ 1` the closing hypothesis of `orbit_closes` holds: `n` steps are a full turn -/
theorem real_orbit_closes (n : Nat) (hn : 1 ≤ n) : Ang.nsmul n (stepAng realSvc n) = Ang.zero :=
  nsmul_stepAng_close n hn

/-- the `n` subunits of one parent have `n` pairwise different orientations (so, off the axis, different places) -/
theorem real_subunits_distinct (n : Nat) (s : V3 ℝ) (P : Particle ℝ) (j k : Nat) (hjk : j < k) (hk : k < n) (v w : ℝ) :
    ((subunit realSvc n s P j).setId v).orient ≠ ((subunit realSvc n s P k).setId w).orient := by
  intro h
  have ho : ∀ i x, ((subunit realSvc n s P i).setId x).orient = orientOf realSvc P * (Ang.nsmul i (stepAng realSvc n)).rz :=
    fun _ _ => rfl
  rw [ho, ho] at h
  have hR := orientOf_orth realSvc realSvc_exact.unit P
  have h2 := congrArg (fun M => (orientOf realSvc P).transpose * M) h
  simp only [← M3.mul_assoc'] at h2
  unfold M3.Orth at hR
  rw [hR, M3.one_mul', M3.one_mul'] at h2
  have hc : (Ang.nsmul j (stepAng realSvc n)) = (Ang.nsmul k (stepAng realSvc n)) := by
    apply Ang.ext'
    · exact congrArg M3.a11 h2
    · exact congrArg M3.a21 h2
  have hkj : k = j + (k - j) := by omega
  rw [hkj, Ang.nsmul_add] at hc
  have hz := Ang.add_left_cancel (Ang.nsmul_isUnit (realSvc_exact.unit _) j) hc.symm
  exact nsmul_stepAng_ne_zero n (k - j) (by omega) (by omega) hz

end real


/-! ### the symmetry argument: `'Cn'`, `'cn'`, blanks or zero padding before the number, or a number -/
section symmetry

/-- `int(re.findall(r"\\d+", "C" + str(n))[-1]) = n`, cyclic: the string forms of the statement -/
theorem parse_padded (lead : Char) (hl : lead = 'C' ∨ lead = 'c') (blanks zeros n : Nat) :
    parseSym (.str (lead :: (List.replicate blanks ' ' ++ (List.replicate zeros '0' ++ digits n)))) = .cyclic n := by
  have hpre : ∀ c ∈ lead :: List.replicate blanks ' ', isDig c = false := by
    intro c hc
    rcases List.mem_cons.1 hc with rfl | hc
    · rcases hl with rfl | rfl <;> rfl
    · rw [(List.mem_replicate.1 hc).2]; rfl
  have hd : ∀ c ∈ List.replicate zeros '0' ++ digits n, isDig c = true := by
    intro c hc
    rcases List.mem_append.1 hc with hc | hc
    · rw [(List.mem_replicate.1 hc).2]; rfl
    · exact digits_isDig n c hc
  have hne : List.replicate zeros '0' ++ digits n ≠ [] := by
    intro h; exact digits_ne_nil n (List.append_eq_nil_iff.1 h).2
  have hf := findallDigits_prefix (lead :: List.replicate blanks ' ') _ hpre hne hd
  rw [List.cons_append] at hf
  unfold parseSym
  simp only [hf, List.getLast?_singleton, List.head?_cons, natOfDigits_zeros, natOfDigits_digits]
  rcases hl with rfl | rfl <;> rfl

/-- **the last number counts**: whatever text (digits included) stands between the letter and a non-digit `sep`,
the order is the number after it — `'C2 x11'` is 11-fold -/
theorem parse_last_number (lead : Char) (hl : lead = 'C' ∨ lead = 'c') (mid : List Char) (sep : Char)
    (hs : isDig sep = false) (zeros n : Nat) :
    parseSym (.str (lead :: (mid ++ sep :: (List.replicate zeros '0' ++ digits n)))) = .cyclic n := by
  have hd : ∀ c ∈ List.replicate zeros '0' ++ digits n, isDig c = true := by
    intro c hc
    rcases List.mem_append.1 hc with hc | hc
    · rw [(List.mem_replicate.1 hc).2]; rfl
    · exact digits_isDig n c hc
  have hne : List.replicate zeros '0' ++ digits n ≠ [] := by
    intro h; exact digits_ne_nil n (List.append_eq_nil_iff.1 h).2
  have hf := findallDigits_last (lead :: mid) sep hs _ hne hd
  rw [List.cons_append] at hf
  unfold parseSym
  simp only [hf, List.head?_cons, natOfDigits_zeros, natOfDigits_digits]
  rcases hl with rfl | rfl <;> rfl

/-- `'C7'` -/
theorem parse_C (n : Nat) : parseSym (.str ('C' :: digits n)) = .cyclic n := by
  simpa using parse_padded 'C' (Or.inl rfl) 0 0 n
/-- `'c7'` -/
theorem parse_c (n : Nat) : parseSym (.str ('c' :: digits n)) = .cyclic n := by
  simpa using parse_padded 'c' (Or.inr rfl) 0 0 n
/-- a number whose value is the integer `n` (`7`, `7.0`, `np.int64(7)`, `np.float64(7)`) is cyclic of order `n`:
Python's `int()` — modelled as truncation toward zero of the exact value, `truncInt` — is the identity there -/
theorem parse_num (n : Nat) : parseSym (.num (n : ℚ)) = .cyclic n := by
  rw [parseSym_num, truncInt_natCast]
  simp

/-- `int()` TRUNCATES: a float between `n` and `n+1` (`7.9`) is `n`-fold (outside the statement, which speaks of the
number `n` itself; this is what the code does with it) -/
theorem parse_num_trunc (q : ℚ) (n : Nat) (h1 : (n : ℚ) ≤ q) (h2 : q < (n : ℚ) + 1) : parseSym (.num q) = .cyclic n := by
  rw [parseSym_num, truncInt_of_mem q n h1 h2]
  simp

/-- a number `≤ -1` is refused (`np.zeros((nfold, 3))` with a negative dimension), a NaN / infinity too (`int()` raises),
and `-1 < q < 1` gives `nfold = 0` (toward zero: also `-0.9`), which `expandSym` refuses (`360 / 0`) -/
theorem parse_num_refused (q : ℚ) :
    (q ≤ -1 → parseSym (.num q) = .negative) ∧ parseSym .nonfinite = .raises ∧
    (-1 < q → q < 1 → parseSym (.num q) = .cyclic 0) := by
  refine ⟨fun h => ?_, rfl, fun h1 h2 => ?_⟩
  · rw [parseSym_num, if_pos ((truncInt_neg_iff q).2 h)]
  · have hn : ¬ truncInt q < 0 := by rw [truncInt_neg_iff]; intro h; linarith
    rw [parseSym_num, if_neg hn]
    rcases lt_or_ge q 0 with h0 | h0
    · have h3 : truncInt (-q) = 0 := by
        have := truncInt_of_mem (-q) 0 (by simp; linarith) (by simp; linarith)
        simpa using this
      rw [truncInt_neg] at h3
      have : truncInt q = 0 := by omega
      rw [this]; rfl
    · have := truncInt_of_mem q 0 (by simpa using h0) (by simpa using h2)
      rw [this]; rfl

/-- the concrete spellings the correspondence run uses: `digits` is `str(n)`; blanks, zero padding, both letters;
a dihedral string is not cyclic, a string without a number raises, any other first letter leaves `s_type` unbound -/
theorem parse_examples :
    parseSym (.str "C7".toList) = .cyclic 7 ∧ parseSym (.str "c49".toList) = .cyclic 49 ∧
    parseSym (.str "C 7".toList) = .cyclic 7 ∧ parseSym (.str "C07".toList) = .cyclic 7 ∧
    parseSym (.str "c 064".toList) = .cyclic 64 ∧ parseSym (.str "C2x13".toList) = .cyclic 13 ∧
    parseSym (.str "D4".toList) = .dihedral 4 ∧ parseSym (.str "C".toList) = .raises ∧
    parseSym (.str "x7".toList) = .unbound := by decide +kernel

/-- the whole call on the string: `'C' + str(n)` (any `n ≥ 1`) runs `expand n` -/
theorem expandSym_string {α : Type} [_root_.Field α] [LE α] [DecidableLE α] (sv : Svc α) (lead : Char)
    (hl : lead = 'C' ∨ lead = 'c') (blanks zeros n : Nat) (hn : 1 ≤ n) (s : V3 α) (l : List (Particle α)) :
    expandSym sv (.str (lead :: (List.replicate blanks ' ' ++ (List.replicate zeros '0' ++ digits n)))) s l
      = some (expand sv n s l) := by
  unfold expandSym; rw [parse_padded lead hl]; simp; omega

theorem expandSym_num {α : Type} [_root_.Field α] [LE α] [DecidableLE α] (sv : Svc α) (n : Nat) (hn : 1 ≤ n)
    (s : V3 α) (l : List (Particle α)) : expandSym sv (.num (n : ℚ)) s l = some (expand sv n s l) := by
  unfold expandSym; rw [parse_num]; simp; omega

end symmetry

/-! ### the code's own arithmetic: polar form of the offset, `trig(k·360/n)` — equal to the Cartesian model -/
section polar

/-- **The property for the definition the driver executes** (`expandP`: `rho = sqrt(s0²+s1²)`, `the = arctan2(s1, s0)`,
`center_shift = (rho cos(the + deg2rad phi_k), rho sin(…), s2)`, `phi_k = k·(360/n)`): under `sv.Exact` and the
identities `PolarExact` (which hold for the real functions, `realPolar_exact`) every output of `expandP` satisfies
EVERY conjunct of `expand_spec` (the conclusion below is that of `expand_spec`, word for word) — because
`expandP = expand` (`expandP_eq`) -/
theorem expandP_spec {α : Type} [_root_.Field α] [LinearOrder α] [IsStrictOrderedRing α]
    (sv : Svc α) (pv : PolarSvc α) (hE : sv.Exact) (hP : PolarExact sv pv) (n : Nat) (s : V3 α)
    (l : List (Particle α)) (u : SubU α) (hu : u ∈ expandP sv pv n s l) :
    ∃ P ∈ l, ∃ k, k < n ∧
      u.orient = orientOf sv P * mpow (stepAng sv n).rz k ∧
      pos u.p = pos P + u.orient.apply s ∧
      pos u.p - u.orient.apply s = pos P ∧
      u.orient = ownAxisRot sv n P k * orientOf sv P ∧
      pos u.p - pos P = (ownAxisRot sv n P k).apply ((orientOf sv P).apply s) ∧
      u.p.geom5 = P.subtomo_id ∧ u.p.geom2 = (((k + 1 : Nat)) : α) ∧
      (∃ j, j < n * l.length ∧ u.p.subtomo_id = (((j + 1 : Nat)) : α)) ∧
      (∀ f ∈ [Field.score, .geom1, .tomo_id, .object_id, .subtomo_mean, .geom3, .geom4, .cls], u.p.get f = P.get f) ∧
      IsInt u.p.x ∧ IsInt u.p.y ∧ IsInt u.p.z ∧
      |u.p.shift_x| ≤ 1 / 2 ∧ |u.p.shift_y| ≤ 1 / 2 ∧ |u.p.shift_z| ≤ 1 / 2 := by
  rw [expandP_eq hP] at hu
  exact expand_spec sv hE n s l u hu

/-- over ℝ, with numpy's functions taken as the true ones (`Real.sqrt`, `arctan2 = Complex.arg`, `Real.cos/sin`), the
code's polar arithmetic IS the Cartesian model, for every `n`, offset (on the axis too) and list — no hypothesis left -/
theorem real_expandP_eq (n : Nat) (s : V3 ℝ) (l : List (Particle ℝ)) :
    expandP realSvc realPolar n s l = expand realSvc n s l := expandP_eq realPolar_exact n s l

/-- … and the offset the code adds for subunit `k` is the rotation of `s` about z by `k·360/n` degrees -/
theorem real_centerShift (n k : Nat) (s : V3 ℝ) :
    centerShift realPolar s (phiDeg n k)
      = (rz (Real.cos ((k : ℝ) * (360 / (n : ℝ)) * (Real.pi / 180))) (Real.sin ((k : ℝ) * (360 / (n : ℝ)) * (Real.pi / 180)))).apply s := by
  rw [centerShift_eq realPolar_exact, trig_phiDeg realPolar_exact, nsmul_stepAng_real]; rfl

/-- **hypothesis-free over ℝ**: every output of the code's arithmetic (`expandP` with the true `sqrt`, `arctan2`, `cos`,
`sin`, rounding half away from zero) is the `k`-th subunit (`k < n`) of an input particle `P` with orientation
`R·Rz(k·360/n°)`, complete position `centre + orientation·s`, offset from the centre obtained by the rotation about the
parent's own z axis, parent in geom5, index `k+1` in geom2, a subtomogram number in `1..n·N`, the parent's other fields,
integer `x,y,z`, `|shift| ≤ 1/2` — for every `n`, every list, every offset (all conjuncts of `expand_spec`, the
orientation spelled out in degrees) -/
theorem real_expandP_spec (n : Nat) (s : V3 ℝ) (l : List (Particle ℝ)) (u : SubU ℝ) (hu : u ∈ expandP realSvc realPolar n s l) :
    ∃ P ∈ l, ∃ k, k < n ∧
      u.orient = orientOf realSvc P * rz (Real.cos ((k : ℝ) * (360 / (n : ℝ)) * (Real.pi / 180))) (Real.sin ((k : ℝ) * (360 / (n : ℝ)) * (Real.pi / 180))) ∧
      pos u.p = pos P + u.orient.apply s ∧
      pos u.p - u.orient.apply s = pos P ∧
      u.orient = ownAxisRot realSvc n P k * orientOf realSvc P ∧
      pos u.p - pos P = (ownAxisRot realSvc n P k).apply ((orientOf realSvc P).apply s) ∧
      u.p.geom5 = P.subtomo_id ∧ u.p.geom2 = (((k + 1 : Nat)) : ℝ) ∧
      (∃ j, j < n * l.length ∧ u.p.subtomo_id = (((j + 1 : Nat)) : ℝ)) ∧
      (∀ f ∈ [Field.score, .geom1, .tomo_id, .object_id, .subtomo_mean, .geom3, .geom4, .cls], u.p.get f = P.get f) ∧
      IsInt u.p.x ∧ IsInt u.p.y ∧ IsInt u.p.z ∧
      |u.p.shift_x| ≤ 1 / 2 ∧ |u.p.shift_y| ≤ 1 / 2 ∧ |u.p.shift_z| ≤ 1 / 2 := by
  obtain ⟨P, hPl, k, hk, h1, h2, h3, h4, h5, h6, h7, h8, h9, h10, h11, h12, h13, h14, h15⟩ :=
    expandP_spec realSvc realPolar realSvc_exact realPolar_exact n s l u hu
  refine ⟨P, hPl, k, hk, ?_, h2, h3, h4, h5, h6, h7, h8, h9, h10, h11, h12, h13, h14, h15⟩
  rw [h1, ← Ang.rz_nsmul, nsmul_stepAng_real]; rfl

/-- the whole call with the symmetry argument as given -/
theorem real_expandSymP_eq (sym : Sym) (s : V3 ℝ) (l : List (Particle ℝ)) :
    expandSymP realSvc realPolar sym s l = expandSym realSvc sym s l := expandSymP_eq realPolar_exact sym s l

end polar

/-! ### regression witness D28: the row bookkeeping before repair 7710334 -/

/-- as it was (`pd.concat([df]*n)`, `sort_values(by="subtomo_id")`, tiled index table): with the ids `[1, 1]`
(rows 0 and 1) and `n = 2` the sort interleaves the copies and **row 0 gets subunit index 1 twice, index 2 never** -/
theorem old_bookkeeping_repeated_ids :
    oldBookkeeping 2 [(0, 1), (1, 1)] = [((0, 1), 1), ((1, 1), 2), ((0, 1), 1), ((1, 1), 2)] ∧
    ((oldBookkeeping 2 [(0, 1), (1, 1)]).filter (· == ((0, 1), 1))).length = 2 ∧
    ((oldBookkeeping 2 [(0, 1), (1, 1)]).filter (· == ((0, 1), 2))).length = 0 := by decide

/-- repaired: every row gets every index once; for unique ids both agree -/
theorem new_bookkeeping_repeated_ids :
    newBookkeeping 2 [(0, 1), (1, 1)] = [((0, 1), 1), ((0, 1), 2), ((1, 1), 1), ((1, 1), 2)] ∧
    oldBookkeeping 3 [(0, 5), (1, 2), (2, 9)] = newBookkeeping 3 [(0, 5), (1, 2), (2, 9)] := by decide

/-! ### regression witness D12: the code before repair 837c2ef -/

/-- `np.arange(0, 360, int(360/n))` has exactly `n` entries **iff `n` divides 360** — for every other `n`
(7, 11, 13, 14, 16, …) the as-is code raised -/
theorem asis_runs_iff (n : Nat) (hn : 1 ≤ n) : asisRuns n = true ↔ n ∣ 360 := asisRuns_iff_dvd n hn

theorem asis_raises_for_7 : asisRuns 7 = false := by decide

/-! ### non-vacuity: the hypotheses used above are satisfiable, the quantified sets are inhabited -/

/-- exact services over ℚ (a constant Pythagorean angle, the rational floor) -/
example : ∃ sv : Svc ℚ, sv.Exact :=
  ⟨{ trig := fun _ => ⟨3 / 5, 4 / 5⟩, round := ratRound },
   ⟨fun _ => by norm_num [Ang.IsUnit], ratRound_spec⟩⟩
/-- … and over ℝ with the true trigonometry, for which the closing hypothesis holds for every n ≥ 1 -/
example : realSvc.Exact ∧ Ang.nsmul 7 (stepAng realSvc 7) = Ang.zero := ⟨realSvc_exact, real_orbit_closes 7 (by norm_num)⟩
/-- a quarter turn closes after 4 steps over ℚ -/
example : Ang.nsmul 4 (⟨0, 1⟩ : Ang ℚ) = Ang.zero := by
  apply Ang.ext' <;> norm_num [Ang.nsmul, Ang.add, Ang.zero]
/-- `PolarExact` is satisfiable (ℝ, the true functions) together with `Exact` -/
example : realSvc.Exact ∧ PolarExact realSvc realPolar := ⟨realSvc_exact, realPolar_exact⟩
/-- the hypotheses of `parse_num_trunc` / `parse_num_refused` are met: `int(7.9) = 7`, `int(-0.9) = 0`, `int(-3) < 0` -/
example : parseSym (.num (79 / 10)) = .cyclic 7 ∧ parseSym (.num (-9 / 10)) = .cyclic 0 ∧ parseSym (.num (-3)) = .negative := by
  decide +kernel
/-- `expand` has members: two parents, 7-fold -/
example : (expand realSvc 7 ⟨1, 2, 3⟩ [default, default]).length = 14 := by rw [subunit_count]; rfl
example : asisRuns 8 = true ∧ asisRuns 7 = false ∧ asisRuns 64 = false := by decide

end CryoCat.C10
