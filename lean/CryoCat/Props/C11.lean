import CryoCat.Lemmas.C11
import CryoCat.Lemmas.C11_Bytes
/-! C11 — property theorems: a 3-D array written by `cryomap.write` and read back by `cryomap.read`
keeps its `(x,y,z)` shape and voxels (float64 narrowed to float32); on disk x varies fastest and the
header `nx,ny,nz` is the array shape; `em2mrc`/`mrc2em` keep (or negate) every voxel and refuse to
overwrite.  All statements are for every shape (no cube assumption, no size bound). -/
namespace CryoCat.C11
variable {α : Type}

/-! ### translator obligations: what the *current source* says -/

theorem anchors_ok : Gen.C11.anchorsOk = true := by decide

/-- `write` transposes with `(2,1,0)`, only 3-D data, under the `transpose` flag (`_p0` = the first
positional parameter, the data; the translator also demands that this is the ONLY axis-permuting
expression of the function) -/
theorem write_axes_documented :
    Gen.C11.writeAxes = [2, 1, 0] ∧ Gen.C11.writeTransposeGuard = "transpose and _p0.ndim == 3" := by decide

/-- `read` transposes files with `(2,1,0)` under the `transpose` flag -/
theorem read_axes_documented : Gen.C11.readAxes = [2, 1, 0] ∧ Gen.C11.readTransposeGuard = "transpose" := by decide

/-- order of the steps of `write`; `byteorder` = big-endian data (what `read` returns for a big-endian MRC
file) are converted to little-endian before anything is handed to `mrcfile`/`emfile`, so the value-level
model below is independent of the byte order of the caller's array and every written file is
little-endian (`writeBytes`) -/
theorem write_steps_documented :
    Gen.C11.writeSteps = ["astype(data_type)", "byteorder", "transpose", "narrow", "dispatch"] ∧ Gen.C11.writePassesOverwrite = true := by decide

/-- the only implicit conversion is float64 → float32 -/
theorem narrowing_documented :
    DType.ofName? Gen.C11.narrowFrom = some .f64 ∧ DType.ofName? Gen.C11.narrowTo = some .f32 := by decide

theorem write_exts_documented : Gen.C11.writeMrcExts = [".mrc", ".rec"] ∧ Gen.C11.writeEmExts = [".em"] := by decide

theorem read_exts_documented :
    Gen.C11.readMrcExts = ["mrc", "ali", "rec", "st"] ∧ Gen.C11.readNumericSuffix = true ∧ Gen.C11.readEmExts = [".em"] := by decide

/-- `em2mrc`: input `.em`, output `.mrc`, default name = input minus 2 characters plus `mrc`,
inversion factor −1, plain `read(map_name)` / `write(data, output_name, overwrite=overwrite)`;
signature defaults `invert=False`, `overwrite=True` -/
theorem em2mrc_documented :
    em2mrcCfg = { inSuffix := ".em", outSuffix := ".mrc", cut := 2, append := "mrc", factor := -1,
                  defInvert := false, defOverwrite := true } ∧
    Gen.C11.em2mrcPlain = true := by decide

theorem mrc2em_documented :
    mrc2emCfg = { inSuffix := ".mrc", outSuffix := ".em", cut := 3, append := "em", factor := -1,
                  defInvert := false, defOverwrite := true } ∧
    Gen.C11.mrc2emPlain = true := by decide

/-! #### signature defaults: what a call without keywords does (`write(a, p)`, `read(p)`, `em2mrc(p)`) -/

/-- `write(data, name, transpose=True, data_type=None, overwrite=True)` -/
theorem write_defaults_documented :
    Gen.C11.writeSig = ["_p0", "_p1", "transpose=True", "data_type=None", "overwrite=True"] ∧
    Gen.C11.writeDefaultTranspose = true ∧ defaultDType Gen.C11.writeDefaultDataType = none ∧
    Gen.C11.writeDefaultDataType = "None" ∧ Gen.C11.writeDefaultOverwrite = true := by decide

/-- `read(input_map, transpose=True, data_type=None)` -/
theorem read_defaults_documented :
    Gen.C11.readSig = ["_p0", "transpose=True", "data_type=None"] ∧
    Gen.C11.readDefaultTranspose = true ∧ defaultDType Gen.C11.readDefaultDataType = none ∧
    Gen.C11.readDefaultDataType = "None" := by decide

/-- `em2mrc(map_name, invert=False, overwrite=True, output_name=None)`, same for `mrc2em` -/
theorem converter_defaults_documented :
    Gen.C11.em2mrcSig = ["_p0", "invert=False", "overwrite=True", "output_name=None"] ∧
    Gen.C11.mrc2emSig = ["_p0", "invert=False", "overwrite=True", "output_name=None"] ∧
    Gen.C11.em2mrcDefaultInvert = false ∧ Gen.C11.em2mrcDefaultOverwrite = true ∧ Gen.C11.em2mrcDefaultOutput = "None" ∧
    Gen.C11.mrc2emDefaultInvert = false ∧ Gen.C11.mrc2emDefaultOverwrite = true ∧ Gen.C11.mrc2emDefaultOutput = "None" := by decide

/-! #### the normalised bodies (docstrings / comments / exception messages dropped, `x * (-1)` written `-x`, required positional
parameters `_p0,_p1`, locals `_v0..` in order of first binding): the model mirrors these statement by
statement; any edit other than a renaming needs the model to be looked at again -/

theorem write_body_documented : Gen.C11.writeBody =
    ["if data_type is not None:\n    _p0 = _p0.astype(data_type)",
     "if _p0.dtype.byteorder == '>':\n    _p0 = _p0.astype(_p0.dtype.newbyteorder('<'))",
     "if transpose and _p0.ndim == 3:\n    _p0 = _p0.transpose(2, 1, 0)",
     "if _p0.dtype == np.float64:\n    _p0 = _p0.astype(np.float32)",
     "if _p1.endswith('.mrc') or _p1.endswith('.rec'):\n    mrcfile.write(name=_p1, data=_p0, overwrite=overwrite)\nelif _p1.endswith('.em'):\n    emfile.write(_p1, data=_p0, overwrite=overwrite)\nelse:\n    raise ValueError"] := rfl

theorem read_body_documented : Gen.C11.readBody =
    ["if isinstance(_p0, str):\n\n    def _v0(_v1):\n        _v2 = '\\\\.(mrc|ali|rec|st)(\\\\.\\\\d+)?$'\n        return bool(re.search(_v2, _v1))\n    if _v0(_p0):\n        _v3 = mrcfile.open(_p0).data\n    elif _p0.endswith('.em'):\n        _v3 = emfile.read(_p0)[1]\n    else:\n        raise ValueError\n    if transpose:\n        _v3 = _v3.transpose(2, 1, 0)\nelif isinstance(_p0, np.ndarray):\n    _v3 = np.array(_p0)\nelse:\n    raise ValueError",
     "_v3 = np.array(_v3, copy=True)",
     "if data_type is not None:\n    _v3 = _v3.astype(data_type)",
     "return _v3"] := rfl

theorem em2mrc_body_documented : Gen.C11.em2mrcBody =
    ["if not isinstance(_p0, str):\n    raise ValueError\nelif not _p0.endswith('.em'):\n    raise ValueError",
     "_v0 = read(_p0)",
     "if invert:\n    _v0 = -_v0",
     "if output_name is None:\n    output_name = _p0[:-2] + 'mrc'\nelif not output_name.endswith('.mrc'):\n    raise ValueError",
     "write(_v0, output_name, overwrite=overwrite)"] := rfl

theorem mrc2em_body_documented : Gen.C11.mrc2emBody =
    ["if not isinstance(_p0, str):\n    raise ValueError\nelif not _p0.endswith('.mrc'):\n    raise ValueError",
     "_v0 = read(_p0)",
     "if invert:\n    _v0 = -_v0",
     "if output_name is None:\n    output_name = _p0[:-3] + 'em'\nelif not output_name.endswith('.em'):\n    raise ValueError",
     "write(_v0, output_name, overwrite=overwrite)"] := rfl

/-- `invert_contrast` is not run by the correspondence check; its whole body is pinned instead
(read, `* -1`, write with the map's own dtype / `np.single` for float64) -/
theorem invert_contrast_body_documented : Gen.C11.invertContrastBody =
    ["_p0 = read(_p0)",
     "_v0 = -_p0",
     "if output_name is not None:\n    if _v0.dtype == np.float64:\n        _v1 = np.single\n    else:\n        _v1 = _v0.dtype\n    write(_v0, output_name, data_type=_v1)",
     "return _v0"] := rfl

/-! ### x-fastest layout: `(i,j,k) ↦ i + nx*(j + ny*k)` is a bijection of the box onto the payload -/

theorem offset_lt {nx ny nz i j k : Nat} (hi : i < nx) (hj : j < ny) (hk : k < nz) :
    offsetXFastest nx ny i j k < nx * ny * nz := by
  rw [offset_eq_cidx]
  have := idx_lt hk hj hi
  have e : nz * ny * nx = nx * ny * nz := by ac_rfl
  omega

theorem offset_injective {nx ny i j k i' j' k' : Nat} (hi : i < nx) (hj : j < ny) (hi' : i' < nx) (hj' : j' < ny)
    (h : offsetXFastest nx ny i j k = offsetXFastest nx ny i' j' k') : i = i' ∧ j = j' ∧ k = k' := by
  rw [offset_eq_cidx, offset_eq_cidx] at h
  have h1 : i = i' := by
    have := congrArg (· % nx) h
    simpa only [dec_k hi, dec_k hi'] using this
  have h2 : k * ny + j = k' * ny + j' := by
    have := congrArg (· / nx) h
    simpa only [dec_ij hi, dec_ij hi'] using this
  have h3 : j = j' := by
    have := congrArg (· % ny) h2
    simpa only [dec_j hj, dec_j hj'] using this
  have h4 : k = k' := by
    have := congrArg (· / ny) h2
    simpa only [dec_i hj, dec_i hj'] using this
  exact ⟨h1, h3, h4⟩

theorem offset_surjective {nx ny nz t : Nat} (ht : t < nx * ny * nz) :
    ∃ i j k, i < nx ∧ j < ny ∧ k < nz ∧ offsetXFastest nx ny i j k = t := by
  have e : nx * ny * nz = nz * ny * nx := by ac_rfl
  have hb := dec_bounds (e ▸ ht : t < nz * ny * nx)
  exact ⟨t % nx, t / nx % ny, t / nx / ny, hb.2.2, hb.2.1, hb.1, by rw [offset_eq_cidx, enc_dec]⟩

/-- consecutive payload elements differ in the x index first … -/
theorem x_fastest (nx ny i j k : Nat) : offsetXFastest nx ny (i + 1) j k = offsetXFastest nx ny i j k + 1 := by
  unfold offsetXFastest; omega

/-- … then in y (after a full row of `nx`) … -/
theorem y_second (nx ny j k : Nat) : offsetXFastest nx ny 0 (j + 1) k = offsetXFastest nx ny 0 j k + nx := by
  unfold offsetXFastest
  rw [show j + 1 + ny * k = (j + ny * k) + 1 by omega, Nat.mul_succ]; omega

/-- … and z is slowest (after a full slice of `nx*ny`) -/
theorem z_slowest (nx ny k : Nat) : offsetXFastest nx ny 0 0 (k + 1) = offsetXFastest nx ny 0 0 k + nx * ny := by
  unfold offsetXFastest
  simp only [Nat.zero_add, Nat.mul_succ, Nat.mul_add]

/-! ### what `write` puts on disk -/

/-- "on disk the x index varies fastest with nx,ny,nz in the header matching the array shape", and
the voxel values are those of the array (converted by `conv`) -/
def SpecWrite (d : α) (conv : α → α) (a : Arr α) (f : MapFile α) : Prop :=
  f.nx = a.d0 ∧ f.ny = a.d1 ∧ f.nz = a.d2 ∧ f.data.size = f.nx * f.ny * f.nz ∧
  ∀ i j k, i < a.d0 → j < a.d1 → k < a.d2 →
    f.data[offsetXFastest f.nx f.ny i j k]? = some (conv (a.at d i j k))

/-- the file `write` produces, in closed form -/
theorem write_eq (cast : DType → α → α) (d : α) (a : Arr α) (src : DType) (name : Name) (dataType : Option DType)
    (h : a.WF) :
    write cast d a src name true dataType
      = (writeKind name).map (fun k => store k (outDType dataType src) ((transpose210 d a).map (convW cast dataType src))) := by
  simp only [write, write_axes_documented.1, permuteAxes_210, if_true, bind, Except.bind, pure, Except.pure]
  rw [transpose210_map d _ a h, map_map]
  cases writeKind name <;> rfl

/-- `write(..., transpose=False)` stores the array as it is (the array is then taken as `(z,y,x)`) -/
theorem write_eq_untransposed (cast : DType → α → α) (d : α) (a : Arr α) (src : DType) (name : Name) (dataType : Option DType) :
    write cast d a src name false dataType
      = (writeKind name).map (fun k => store k (outDType dataType src) (a.map (convW cast dataType src))) := by
  simp only [write, bind, Except.bind, pure, Except.pure, Bool.false_eq_true, if_false]
  rw [map_map]
  cases writeKind name <;> rfl

/-- **Layout on disk** for every shape: header `nx,ny,nz` = array shape, payload of `nx*ny*nz`
voxels, voxel `(i,j,k)` at offset `i + nx*(j + ny*k)`; file type as the dtype rule says; format
chosen by the extension. -/
theorem write_spec (cast : DType → α → α) (d : α) (a : Arr α) (src : DType) (name : Name) (dataType : Option DType)
    (f : MapFile α) (h : a.WF) (hw : write cast d a src name true dataType = .ok f) :
    SpecWrite d (convW cast dataType src) a f ∧ f.dtype = outDType dataType src ∧ writeKind name = .ok f.kind := by
  rw [write_eq cast d a src name dataType h] at hw
  cases hk : writeKind name with
  | error e => rw [hk] at hw; cases hw
  | ok k =>
    rw [hk] at hw
    have hf : f = store k (outDType dataType src) ((transpose210 d a).map (convW cast dataType src)) := by
      cases hw; rfl
    subst hf
    refine ⟨⟨rfl, rfl, rfl, ?_, ?_⟩, rfl, rfl⟩
    · show ((transpose210 d a).data.map _).size = a.d0 * a.d1 * a.d2
      rw [Array.size_map, transpose210_size]; ac_rfl
    · intro i j k hi hj hk'
      show ((transpose210 d a).data.map _)[offsetXFastest a.d0 a.d1 i j k]? = _
      have hlt : (k * a.d1 + j) * a.d0 + i < (transpose210 d a).data.size := by
        rw [transpose210_size]; exact idx_lt hk' hj hi
      have hat := at_transpose210 d a k j i hk' hj hi
      rw [at_eq_getElem d (transpose210 d a) k j i hlt] at hat
      rw [offset_eq_cidx, Array.getElem?_map, Array.getElem?_eq_getElem hlt]
      show some (convW cast dataType src ((transpose210 d a).data[(k * a.d1 + j) * a.d0 + i])) = _
      rw [← hat]; rfl

/-- `write` succeeds exactly for names ending in `.mrc`, `.rec` (→ MRC) or `.em` (→ EM) -/
theorem write_ok_iff (cast : DType → α → α) (d : α) (a : Arr α) (src : DType) (name : Name) (dataType : Option DType)
    (h : a.WF) (tr : Bool) :
    (∃ f, write cast d a src name tr dataType = .ok f) ↔ ∃ k, writeKind name = .ok k := by
  cases tr
  · rw [write_eq_untransposed]; cases writeKind name <;> simp [Except.map]
  · rw [write_eq cast d a src name dataType h]; cases writeKind name <;> simp [Except.map]

theorem writeKind_mrc (base : Name) : writeKind (base ++ ".mrc".toList) = .ok .mrc := by
  simp [writeKind, Gen.C11.writeMrcExts, endsWith, List.isSuffixOf, List.isPrefixOf]
theorem writeKind_rec (base : Name) : writeKind (base ++ ".rec".toList) = .ok .mrc := by
  simp [writeKind, Gen.C11.writeMrcExts, endsWith, List.isSuffixOf, List.isPrefixOf]
theorem writeKind_em (base : Name) : writeKind (base ++ ".em".toList) = .ok .em := by
  simp [writeKind, Gen.C11.writeMrcExts, Gen.C11.writeEmExts, endsWith, List.isSuffixOf, List.isPrefixOf]
theorem readKind_mrc (base : Name) : readKind (base ++ ".mrc".toList) = .ok .mrc := by
  simp [readKind, stripNumeric, Gen.C11.readMrcExts, Gen.C11.readNumericSuffix, endsWith, List.isSuffixOf, List.isPrefixOf]
theorem readKind_rec (base : Name) : readKind (base ++ ".rec".toList) = .ok .mrc := by
  simp [readKind, stripNumeric, Gen.C11.readMrcExts, Gen.C11.readNumericSuffix, endsWith, List.isSuffixOf, List.isPrefixOf]
theorem readKind_em (base : Name) : readKind (base ++ ".em".toList) = .ok .em := by
  simp [readKind, stripNumeric, Gen.C11.readMrcExts, Gen.C11.readEmExts, Gen.C11.readNumericSuffix, endsWith, List.isSuffixOf, List.isPrefixOf]

/-! ### dtype rule: only float64 is narrowed -/

theorem outDType_none (src : DType) : outDType none src = if src = .f64 then .f32 else src := by
  cases src <;> decide

theorem outDType_some (t src : DType) : outDType (some t) src = if t = .f64 then .f32 else t := by
  cases t <;> rfl

theorem outDType_ne_f64 (dataType : Option DType) (src : DType) : outDType dataType src ≠ .f64 := by
  cases dataType with
  | none => cases src <;> decide
  | some t => cases t <;> simp [outDType_some]

/-- without `data_type`, float32/int16/int8 voxels are written unchanged … -/
theorem convW_id (cast : DType → α → α) (src : DType) (h : src ≠ .f64) : convW cast none src = id := by
  funext v
  cases src <;> first | exact absurd rfl h | rfl

/-- … and float64 voxels are narrowed to float32 -/
theorem convW_f64 (cast : DType → α → α) : convW cast none .f64 = cast .f32 := rfl

/-- **`data_type` is applied to the array's own values, directly:** with an integer (or float32)
`data_type` the stored voxel is `cast t v` of the ORIGINAL voxel `v`, whatever the array's dtype —
in particular float64 data goes float64 → int (numpy: truncation toward zero), never through
float32 (2.99999999 ↦ 2, not 3). -/
theorem convW_some_direct (cast : DType → α → α) (t src : DType) (ht : t ≠ .f64) :
    convW cast (some t) src = cast t := by
  funext v
  cases t <;> first | exact absurd rfl ht | rfl

/-- `data_type=float64` is narrowed afterwards: float64 conversion, then float32 -/
theorem convW_some_f64 (cast : DType → α → α) (src : DType) (v : α) :
    convW cast (some .f64) src v = cast .f32 (cast .f64 v) := rfl

/-! ### verified checker for files -/

theorem checkXFastest_sound [DecidableEq α] (d : α) (conv : α → α) (a : Arr α) (f : MapFile α)
    (h : checkXFastest d conv a f = true) : SpecWrite d conv a f := by
  simp only [checkXFastest, Bool.and_eq_true, decide_eq_true_eq, List.all_eq_true, List.mem_range] at h
  obtain ⟨⟨⟨⟨h1, h2⟩, h3⟩, h4⟩, h5⟩ := h
  refine ⟨h1, h2, h3, h4, ?_⟩
  intro i j k hi hj hk
  exact h5 k (h3 ▸ hk) j (h2 ▸ hj) i (h1 ▸ hi)

theorem checkXFastest_complete [DecidableEq α] (d : α) (conv : α → α) (a : Arr α) (f : MapFile α)
    (h : SpecWrite d conv a f) : checkXFastest d conv a f = true := by
  obtain ⟨h1, h2, h3, h4, h5⟩ := h
  simp only [checkXFastest, Bool.and_eq_true, decide_eq_true_eq, List.all_eq_true, List.mem_range]
  exact ⟨⟨⟨⟨h1, h2⟩, h3⟩, h4⟩, fun k hk j hj i hi => h5 i j k (h1 ▸ hi) (h2 ▸ hj) (h3 ▸ hk)⟩

/-! ### round trip -/

theorem load_store (k : Kind) (dt : DType) (a : Arr α) : load (store k dt a) = a := rfl

/-- **Round trip** (`transpose=True` on both sides, the default): for every shape and every name
the reader accepts for the container format the file really has (`hkind`; see `read_cross_format`), reading what `write` wrote returns the same `(x,y,z)` shape and the voxels
converted by `convW` (identity, or float64→float32), then by the reader's own `data_type` if given. -/
theorem read_write (cast : DType → α → α) (d : α) (a : Arr α) (src : DType) (name name' : Name)
    (dataType rdt : Option DType) (f : MapFile α) (kr : Kind) (h : a.WF)
    (hw : write cast d a src name true dataType = .ok f) (hr : readKind name' = .ok kr) (hkind : f.kind = kr) :
    read cast d name' f true rdt
      = .ok (a.map (fun v => conv1 cast rdt (convW cast dataType src v)), rdt.getD (outDType dataType src)) := by
  rw [write_eq cast d a src name dataType h] at hw
  cases hk : writeKind name with
  | error e => rw [hk] at hw; cases hw
  | ok k =>
    rw [hk] at hw
    have hf : f = store k (outDType dataType src) ((transpose210 d a).map (convW cast dataType src)) := by
      cases hw; rfl
    subst hf
    simp only [read, hr, hkind, ne_eq, not_true_eq_false, if_false, read_axes_documented.1, permuteAxes_210, if_true, bind, Except.bind, pure, Except.pure, load_store, store_dtype]
    rw [← transpose210_map d _ a h, transpose210_involutive d _ (map_WF _ a h), map_map]

/-- **The property's first sentence, for `.mrc`, `.rec` and `.em`, default options.** Whatever the
shape, `write` succeeds and `read` returns the array itself with its dtype when the dtype is
float32/int16/int8 … -/
theorem roundtrip_same (cast : DType → α → α) (d : α) (a : Arr α) (src : DType) (base : Name) (ext : String)
    (hext : ext = ".mrc" ∨ ext = ".rec" ∨ ext = ".em") (h : a.WF) (hsrc : src ≠ .f64) :
    ∃ f, write cast d a src (base ++ ext.toList) true none = .ok f ∧
      read cast d (base ++ ext.toList) f true none = .ok (a, src) := by
  have hk : ∃ kr, writeKind (base ++ ext.toList) = .ok kr ∧ readKind (base ++ ext.toList) = .ok kr := by
    rcases hext with e | e | e <;> subst e
    · exact ⟨_, writeKind_mrc base, readKind_mrc base⟩
    · exact ⟨_, writeKind_rec base, readKind_rec base⟩
    · exact ⟨_, writeKind_em base, readKind_em base⟩
  obtain ⟨kr, hw, hr⟩ := hk
  have hwr := write_eq cast d a src (base ++ ext.toList) none h
  rw [hw] at hwr
  refine ⟨_, hwr, ?_⟩
  rw [read_write cast d a src _ _ none none _ kr h hwr hr rfl]
  have e1 : (fun v => conv1 cast none (convW cast none src v)) = id := by
    rw [convW_id cast src hsrc]; rfl
  have e2 : (none : Option DType).getD (outDType none src) = src := by
    cases src <;> first | exact absurd rfl hsrc | rfl
  rw [e1, e2, map_id']

/-- … and the array narrowed to float32 when it is float64 -/
theorem roundtrip_f64 (cast : DType → α → α) (d : α) (a : Arr α) (base : Name) (ext : String)
    (hext : ext = ".mrc" ∨ ext = ".rec" ∨ ext = ".em") (h : a.WF) :
    ∃ f, write cast d a .f64 (base ++ ext.toList) true none = .ok f ∧
      read cast d (base ++ ext.toList) f true none = .ok (a.map (cast .f32), .f32) := by
  have hk : ∃ kr, writeKind (base ++ ext.toList) = .ok kr ∧ readKind (base ++ ext.toList) = .ok kr := by
    rcases hext with e | e | e <;> subst e
    · exact ⟨_, writeKind_mrc base, readKind_mrc base⟩
    · exact ⟨_, writeKind_rec base, readKind_rec base⟩
    · exact ⟨_, writeKind_em base, readKind_em base⟩
  obtain ⟨kr, hw, hr⟩ := hk
  have hwr := write_eq cast d a .f64 (base ++ ext.toList) none h
  rw [hw] at hwr
  refine ⟨_, hwr, ?_⟩
  rw [read_write cast d a .f64 _ _ none none _ kr h hwr hr rfl]
  rfl

/-- the same with `transpose=False` on both sides -/
theorem read_write_untransposed (cast : DType → α → α) (d : α) (a : Arr α) (src : DType) (name name' : Name)
    (dataType rdt : Option DType) (f : MapFile α) (kr : Kind)
    (hw : write cast d a src name false dataType = .ok f) (hr : readKind name' = .ok kr) (hkind : f.kind = kr) :
    read cast d name' f false rdt
      = .ok (a.map (fun v => conv1 cast rdt (convW cast dataType src v)), rdt.getD (outDType dataType src)) := by
  rw [write_eq_untransposed] at hw
  cases hk : writeKind name with
  | error e => rw [hk] at hw; cases hw
  | ok k =>
    rw [hk] at hw
    have hf : f = store k (outDType dataType src) (a.map (convW cast dataType src)) := by cases hw; rfl
    subst hf
    simp only [read, hr, hkind, ne_eq, not_true_eq_false, bind, Except.bind, pure, Except.pure, load_store, Bool.false_eq_true, if_false]
    rw [map_map]; rfl

/-- a file written with the default `transpose=True` and read with `transpose=False` shows the
`(z,y,x)` array other software (and numpy C order) sees: element `[k,j,i]` is voxel `(i,j,k)` -/
theorem read_untransposed_of_write (cast : DType → α → α) (d : α) (a : Arr α) (src : DType) (name name' : Name)
    (dataType : Option DType) (f : MapFile α) (kr : Kind) (h : a.WF)
    (hw : write cast d a src name true dataType = .ok f) (hr : readKind name' = .ok kr) (hkind : f.kind = kr) :
    read cast d name' f false none
      = .ok (transpose210 d (a.map (convW cast dataType src)), outDType dataType src) := by
  rw [write_eq cast d a src name dataType h] at hw
  cases hk : writeKind name with
  | error e => rw [hk] at hw; cases hw
  | ok k =>
    rw [hk] at hw
    have hf : f = store k (outDType dataType src) ((transpose210 d a).map (convW cast dataType src)) := by
      cases hw; rfl
    subst hf
    simp only [read, hr, hkind, ne_eq, not_true_eq_false, bind, Except.bind, pure, Except.pure, load_store, Bool.false_eq_true, if_false]
    rw [← transpose210_map d _ a h]
    simp [conv1, map_id']

/-- **Container format.** The reader is chosen by the name; a file of the other container format is
refused, whatever the options: a volume written as `a.em` does not "round-trip" through the name
`a.mrc`. -/
theorem read_cross_format (cast : DType → α → α) (d : α) (name' : Name) (f : MapFile α) (kr : Kind)
    (tr : Bool) (rdt : Option DType) (hr : readKind name' = .ok kr) (hkind : f.kind ≠ kr) :
    read cast d name' f tr rdt = .error .badFormat := by
  simp only [read, hr, bind, Except.bind, ne_eq, hkind, not_false_eq_true, if_true]

/-- **Calls without keywords.** `write(a, p)` is `write(a, p, transpose=True, data_type=None)` and
`read(p)` is `read(p, transpose=True, data_type=None)` — by the signature defaults of the current
source (`write_defaults_documented`, `read_defaults_documented`); so the round-trip theorems above are
about the keyword-less calls too. -/
theorem writeKw_default (cast : DType → α → α) (d : α) (a : Arr α) (src : DType) (name : Name) :
    writeKw cast d a src name none none = write cast d a src name true none := by
  simp only [writeKw, write_defaults_documented.2.1, write_defaults_documented.2.2.1, Option.getD_none]

theorem readKw_default (cast : DType → α → α) (d : α) (name : Name) (f : MapFile α) :
    readKw cast d name f none none = read cast d name f true none := by
  simp only [readKw, read_defaults_documented.2.1, read_defaults_documented.2.2.1, Option.getD_none]

theorem writeKw_explicit (cast : DType → α → α) (d : α) (a : Arr α) (src : DType) (name : Name) (tr : Bool) (t : DType) :
    writeKw cast d a src name (some tr) (some t) = write cast d a src name tr (some t) := rfl

theorem checkSameVoxels_sound [DecidableEq α] (d : α) (conv : α → α) (a b : Arr α)
    (h : checkSameVoxels d conv a b = true) :
    b.d0 = a.d0 ∧ b.d1 = a.d1 ∧ b.d2 = a.d2 ∧ b.WF ∧
    ∀ i j k, i < a.d0 → j < a.d1 → k < a.d2 → b.at d i j k = conv (a.at d i j k) := by
  simp only [checkSameVoxels, Bool.and_eq_true, decide_eq_true_eq, List.all_eq_true, List.mem_range] at h
  obtain ⟨⟨⟨⟨h1, h2⟩, h3⟩, h4⟩, h5⟩ := h
  exact ⟨h1, h2, h3, h4, fun i j k hi hj hk => h5 i (h1 ▸ hi) j (h2 ▸ hj) k (h3 ▸ hk)⟩

/-- the round-trip result satisfies the checker's specification (so the checker is not vacuous) -/
theorem map_at (d : α) (conv : α → α) (a : Arr α) (h : a.WF) (i j k : Nat) (hi : i < a.d0) (hj : j < a.d1) (hk : k < a.d2) :
    (a.map conv).at d i j k = conv (a.at d i j k) :=
  at_map d conv a i j k (h ▸ idx_lt hi hj hk)

/-! ### contrast inversion -/

/-- inverting twice gives the map back, provided negating twice is the identity ON THE VOXELS OF THE MAP (IEEE sign flip:
always; two's complement: every value but the most negative one, which is not generated; the driver's `negIn` on voxels
of the map's own type) -/
theorem invert_invert (neg : α → α) (a : Arr α) (hneg : ∀ x ∈ a.data.toList, neg (neg x) = x) :
    applyFactor neg (-1) (applyFactor neg (-1) a) = a := by
  obtain ⟨d0, d1, d2, data⟩ := a
  simp only [applyFactor, if_true, Arr.map, Arr.mk.injEq, true_and]
  rw [Array.map_map]
  apply Array.ext
  · simp
  · intro i h1 h2
    simp only [Array.getElem_map, Function.comp]
    exact hneg _ (by simp)

/-- the hypothesis of `invert_invert` holds for the negation of integer voxels (`Int`), for every array -/
example (a : Arr Int) : applyFactor (fun x => -x) (-1) (applyFactor (fun x => -x) (-1) a) = a :=
  invert_invert _ a (fun x _ => Int.neg_neg x)

/-! ### the converters `em2mrc` / `mrc2em` -/

/-- the payload really has `nx*ny*nz` voxels -/
def FileWF (f : MapFile α) : Prop := f.data.size = f.nx * f.ny * f.nz

theorem lookup_put_self (fs : FS α) (n : Name) (f : MapFile α) : (fs.put n f).lookup n = some f := by
  simp [FS.put]

theorem lookup_put_other (fs : FS α) (n m : Name) (f : MapFile α) (h : m ≠ n) :
    (fs.put n f).lookup m = fs.lookup m := by
  have hb : (m == n) = false := by simpa using h
  simp only [FS.put, List.lookup_cons, hb]
  induction fs with
  | nil => rfl
  | cons e rest ih =>
    obtain ⟨e1, e2⟩ := e
    by_cases he : e1 = n
    · subst he
      simp only [List.filter_cons, bne_self_eq_false, Bool.false_eq_true, if_false, List.lookup_cons, hb]
      exact ih
    · have hne : (e1 != n) = true := by simpa using he
      simp only [List.filter_cons, hne, if_true, List.lookup_cons]
      cases m == e1 <;> simp [ih]

/-- the file a converter writes: same header dims, same format rule, the voxels of the input in
the same `(x,y,z)` places, negated when `invert` -/
def converted (cast : DType → α → α) (neg : α → α) (invert : Bool) (kout : Kind) (fin : MapFile α) : MapFile α :=
  { kind := kout, nx := fin.nx, ny := fin.ny, nz := fin.nz, dtype := outDType none fin.dtype,
    data := fin.data.map (fun v => convW cast none fin.dtype (if invert then neg v else v)) }

/-- **Converters, general form.** For a converter configuration with factor −1 (`em2mrc_documented`,
`mrc2em_documented`), an existing well-formed input file of the container format its name announces
(`hkind`), whose name passes the checks, and an
output name `out` accepted by `write`:
* `overwrite=False` and `out` exists → refused with `fileExists` (nothing is returned, so nothing changes);
* otherwise the new file system is the old one with `out` holding `converted …`. -/
theorem convert_spec (c : ConvCfg) (cast : DType → α → α) (d : α) (neg : α → α) (fs : FS α)
    (mapName out : Name) (invert overwrite : Bool) (outputName : Option Name) (fin : MapFile α) (kin kout : Kind)
    (hfac : c.factor = -1) (hin : endsWith mapName c.inSuffix = true) (hrk : readKind mapName = .ok kin)
    (hfs : fs.lookup mapName = some fin) (hkind : fin.kind = kin) (hwf : FileWF fin)
    (hout : outName c mapName outputName = .ok out) (hwk : writeKind out = .ok kout) :
    convert c cast d neg fs mapName invert overwrite outputName
      = if !overwrite && (fs.lookup out).isSome then .error .fileExists
        else .ok (fs.put out (converted cast neg invert kout fin)) := by
  have hwf' : (load fin).WF := by
    show fin.data.size = fin.nz * fin.ny * fin.nx
    rw [hwf]; ac_rfl
  have hT : (transpose210 d (load fin)).WF := transpose210_WF d _
  simp only [convert, hin, Bool.not_true, Bool.false_eq_true, if_false, readFS, hrk, hfs, read, hkind, ne_eq, not_true_eq_false,
    read_defaults_documented.2.1, read_defaults_documented.2.2.1, write_defaults_documented.2.1, write_defaults_documented.2.2.1,
    read_axes_documented.1, permuteAxes_210, if_true, bind, Except.bind, pure, Except.pure, hout, writeFS]
  simp only [conv1, map_id', Option.getD_none]
  have key : ∀ (g : α → α), write cast d ((transpose210 d (load fin)).map g) fin.dtype out true none
      = .ok (store kout (outDType none fin.dtype) ((load fin).map (fun v => convW cast none fin.dtype (g v)))) := by
    intro g
    rw [write_eq cast d _ fin.dtype out none (map_WF _ _ hT), hwk]
    rw [← transpose210_map d g _ hwf', transpose210_involutive d _ (map_WF _ _ hwf'), map_map]
    rfl
  cases invert
  · have := key id
    rw [map_id'] at this
    simp only [Bool.false_eq_true, if_false, this]
    rfl
  · simp only [if_true, applyFactor, hfac, key neg]
    rfl

/-- default output name of `em2mrc`: `x.em → x.mrc` -/
theorem em2mrc_default_name (base : Name) :
    outName em2mrcCfg (base ++ ".em".toList) none = .ok (base ++ ".mrc".toList) := by
  simp [outName, em2mrc_documented.1, dropLast, List.take_append, List.take_of_length_le]

/-- default output name of `mrc2em`: `x.mrc → x.em` -/
theorem mrc2em_default_name (base : Name) :
    outName mrc2emCfg (base ++ ".mrc".toList) none = .ok (base ++ ".em".toList) := by
  simp [outName, mrc2em_documented.1, dropLast, List.take_append, List.take_of_length_le]

/-- an explicit output name must carry the output extension, otherwise the converter refuses -/
theorem outName_explicit (c : ConvCfg) (mapName o : Name) :
    outName c mapName (some o) = if endsWith o c.outSuffix then .ok o else .error .badOutput := rfl

/-- **`em2mrc x.em`** (default name): `x.mrc` is an MRC file with the same `nx,ny,nz` and every
voxel kept (negated when `invert`); refused when `x.mrc` exists and `overwrite=False`. -/
theorem em2mrc_spec (cast : DType → α → α) (d : α) (neg : α → α) (fs : FS α) (base : Name)
    (invert overwrite : Bool) (fin : MapFile α)
    (hfs : fs.lookup (base ++ ".em".toList) = some fin) (hkind : fin.kind = .em) (hwf : FileWF fin) :
    convert em2mrcCfg cast d neg fs (base ++ ".em".toList) invert overwrite none
      = if !overwrite && (fs.lookup (base ++ ".mrc".toList)).isSome then .error .fileExists
        else .ok (fs.put (base ++ ".mrc".toList) (converted cast neg invert .mrc fin)) :=
  convert_spec em2mrcCfg cast d neg fs _ _ invert overwrite none fin .em .mrc
    (by rw [em2mrc_documented.1]) (by simp [em2mrc_documented.1, endsWith]) (readKind_em base) hfs hkind hwf
    (em2mrc_default_name base) (writeKind_mrc base)

/-- **`mrc2em x.mrc`** (default name) -/
theorem mrc2em_spec (cast : DType → α → α) (d : α) (neg : α → α) (fs : FS α) (base : Name)
    (invert overwrite : Bool) (fin : MapFile α)
    (hfs : fs.lookup (base ++ ".mrc".toList) = some fin) (hkind : fin.kind = .mrc) (hwf : FileWF fin) :
    convert mrc2emCfg cast d neg fs (base ++ ".mrc".toList) invert overwrite none
      = if !overwrite && (fs.lookup (base ++ ".em".toList)).isSome then .error .fileExists
        else .ok (fs.put (base ++ ".em".toList) (converted cast neg invert .em fin)) :=
  convert_spec mrc2emCfg cast d neg fs _ _ invert overwrite none fin .mrc .em
    (by rw [mrc2em_documented.1]) (by simp [mrc2em_documented.1, endsWith]) (readKind_mrc base) hfs hkind hwf
    (mrc2em_default_name base) (writeKind_em base)

/-- **`em2mrc(p)` / `mrc2em(p)` without keywords** convert without inversion and overwrite an existing
output (signature defaults `invert=False`, `overwrite=True`). -/
theorem convertKw_default (c : ConvCfg) (cast : DType → α → α) (d : α) (neg : α → α) (fs : FS α) (mapName : Name)
    (hc : c = em2mrcCfg ∨ c = mrc2emCfg) :
    convertKw c cast d neg fs mapName none none none = convert c cast d neg fs mapName false true none := by
  rcases hc with e | e <;> subst e
  · simp only [convertKw, em2mrc_documented.1, Option.getD_none]
  · simp only [convertKw, mrc2em_documented.1, Option.getD_none]

/-- a float64 EM file is narrowed by the converter (MRC has no float64 mode; `write` narrows):
every voxel is `cast .f32` of the (negated) input voxel and the output type is float32 -/
theorem converted_voxel_f64 (cast : DType → α → α) (neg : α → α) (invert : Bool) (kout : Kind) (fin : MapFile α)
    (hdt : fin.dtype = .f64) (t : Nat) :
    (converted cast neg invert kout fin).data[t]? = (fin.data[t]?).map (fun v => cast .f32 (if invert then neg v else v)) ∧
    (converted cast neg invert kout fin).dtype = .f32 := by
  constructor
  · simp only [converted, Array.getElem?_map, hdt, convW_f64]
  · simp only [converted, hdt]; rfl

/-- in the converted file voxel `(i,j,k)` sits where it sat in the input file: same offset, value
kept / negated (file dtypes other than float64 are not narrowed) -/
theorem converted_voxel (cast : DType → α → α) (neg : α → α) (invert : Bool) (kout : Kind) (fin : MapFile α)
    (hdt : fin.dtype ≠ .f64) (t : Nat) :
    (converted cast neg invert kout fin).data[t]? = (fin.data[t]?).map (fun v => if invert then neg v else v) ∧
    (converted cast neg invert kout fin).dtype = fin.dtype := by
  constructor
  · simp only [converted, Array.getElem?_map, convW_id cast fin.dtype hdt]; rfl
  · simp only [converted, outDType_none, hdt, if_false]

theorem checkSameFileVoxels_sound [DecidableEq α] (conv : α → α) (f g : MapFile α)
    (h : checkSameFileVoxels conv f g = true) :
    g.nx = f.nx ∧ g.ny = f.ny ∧ g.nz = f.nz ∧ FileWF g ∧ f.data.size = g.data.size ∧
    ∀ i j k, i < f.nx → j < f.ny → k < f.nz →
      g.data[offsetXFastest g.nx g.ny i j k]? = (f.data[offsetXFastest f.nx f.ny i j k]?).map conv := by
  simp only [checkSameFileVoxels, Bool.and_eq_true, decide_eq_true_eq, List.all_eq_true, List.mem_range] at h
  obtain ⟨⟨⟨⟨⟨h1, h2⟩, h3⟩, h4⟩, h4'⟩, h5⟩ := h
  exact ⟨h1, h2, h3, h4, h4', fun i j k hi hj hk => h5 k (h3 ▸ hk) j (h2 ▸ hj) i (h1 ▸ hi)⟩

/-- **The driver's converter checker is the theorem's `converted`:** it accepts the file
`convert_spec` says the converter writes (any voxel type, float64 narrowed, inversion on or off) … -/
theorem checkConverted_accepts [DecidableEq α] (cast : DType → α → α) (neg : α → α) (invert : Bool) (kout : Kind)
    (fin : MapFile α) (hwf : FileWF fin) :
    checkConverted cast neg invert fin (converted cast neg invert kout fin) = true := by
  unfold FileWF at hwf
  simp only [checkConverted, checkSameFileVoxels, converted, Array.size_map, Array.getElem?_map,
    Bool.and_eq_true, decide_eq_true_eq, List.all_eq_true, List.mem_range, hwf]
  exact ⟨⟨⟨⟨⟨⟨trivial, trivial⟩, trivial⟩, trivial⟩, trivial⟩, fun _ _ _ _ _ _ => rfl⟩, trivial⟩

/-- … and whatever it accepts has the input's `nx,ny,nz`, a full payload, the documented voxel type and
voxel `(i,j,k)` of the input, negated when `invert` and narrowed when float64, at offset `i + nx*(j + ny*k)` -/
theorem checkConverted_sound [DecidableEq α] (cast : DType → α → α) (neg : α → α) (invert : Bool) (fin fout : MapFile α)
    (h : checkConverted cast neg invert fin fout = true) :
    fout.nx = fin.nx ∧ fout.ny = fin.ny ∧ fout.nz = fin.nz ∧ FileWF fout ∧ fout.dtype = outDType none fin.dtype ∧
    ∀ i j k, i < fin.nx → j < fin.ny → k < fin.nz →
      fout.data[offsetXFastest fout.nx fout.ny i j k]?
        = (fin.data[offsetXFastest fin.nx fin.ny i j k]?).map (convVoxel cast neg invert fin.dtype) := by
  simp only [checkConverted, Bool.and_eq_true, decide_eq_true_eq] at h
  obtain ⟨h1, h2, h3, h4, _, h6⟩ := checkSameFileVoxels_sound _ fin fout h.1
  exact ⟨h1, h2, h3, h4, h.2, h6⟩

/-- **Completeness of the three remaining file/array checkers** (the converse of `checkSameVoxels_sound`,
`checkSameFileVoxels_sound`, `checkConverted_sound`): whatever meets the stated specification is accepted, so the checkers
run on the real code's arrays and files demand nothing beyond it. `checkConverted_sound` forgets the payload-size equality
the checker also tests; the completeness statement therefore lists it as a hypothesis (it follows from equal `nx,ny,nz`
when the INPUT file is well-formed too). -/
theorem checkSameVoxels_complete [DecidableEq α] (d : α) (conv : α → α) (a b : Arr α)
    (h : b.d0 = a.d0 ∧ b.d1 = a.d1 ∧ b.d2 = a.d2 ∧ b.WF ∧
      ∀ i j k, i < a.d0 → j < a.d1 → k < a.d2 → b.at d i j k = conv (a.at d i j k)) :
    checkSameVoxels d conv a b = true := by
  obtain ⟨h1, h2, h3, h4, h5⟩ := h
  simp only [checkSameVoxels, Bool.and_eq_true, decide_eq_true_eq, List.all_eq_true, List.mem_range]
  exact ⟨⟨⟨⟨h1, h2⟩, h3⟩, h4⟩, fun i hi j hj k hk => h5 i j k (h1 ▸ hi) (h2 ▸ hj) (h3 ▸ hk)⟩

theorem checkSameFileVoxels_complete [DecidableEq α] (conv : α → α) (f g : MapFile α)
    (h : g.nx = f.nx ∧ g.ny = f.ny ∧ g.nz = f.nz ∧ FileWF g ∧ f.data.size = g.data.size ∧
      ∀ i j k, i < f.nx → j < f.ny → k < f.nz →
        g.data[offsetXFastest g.nx g.ny i j k]? = (f.data[offsetXFastest f.nx f.ny i j k]?).map conv) :
    checkSameFileVoxels conv f g = true := by
  obtain ⟨h1, h2, h3, h4, h4', h5⟩ := h
  simp only [checkSameFileVoxels, Bool.and_eq_true, decide_eq_true_eq, List.all_eq_true, List.mem_range]
  exact ⟨⟨⟨⟨⟨h1, h2⟩, h3⟩, h4⟩, h4'⟩, fun k hk j hj i hi => h5 i j k (h1 ▸ hi) (h2 ▸ hj) (h3 ▸ hk)⟩

theorem checkConverted_complete [DecidableEq α] (cast : DType → α → α) (neg : α → α) (invert : Bool) (fin fout : MapFile α)
    (h : fout.nx = fin.nx ∧ fout.ny = fin.ny ∧ fout.nz = fin.nz ∧ FileWF fout ∧ fin.data.size = fout.data.size ∧
      fout.dtype = outDType none fin.dtype ∧
      ∀ i j k, i < fin.nx → j < fin.ny → k < fin.nz →
        fout.data[offsetXFastest fout.nx fout.ny i j k]?
          = (fin.data[offsetXFastest fin.nx fin.ny i j k]?).map (convVoxel cast neg invert fin.dtype)) :
    checkConverted cast neg invert fin fout = true := by
  obtain ⟨h1, h2, h3, h4, h4', hd, h5⟩ := h
  simp only [checkConverted, Bool.and_eq_true, decide_eq_true_eq]
  exact ⟨checkSameFileVoxels_complete _ fin fout ⟨h1, h2, h3, h4, h4', h5⟩, hd⟩

/-! ### the container formats down to the bytes (`Model/C11_Bytes`)

`Raw` = what the bytes say (container, byte order, element type, `nx ny nz`, one bit pattern per voxel);
`encodeMrc`/`encodeEm` lay it out (1024- / 512-byte header, payload x fastest, little- or big-endian),
`decodeMrc`/`decodeEm` read bytes back and refuse everything else.  The driver runs `decodeByContent` on
the bytes of every file the real code wrote and compares `encode (write ..)` with them. -/

/-- **decode ∘ encode = id (MRC)**: every `Raw` that `encodeMrc` can represent (`Raw.WF`: the element type has an
MRC mode, sizes below 2³¹, one word per voxel, words within their width), in either byte order -/
theorem decodeMrc_encodeMrc (r : Raw) (hk : r.kind = .mrc) (h : r.WF) : decodeMrc (encodeMrc r).toArray = some r := by
  obtain ⟨kind, be, code, nx, ny, nz, words⟩ := r
  simp only at hk; subst hk
  obtain ⟨hc, hx, hy, hz, hlen, hw⟩ := h
  exact decodeMrc_encodeMrc_aux be code nx ny nz words hc hx hy hz hlen hw

/-- **decode ∘ encode = id (EM)** -/
theorem decodeEm_encodeEm (r : Raw) (hk : r.kind = .em) (h : r.WF) : decodeEm (encodeEm r).toArray = some r := by
  obtain ⟨kind, be, code, nx, ny, nz, words⟩ := r
  simp only at hk; subst hk
  obtain ⟨hc, hx, hy, hz, hlen, hw⟩ := h
  exact decodeEm_encodeEm_aux be code nx ny nz words hc hx hy hz hlen hw

theorem decode_encode (r : Raw) (h : r.WF) : decodeAs r.kind (encode r).toArray = some r := by
  cases hk : r.kind with
  | mrc => simp only [decodeAs, encode, hk]; exact decodeMrc_encodeMrc r hk h
  | em => simp only [decodeAs, encode, hk]; exact decodeEm_encodeEm r hk h

/-- an EM file is never taken for an MRC file: there is no `'MAP '` at byte 208 of what `encodeEm` writes -/
theorem decodeMrc_encodeEm (r : Raw) : decodeMrc (encodeEm r).toArray = none := by
  unfold decodeMrc
  split
  · rfl
  · have h208 : byteAt (encodeEm r).toArray 208 = 0 := by
      rw [show encodeEm r = (List.range 512).map (emHdrByte r) ++ encodeWords r.bigEndian r.code.width r.words from rfl,
        byteAt_hdr 512 _ _ 208 (by omega)]
      simp [emHdrByte]
    rw [if_pos]
    rw [h208]; simp

/-- an MRC file (`nx < 2²⁴`) is never taken for an EM file: its first four bytes are `nx`, so either the machine
byte is unknown or the type code (byte 3) is 0 -/
theorem decodeEm_encodeMrc (r : Raw) (hx : r.nx < 2 ^ 24) : decodeEm (encodeMrc r).toArray = none := by
  have B : ∀ i, i < 1024 → byteAt (encodeMrc r).toArray i = mrcHdrByte r i := fun i hi => byteAt_hdr 1024 _ _ i hi
  unfold decodeEm
  split
  · rfl
  · rw [B 0 (by omega), B 3 (by omega)]
    cases hbe : r.bigEndian with
    | true =>
      have : mrcHdrByte r 0 = 0 := by
        simp only [mrcHdrByte, hbe, fieldByte, wordBytes, leBytes]
        simp
        have e : r.nx / 256 / 256 / 256 % 256 = 0 := by omega
        rw [e]; rfl
      simp [this, emMachine?]
    | false =>
      have : (mrcHdrByte r 3).toNat = 0 := by
        simp only [mrcHdrByte, hbe, fieldByte, wordBytes, leBytes]
        simp
        omega
      rw [this]
      cases emMachine? (mrcHdrByte r 0) <;> simp [Code.ofEmType?]

/-- **x fastest, at the byte level (MRC)**: the `width` bytes of voxel `(i,j,k)` start at byte
`1024 + width * (i + nx*(j + ny*k))` and are its bit pattern in the file's byte order -/
theorem encodeMrc_voxel_bytes (r : Raw) (i j k : Nat) (hi : i < r.nx) (hj : j < r.ny) (hk : k < r.nz)
    (hlen : r.words.length = r.nx * r.ny * r.nz) :
    ((encodeMrc r).drop (voxelByteOffset 1024 r.code.width r.nx r.ny i j k 0)).take r.code.width
      = wordBytes r.bigEndian r.code.width (r.words[offsetXFastest r.nx r.ny i j k]'(by rw [hlen]; exact offset_lt hi hj hk)) := by
  have hl : ((List.range 1024).map (mrcHdrByte r)).length = 1024 := by simp
  have e : voxelByteOffset 1024 r.code.width r.nx r.ny i j k 0
      = ((List.range 1024).map (mrcHdrByte r)).length + offsetXFastest r.nx r.ny i j k * r.code.width := by
    rw [hl]; simp only [voxelByteOffset, Nat.add_zero]; rw [Nat.mul_comm]
  rw [e]
  show (List.drop _ ((List.range mrcHeaderSize).map (mrcHdrByte r) ++ _)).take _ = _
  rw [show mrcHeaderSize = 1024 from rfl, List.drop_length_add_append]
  exact encodeWords_chunk _ _ _ _ _

/-- the same for EM (header of 512 bytes) -/
theorem encodeEm_voxel_bytes (r : Raw) (i j k : Nat) (hi : i < r.nx) (hj : j < r.ny) (hk : k < r.nz)
    (hlen : r.words.length = r.nx * r.ny * r.nz) :
    ((encodeEm r).drop (voxelByteOffset 512 r.code.width r.nx r.ny i j k 0)).take r.code.width
      = wordBytes r.bigEndian r.code.width (r.words[offsetXFastest r.nx r.ny i j k]'(by rw [hlen]; exact offset_lt hi hj hk)) := by
  have hl : ((List.range 512).map (emHdrByte r)).length = 512 := by simp
  have e : voxelByteOffset 512 r.code.width r.nx r.ny i j k 0
      = ((List.range 512).map (emHdrByte r)).length + offsetXFastest r.nx r.ny i j k * r.code.width := by
    rw [hl]; simp only [voxelByteOffset, Nat.add_zero]; rw [Nat.mul_comm]
  rw [e]
  show (List.drop _ ((List.range emHeaderSize).map (emHdrByte r) ++ _)).take _ = _
  rw [show emHeaderSize = 512 from rfl, List.drop_length_add_append]
  exact encodeWords_chunk _ _ _ _ _

/-- the header of what `encodeMrc` writes: `nx ny nz mode` in bytes 0–15, `mapc mapr maps = 1 2 3`, `nsymbt = 0`,
`'MAP '` and the machine stamp of the byte order (read back with `i32At`, the decoder's own accessor) -/
theorem encodeMrc_header (r : Raw) (h : r.WF) (hk : r.kind = .mrc) :
    let A := (encodeMrc r).toArray
    i32At r.bigEndian A 0 = r.nx ∧ i32At r.bigEndian A 4 = r.ny ∧ i32At r.bigEndian A 8 = r.nz ∧
    Code.ofMrcMode? (i32At r.bigEndian A 12) = some r.code ∧
    mrcStamp? (byteAt A 212) (byteAt A 213) = some r.bigEndian ∧ A.size = 1024 + r.nx * r.ny * r.nz * r.code.width := by
  have hd := decodeMrc_encodeMrc r hk h
  obtain ⟨hc, hx, hy, hz, hlen, hw⟩ := h
  intro A
  have B : ∀ i, i < 1024 → byteAt A i = mrcHdrByte r i := fun i hi => byteAt_hdr 1024 _ _ i hi
  have F : ∀ off v, v < 2 ^ 32 → off + 3 < 1024 → mrcHdrByte r off = fieldByte r.bigEndian off v off →
      mrcHdrByte r (off + 1) = fieldByte r.bigEndian off v (off + 1) → mrcHdrByte r (off + 2) = fieldByte r.bigEndian off v (off + 2) →
      mrcHdrByte r (off + 3) = fieldByte r.bigEndian off v (off + 3) → i32At r.bigEndian A off = v :=
    fun off v hv ho h0 h1 h2 h3 => i32At_hdr r.bigEndian 1024 (mrcHdrByte r) _ off v hv ho h0 h1 h2 h3
  refine ⟨F 0 r.nx (by omega) (by omega) (by simp [mrcHdrByte]) (by simp [mrcHdrByte]) (by simp [mrcHdrByte]) (by simp [mrcHdrByte]),
    F 4 r.ny (by omega) (by omega) (by simp [mrcHdrByte]) (by simp [mrcHdrByte]) (by simp [mrcHdrByte]) (by simp [mrcHdrByte]),
    F 8 r.nz (by omega) (by omega) (by simp [mrcHdrByte]) (by simp [mrcHdrByte]) (by simp [mrcHdrByte]) (by simp [mrcHdrByte]), ?_, ?_, ?_⟩
  · rw [F 12 _ (mrcMode_lt r.code) (by omega) (by simp [mrcHdrByte]) (by simp [mrcHdrByte]) (by simp [mrcHdrByte]) (by simp [mrcHdrByte])]
    rw [hk] at hc
    exact mrcMode_roundtrip r.code hc
  · rw [B 212 (by omega), B 213 (by omega)]; cases hb : r.bigEndian <;> simp [mrcHdrByte, mrcStamp?, hb]
  · show (encodeMrc r).toArray.size = _
    simp [encodeMrc, mrcHeaderSize, length_encodeWords, hlen]

/-! #### `cryomap.write` / `cryomap.read` down to the bytes -/

/-- every voxel of `f` is representable in the file's voxel type: its bit pattern has the width of the type and
converts back to the voxel (for the driver's IEEE-754 / two's-complement conversions `Drv.toWord`/`ofWord`: the voxel
is a float32 / int16 / int8 value; a fact about the values, so a hypothesis of the byte-level theorems) -/
def Representable (toWord : DType → α → Nat) (ofWord : DType → Nat → α) (f : MapFile α) : Prop :=
  ∀ v ∈ f.data.toList, ofWord f.dtype (toWord f.dtype v) = v ∧ toWord f.dtype v < 256 ^ f.dtype.code.width

/-- a `MapFile` of the model, laid out as bytes and decoded again, is the same `MapFile`: for every file whose
payload has `nx*ny*nz` representable voxels, sizes below 2³¹ and a voxel type its container can hold (MRC has no
float64 mode; `write` never produces float64, `outDType_ne_f64`) -/
theorem decode_encode_mapfile (toWord : DType → α → Nat) (ofWord : DType → Nat → α) (f : MapFile α)
    (hrep : Representable toWord ofWord f)
    (hWF : FileWF f) (hx : f.nx < 2 ^ 31) (hy : f.ny < 2 ^ 31) (hz : f.nz < 2 ^ 31) (hdt : f.dtype ≠ .f64) :
    (decodeAs f.kind (encode (f.toRaw toWord)).toArray).bind (Raw.toMapFile? ofWord) = some f := by
  have hraw : (f.toRaw toWord).WF := by
    refine ⟨?_, hx, hy, hz, ?_, ?_⟩
    · show (match f.kind with | .mrc => f.dtype.code.mrcMode? ≠ none | .em => f.dtype.code.emType? ≠ none)
      cases f.kind <;> cases hd : f.dtype <;> simp_all [DType.code, Code.mrcMode?, Code.emType?]
    · show (f.data.toList.map (toWord f.dtype)).length = f.nx * f.ny * f.nz
      simpa [FileWF] using hWF
    · intro x hx'
      simp only [MapFile.toRaw, List.mem_map] at hx'
      obtain ⟨v, hv, rfl⟩ := hx'
      exact (hrep v hv).2
  have := decode_encode (f.toRaw toWord) hraw
  rw [show (f.toRaw toWord).kind = f.kind from rfl] at this
  rw [this]
  have hmap : (f.data.toList.map (toWord f.dtype)).map (ofWord f.dtype) = f.data.toList := by
    rw [List.map_map]
    conv => rhs; rw [← List.map_id f.data.toList]
    exact List.map_congr_left (fun v hv => (hrep v hv).1)
  obtain ⟨kind, nx, ny, nz, dtype, data⟩ := f
  cases dtype <;>
    simp_all [Raw.toMapFile?, MapFile.toRaw, DType.code, Code.dtype?]

/-- **reading the bytes the model writes is reading the model's file**: the byte-level reader, given
`encode (f.toRaw ..)` under a name whose reader matches the container, behaves as `read` on `f` -/
theorem readBytes_encode (toWord : DType → α → Nat) (ofWord : DType → Nat → α) (cast : DType → α → α) (d : α)
    (name' : Name) (f : MapFile α) (tr : Bool) (rdt : Option DType)
    (hrep : Representable toWord ofWord f)
    (hWF : FileWF f) (hx : f.nx < 2 ^ 31) (hy : f.ny < 2 ^ 31) (hz : f.nz < 2 ^ 31) (hdt : f.dtype ≠ .f64)
    (hr : readKind name' = .ok f.kind) :
    readBytes ofWord cast d name' (encode (f.toRaw toWord)).toArray tr rdt = read cast d name' f tr rdt := by
  simp only [readBytes, hr, bind, Except.bind]
  rw [decode_encode_mapfile toWord ofWord f hrep hWF hx hy hz hdt]

/-- **the container-format hypothesis of `read_cross_format`, proved on the bytes**: the bytes `write` produced
for an `.em` name, offered under a name the MRC reader takes (`.mrc`, `.rec`, `.st`, `.ali`, `.mrc.12` ..), are
refused, and vice versa (`nx < 2²⁴`), whatever the options -/
theorem readBytes_cross_format (toWord : DType → α → Nat) (ofWord : DType → Nat → α) (cast : DType → α → α) (d : α)
    (name' : Name) (f : MapFile α) (kr : Kind) (tr : Bool) (rdt : Option DType)
    (hr : readKind name' = .ok kr) (hkind : f.kind ≠ kr) (hx : f.nx < 2 ^ 24) :
    readBytes ofWord cast d name' (encode (f.toRaw toWord)).toArray tr rdt = .error .badFormat := by
  simp only [readBytes, hr, bind, Except.bind]
  have : decodeAs kr (encode (f.toRaw toWord)).toArray = none := by
    cases hk : f.kind <;> cases kr <;> simp_all [decodeAs, encode, MapFile.toRaw]
    · exact decodeEm_encodeMrc _ hx
    · exact decodeMrc_encodeEm _
  rw [this]; rfl

/-- **Round trip through the bytes** (`transpose=True` on both sides): what `writeBytes` lays out on disk for an array
of sizes below 2³¹ whose written voxels are representable in the file's type, read by `readBytes` under any name whose
reader matches the container, is the array (voxels converted by `convW`, then by the reader's `data_type`) —
`read_write` with the file replaced by its bytes -/
theorem readBytes_writeBytes (toWord : DType → α → Nat) (ofWord : DType → Nat → α) (cast : DType → α → α) (d : α)
    (a : Arr α) (src : DType) (name name' : Name) (dataType rdt : Option DType) (k : Kind) (h : a.WF)
    (hrep : Representable toWord ofWord (store k (outDType dataType src) ((transpose210 d a).map (convW cast dataType src))))
    (h0 : a.d0 < 2 ^ 31) (h1 : a.d1 < 2 ^ 31) (h2 : a.d2 < 2 ^ 31)
    (hwk : writeKind name = .ok k) (hr : readKind name' = .ok k) :
    ∃ bs, writeBytes toWord cast d a src name true dataType = .ok bs ∧
      readBytes ofWord cast d name' bs.toArray true rdt
        = .ok (a.map (fun v => conv1 cast rdt (convW cast dataType src v)), rdt.getD (outDType dataType src)) := by
  have hw : write cast d a src name true dataType
      = .ok (store k (outDType dataType src) ((transpose210 d a).map (convW cast dataType src))) := by
    rw [write_eq cast d a src name dataType h, hwk]; rfl
  refine ⟨encode ((store k (outDType dataType src) ((transpose210 d a).map (convW cast dataType src))).toRaw toWord), ?_, ?_⟩
  · simp only [writeBytes, hw]; rfl
  · have hspec := write_spec cast d a src name dataType _ h hw
    rw [readBytes_encode toWord ofWord cast d name' _ true rdt hrep hspec.1.2.2.2.1
      (by rw [hspec.1.1]; exact h0) (by rw [hspec.1.2.1]; exact h1) (by rw [hspec.1.2.2.1]; exact h2)
      (by rw [hspec.2.1]; exact outDType_ne_f64 dataType src) hr]
    exact read_write cast d a src name name' dataType rdt _ k h hw hr rfl

/-! ### non-vacuity: concrete non-cubic inputs meeting the hypotheses -/

/-- a 2×3×4 array whose values encode their own index -/
def demo : Arr Int := { d0 := 2, d1 := 3, d2 := 4, data := Array.ofFn (n := 24) (fun t => (t.val : Int) - 5) }

example : demo.WF := by decide +kernel
example : ∃ f, write (fun _ v => v) 0 demo .i16 "vol.rec".toList true none = .ok f ∧ f.nx = 2 ∧ f.ny = 3 ∧ f.nz = 4 ∧ f.kind = .mrc :=
  ⟨_, rfl, by decide +kernel⟩
example : readKind "vol.rec".toList = .ok .mrc := readKind_rec "vol".toList
example : (write (fun _ v => v) 0 demo .i16 "vol.rec".toList true none).toOption.map (fun f => f.data[offsetXFastest 2 3 1 2 3]?)
    = some (some (demo.at 0 1 2 3)) := by decide +kernel
example : (write (fun _ v => v) 0 demo .i16 "vol.map".toList true none) = .error .badExt := by decide +kernel
example : checkXFastest 0 id demo (store .em .i16 (transpose210 0 demo)) = true := by decide +kernel
example : checkXFastest 0 id demo (store .em .i16 demo) = false := by decide +kernel
/-- a volume written as `a.em` is refused through the name `a.mrc`; through `a.em` it comes back -/
example : (write (fun _ v => v) 0 demo .i16 "a.em".toList true none).toOption.map
    (fun f => (read (fun _ v => v) 0 "a.mrc".toList f true none, read (fun _ v => v) 0 "a.em".toList f true none))
    = some (.error .badFormat, .ok (demo, .i16)) := by decide +kernel
/-- keyword-less calls -/
example : writeKw (fun _ v => v) 0 demo .i16 "vol.rec".toList none none = write (fun _ v => v) 0 demo .i16 "vol.rec".toList true none :=
  writeKw_default _ _ _ _ _
/-- a float64 EM file: the checker accepts the narrowed, negated conversion and rejects an un-negated one -/
example :
    let fin : MapFile Int := store .em .f64 (transpose210 0 demo)
    checkConverted (fun t v => if t = .f32 then v / 2 * 2 else v) (fun v => -v) true fin
      (converted (fun t v => if t = .f32 then v / 2 * 2 else v) (fun v => -v) true .mrc fin) = true ∧
    checkConverted (fun t v => if t = .f32 then v / 2 * 2 else v) (fun v => -v) true fin
      (converted (fun t v => if t = .f32 then v / 2 * 2 else v) (fun v => -v) false .mrc fin) = false := by
  decide +kernel
/-- converter hypotheses are satisfiable: an existing output and `overwrite=False` is refused, otherwise negated -/
example :
    let fin : MapFile Int := store .em .i8 (transpose210 0 demo)
    let fs : FS Int := [("a.em".toList, fin), ("a.mrc".toList, fin)]
    FileWF fin ∧ fin.kind = .em ∧ fs.lookup "a.em".toList = some fin ∧
    convert em2mrcCfg (fun _ v => v) 0 (fun v => -v) fs "a.em".toList true false none = .error .fileExists ∧
    ((convert em2mrcCfg (fun _ v => v) 0 (fun v => -v) fs "a.em".toList true true none).toOption.bind
        (fun fs' => fs'.lookup "a.mrc".toList)).map (fun g => g.data[0]?) = some (some 5) := by
  unfold FileWF; decide +kernel

/-! #### bytes: the hypotheses of the byte-level theorems are satisfiable, and the refusals are real -/

/-- a 1×2×1 int16 volume holding 5 and −1 (pattern `FFFF`) -/
def demoRaw : Raw := ⟨.mrc, false, .i16, 1, 2, 1, [5, 65535]⟩
example : demoRaw.WF := ⟨by simp [demoRaw, Code.mrcMode?], by decide, by decide, by decide, by decide, by decide⟩
example : ({ demoRaw with kind := .em, bigEndian := true } : Raw).WF := ⟨by simp [demoRaw, Code.emType?], by decide, by decide, by decide, by decide, by decide⟩
/-- float64 has no MRC mode: such a `Raw` is outside `Raw.WF` (the theorem does not speak about it) -/
example : ¬ ({ demoRaw with code := .f64 } : Raw).WF := fun h => h.1 rfl
example : (encodeMrc demoRaw).length = 1024 + 4 := by simp [encodeMrc, mrcHeaderSize, length_encodeWords, demoRaw, Code.width]
example : wordBytes false 2 65535 = [255, 255] ∧ wordBytes true 4 258 = [0, 0, 1, 2] ∧ wordOf true [0, 0, 1, 2] = 258 := by decide
/-- voxels as bytes (`α := UInt8`, every file type at least one byte wide): `Representable` holds for every file -/
example (f : MapFile UInt8) : Representable (fun _ v => v.toNat) (fun _ w => UInt8.ofNat w) f := by
  intro v _
  refine ⟨by simp, ?_⟩
  have : v.toNat < 256 := v.toNat_lt
  cases f.dtype <;> simp [DType.code, Code.width] <;> omega

end CryoCat.C11
